"""Prototype (throwaway): extract Lark tables and re-implement lexer+LR driver; compare with real parser."""
import re, random, sys, warnings
warnings.simplefilter('ignore')
from pyModelChecking import CTL, LTL, CTLS, PL
from pyModelChecking import parser as PP
from lark.parsers.lalr_analysis import Shift, Reduce
from lark.lexer import PatternStr, PatternRE

def extract(M):
    P=M.Parser(); L=P._parser; pf=L.parser; lalr=pf.parser; pt=lalr._parse_table
    terms={t.name:(('str' if isinstance(t.pattern,PatternStr) else 're'), t.pattern.value) for t in L.terminals}
    rules=[]
    ridx={}
    for r in L.rules:
        ridx[id(r)]=len(rules)
        rules.append(dict(origin=r.origin.name, rhs=[(s.name, s.is_term, getattr(s,'filter_out',False)) for s in r.expansion],
                          alias=r.alias, inline=r.origin.name.startswith('_'), expand1=r.options.expand1, keep_all=r.options.keep_all_tokens))
    # rules in table may be different objects but equal; map by (origin, expansion, alias)
    def rkey(r): return (r.origin.name, tuple(s.name for s in r.expansion), r.alias)
    rmap={rkey(r):i for i,r in enumerate(L.rules)}
    states={}
    for st,acts in pt.states.items():
        d={}
        for tok,(a,arg) in acts.items():
            if a is Shift: d[tok]=('s',arg)
            else: d[tok]=('r',rmap[rkey(arg)])
        states[st]=d
    ignore=list(L.ignore_tokens)
    start=pt.start_states['formula']; end=pt.end_states['formula']
    termnames=set(terms)
    accepts={st:{t for t in acts if t in termnames} for st,acts in states.items()}
    return dict(terms=terms,rules=rules,states=states,start=start,end=end,ignore=ignore,accepts=accepts,parser=P)

IDRE=re.compile(r'[a-zA-Z_][a-zA-Z_0-9]*')
STRRE=re.compile(r'".*?(?<!\\)(\\\\)*?"')
WSRE=re.compile(r'(?:[ \t\x0c\r\n])+')

def match_at(T, s, i, allowed):
    """return (termname, text) or None; allowed = set of terminal names (plus ignore) usable here"""
    terms=T['terms']
    idname=[n for n,(k,v) in terms.items() if k=='re' and v.startswith('[a-zA-Z_]')][0]
    cands=[]
    # regex terminals first (max_width huge), then strings by length desc
    if 'ESCAPED_STRING' in allowed:
        m=STRRE.match(s,i)
        if m: return ('ESCAPED_STRING',m.group(0))
    if 'WS' in allowed:
        m=WSRE.match(s,i)
        if m: return ('WS',m.group(0))
    if idname in allowed:
        m=IDRE.match(s,i)
        if m:
            txt=m.group(0)
            # keyword retyping only for keywords in allowed
            for n,(k,v) in terms.items():
                if k=='str' and v==txt and n in allowed: return (n,txt)
            return (idname,txt)
    # keyword strings that are identifier-like but identifier not allowed here
    strs=sorted([(n,v) for n,(k,v) in terms.items() if k=='str' and n in allowed], key=lambda x:(-len(x[1]),x[0]))
    for n,v in strs:
        if s.startswith(v,i):
            return (n,v)
    return None

def parse(T, s):
    rules=T['rules']; states=T['states']
    allterms=set(T['terms'])
    stack=[T['start']]; vals=[]
    i=0; n=len(s)
    last_tok_pos=0
    def next_token(state):
        nonlocal i
        while True:
            if i>=n: return ('$END','',None)
            acc=T['accepts'][state]|set(T['ignore'])
            m=match_at(T,s,i,acc)
            if m is None:
                m2=match_at(T,s,i,allterms)
                if m2 is None: raise PErr('UC',i)
                if m2[0] in T['ignore']:   # cannot happen: ignore always allowed
                    i+=len(m2[1]); continue
                raise PErr('UT',i)
            if m[0] in T['ignore']:
                i+=len(m[1]); continue
            pos=i; i+=len(m[1]); return (m[0],m[1],pos)
    class PErr(Exception):
        def __init__(s_,k,p): s_.k=k; s_.p=p
    try:
        tok=next_token(stack[-1])
        while True:
            st=stack[-1]
            act=states[st].get(tok[0])
            if act is None:
                pos = tok[2] if tok[2] is not None else last_tok_pos
                return ('UT',pos)
            if act[0]=='s':
                stack.append(act[1]); vals.append(('tok',tok[0],tok[1]))
                if tok[2] is not None: last_tok_pos=tok[2]
                if tok[0]=='$END': pass
                tok=next_token(stack[-1])
            else:
                r=rules[act[1]]
                k=len(r['rhs'])
                ch=vals[len(vals)-k:] if k else []
                del vals[len(vals)-k:]; del stack[len(stack)-k:]
                # build children: filter tokens with filter_out, splice inlined
                kids=[]
                for (nm,is_term,fo),v in zip(r['rhs'],ch):
                    if is_term:
                        if fo and not r['keep_all']: continue
                        kids.append(v)
                    else:
                        if v[0]=='inl': kids.extend(v[1])
                        else: kids.append(v)
                if r['inline']: val=('inl',kids)
                else: val=('node', r['alias'] or r['origin'], kids)
                vals.append(val)
                goto=states[stack[-1]][r['origin']]
                stack.append(goto[1])
                if stack[-1]==T['end'] and tok[0]=='$END' and r['origin']=='formula':
                    return ('OK',vals[-1])
    except PErr as e:
        return (e.k,e.p)

def to_tree(v):
    # apply transformer callbacks structurally
    if v[0]=='tok': return ('TOK',v[1],v[2])
    _,name,kids=v
    ks=[to_tree(k) for k in kids]
    if name in ('a_prop','b_formula','s_formula','u_formula','formula','p_formula'): return ks[0]
    if name=='string': return ('ap',ks[0][2])
    if name=='e_string': return ('ap',ks[0][2][1:-1])
    if name=='true': return ('tt',)
    if name=='false': return ('ff',)
    m={'or_formula':'or','and_formula':'and','imply_formula':'imp','not_formula':'not','forall_formula':'A','exists_formula':'E','next_formula':'X','eventually_formula':'F','globally_formula':'G','until_formula':'U','release_formula':'R'}
    return (m[name],)+tuple(ks)

def struct(o):
    from pyModelChecking import language as BL
    n=type(o).__name__
    if isinstance(o,BL.Bool): return ('tt',) if o._value else ('ff',)
    if n=='AtomicProposition': return ('ap',o.name)
    m={'Not':'not','Or':'or','And':'and','Imply':'imp'}.get(n,n)
    return (m,)+tuple(struct(x) for x in o.subformulas())

def real(T,s):
    try: return ('OK',struct(T['parser'](s)))
    except PP.UnexpectedToken as e: return ('UT',e.pos)
    except PP.UnexpectedCharacters as e: return ('UC',e.pos)
    except Exception as e: return ('OTHER',type(e).__name__,str(e)[:60])

def mine(T,s):
    r=parse(T,s)
    if r[0]=='OK': return ('OK',to_tree(r[1]))
    return r

if __name__=='__main__':
    rng=random.Random(int(sys.argv[1]) if len(sys.argv)>1 else 1)
    Ts={M.__name__.split('.')[-1]:extract(M) for M in (PL,CTL,LTL,CTLS)}
    toks=['true','false','not','~','or','|','and','&','-->','A','E','X','F','G','U','R','(',')','p','q','Ab','x1','_y','"a b"','"q\\"r"','$','1','AX','pU','-','->','"',"\n","\t"]
    tot=0;bad=0; kinds={}
    for it in range(int(sys.argv[2]) if len(sys.argv)>2 else 20000):
        k=rng.randint(0,9)
        parts=[rng.choice(toks) for _ in range(k)]
        sep=rng.choice([' ',' ','','  '])
        s=sep.join(parts)
        if rng.random()<0.3: s=' '.join(parts)
        for name,T in Ts.items():
            a=real(T,s); b=mine(T,s); tot+=1
            kinds[a[0]]=kinds.get(a[0],0)+1
            if a!=b:
                bad+=1
                if bad<15: print(name,repr(s),'real',a,'mine',b)
    print('total',tot,'mismatch',bad,kinds)
