import Spike.SCCModel
open SCCSpike

/-- line: "n | s0 s1 ... ; s0 ... ; ..."  (successor lists per node 0..n-1, in the implementation's iteration order) -/
def parseLine (line : String) : Option (Nat × Array (List Nat)) := do
  let parts := line.trimAscii.toString.splitOn "|"
  match parts with
  | [n, adj] =>
    let n ← n.trimAscii.toString.toNat?
    let rows := adj.splitOn ";"
    let arr := rows.map (fun r => (r.splitOn " ").filterMap (fun t => t.trimAscii.toString.toNat?))
    some (n, arr.toArray)
  | _ => none

partial def loop (h : IO.FS.Stream) : IO Unit := do
  let line ← h.getLine
  if line.isEmpty then return ()
  match parseLine line with
  | some (n, adj) =>
    let out := sccs (List.range n) (fun v => adj.getD v [])
    IO.println (toString out)
  | none => IO.println "bad-op"
  loop h

def main : IO Unit := do loop (← IO.getStdin)
