/- Spike: LTL restricted syntax, position-indexed semantics, declarative atoms. No Mathlib. -/
namespace LTLSpike

inductive RFm where
  | tt | ff
  | ap (n : String)
  | not (f : RFm)
  | or (fs : List RFm)
  | X (f : RFm)
  | U (f g : RFm)
  deriving Repr, Inhabited

def RFm.beq : RFm → RFm → Bool
  | .tt, .tt => true | .ff, .ff => true
  | .ap a, .ap b => a == b
  | .not f, .not g => f.beq g
  | .or fs, .or gs => beqList fs gs
  | .X f, .X g => f.beq g
  | .U f1 g1, .U f2 g2 => f1.beq f2 && g1.beq g2
  | _, _ => false
where beqList : List RFm → List RFm → Bool
  | [], [] => true
  | f :: fs, g :: gs => f.beq g && beqList fs gs
  | _, _ => false

theorem RFm.beq_iff (a b : RFm) : a.beq b = true ↔ a = b := by
  apply RFm.beq.induct
    (motive_1 := fun as bs => RFm.beq.beqList as bs = true ↔ as = bs)
    (motive_2 := fun a b => a.beq b = true ↔ a = b) <;>
  intros <;> simp_all [RFm.beq, RFm.beq.beqList]
  · rename_i t x h1 h2 h3 h4 h5 h6 h7
    intro h; subst h
    cases t <;> simp_all
    exact h7 _ _ _ _ rfl rfl rfl rfl
  · rename_i t x h1 h2
    intro h; subst h
    cases t <;> simp_all
    exact h2 _ _ _ _ rfl rfl rfl rfl

instance : DecidableEq RFm := fun a b => decidable_of_iff _ (RFm.beq_iff a b)

/-- subformulas, including the formula itself -/
def RFm.subs : RFm → List RFm
  | .tt => [.tt] | .ff => [.ff] | .ap n => [.ap n]
  | .not f => .not f :: f.subs
  | .or fs => .or fs :: subsList fs
  | .X f => .X f :: f.subs
  | .U f g => .U f g :: (f.subs ++ g.subs)
where subsList : List RFm → List RFm
  | [] => []
  | f :: fs => f.subs ++ subsList fs

/-- the X-formulas whose truth an atom chooses freely -/
def elemX (g : RFm) : List RFm :=
  g.subs.filterMap fun h => match h with
    | .X f => some (.X f)
    | .U f g' => some (.X (.U f g'))
    | _ => none

def untils (g : RFm) : List RFm :=
  g.subs.filter fun h => match h with | .U _ _ => true | _ => false

/-- truth value of a formula in an atom = (labels of its state, chosen X-formulas) -/
def val (lab : List String) (xs : List RFm) : RFm → Bool
  | .tt => true | .ff => false
  | .ap n => lab.contains n
  | .not f => !(val lab xs f)
  | .or fs => valAny lab xs fs
  | .X f => xs.contains (.X f)
  | .U f g => val lab xs g || (val lab xs f && xs.contains (.X (.U f g)))
where valAny (lab : List String) (xs : List RFm) : List RFm → Bool
  | [] => false
  | f :: fs => val lab xs f || valAny lab xs fs

variable {σ : Type}

/-- position-indexed LTL semantics over a state sequence -/
def satAt (L : σ → List String) (π : Nat → σ) : RFm → Nat → Prop
  | .tt, _ => True | .ff, _ => False
  | .ap n, i => n ∈ L (π i)
  | .not f, i => ¬ satAt L π f i
  | .or fs, i => satAny L π fs i
  | .X f, i => satAt L π f (i+1)
  | .U f g, i => ∃ j, i ≤ j ∧ satAt L π g j ∧ ∀ k, i ≤ k → k < j → satAt L π f k
where satAny (L : σ → List String) (π : Nat → σ) : List RFm → Nat → Prop
  | [], _ => False
  | f :: fs, i => satAt L π f i ∨ satAny L π fs i

end LTLSpike

