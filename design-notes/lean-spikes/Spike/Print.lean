import Mathlib.Tactic

/- Spike: character-level print / unprint round trip on a fragment (atoms, true, not, n-ary-free `or`, U, X(..)),
   to validate the approach for C09/C11: printed text is decoded deterministically, hence printing is injective. -/
set_option linter.unusedSimpArgs false
namespace PrintSpike

inductive Fm where
  | tt
  | ap (n : List Char)
  | not (f : Fm)
  | or (f g : Fm)
  | U (f g : Fm)
  | X (f : Fm)
  deriving DecidableEq, Repr

def isIdStart (c : Char) : Bool := c.isAlpha || c == '_'
def isIdChar (c : Char) : Bool := c.isAlphanum || c == '_'

def reserved : List (List Char) :=
  ["true", "false", "not", "or", "and", "A", "E", "X", "F", "G", "U", "R"].map String.toList

/-- identifier-style, non-reserved atom name -/
def WFName (n : List Char) : Prop :=
  (∃ c cs, n = c :: cs ∧ isIdStart c = true ∧ ∀ d ∈ cs, isIdChar d = true) ∧ n ∉ reserved

def WF : Fm → Prop
  | .tt => True
  | .ap n => WFName n
  | .not f => WF f
  | .or f g => WF f ∧ WF g
  | .U f g => WF f ∧ WF g
  | .X f => WF f

/-- the printers of language.py / CTLS/language.py on this fragment -/
def print : Fm → List Char
  | .tt => "true".toList
  | .ap n => n
  | .not f => "not ".toList ++ print f
  | .or f g => '(' :: print f ++ " or ".toList ++ print g ++ [')']
  | .U f g => '(' :: print f ++ " U ".toList ++ print g ++ [')']
  | .X f => "X(".toList ++ print f ++ [')']

/-- strip a literal prefix -/
def expect (lit : List Char) (s : List Char) : Option (List Char) :=
  if lit.isPrefixOf s then some (s.drop lit.length) else none

/-- deterministic decoder of the printed language (fuel bounds the recursion depth) -/
def unprint : Nat → List Char → Option (Fm × List Char)
  | 0, _ => none
  | fuel+1, s =>
    match s with
    | '(' :: s1 =>
      match unprint fuel s1 with
      | none => none
      | some (f, s2) =>
        match expect " or ".toList s2 with
        | some s3 =>
          match unprint fuel s3 with
          | some (g, ')' :: s4) => some (.or f g, s4)
          | _ => none
        | none =>
          match expect " U ".toList s2 with
          | some s3 =>
            match unprint fuel s3 with
            | some (g, ')' :: s4) => some (.U f g, s4)
            | _ => none
          | none => none
    | _ =>
      let w := s.takeWhile isIdChar
      let r := s.dropWhile isIdChar
      if w = "true".toList then some (.tt, r)
      else if w = "not".toList then
        match r with
        | ' ' :: r1 => (unprint fuel r1).map fun p => (.not p.1, p.2)
        | _ => none
      else if w = "X".toList then
        match r with
        | '(' :: r1 =>
          match unprint fuel r1 with
          | some (f, ')' :: r2) => some (.X f, r2)
          | _ => none
        | _ => none
      else if w = [] then none else some (.ap w, r)

def depth : Fm → Nat
  | .tt | .ap _ => 1
  | .not f | .X f => depth f + 1
  | .or f g | .U f g => max (depth f) (depth g) + 1

/-- what may follow a printed formula -/
def Boundary (rest : List Char) : Prop := ∀ c cs, rest = c :: cs → isIdChar c = false

theorem takeWhile_ident {n rest : List Char} (hn : ∀ d ∈ n, isIdChar d = true) (hb : Boundary rest) :
    (n ++ rest).takeWhile isIdChar = n ∧ (n ++ rest).dropWhile isIdChar = rest := by
  induction n with
  | nil =>
    cases rest with
    | nil => simp
    | cons c cs => simp [List.takeWhile, List.dropWhile, hb c cs rfl]
  | cons a n ih =>
    have ha := hn a (by simp)
    obtain ⟨h1, h2⟩ := ih (fun d hd => hn d (List.mem_cons_of_mem _ hd))
    simp [List.takeWhile, List.dropWhile, ha, h1, h2]

theorem idStart_idChar {c : Char} (h : isIdStart c = true) : isIdChar c = true := by
  simp only [isIdStart, isIdChar, Bool.or_eq_true] at h ⊢
  rcases h with h | h
  · left; simp only [Char.isAlphanum, Bool.or_eq_true]; exact Or.inl h
  · exact Or.inr h

theorem boundary_space (r : List Char) : Boundary (' ' :: r) := by
  intro c cs h; injection h with h1 _; subst h1; decide
theorem boundary_rpar (r : List Char) : Boundary (')' :: r) := by
  intro c cs h; injection h with h1 _; subst h1; decide

theorem expect_append (lit r : List Char) : expect lit (lit ++ r) = some r := by
  simp [expect]

/-- **print then decode gives back the formula** (fragment) -/
theorem unprint_print : ∀ (f : Fm), WF f → ∀ fuel, depth f ≤ fuel → ∀ rest, Boundary rest →
    unprint fuel (print f ++ rest) = some (f, rest) := by
  intro f
  induction f with
  | tt =>
    intro _ fuel hd rest hb
    obtain ⟨fuel, rfl⟩ : ∃ k, fuel = k + 1 := ⟨fuel - 1, by simp [depth] at hd; omega⟩
    have hs : print .tt ++ rest = 't' :: ('r' :: 'u' :: 'e' :: rest) := rfl
    have tw := takeWhile_ident (n := "true".toList) (rest := rest) (by decide) hb
    rw [hs]
    simp only [unprint]
    have e1 : ('t' :: 'r' :: 'u' :: 'e' :: rest) = "true".toList ++ rest := rfl
    rw [e1, tw.1, tw.2]; simp
  | ap n =>
    intro hwf fuel hd rest hb
    obtain ⟨fuel, rfl⟩ : ∃ k, fuel = k + 1 := ⟨fuel - 1, by simp [depth] at hd; omega⟩
    obtain ⟨⟨c, cs, rfl, hc, hcs⟩, hres⟩ := hwf
    have hall : ∀ d ∈ c :: cs, isIdChar d = true := by
      intro d hd'; rcases List.mem_cons.mp hd' with rfl | h
      · exact idStart_idChar hc
      · exact hcs d h
    have tw := takeWhile_ident hall hb
    have hne : c ≠ '(' := by intro h; subst h; exact absurd hc (by decide)
    have h1 : (c :: cs) ≠ "true".toList := fun h => hres (by rw [h]; decide)
    have h2 : (c :: cs) ≠ "not".toList := fun h => hres (by rw [h]; decide)
    have h3 : (c :: cs) ≠ "X".toList := fun h => hres (by rw [h]; decide)
    show unprint (fuel+1) ((c :: cs) ++ rest) = _
    have hs : (c :: cs) ++ rest = c :: (cs ++ rest) := rfl
    rw [hs]
    unfold unprint
    split
    · rename_i s1 heq; injection heq with hc' _; exact absurd hc' hne
    · rw [← hs, tw.1, tw.2]
      have h1' : ¬ (c = 't' ∧ cs = ['r', 'u', 'e']) := fun ⟨a, b⟩ => h1 (by rw [a, b]; rfl)
      have h2' : ¬ (c = 'n' ∧ cs = ['o', 't']) := fun ⟨a, b⟩ => h2 (by rw [a, b]; rfl)
      have h3' : ¬ (c = 'X' ∧ cs = []) := fun ⟨a, b⟩ => h3 (by rw [a, b]; rfl)
      simp [h1', h2', h3']
  | not f ih =>
    intro hwf fuel hd rest hb
    obtain ⟨fuel, rfl⟩ : ∃ k, fuel = k + 1 := ⟨fuel - 1, by simp [depth] at hd; omega⟩
    have hd' : depth f ≤ fuel := by simp [depth] at hd; omega
    have ihf := ih hwf fuel hd' rest hb
    have hs : print (.not f) ++ rest = "not".toList ++ (' ' :: (print f ++ rest)) := rfl
    have tw := takeWhile_ident (n := "not".toList) (rest := ' ' :: (print f ++ rest)) (by decide)
      (boundary_space _)
    rw [hs]
    have hs2 : "not".toList ++ (' ' :: (print f ++ rest)) = 'n' :: ('o' :: 't' :: ' ' :: (print f ++ rest)) := rfl
    rw [hs2]
    simp only [unprint]
    rw [← hs2, tw.1, tw.2]
    simp [ihf]
  | X f ih =>
    intro hwf fuel hd rest hb
    obtain ⟨fuel, rfl⟩ : ∃ k, fuel = k + 1 := ⟨fuel - 1, by simp [depth] at hd; omega⟩
    have hd' : depth f ≤ fuel := by simp [depth] at hd; omega
    have ihf := ih hwf fuel hd' (')' :: rest) (boundary_rpar _)
    have hs : print (.X f) ++ rest = "X".toList ++ ('(' :: (print f ++ (')' :: rest))) := by
      show ("X(".toList ++ print f ++ [')']) ++ rest = _
      rw [List.append_assoc, List.append_assoc]; rfl
    have tw := takeWhile_ident (n := "X".toList) (rest := '(' :: (print f ++ (')' :: rest))) (by decide)
      (by intro c cs h; injection h with h1 _; subst h1; decide)
    rw [hs]
    have hs2 : "X".toList ++ ('(' :: (print f ++ (')' :: rest))) = 'X' :: ('(' :: (print f ++ (')' :: rest))) := rfl
    rw [hs2]
    simp only [unprint]
    rw [← hs2, tw.1, tw.2]
    simp [ihf]
  | or f g ihf ihg =>
    intro hwf fuel hd rest hb
    obtain ⟨fuel, rfl⟩ : ∃ k, fuel = k + 1 := ⟨fuel - 1, by simp [depth] at hd; omega⟩
    have hdf : depth f ≤ fuel := by simp [depth] at hd; omega
    have hdg : depth g ≤ fuel := by simp [depth] at hd; omega
    have hs : print (.or f g) ++ rest = '(' :: (print f ++ (" or ".toList ++ (print g ++ (')' :: rest)))) := by
      show ('(' :: print f ++ " or ".toList ++ print g ++ [')']) ++ rest = _
      simp only [List.cons_append, List.append_assoc, List.nil_append]
    have i1 := ihf hwf.1 fuel hdf (" or ".toList ++ (print g ++ (')' :: rest))) (boundary_space _)
    have i2 := ihg hwf.2 fuel hdg (')' :: rest) (boundary_rpar _)
    rw [hs]
    simp only [unprint, i1, expect_append, i2]
  | U f g ihf ihg =>
    intro hwf fuel hd rest hb
    obtain ⟨fuel, rfl⟩ : ∃ k, fuel = k + 1 := ⟨fuel - 1, by simp [depth] at hd; omega⟩
    have hdf : depth f ≤ fuel := by simp [depth] at hd; omega
    have hdg : depth g ≤ fuel := by simp [depth] at hd; omega
    have hs : print (.U f g) ++ rest = '(' :: (print f ++ (" U ".toList ++ (print g ++ (')' :: rest)))) := by
      show ('(' :: print f ++ " U ".toList ++ print g ++ [')']) ++ rest = _
      simp only [List.cons_append, List.append_assoc, List.nil_append]
    have i1 := ihf hwf.1 fuel hdf (" U ".toList ++ (print g ++ (')' :: rest))) (boundary_space _)
    have i2 := ihg hwf.2 fuel hdg (')' :: rest) (boundary_rpar _)
    have hno : expect " or ".toList (" U ".toList ++ (print g ++ (')' :: rest))) = none := by
      have e1 : " or ".toList = [' ', 'o', 'r', ' '] := rfl
      have e2 : " U ".toList ++ (print g ++ (')' :: rest)) = ' ' :: 'U' :: ' ' :: (print g ++ (')' :: rest)) := rfl
      rw [e1, e2]; simp [expect, List.isPrefixOf]
    rw [hs]
    simp only [unprint, i1, hno, expect_append, i2]

/-- printing is injective on well-formed formulas -/
theorem print_injective {f g : Fm} (hf : WF f) (hg : WF g) (h : print f = print g) : f = g := by
  have hb : Boundary ([] : List Char) := fun c cs h => by cases h
  have e1 := unprint_print f hf (max (depth f) (depth g)) (le_max_left _ _) [] hb
  have e2 := unprint_print g hg (max (depth f) (depth g)) (le_max_right _ _) [] hb
  rw [h, e2] at e1
  injection e1 with e1; injection e1 with e1 _; exact e1.symm

/-- the hypothesis is needed: a reserved atom name collides with a constant -/
example : print (.ap "true".toList) = print .tt ∧ (Fm.ap "true".toList) ≠ .tt := ⟨rfl, by decide⟩

#print axioms print_injective
end PrintSpike
