/- Spike: executable model of graph.py compute_SCCs (recursive form of the iterative Nuutila variant). No Mathlib. -/
namespace SCCSpike

variable {σ : Type} [DecidableEq σ]

structure St (σ : Type) where
  disc  : σ → Option Nat
  low   : σ → Nat
  inscc : List σ
  stk   : List σ
  time  : Nat
  out   : List (List σ)

def upd {β : Type} (f : σ → β) (k : σ) (b : β) : σ → β := fun x => if x = k then b else f x

/-- discovery number, 0 if undiscovered -/
def St.D (st : St σ) (x : σ) : Nat := (st.disc x).getD 0

def St.discover (st : St σ) (w : σ) (t : Nat) : St σ :=
  { st with time := t, disc := upd st.disc w (some t), low := upd st.low w t }

/-- the second loop of the StopIteration branch: fold the successors into lowlink[v] -/
def lowFold (st : St σ) (dv : Nat) (ws : List σ) (l0 : Nat) : Nat :=
  ws.foldl (fun l w => if w ∈ st.inscc then l else
      if st.D w > dv then min l (st.low w) else min l (st.D w)) l0

/-- post-order processing of `v` once all its successors are discovered -/
def finish (next : σ → List σ) (v : σ) (st : St σ) : St σ :=
  let dv := st.D v
  let lowv := lowFold st dv (next v) (st.low v)
  if lowv = dv then
    let popped := st.stk.takeWhile (fun k => decide (st.D k > dv))
    { st with low := upd st.low v lowv,
              inscc := (v :: popped) ++ st.inscc,
              stk := st.stk.dropWhile (fun k => decide (st.D k > dv)),
              out := st.out ++ [v :: popped] }
  else
    { st with low := upd st.low v lowv, stk := v :: st.stk }

/-- DFS from an already discovered node `v` -/
def visit (next : σ → List σ) : Nat → σ → St σ → St σ
  | 0, _, st => st
  | fuel+1, v, st =>
    let st1 := (next v).foldl (fun st w =>
      if st.disc w = none then visit next fuel w (st.discover w (st.time+1)) else st) st
    finish next v st1

def init : St σ := ⟨fun _ => none, fun _ => 0, [], [], 0, []⟩

def sccs (nodes : List σ) (next : σ → List σ) : List (List σ) :=
  (nodes.foldl (fun st s =>
    if st.disc s = none then visit next (nodes.length+1) s (st.discover s st.time) else st) init).out

end SCCSpike

open SCCSpike in
#eval sccs [0,1,2,3,4] (fun v => match v with | 0 => [1] | 1 => [2,3] | 2 => [0] | 3 => [4] | 4 => [4] | _ => [])
