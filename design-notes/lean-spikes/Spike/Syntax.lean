/- Spike: the shared formula type, the documented CTL* semantics, and the generic rewriting to the restricted
   syntax (CTLS/language.py get_equivalent_restricted_formula, language.py LNot).  No Mathlib. -/
namespace PMCSpike

inductive Fm where
  | tt | ff
  | ap (n : String)
  | not (f : Fm)
  | or (fs : List Fm)
  | and (fs : List Fm)
  | imp (f g : Fm)
  | X (f : Fm) | F (f : Fm) | G (f : Fm)
  | U (f g : Fm) | R (f g : Fm)
  | A (f : Fm) | E (f : Fm)
  deriving Repr, Inhabited

namespace Fm

/-- `LNot` of language.py -/
def lnot : Fm → Fm
  | .not (.not f) => lnot f
  | .not f => f
  | f => .not f

/-- one clause per `get_equivalent_restricted_formula` method of CTLS/language.py -/
def restrict : Fm → Fm
  | .tt => .tt | .ff => .ff | .ap n => .ap n
  | .not f => lnot (restrict f)
  | .or fs => .or (restrictList fs)
  | .and fs => .not (.or (restrictNegList fs))
  | .imp f g => .or [lnot (restrict f), restrict g]
  | .X f => .X (restrict f)
  | .F f => .U .tt (restrict f)
  | .G f => .not (.U .tt (lnot (restrict f)))
  | .U f g => .U (restrict f) (restrict g)
  | .R f g => .not (.U (lnot (restrict f)) (lnot (restrict g)))
  | .A f => .not (.E (lnot (restrict f)))
  | .E f => .E (restrict f)
where
  restrictList : List Fm → List Fm
    | [] => []
    | f :: fs => restrict f :: restrictList fs
  restrictNegList : List Fm → List Fm
    | [] => []
    | f :: fs => lnot (restrict f) :: restrictNegList fs

/-- the restricted alphabet of CTL*: not, or, X, U, E, atoms (Boolean constants are atoms) -/
def Restricted : Fm → Prop
  | .tt | .ff | .ap _ => True
  | .not f => Restricted f
  | .or fs => RestrictedList fs
  | .X f => Restricted f
  | .U f g => Restricted f ∧ Restricted g
  | .E f => Restricted f
  | _ => False
where
  RestrictedList : List Fm → Prop
    | [] => True
    | f :: fs => Restricted f ∧ RestrictedList fs

end Fm

/-! ### semantics (doc/source/logics.rst), position-indexed -/

structure Kripke (σ : Type) where
  states : List σ
  succ : σ → List σ
  lab : σ → List String

variable {σ : Type}

def IsPath (K : Kripke σ) (π : Nat → σ) : Prop := ∀ i, π (i+1) ∈ K.succ (π i)

def sat (K : Kripke σ) : Fm → (Nat → σ) → Nat → Prop
  | .tt, _, _ => True
  | .ff, _, _ => False
  | .ap n, π, i => n ∈ K.lab (π i)
  | .not f, π, i => ¬ sat K f π i
  | .or fs, π, i => satAny K fs π i
  | .and fs, π, i => satAll K fs π i
  | .imp f g, π, i => ¬ sat K f π i ∨ sat K g π i
  | .X f, π, i => sat K f π (i+1)
  | .F f, π, i => ∃ j, i ≤ j ∧ sat K f π j
  | .G f, π, i => ∀ j, i ≤ j → sat K f π j
  | .U f g, π, i => ∃ j, i ≤ j ∧ sat K g π j ∧ ∀ k, i ≤ k → k < j → sat K f π k
  | .R f g, π, i => ∀ j, i ≤ j → (∀ k, i ≤ k → k < j → ¬ sat K f π k) → sat K g π j
  | .A f, π, i => ∀ π', IsPath K π' → π' 0 = π i → sat K f π' 0
  | .E f, π, i => ∃ π', IsPath K π' ∧ π' 0 = π i ∧ sat K f π' 0
where
  satAny (K : Kripke σ) : List Fm → (Nat → σ) → Nat → Prop
    | [], _, _ => False
    | f :: fs, π, i => sat K f π i ∨ satAny K fs π i
  satAll (K : Kripke σ) : List Fm → (Nat → σ) → Nat → Prop
    | [], _, _ => True
    | f :: fs, π, i => sat K f π i ∧ satAll K fs π i

end PMCSpike
