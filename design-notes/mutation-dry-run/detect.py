import sys, time, itertools, random, io, contextlib, warnings
warnings.simplefilter('ignore')
sys.path.insert(0,'/tmp/explore')
from drv import *
from ref import sccs as ref_sccs_fn
from pyModelChecking.graph import DiGraph, compute_SCCs
from pyModelChecking import parser as PP
from pyModelChecking.language import LNot
t0=time.time()
def done(what, detail):
    print('DETECTED by %-12s in %5.1fs : %s'%(what, time.time()-t0, str(detail)[:100])); sys.exit(0)
rng=random.Random(1)
aps=[('ap','p'),('ap','q'),('tt',),('ff',)]
def ctl_forms(d):
    if d==0: return list(aps)
    sub=ctl_forms(d-1); out=list(sub)
    for a in sub:
        out.append(('not',a))
        for Q in 'AE':
            for T in 'XFG': out.append((Q,(T,a)))
    for a in sub:
        for b in ctl_forms(0):
            for op in ('or','and','imp'): out.append((op,a,b))
            for Q in 'AE':
                for T in 'UR': out.append((Q,(T,a,b))); out.append((Q,(T,b,a)))
    return list(dict.fromkeys(out))
def ltl_forms(d):
    if d==0: return list(aps)
    sub=ltl_forms(d-1); out=list(sub)
    for a in sub:
        for T in ('not','X','F','G'): out.append((T,a))
    for a in sub:
        for b in ltl_forms(0):
            for op in ('or','and','imp','U','R'): out.append((op,a,b)); out.append((op,b,a))
    return list(dict.fromkeys(out))
# C12/C13
for n in range(1,5):
    V=list(range(n)); pairs=[(a,b) for a in V for b in V]
    masks=range(2**len(pairs)) if n<4 else rng.sample(range(2**16),3000)
    for mask in masks:
        E=[pairs[i] for i in range(len(pairs)) if mask>>i&1]
        G=DiGraph(V=V,E=E)
        try: got={frozenset(c) for c in compute_SCCs(G)}
        except Exception as e: got=type(e).__name__
        succ={v:set() for v in V}
        for a,b in E: succ[a].add(b)
        exp={frozenset(c) for c in ref_sccs_fn(V,succ)}
        if got!=exp: done('C12 scc',(V,E,got))
        for X in ([0],V[:2]):
            r=G.get_reachable_set_from(set(X)); e=set().union(*[reachset(x,succ) for x in X])
            if r!=e: done('C13 reach',(V,E,X,r))
# C05 LNot / restrict structural sanity (semantic check through reference on tiny K)
Ks12=list(all_kripkes(1))+list(all_kripkes(2))
for f in ltl_forms(1):
    for g in (('not',f),('not',('not',f)),('not',('not',('not',f)))):
        o=LNot(to_obj(g,LTL)); s=str(o)
        if s.startswith('not not '): done('C05 lnot','double negation from '+str(g))
# C01
CF1=ctl_forms(1)
for K in Ks12:
    KK=mkK(K)
    for f in CF1:
        try: got=set(CTL.modelcheck(KK,to_obj(f,CTL)))
        except Exception as e: got=('EXC',type(e).__name__)
        if got!=sat(K,f): done('C01 ctl',(K,f,got))
# C02
LF1=ltl_forms(1)
for K in Ks12[:60]:
    KK=mkK(K)
    for f in LF1:
        try: got=set(LTL.modelcheck(KK,to_obj(('A',f),LTL)))
        except Exception as e: got=('EXC',type(e).__name__)
        if got!=sat(K,('A',f)): done('C02 ltl',(K,f,got))
# C03 + C07 (snapshot)
def rnd_path(d,q):
    if d==0 or rng.random()<0.2: return rng.choice(aps)
    ch=['not','X','F','G','or','and','imp','U','R','X','U']+(['A','E','A','E'] if q>0 else [])
    t=rng.choice(ch)
    if t in('A','E'): return (t,rnd_path(d-1,q-1))
    if t in('not','X','F','G'): return (t,rnd_path(d-1,q))
    return (t,rnd_path(d-1,q),rnd_path(d-1,q))
for i in range(400):
    K=rand_kripke(rng,rng.choice([1,2,3])); KK=mkK(K)
    f=(rng.choice('AE'),rnd_path(rng.choice([1,2]),1))
    if sum(1 for c in repr(f) if c in 'XFGUR')>3: continue
    snap=lambda: (sorted(map(repr,KK.transitions())),{s:sorted(KK.labels(s)) for s in KK.states()})
    b=snap()
    try: got=set(quiet(CTLS.modelcheck,KK,to_obj(f,CTLS)))
    except Exception as e: got=('EXC',type(e).__name__)
    if snap()!=b: done('C07 purity',(K,f))
    if got!=sat(K,f): done('C03 ctls',(K,f,got))
# C10 positions
for M in (CTL,LTL,CTLS):
    P=M.Parser()
    for s in ['p $ q','A F $','(p','p q','', '$']:
        try: P(s)
        except PP.ParserError as e:
            if not (0<=e.pos<=len(s)): done('C10 pos',(s,e.pos))
        except Exception as e: done('C10 exc',(s,type(e).__name__))
print('NOT DETECTED in %.1fs'%(time.time()-t0))
