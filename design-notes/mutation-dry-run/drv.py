import sys, itertools, random, io, contextlib
sys.path.insert(0,'/tmp/explore')
from ref import *
import pyModelChecking as pmc
from pyModelChecking import Kripke, CTL, LTL, CTLS

def to_obj(f, M):
    t=f[0]
    if t=='tt': return M.Bool(True)
    if t=='ff': return M.Bool(False)
    if t=='ap': return M.AtomicProposition(f[1])
    m={'not':'Not','or':'Or','and':'And','imp':'Imply','X':'X','F':'F','G':'G','U':'U','R':'R','A':'A','E':'E'}[t]
    return getattr(M,m)(*[to_obj(x,M) for x in f[1:]])

def all_kripkes(n, aps=('p','q')):
    S=list(range(n))
    pairs=[(a,b) for a in S for b in S]
    labs=[frozenset(c) for k in range(len(aps)+1) for c in itertools.combinations(aps,k)]
    for mask in range(1, 2**len(pairs)):
        E=[pairs[i] for i in range(len(pairs)) if mask>>i&1]
        succ={s:set() for s in S}
        for a,b in E: succ[a].add(b)
        if not all(succ[s] for s in S): continue
        for L in itertools.product(labs, repeat=n):
            lab={s:set(L[s]) for s in S}
            yield (S,succ,lab)

def rand_kripke(rng, n, aps=('p','q')):
    S=list(range(n))
    succ={s:set() for s in S}
    for s in S:
        k=rng.choice([1,1,2,2,3])
        for d in rng.sample(S, min(k,n)): succ[s].add(d)
    lab={s:{a for a in aps if rng.random()<0.5} for s in S}
    return (S,succ,lab)

def mkK(K):
    S,succ,lab=K
    return Kripke(S=S, R=[(a,b) for a in S for b in succ[a]], L={s:set(l) for s,l in lab.items()})

def quiet(fn,*a,**k):
    buf=io.StringIO()
    with contextlib.redirect_stdout(buf):
        return fn(*a,**k)
