import sys, shutil, subprocess, os, re
BASE='/tmp/explore/rc/pyModelChecking'
MUTS=[
 ('ctl_eg_and','CTL/model_checking.py',"if len(scc) > 1 or v in subgraph.next(v):","if len(scc) > 1 and v in subgraph.next(v):"),
 ('ctl_eu_nomissing','CTL/model_checking.py',"        for v in Lphi[1]-subgraph.nodes():\n            subgraph.add_node(v)\n","        pass\n"),
 ('ctl_au_rewrite','CTL/language.py',"return Not(Or(EU(neg_sf1, Not(Or(sf0, sf1))), EG(neg_sf1)))","return Not(Or(EU(neg_sf1, Not(Or(sf0, sf1))), EG(neg_sf0)))"),
 ('ctl_ex_dir','CTL/model_checking.py',"            if dst in Lphi:\n                Lformula.add(src)","            if src in Lphi:\n                Lformula.add(dst)"),
 ('ltl_xs_xor','LTL/model_checking.py',"if (phi.subformula(0) in d_atom) ^ (phi in s_atom):","if (phi.subformula(0) in d_atom) and not (phi in s_atom):"),
 ('ltl_selffulfil','LTL/model_checking.py',"if (f in formulas) ^ (f.subformula(1) in formulas):","if (f in formulas) and (f.subformula(1) in formulas):"),
 ('ltl_revert_fix1','LTL/model_checking.py',"A_tail.append( atom | {Lang.Not(Lang.X(phi)), neg_phi})","A_tail.append( atom | {Lang.Not(Lang.X(phi))})"),
 ('ctls_noclone','CTLS/model_checking.py',"kripkeC = kripke.clone()","kripkeC = kripke"),
 ('ctls_e_branch','CTLS/model_checking.py',"formula = LNot(A(LNot(formula.subformula(0))))","formula = LNot(A(formula.subformula(0)))"),
 ('scc_pop_ge','graph.py',"while scc_stack and disc[scc_stack[-1]] > disc[v]:","while scc_stack and disc[scc_stack[-1]] >= disc[v]:"),
 ('scc_lowlink','graph.py',"lowlink[v] = min([lowlink[v], lowlink[w]])","lowlink[v] = min([lowlink[v], disc[w]])"),
 ('reach_noadd','graph.py',"                    R.add(d)\n                    queue.append(d)","                    R.add(d)"),
 ('rewrite_R','CTLS/language.py',"        return Lang.Not(Lang.U(*subformulas))\n","        return Lang.Not(Lang.U(*reversed(subformulas)))\n"),
 ('bdd_nolowhigh','BDD/BDD.py',"        if low is high:\n            return low\n","        pass\n"),
 ('bdd_findiso','BDD/BDD.py',"lh_test = (lambda low, high: high is node.high)","lh_test = (lambda low, high: True)"),
 ('bdd_apply_case','BDD/BDD.py',"    if A.var == B.var:\n        return BDDsons_and_BDDsons(operator, A, B, ordering, r_cache)","    if A.var == B.var:\n        return BDDsons_and_BDD(operator, A, B, ordering, r_cache)"),
 ('kripke_total','kripke.py',"        if pots:\n","        if False:\n"),
 ('lnot','language.py',"            return LNot(formula.subformula(0).subformula(0))","            return formula.subformula(0).subformula(0)"),
 ('print_U','CTLS/language.py',"            return '({})'.format(sep.join([str(f) for f in self._subformula]))","            return '{}'.format(sep.join([str(f) for f in self._subformula]))"),
 ('parser_pos','parser.py',"            ex_class = UnexpectedCharacters\n            pos = int(e.pos_in_stream)","            ex_class = UnexpectedCharacters\n            pos = int(e.pos_in_stream)+len(string)+1"),
]
def make(name):
    d='/tmp/explore/mut/'+name
    if os.path.exists(d): shutil.rmtree(d)
    os.makedirs(d); shutil.copytree(BASE,d+'/pyModelChecking',ignore=shutil.ignore_patterns('__pycache__'))
    for n,f,a,b in MUTS:
        if n==name:
            p=d+'/pyModelChecking/'+f; s=open(p).read(); assert a in s,(n,'pattern not found'); open(p,'w').write(s.replace(a,b,1))
    return d
if __name__=='__main__':
    for n,*_ in MUTS:
        d=make(n)
        r=subprocess.run(['/venv/bin/python','-m','pytest','-q','-x','-p','no:cacheprovider',d+'/pyModelChecking'],capture_output=True,text=True,cwd=d)
        tail=r.stdout.strip().split('\n')[-1]
        print(n,'| tests:',tail)
