import random, subprocess, sys, time
from pyModelChecking.graph import DiGraph, compute_SCCs
rng=random.Random(1)
lines=[];exp=[]
t0=time.time()
for i in range(5000):
    n=rng.randint(1,10); V=list(range(n))
    E=[(a,b) for a in V for b in V if rng.random()<rng.choice([0.1,0.25,0.5])]
    G=DiGraph(V=V,E=E)
    lines.append('%d | %s'%(n,';'.join(' '.join(map(str,G.next(v))) for v in V)))
    exp.append(str([list(c) for c in compute_SCCs(G)]))
t1=time.time()
p=subprocess.run(['lake','env','lean','--run','Drv.lean'],input='\n'.join(lines)+'\n',capture_output=True,text=True,cwd='/tmp/explore/spike')
t2=time.time()
got=p.stdout.strip().split('\n')
bad=sum(1 for a,b in zip(got,exp) if a!=b)
print('cases',len(exp),'lean lines',len(got),'mismatch',bad,'py %.2fs lean %.2fs'%(t1-t0,t2-t1))
if bad: 
    for a,b,l in zip(got,exp,lines):
        if a!=b: print(l,a,b); break
print(p.stderr[:300])
