"""Correspondence check for the rest of the public OBDD API (lean/PMC/Model/BDDApi.lean).

`run_api(res, rng, quick)` generates cases and compares the real behaviour (result or exception class) of

* `ListOrdering` (construction, `in`, `cmp`, `in_order`, `==`/`!=`, `get_list`, `str`)          -> `ORDERING|…`
* `BDDNode.respect_ordering` on hand-built diagrams                                             -> `RESPECT|…`
* `BDDNode(...)` / `BDDTerminalNode` / `BDDNonTerminalNode`, `OBDD.__init__`, `==`/`!=`/`__req__`, `variables`,
  `restrict`, `str`, `&`/`|`/`^`/`~` on values of every kind                                      -> `OBDDAPI|…`
* `descendents()`, `ancestors()`, `BDDNode.nodes()` against the unique-table model               -> `STORE|…`

with the Lean model through `common.lean_batch`.  Every disagreement is recorded with `res.violation(what, replay)`.
The function returns a dict of counters (cases per stream, outcome classes seen, mismatches).
"""
import gc
import itertools

from common import enc_name, lean_batch

NAMES = ['a', 'b', 'c', 'd', 'e']
FOREIGN = ['z', 'y']
ODD_NAMES = ["a'b", 'c"d', "e'\"f", 'g\\h', 'i\nj', 'k\tl', 'm\rn', '', ' ', 'a b', '\x00', '\x01', '\x1f', '\x7f',
             '\x80', '\x9f', '\xa0', '\xad', '\xa1', '\xff', 'é', 'λ', '中', '\U0001F600', 'lambda', 'True', '0',
             "'", '"', '\\', "\\'", 'x' * 30, 'a,b', 'a;b', 'a|b', '~', '~1.2', '$0', '( a 0 1 )', 'N', '[', "['a']"]


class Raised(object):
    def __init__(self, exc):
        self.name = type(exc).__name__
        self.msg = str(exc)[:120]

    def __repr__(self):
        return 'ERR ' + self.name


def attempt(f):
    try:
        return f()
    except Exception as e:   # noqa: the class of ANY exception is the observation
        return Raised(e)


def enc_text(s):
    return '.'.join(str(ord(c)) for c in s) if s else '-'


def enc_names(l):
    return ' '.join(enc_name(x) for x in l)


def model_printable(name):
    """the model's `printable` agrees with CPython on ASCII and Latin-1; above that it assumes `isprintable`"""
    return all(ord(c) < 256 or c.isprintable() for c in name)


# ------------------------------------------------------------------------------------------------ named trees

def gen_tree(rng, order, pool, depth, p_mut, lo=0):
    """('leaf', b) | ('node', var, low, high): ordered w.r.t. `order` below index `lo`, then mutated with prob p_mut"""
    if depth <= 0 or lo >= len(order) or rng.random() < 0.25:
        return ('leaf', rng.random() < 0.5)
    i = rng.randrange(lo, len(order))
    v = order[i]
    if rng.random() < p_mut:
        v = rng.choice(pool)
    return ('node', v, gen_tree(rng, order, pool, depth - 1, p_mut, i + 1), gen_tree(rng, order, pool, depth - 1, p_mut, i + 1))


def all_trees(vars_, depth):
    out = [('leaf', False), ('leaf', True)]
    if depth > 0:
        sub = all_trees(vars_, depth - 1)
        for v in vars_:
            for lo in sub:
                for hi in sub:
                    out.append(('node', v, lo, hi))
    return out


def build_py(t):
    from pyModelChecking.BDD import BDDNode
    if t[0] == 'leaf':
        return BDDNode(1 if t[1] else 0)
    return BDDNode(t[1], build_py(t[2]), build_py(t[3]))


def impl_ntree(node):
    from pyModelChecking.BDD.BDD import BDDTerminalNode
    if isinstance(node, BDDTerminalNode):
        return '1' if node.value else '0'
    return '( %s %s %s )' % (enc_name(node.var), impl_ntree(node.low), impl_ntree(node.high))


def show_tree(t):
    if t[0] == 'leaf':
        return '1' if t[1] else '0'
    return 'BDDNode(%r, %s, %s)' % (t[1], show_tree(t[2]), show_tree(t[3]))


# ------------------------------------------------------------------------------------------------ 1. orderings

def check_orderings(res, rng, quick):
    from pyModelChecking.BDD.ordering import ListOrdering, Ordering
    cases = []
    n = 150 if quick else 1500
    fixed = [[], ['a'], ['a', 'a'], ['a', 'b', 'a'], ['a', 'b', 'c', 'd', 'e'], list(ODD_NAMES[:14]), list(ODD_NAMES[14:28]),
             list(ODD_NAMES[28:]), ['', ''], ["'", '"', "'\""]]
    for k in range(n + len(fixed)):
        if k < len(fixed):
            names = list(fixed[k])
        else:
            pool = NAMES + FOREIGN if rng.random() < 0.6 else NAMES + ODD_NAMES
            ln = rng.choice([0, 1, 2, 3, 3, 4, 5, 6])
            if rng.random() < 0.3:
                names = [rng.choice(pool) for _ in range(ln)]          # may repeat
            else:
                names = rng.sample(pool, min(ln, len(pool)))
        names = [x for x in names if model_printable(x)]
        probes = list(dict.fromkeys(names + [rng.choice(NAMES + FOREIGN), 'zz']))
        ops = []
        for _ in range(rng.choice([3, 6, 10])):
            r = rng.random()
            x, y = rng.choice(probes), rng.choice(probes)
            if r < 0.15:
                ops.append(('contains', x))
            elif r < 0.4:
                ops.append(('cmp', x, y))
            elif r < 0.65:
                ops.append(('inorder', x, y))
            elif r < 0.72:
                ops.append(('list',))
            elif r < 0.8:
                ops.append(('str',))
            elif r < 0.95:
                other = list(names)
                m = rng.random()
                if m < 0.3 and len(other) >= 2:
                    i, j = rng.sample(range(len(other)), 2)
                    other[i], other[j] = other[j], other[i]
                elif m < 0.5 and other:
                    other.pop(rng.randrange(len(other)))
                elif m < 0.65:
                    other.append(rng.choice(probes))
                ops.append(('eq',) + tuple(other))
            else:
                ops.append(('eqother',))
        ops += [('list',), ('str',), ('eq',) + tuple(names)]
        cases.append((names, ops))
    lines = ['ORDERING|%s|%s' % (enc_names(names), ';'.join(' '.join([op[0]] + [enc_name(a) for a in op[1:]]) for op in ops))
             for names, ops in cases]
    model = lean_batch(lines)
    bad = 0
    seen = {}
    others = [5, 'abc', ('a',), 1.5, object()]
    for (names, ops), line, m in zip(cases, lines, model):
        O = attempt(lambda: ListOrdering(list(names)))
        O2 = attempt(lambda: Ordering(list(names)))
        if isinstance(O, Raised) != isinstance(O2, Raised) or (not isinstance(O2, Raised) and not isinstance(O2, ListOrdering)):
            bad += 1
            res.violation('Ordering(list) and ListOrdering(list) disagree', {'list': names})
        if isinstance(O, Raised):
            impl = ['ERR ' + O.name]
        else:
            impl = ['OK']
            for op in ops:
                if op[0] == 'contains':
                    impl.append('true' if op[1] in O else 'false')
                elif op[0] == 'cmp':
                    r = attempt(lambda: O.cmp(op[1], op[2]))
                    impl.append(repr(r) if isinstance(r, Raised) else 'OK %d' % r)
                elif op[0] == 'inorder':
                    r = attempt(lambda: O.in_order(op[1], op[2]))
                    impl.append(repr(r) if isinstance(r, Raised) else 'OK ' + ('true' if r else 'false'))
                elif op[0] == 'list':
                    impl.append(enc_names(O.get_list()))
                elif op[0] == 'str':
                    impl.append(enc_text(str(O)))
                elif op[0] == 'eq':
                    P = attempt(lambda: ListOrdering(list(op[1:])))
                    if isinstance(P, Raised):
                        impl.append(repr(P))
                    else:
                        e, ne = (O == P), (O != P)
                        if e == ne:
                            bad += 1
                            res.violation('ListOrdering: == and != agree', {'left': names, 'right': list(op[1:])})
                        impl.append('true' if e else 'false')
                elif op[0] == 'eqother':
                    impl.append(' '.join('true' if (O == o) else 'false' for o in (rng.choice(others), None, list(names))))
                    if not all(O != o for o in (None, list(names))):
                        bad += 1
                        res.violation('ListOrdering != a non-ordering is False', {'left': names})
        for a in impl:
            k = a if a.startswith('ERR') else 'ok'
            seen[k] = seen.get(k, 0) + 1
        ms = [x.strip() for x in m.split(' ; ')]
        if ms != [x.strip() for x in impl]:
            bad += 1
            i = next((i for i, (a, b) in enumerate(zip(impl, ms)) if a.strip() != b), min(len(impl), len(ms)))
            if bad <= 5:
                res.violation('ListOrdering(%r): operation %r: implementation %r, model %r'
                              % (names, ops[i - 1] if 0 < i <= len(ops) else 'construction',
                                 impl[i] if i < len(impl) else None, ms[i] if i < len(ms) else None),
                              {'list': names, 'ops': [list(o) for o in ops], 'impl': impl, 'model': ms, 'line': line})
    return {'ordering_cases': len(cases), 'ordering_ops': sum(len(o) for _, o in cases), 'ordering_outcomes': seen,
            'ordering_mismatches': bad}


# ------------------------------------------------------------------------------------------------ 2. respect_ordering

def check_respect(res, rng, quick):
    from pyModelChecking.BDD.ordering import ListOrdering
    cases = []
    # exhaustive: every diagram of depth <= 2 over {a, b, z} against three orderings
    small = all_trees(['a', 'b', 'z'], 2)
    for order in (['a', 'b'], ['b', 'a'], ['a', 'b', 'z'], []):
        for t in (small if not quick else small[::7]):
            cases.append((order, t))
    # systematic: one defect of each kind (none / a foreign variable / a backward edge) in the low and in the high
    # subtree, at several depths: the traversal order (edges low, high; then subtrees HIGH, low) decides the outcome
    order = ['a', 'b', 'c', 'd', 'e']
    T, F = ('leaf', True), ('leaf', False)

    def sub(kind, i, depth):
        """a subtree rooted at order[i] whose defect sits `depth` levels below its root"""
        if depth > 0:
            return ('node', order[i], F, sub(kind, i + 1, depth - 1)) if depth % 2 else ('node', order[i], sub(kind, i + 1, depth - 1), T)
        if kind == 'ok':
            return ('node', order[i], F, T)
        if kind == 'key':
            return ('node', order[i], F, ('node', 'z', F, T))
        return ('node', order[i], ('node', order[i - 1], T, F), T)        # 'false': a backward edge
    for kl in ('ok', 'key', 'false'):
        for kh in ('ok', 'key', 'false'):
            for dl in (0, 1, 2):
                for dh in (0, 1, 2):
                    cases.append((order, ('node', 'a', sub(kl, 1, dl), sub(kh, 1, dh))))
                    cases.append((order, ('node', 'a', sub(kl, 1, dl), ('node', 'b', sub(kh, 2, dh), F))))
    # random: deeper diagrams, mostly ordered, mutated with foreign / misplaced variables
    for _ in range(400 if quick else 6000):
        k = rng.choice([1, 2, 3, 4, 5])
        order = rng.sample(NAMES, k)
        pool = NAMES + FOREIGN
        t = gen_tree(rng, order, pool, rng.choice([2, 3, 4, 5]), rng.choice([0.0, 0.0, 0.05, 0.15, 0.4]))
        cases.append((order, t))
    lines = []
    impl = []
    keep = []
    for order, t in cases:
        node = build_py(t)
        keep.append(node)
        lines.append('RESPECT|%s|%s' % (enc_names(order), impl_ntree(node)))
        r = attempt(lambda: node.respect_ordering(ListOrdering(list(order))))
        impl.append(repr(r) if isinstance(r, Raised) else 'OK ' + ('true' if r else 'false'))
    model = lean_batch(lines)
    bad = 0
    seen = {}
    for (order, t), line, a, m in zip(cases, lines, impl, model):
        seen[a] = seen.get(a, 0) + 1
        if a != m.strip():
            bad += 1
            if bad <= 5:
                res.violation('respect_ordering(%r) of %s: implementation %r, model %r' % (order, show_tree(t), a, m.strip()),
                              {'ordering': order, 'diagram': show_tree(t), 'impl': a, 'model': m.strip(), 'line': line})
    del keep
    return {'respect_cases': len(cases), 'respect_outcomes': seen, 'respect_mismatches': bad}


# ------------------------------------------------------------------------------------------------ 3. API sessions

OTHERS = [lambda: object(), lambda: ('a',), lambda: frozenset(['a']), lambda: 7.25j, lambda: Ellipsis]
TUPLES = [lambda: ('a', 'b'), lambda: (), lambda: ('a', 'b', 'c')]      # `'%s' % t` fails for these


class ApiSession(object):
    """statements in the Driver's `OBDDAPI` syntax, executed on the real objects as they are added"""

    def __init__(self, rng):
        self.rng = rng
        self.stmts = []
        self.exps = []
        self.pool = []       # python values / Raised
        self.impl = []
        self.descr = []      # human-readable replay

    # ---- tokens
    def val(self, tok):
        from pyModelChecking.BDD.ordering import ListOrdering  # noqa
        if tok == 'N':
            return None
        if tok == 'X':
            return self.rng.choice(OTHERS)()
        if tok == 'U':
            return self.rng.choice(TUPLES)()
        if tok == 'bT':
            return True
        if tok == 'bF':
            return False
        c, rest = tok[0], tok[1:]
        if c == '$':
            return self.pool[int(rest)]
        if c == 'i':
            return int(rest)
        if c == 'f':
            return float(int(rest))
        if c == 'h':
            return int(rest) + 0.5
        if c == 's':
            return dec_name(rest)
        if c == 'l':
            return [dec_name(x) for x in rest.split(',') if x]
        raise ValueError(tok)

    def usable(self, k):
        return 0 <= k < len(self.pool) and not isinstance(self.pool[k], Raised)

    def render(self, v):
        from pyModelChecking.BDD import BDDNode, OBDD
        from pyModelChecking.BDD.ordering import ListOrdering
        if isinstance(v, Raised):
            return repr(v)
        if isinstance(v, BDDNode):
            return 'node ' + impl_ntree(v)
        if isinstance(v, OBDD):
            return 'obdd %s : %s' % (self.ord_tok(v.ordering), impl_ntree(v.root))
        if isinstance(v, ListOrdering):
            return 'ordering ' + self.ord_tok(v)
        if v is None:
            return 'None'
        return 'value'

    @staticmethod
    def ord_tok(o):
        if o is None:
            return 'N'
        return 'l' + ','.join(enc_name(k) for k, _ in sorted(o.ordering.items(), key=lambda kv: kv[1]))

    # ---- statements
    def add(self, stmt, f, push=True, show=None):
        self.stmts.append(' '.join(stmt))
        r = attempt(f)
        if push:
            self.pool.append(r)
            self.impl.append(self.render(r))
            self.descr.append('$%d = %s -> %s' % (len(self.pool) - 1, ' '.join(stmt), self.impl[-1]))
            return len(self.pool) - 1
        self.impl.append(repr(r) if isinstance(r, Raised) else show(r))
        self.descr.append('%s -> %s' % (' '.join(stmt), self.impl[-1]))
        return None

    def fresh(self):
        """marks a fresh interpreter: no terminal node exists yet (only meaningful as the first statement of a session
        executed in a new process, see `check_fresh`).  The model has no state for it: a terminal holds `bool(value)`
        whatever it is first requested with."""
        from pyModelChecking.BDD.BDD import BDDTerminalNode
        assert not BDDTerminalNode.Tnodes, 'terminal nodes already exist in this process'
        self.stmts.append('fresh')
        self.impl.append('ok')
        self.descr.append('fresh interpreter')

    def node(self, *toks):
        from pyModelChecking.BDD import BDDNode
        return self.add(['node'] + list(toks), lambda: BDDNode(*[self.val(t) for t in toks]))

    def term(self, tok):
        from pyModelChecking.BDD.BDD import BDDTerminalNode
        return self.add(['term', tok], lambda: BDDTerminalNode(self.val(tok)))

    def nonterm(self, var, lo, hi):
        from pyModelChecking.BDD.BDD import BDDNonTerminalNode
        return self.add(['nonterm', 's' + enc_name(var), lo, hi], lambda: BDDNonTerminalNode(var, self.val(lo), self.val(hi)))

    def mkord(self, tok):
        from pyModelChecking.BDD.ordering import Ordering
        return self.add(['mkord', tok], lambda: Ordering(self.val(tok)))

    def obdd(self, bf, o, check):
        """bf: a value token, ('e', exp, ordering-for-positions) or ('L', exp, args)"""
        from checks import bdd_common as B
        from pyModelChecking.BDD import OBDD
        if isinstance(bf, tuple):
            kind, e, names = bf
            self.exps.append(B.enc_exp(e, first_occurrences(names)))
            k = len(self.exps) - 1
            if kind == 'e':
                tok, src = 'e%d' % k, B.render(e)
            else:
                tok, src = 'L%d:%s' % (k, ','.join(enc_name(x) for x in names)), 'lambda %s: %s' % (','.join(names), B.render(e))
            get = lambda: src
        else:
            tok = bf
            get = lambda: self.val(bf)
        oval = lambda: self.val(o)
        if check is None:   # the default value of check_ordering
            return self.add(['obdd', tok, o, '1'], lambda: OBDD(get(), oval()) if o != 'N' else OBDD(get()))
        return self.add(['obdd', tok, o, '1' if check else '0'], lambda: OBDD(get(), oval(), check_ordering=check))

    def cmp(self, op, i, a):
        f = {'eq': lambda: self.pool[i] == self.val(a), 'ne': lambda: self.pool[i] != self.val(a),
             'req': lambda: self.pool[i].__req__(self.val(a))}[op]
        return self.add([op, '$%d' % i, a], f, push=False, show=lambda r: 'OK ' + ('true' if r else 'false'))

    def restrict(self, i, var, value):
        return self.add(['restrict', '$%d' % i, var, value], lambda: self.pool[i].restrict(self.val(var), self.val(value)))

    def nrestrict(self, i, var, value):
        return self.add(['nrestrict', '$%d' % i, var, value], lambda: self.pool[i].restrict(self.val(var), self.val(value)))

    def binop(self, op, i, a):
        f = {'and': lambda: self.pool[i] & self.val(a), 'or': lambda: self.pool[i] | self.val(a),
             'xor': lambda: self.pool[i] ^ self.val(a)}[op]
        return self.add([op, '$%d' % i, a], f)

    def inv(self, i):
        return self.add(['inv', '$%d' % i], lambda: ~self.pool[i])

    def vars(self, i):
        return self.add(['vars', '$%d' % i], lambda: self.pool[i].variables(), push=False,
                        show=lambda r: ' '.join(enc_name(x) for x in sorted(r)))

    def tval(self, i):
        """`.value` of the terminal node `$i`: its type and truth value (the model: always a `bool`)"""
        return self.add(['tval', '$%d' % i], lambda: self.pool[i].value, push=False,
                        show=lambda r: '%s %s' % (type(r).__name__, 'true' if r else 'false'))

    def terminal(self, how, tok):
        """`BDDNode(tok)` (`how='node'`) or `BDDTerminalNode(tok)`, followed by a look at the value the node holds"""
        k = (self.node if how == 'node' else self.term)(tok)
        if self.usable(k):
            self.tval(k)
        return k

    def str_(self, i):
        return self.add(['str', '$%d' % i], lambda: str(self.pool[i]), push=False, show=enc_text)

    def tree(self, t):
        """build a named tree bottom-up with `node` statements; returns the token of the root"""
        if t[0] == 'leaf':
            return '$%d' % self.node('i1' if t[1] else 'i0')
        lo, hi = self.tree(t[2]), self.tree(t[3])
        return '$%d' % self.node('s' + enc_name(t[1]), lo, hi)

    def line(self):
        return 'OBDDAPI|%s|%s' % (';'.join(self.stmts), '|'.join(self.exps))


def dec_name(n):
    if n.startswith('~'):
        return ''.join(chr(int(x)) for x in n[1:].split('.') if x)
    return n


def first_occurrences(names):
    return list(dict.fromkeys(names))


def ltok(names):
    return 'l' + ','.join(enc_name(x) for x in names)


TERMINAL_VALUES = ['i0', 'i1', 'bT', 'bF', 'i2', 'sa', 'N', 'f1', 'f0', 'f2', 'h0', 'i-1', 'la', 'l', 'X', 'U', 's~']
RESTRICT_VALUES = ['i0', 'i1', 'bT', 'bF', 'i2', 'sx', 'N', 'f1', 'f0', 'i-1', 'l', 'X', 'U']
RESTRICT_VARS = ['i1', 'N', 'X', 'la', 'bT', 'f1', 'U']


def scenario_nodes(rng):
    s = ApiSession(rng)
    t1 = s.node('i1')
    t0 = s.node('i0')
    for v in TERMINAL_VALUES:
        s.terminal('node', v)
        s.terminal('term', v)
    x = '$%d' % s.node('sa', '$%d' % t0, '$%d' % t1)
    ob = '$%d' % s.obdd(x, 'la', True)
    for v in [x, ob, '$%d' % s.mkord('la')]:
        s.node(v)
        s.term(v)
    args = TERMINAL_VALUES + [x, ob]
    for n in (0, 2, 4, 5):
        for _ in range(3):
            s.node(*[rng.choice(args) for _ in range(n)])
    s.node('sa', 'i0', 'i1', 'i1')
    kids = ['$%d' % t0, '$%d' % t1, x, 'i0', 'i1', 'bT', 'N', 'sa', ob, 'X', 'l']
    for _ in range(14):
        lo, hi = rng.choice(kids), rng.choice(kids)
        (s.node if rng.random() < 0.5 else (lambda v, l, h: s.nonterm(dec_name(v[1:]), l, h)))('s' + rng.choice(NAMES), lo, hi)
    # `low is high`
    s.node('sb', x, x)
    s.nonterm('c', x, x)
    s.node('sb', '$%d' % t1, '$%d' % t1)
    y = '$%d' % s.node('sb', '$%d' % t0, x)
    s.node('sb', '$%d' % t0, x)          # the isomorphic node again
    for v in RESTRICT_VALUES:
        s.nrestrict(int(y[1:]), 'sa', v)
    for v in RESTRICT_VARS:
        s.nrestrict(int(y[1:]), v, 'bT')
    s.vars(int(y[1:]))
    s.str_(int(y[1:]))
    return s


def scenario_obdd(rng):
    """hand-built diagrams wrapped with every kind of ordering argument, then compared / restricted / printed"""
    from checks import bdd_common as B
    s = ApiSession(rng)
    s.node('i0')
    s.node('i1')
    k = rng.choice([1, 2, 3, 4])
    order = rng.sample(NAMES, k)
    pool = NAMES + FOREIGN
    roots = []
    for _ in range(rng.choice([2, 3])):
        t = gen_tree(rng, order, pool, rng.choice([1, 2, 3, 4]), rng.choice([0.0, 0.0, 0.1, 0.3]))
        roots.append(s.tree(t))
    lo_tok = '$%d' % s.mkord(ltok(order))
    dup = order + [order[0]]
    ord_args = [ltok(order), ltok(order), lo_tok, ltok(list(reversed(order))), ltok(order[:-1]), ltok(dup), 'N', 'X', 'U', 'i5',
                'sab', '$%d' % s.mkord('i3'), roots[0], ltok(order + ['z'])]
    s.mkord('U')
    obdds = []
    for r in roots:
        for _ in range(3):
            o = rng.choice(ord_args)
            chk = rng.choice([None, True, True, False])
            i = s.obdd(r, o, chk)
            if s.usable(i):
                obdds.append(i)
    # bfunct of other kinds
    for bf in ['i5', 'N', 'X', 'U', 'bT', 'f1', 'la', lo_tok]:
        s.obdd(bf, rng.choice([ltok(order), 'N', 'X', 'U']), rng.choice([None, False]))
    # strings
    for _ in range(4):
        names = rng.choice([order, order, order + ['z'], NAMES])
        e = B.rand_exp(rng, rng.choice([0, 1, 2, 3]), names, p_bad=0.08, p_missing=0.05)
        o = rng.choice([ltok(order), ltok(order), lo_tok, ltok(dup), 'X', 'i5', 'U'])
        i = s.obdd(('e', e, order), o, rng.choice([None, True, False]))
        if s.usable(i):
            obdds.append(i)
        s.obdd(('e', e, order), 'N', None)                  # an expression is not a lambda
        args = rng.choice([order, order, list(reversed(order)), dup, []])
        i = s.obdd(('L', e, args), 'N', None)
        if s.usable(i):
            obdds.append(i)
        s.obdd(('L', e, args), rng.choice([ltok(order), 'X', 'U']), None)   # a lambda is not an expression
    if not obdds:
        obdds.append(s.obdd('$1', ltok(order), True))
    # comparisons with every kind of operand
    operands = ['i0', 'i1', 'bT', 'bF', 'f1', 'f0', 'i2', 'sa', 'N', 'l', ltok(order), 'X', 'U', 'h0', lo_tok] + roots + \
               ['$%d' % i for i in obdds]
    for i in obdds[:6]:
        for a in rng.sample(operands, min(len(operands), 7)) + ['$%d' % i]:
            s.cmp(rng.choice(['eq', 'eq', 'ne', 'req']), i, a)
        s.vars(i)
        s.str_(i)
        for _ in range(3):
            s.restrict(i, 's' + rng.choice(order + ['z']), rng.choice(RESTRICT_VALUES))
        s.restrict(i, rng.choice(RESTRICT_VARS), rng.choice(['bT', 'i1', 'i2']))
        s.inv(i)
        for a in rng.sample(operands, 3) + ['$%d' % rng.choice(obdds)]:
            s.binop(rng.choice(['and', 'or', 'xor']), i, a)
    # results of the operations are values too
    more = [j for j in range(len(s.pool)) if s.usable(j) and s.render(s.pool[j]).startswith('obdd')]
    for j in rng.sample(more, min(len(more), 4)):
        s.str_(j)
        s.vars(j)
        s.cmp('eq', j, '$%d' % rng.choice(more))
    return s


def check_api(res, rng, quick):
    from pyModelChecking.BDD import BDDNode
    BDDNode(0), BDDNode(1)     # the terminals exist (what they were first requested with no longer matters)
    sessions = [scenario_nodes(rng) for _ in range(2 if quick else 10)]
    sessions += [scenario_obdd(rng) for _ in range(40 if quick else 500)]
    model = lean_batch([s.line() for s in sessions])
    bad = 0
    nst = 0
    seen = {}
    kinds = {}
    for s, m in zip(sessions, model):
        ms = [x.strip() for x in m.split(' ; ')] if s.stmts else []
        nst += len(s.stmts)
        for st, a in zip(s.stmts, s.impl):
            k = st.split()[0]
            kinds[k] = kinds.get(k, 0) + 1
            cls = a if a.startswith('ERR') else 'ok'
            seen[k + ': ' + cls] = seen.get(k + ': ' + cls, 0) + 1
        if len(ms) != len(s.impl):
            bad += 1
            res.violation('OBDD API: the model answered %d items for %d statements' % (len(ms), len(s.impl)), {'line': s.line()})
            continue
        for i, (a, b) in enumerate(zip(s.impl, ms)):
            if a.strip() != b:
                bad += 1
                if bad <= 5:
                    res.violation('OBDD API: %s: implementation %r, model %r' % (s.stmts[i], a, b),
                                  {'session': s.descr[: i + 1], 'statement': s.stmts[i], 'impl': a, 'model': b, 'line': s.line()})
                break
        s.pool = []
    gc.collect()
    return {'api_sessions': len(sessions), 'api_statements': nst, 'api_statement_kinds': kinds, 'api_outcomes': seen,
            'api_mismatches': bad}


# ------------------------------------------------------------------------------------------------ 3b. fresh interpreters

def scenario_fresh(rng):
    """the first request for a terminal (`0`, `False`, `0.0`; `1`, `True`, `1.0`) must NOT decide what the node holds
    for the rest of the process: it holds `bool(value)`, and `^` works whatever came first (`1.0 == 1`)"""
    s = ApiSession(rng)
    s.fresh()
    firsts = [rng.choice(['i0', 'bF', 'f0', None]), rng.choice(['i1', 'bT', 'f1', None])]
    if rng.random() < 0.5:
        firsts.reverse()
    for v in firsts:
        if v is not None:
            s.terminal('node' if rng.random() < 0.5 else 'term', v)
    for v in ['f0', 'f1', 'i0', 'bT']:
        s.terminal('node', v)
    order = ['a', 'b']
    xs = [s.obdd(('e', e, order), ltok(order), None)
          for e in [('v', 'a'), ('v', 'b'), ('c', 1, '1'), ('c', 0, 'False'), ('band', ('v', 'a'), ('v', 'b'))]]
    xs = [i for i in xs if s.usable(i)]
    for _ in range(8):
        i, j = rng.choice(xs), rng.choice(xs)
        k = s.binop(rng.choice(['xor', 'xor', 'and', 'or']), i, '$%d' % j)
        if s.usable(k):
            xs.append(k)
    for i in xs[:3]:
        s.inv(i)
        s.cmp('eq', i, 'f1')
        s.str_(i)
    return s


def _fresh_child(seed):
    import json
    import random
    s = scenario_fresh(random.Random(seed))
    print(json.dumps({'line': s.line(), 'impl': s.impl, 'stmts': s.stmts, 'descr': s.descr}))


def check_fresh(res, rng, quick):
    """each scenario runs in a new Python process (the terminal table under test is process-global)"""
    import json
    import os
    import subprocess
    import sys
    here = os.path.dirname(os.path.dirname(os.path.abspath(__file__)))
    runs = []
    for _ in range(8 if quick else 48):
        seed = '%d' % rng.randrange(10 ** 9)
        p = subprocess.run([sys.executable, '-c',
                            'import sys; sys.path.insert(0, %r); from checks import bdd_api; bdd_api._fresh_child(%r)' % (here, seed)],
                           stdout=subprocess.PIPE, stderr=subprocess.PIPE, text=True,
                           env=dict(os.environ, PYTHONPATH=os.pathsep.join(p for p in sys.path if p)))
        if p.returncode != 0:
            res.violation('fresh-interpreter scenario crashed', {'seed': seed, 'stderr': p.stderr[-800:]})
            continue
        runs.append((seed, json.loads(p.stdout.strip().splitlines()[-1])))
    model = lean_batch([r['line'] for _, r in runs])
    bad = 0
    seen = {}
    for (seed, r), m in zip(runs, model):
        ms = [x.strip() for x in m.split(' ; ')]
        for st, a in zip(r['stmts'], r['impl']):
            k = st.split()[0] + ': ' + (a if a.startswith('ERR') else 'ok')
            seen[k] = seen.get(k, 0) + 1
        if len(ms) != len(r['impl']):
            bad += 1
            res.violation('fresh interpreter: the model answered %d items for %d statements' % (len(ms), len(r['impl'])), {'line': r['line']})
            continue
        for i, (a, b) in enumerate(zip(r['impl'], ms)):
            if a.strip() != b:
                bad += 1
                if bad <= 5:
                    res.violation('fresh interpreter: %s: implementation %r, model %r' % (r['stmts'][i], a, b),
                                  {'seed': seed, 'session': r['descr'][: i + 1], 'impl': a, 'model': b, 'line': r['line']})
                break
    return {'fresh_sessions': len(runs), 'fresh_outcomes': seen, 'fresh_mismatches': bad}


# ------------------------------------------------------------------------------------------------ 4. the unique table

class StoreSession(object):
    """mirrors a sequence of node creations / drops on the real unique table as `STORE` operations; the reference the
    model must return for each `mk` is predicted from the identity of the object Python returned"""

    def __init__(self):
        from pyModelChecking.BDD import BDDNode
        self.T = {False: BDDNode(0), True: BDDNode(1)}
        self.tok = {}          # id(node) -> token, for the live non-terminal nodes we know
        self.held = []         # strong references
        self.ops = []
        self.impl = []
        self.next_id = 0
        self.varnum = {}

    def token(self, node):
        from pyModelChecking.BDD.BDD import BDDTerminalNode
        if isinstance(node, BDDTerminalNode):
            return 'T1' if node.value else 'T0'
        return self.tok.get(id(node), '?')

    def adopt(self, node):
        """register an already existing diagram (children first)"""
        from pyModelChecking.BDD.BDD import BDDTerminalNode
        if isinstance(node, BDDTerminalNode) or id(node) in self.tok:
            return
        self.adopt(node.low)
        self.adopt(node.high)
        self.mk_record(node, node.var, node.low, node.high)

    def mk_record(self, node, var, lo, hi):
        from pyModelChecking.BDD.BDD import BDDTerminalNode
        v = self.varnum.setdefault(var, len(self.varnum))
        self.ops.append('mk %d %s %s' % (v, self.token(lo), self.token(hi)))
        if not isinstance(node, BDDTerminalNode) and id(node) not in self.tok:
            self.tok[id(node)] = '#%d' % self.next_id
            self.next_id += 1
        self.impl.append(self.token(node))

    def mk(self, var, lo, hi):
        from pyModelChecking.BDD import BDDNode
        node = BDDNode(var, lo, hi)
        self.mk_record(node, var, lo, hi)
        self.held.append(node)
        return node

    def reachable(self):
        from pyModelChecking.BDD.BDD import BDDTerminalNode
        seen = {}
        stack = list(self.held)
        while stack:
            n = stack.pop()
            if isinstance(n, BDDTerminalNode) or id(n) in seen:
                continue
            seen[id(n)] = n
            stack += [n.low, n.high]
        return seen

    def drop(self, k):
        self.held.pop(k)
        gc.collect()
        alive = self.reachable()
        self.tok = {i: t for i, t in self.tok.items() if i in alive}
        self.ops.append('gc ' + ' '.join(t[1:] for t in sorted(self.tok.values(), key=lambda t: int(t[1:]))))
        self.impl.append('ok')

    def enc_set(self, nodes):
        toks = [self.token(n) for n in nodes]
        ts = [t for t in ('T0', 'T1') if t in toks]
        ids = sorted(set(int(t[1:]) for t in toks if t.startswith('#')))
        unknown = ['?'] * sum(1 for t in toks if t == '?')
        return ' '.join(ts + ['#%d' % i for i in ids] + unknown)

    def desc(self, node):
        self.ops.append('desc ' + self.token(node))
        self.impl.append(self.enc_set(node.descendents()))

    def anc(self, node):
        self.ops.append('anc ' + self.token(node))
        self.impl.append(self.enc_set(node.ancestors()))

    def nodes(self):
        from pyModelChecking.BDD import BDDNode
        self.ops.append('nodes')
        self.impl.append(self.enc_set(BDDNode.nodes()))

    def line(self):
        return 'STORE|' + ';'.join(self.ops)


def check_store(res, rng, quick):
    from pyModelChecking.BDD import BDDNode, OBDD
    from pyModelChecking.BDD.BDD import BDDNonTerminalNode
    sessions = []
    for k in range(30 if quick else 300):
        gc.collect()
        s = StoreSession()
        base = list(BDDNode.nodes())         # whatever other live objects still hold: adopted and kept alive
        b = None
        for b in base:
            s.adopt(b)
        s.held += [b for b in base if isinstance(b, BDDNonTerminalNode)]
        del base, b
        s.nodes()
        if k % 5 == 4:
            # diagrams produced by the library itself (parser, apply): adopt them
            o = OBDD(rng.choice(['a & b | c', '(a | b) & (c | d)', '(a & ~b) | (~a & b)', 'a & b & c & d']),
                     rng.sample(['a', 'b', 'c', 'd'], 4))
            s.adopt(o.root)
            s.held.append(o.root)
            del o
        for _ in range(rng.choice([4, 8, 14, 20])):
            r = rng.random()
            cands = [s.T[False], s.T[True]] + s.held
            x, y = rng.choice(cands), rng.choice(cands)
            del cands                       # no stray strong references while nodes are dropped
            if r < 0.6 or not s.held:
                s.mk(rng.choice(NAMES[:3]), x, y)
            elif r < 0.7:
                del x, y
                s.drop(rng.randrange(len(s.held)))
            elif r < 0.8:
                s.desc(x)
            elif r < 0.92:
                s.anc(x)
            else:
                s.nodes()
            x = y = None
        for n in [s.T[False], s.T[True]] + s.held[-3:]:
            s.desc(n)
            s.anc(n)
        n = None
        s.nodes()
        s.held = []
        sessions.append(s)
    gc.collect()
    model = lean_batch([s.line() for s in sessions])
    bad = 0
    nops = 0
    kinds = {}
    for s, m in zip(sessions, model):
        ms = [x.strip() for x in m.split(' ; ')]
        nops += len(s.ops)
        for op in s.ops:
            kinds[op.split()[0]] = kinds.get(op.split()[0], 0) + 1
        if len(ms) != len(s.impl):
            bad += 1
            res.violation('unique table: the model answered %d items for %d operations' % (len(ms), len(s.impl)), {'line': s.line()})
            continue
        for i, (a, b) in enumerate(zip(s.impl, ms)):
            if a.strip() != b:
                bad += 1
                if bad <= 5:
                    res.violation('unique table: step %d (%s): implementation %r, model %r' % (i, s.ops[i], a, b),
                                  {'ops': s.ops[: i + 1], 'impl': s.impl[: i + 1], 'model': ms[: i + 1]})
                break
    return {'store_sessions': len(sessions), 'store_operations': nops, 'store_operation_kinds': kinds, 'store_mismatches': bad}


# ------------------------------------------------------------------------------------------------ findings

def guard_findings():
    """Concrete inputs on which the live library departs from the guards promised by C17 ("… a variable outside the
    ordering raises RuntimeError") or from its own documentation.  The model FOLLOWS the library on all of them (they
    are not mismatches); each entry disappears when the library is repaired (the probes are evaluated on the live
    code: the foreign variable below the root — `KeyError` before 6fe2efe — and the float terminal — `TypeError` from
    `^` before 7eb7713 — are repaired and no longer listed).  Not called by `run_api`."""
    import os
    import subprocess
    import sys
    from pyModelChecking.BDD import BDDNode, OBDD
    from pyModelChecking.BDD.ordering import ListOrdering
    F, T = BDDNode(0), BDDNode(1)
    order = ['a', 'b', 'c']
    deep = BDDNode('a', F, BDDNode('z', F, T))
    hidden = BDDNode('b', BDDNode('a', F, T), BDDNode('z', F, T))
    x = OBDD('a & b', list(order))
    zroot = OBDD(BDDNode('z', F, T), list(order), check_ordering=False)

    def name(r):
        return repr(r) if isinstance(r, Raised) else 'returns %r' % (r,)
    probes = [
        ("BDDNode('a', 0, BDDNode('z', 0, 1)).respect_ordering(ListOrdering(['a','b','c']))", 'ERR RuntimeError',
         lambda: deep.respect_ordering(ListOrdering(list(order)))),
        ("OBDD(BDDNode('a', 0, BDDNode('z', 0, 1)), ['a','b','c'])", 'ERR RuntimeError', lambda: OBDD(deep, list(order))),
        ("OBDD('a & b', ['a','b','c']) == BDDNode('a', 0, BDDNode('z', 0, 1))", 'ERR RuntimeError', lambda: x == deep),
        ("BDDNode('b', BDDNode('a',0,1), BDDNode('z',0,1)).respect_ordering(ListOrdering(['a','b','c']))", 'ERR RuntimeError',
         lambda: hidden.respect_ordering(ListOrdering(list(order)))),
        ("OBDD('a & b', ['a','b','c']) & OBDD(BDDNode('z',0,1), ['a','b','c'], check_ordering=False)", 'ERR RuntimeError',
         lambda: x & zroot),
        ("OBDD('a & b', ['a','b','c']).restrict('zz', True)", 'ERR RuntimeError', lambda: x.restrict('zz', True)),
        ("OBDD(BDDNode(1), 5)   # documented: TypeError for an ordering that is not an Ordering", 'ERR TypeError',
         lambda: OBDD(T, 5)),
        ("(x == x.root, x.root == x) for x = OBDD('a & b', ['a','b','c'])", 'returns (True, True)',
         lambda: (x == x.root, x.root == x)),
    ]
    out = []
    for call, expected, f in probes:
        got = name(attempt(f))
        if got != expected:
            out.append({'call': call, 'expected': expected, 'observed': got})
    here = os.path.dirname(os.path.dirname(os.path.abspath(__file__)))
    code = ("import sys; sys.path.insert(0, %r)\nfrom pyModelChecking.BDD import BDDNode, OBDD\nBDDNode(1.0)\n"
            "try:\n    print('returns', OBDD('a', ['a','b']) ^ OBDD('b', ['a','b']))\n"
            "except Exception as e:\n    print('ERR', type(e).__name__)" % os.environ.get('REPO', '/repo'))
    p = subprocess.run([sys.executable, '-c', code], stdout=subprocess.PIPE, stderr=subprocess.PIPE, text=True)
    got = p.stdout.strip()
    if not got.startswith('returns'):
        out.append({'call': "fresh interpreter: BDDNode(1.0); OBDD('a', ['a','b']) ^ OBDD('b', ['a','b'])",
                    'expected': 'returns lambda a,b: (~a & b) | (a & ~b)', 'observed': got})
    return out


# ------------------------------------------------------------------------------------------------ entry point

class Scoped(object):
    """`res` as seen by the API streams.  The API model follows the library in every detail (error classes of
    ill-typed calls, printed text, ...), most of which the property does not speak about: a disagreement is a broken
    correspondence (reported, `no-failing-input-found`), and a failing input of the property only when the model —
    whose guards are proved (C17Api.lean) — says `RuntimeError` and the library does something else."""

    def __init__(self, res):
        self.res = res

    def violation(self, what, replay, no_input=False):
        # concrete: a proved RuntimeError guard answered otherwise, or a direct oracle that involves no model at all
        concrete = "model 'ERR RuntimeError'" in what or what.startswith(('ListOrdering: == and != agree', 'ListOrdering != a non-ordering',
                                                                          'Ordering(list) and ListOrdering(list) disagree'))
        self.res.violation(what, dict(replay, correspondence='OBDD API model (PMC/Model/BDDApi.lean) vs pyModelChecking.BDD'),
                           no_input=not concrete)


def run_store(res, rng, quick):
    return check_store(Scoped(res), rng, quick)


def run_api(res, rng, quick, store=True):
    res = Scoped(res)
    st = {}
    st.update(check_orderings(res, rng, quick))
    st.update(check_respect(res, rng, quick))
    st.update(check_api(res, rng, quick))
    st.update(check_fresh(res, rng, quick))
    if store:
        st.update(check_store(res, rng, quick))
    st['api_total_mismatches'] = (st['ordering_mismatches'] + st['respect_mismatches'] + st['api_mismatches']
                                  + st['fresh_mismatches'] + st.get('store_mismatches', 0))
    return st
