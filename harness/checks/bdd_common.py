"""Shared machinery for the OBDD checks (C16, C17, C18): expression generator, rendering to Python source, adapters that
walk the implementation's diagrams, and the history runner that talks to the Lean model (`BDD|names|ops`)."""
import ast
import gc
import itertools

from common import lean_batch

VARS = ['a', 'b', 'c', 'd']
# variable names that look like constants / operators / keywords-but-not-quite (all valid Python identifiers)
ODD_VARSETS = [['true', 'false', 'a', 'b'], ['TRUE', 'False_', 'T', 'F'], ['Not', 'And', 'Or', 'x'], ['_', '__', 'a1', 'A'],
               ['lambda_', 'ordering', 'root', 'self'], ['x' * 40, 'y', 'Z' * 17, 'k9']]

# ---------------------------------------------------------------------------------------------- expressions
# BExp trees: ('c', 0/1, text) | ('v', name) | ('not', e, style) | ('band', x, y) | ('bor', x, y)
#             | ('and', e1, ..., en) | ('or', e1, ..., en) | ('bad', source)

BAD_SOURCES = ['(a + b)', '(a ^ b)', '(-a)', '(+a)', '(a < b)', '2', '(a if b else c)', 'f(a)', '(a - 1)', "'x'", 'a.b',
               '(a >> b)', '[a]']


def rand_exp(rng, depth, names, p_bad=0.0, p_missing=0.0):
    if depth <= 0 or rng.random() < 0.2:
        r = rng.random()
        if r < p_missing:
            return ('v', 'zz')
        if r < 0.8:
            return ('v', rng.choice(names)) if names else ('c', 1, '1')
        b = rng.choice([0, 1])
        return ('c', b, rng.choice([str(b), 'True' if b else 'False']))
    if rng.random() < p_bad:
        return ('bad', rng.choice(BAD_SOURCES))
    op = rng.choice(['not', 'band', 'bor', 'band', 'bor', 'and', 'or'])
    sub = lambda: rand_exp(rng, depth - 1, names, p_bad, p_missing)
    if op == 'not':
        return ('not', sub(), rng.choice(['~', 'not']))
    if op in ('band', 'bor'):
        return (op, sub(), sub())
    return (op,) + tuple(sub() for _ in range(rng.choice([2, 2, 3])))


def render(e):
    t = e[0]
    if t == 'c':
        return e[2]
    if t == 'v':
        return e[1]
    if t == 'bad':
        return e[1]
    if t == 'not':
        return '(~%s)' % render(e[1]) if e[2] == '~' else '(not %s)' % render(e[1])
    if t == 'band':
        return '(%s & %s)' % (render(e[1]), render(e[2]))
    if t == 'bor':
        return '(%s | %s)' % (render(e[1]), render(e[2]))
    if t == 'and':
        return '(' + ' and '.join(render(x) for x in e[1:]) + ')'
    if t == 'or':
        return '(' + ' or '.join(render(x) for x in e[1:]) + ')'
    raise ValueError(e)


def enc_exp(e, ordering):
    """S-expression for Driver.lean; variables become positions in the ordering ('-' when missing)"""
    t = e[0]
    if t == 'c':
        return '( c %d )' % e[1]
    if t == 'v':
        return '( v %s )' % (ordering.index(e[1]) if e[1] in ordering else '-')
    if t == 'bad':
        return 'bad'
    if t == 'not':
        return '( not %s )' % enc_exp(e[1], ordering)
    if t in ('band', 'bor'):
        return '( %s %s %s )' % (t, enc_exp(e[1], ordering), enc_exp(e[2], ordering))
    return '( %s %s )' % (t, ' '.join(enc_exp(x, ordering) for x in e[1:]))


def eval_exp(e, env):
    t = e[0]
    if t == 'c':
        return bool(e[1])
    if t == 'v':
        return env[e[1]]
    if t == 'not':
        return not eval_exp(e[1], env)
    if t == 'band':
        return eval_exp(e[1], env) and eval_exp(e[2], env)
    if t == 'bor':
        return eval_exp(e[1], env) or eval_exp(e[2], env)
    if t == 'and':
        return all(eval_exp(x, env) for x in e[1:])
    if t == 'or':
        return any(eval_exp(x, env) for x in e[1:])
    raise ValueError(e)


def exp_status(e, ordering):
    """what the parser must do, in evaluation order: 'ok' | 'RuntimeError' | 'SyntaxError'"""
    t = e[0]
    if t == 'c':
        return 'ok'
    if t == 'v':
        return 'ok' if e[1] in ordering else 'RuntimeError'
    if t == 'bad':
        return 'SyntaxError'
    for x in e[1:]:
        if isinstance(x, tuple):
            s = exp_status(x, ordering)
            if s != 'ok':
                return s
    return 'ok'


def ast_to_exp(node, ordering):
    """the `ast` tree of a printed diagram as a Driver S-expression (used to compare with the model's printExp)"""
    if isinstance(node, ast.Expression):
        return ast_to_exp(node.body, ordering)
    if isinstance(node, ast.BinOp) and isinstance(node.op, ast.BitAnd):
        return '( band %s %s )' % (ast_to_exp(node.left, ordering), ast_to_exp(node.right, ordering))
    if isinstance(node, ast.BinOp) and isinstance(node.op, ast.BitOr):
        return '( bor %s %s )' % (ast_to_exp(node.left, ordering), ast_to_exp(node.right, ordering))
    if isinstance(node, ast.UnaryOp) and isinstance(node.op, (ast.Invert, ast.Not)):
        return '( not %s )' % ast_to_exp(node.operand, ordering)
    if isinstance(node, ast.Name):
        return '( v %s )' % (ordering.index(node.id) if node.id in ordering else '-')
    if isinstance(node, ast.Constant) and node.value in (0, 1):
        return '( c %d )' % int(node.value)
    return 'bad'


# ---------------------------------------------------------------------------------------------- implementation side

def impl_tree(node, ordering):
    """walk a BDDNode into the Driver's tree encoding (variables as positions in the ordering)"""
    from pyModelChecking.BDD.BDD import BDDTerminalNode
    if isinstance(node, BDDTerminalNode):
        return '1' if node.value else '0'
    return '( %d %s %s )' % (ordering.index(node.var), impl_tree(node.low, ordering), impl_tree(node.high, ordering))


def impl_eval(node, env):
    from pyModelChecking.BDD.BDD import BDDTerminalNode
    while not isinstance(node, BDDTerminalNode):
        node = node.high if env[node.var] else node.low
    return bool(node.value)


def truth_table(f, names):
    return tuple(f(dict(zip(names, bits))) for bits in itertools.product([False, True], repeat=len(names)))


def ordered_reduced(node, ordering, seen=None):
    """every reachable node tests a variable strictly earlier than its children and has distinct children"""
    from pyModelChecking.BDD.BDD import BDDTerminalNode
    seen = set() if seen is None else seen
    if isinstance(node, BDDTerminalNode) or id(node) in seen:
        return True
    seen.add(id(node))
    if node.low is node.high:
        return False
    for ch in (node.low, node.high):
        if not isinstance(ch, BDDTerminalNode) and not ordering.index(node.var) < ordering.index(ch.var):
            return False
    return ordered_reduced(node.low, ordering, seen) and ordered_reduced(node.high, ordering, seen)


def live_nonterminals():
    from pyModelChecking.BDD.BDD import BDDNode, BDDNonTerminalNode
    gc.collect()
    return [n for n in BDDNode.nodes() if isinstance(n, BDDNonTerminalNode)]


def duplicate_triples(nodes):
    seen = {}
    dups = []
    for n in nodes:
        k = (n.var, id(n.low), id(n.high))
        if k in seen:
            dups.append(k)
        seen[k] = n
    return dups


def attempt(f):
    try:
        return f()
    except Exception as e:
        return ('ERR', type(e).__name__)


# ---------------------------------------------------------------------------------------------- histories

class History(object):
    """One operation history over a pool of OBDDs with a fixed ordering; records the Driver ops and the
    implementation's answers side by side."""

    def __init__(self, ordering):
        self.ordering = list(ordering)
        self.pool = []      # OBDD or None
        self.ops = []       # driver op strings
        self.impl = []      # implementation answers (strings)
        self.notes = []     # violations found directly on the implementation

    def _push(self, r):
        if isinstance(r, tuple) and r[0] == 'ERR':
            self.pool.append(None)
            self.impl.append('ERR ' + r[1])
        else:
            self.pool.append(r)
            self.impl.append(impl_tree(r.root, self.ordering))

    def new(self, e, lam=False):
        from pyModelChecking.BDD import OBDD
        src = render(e)
        if lam:
            r = attempt(lambda: OBDD('lambda %s: %s' % (','.join(self.ordering), src)))
        else:
            r = attempt(lambda: OBDD(src, list(self.ordering)))
        self.ops.append('new ' + enc_exp(e, self.ordering))
        self._push(r)
        return r

    def binop(self, op, i, j):
        a, b = self.pool[i], self.pool[j]
        f = {'and': lambda: a & b, 'or': lambda: a | b, 'xor': lambda: a ^ b}[op]
        self.ops.append('%s %d %d' % (op, i, j))
        self._push(attempt(f))

    def inv(self, i):
        a = self.pool[i]
        self.ops.append('inv %d' % i)
        self._push(attempt(lambda: ~a))

    def restrict(self, i, v, b):
        a = self.pool[i]
        self.ops.append('restrict %d %d %d' % (i, self.ordering.index(v), 1 if b else 0))
        self._push(attempt(lambda: a.restrict(v, b)))

    def drop(self, i):
        self.pool[i] = None
        self.ops.append('drop %d' % i)
        self.impl.append('ok')

    def eq(self, i, j):
        a, b = self.pool[i], self.pool[j]
        self.ops.append('eq %d %d' % (i, j))
        same = (a == b)
        ident = a.root is b.root
        if same != ident:
            self.notes.append('== (%s) and identity of roots (%s) disagree for pool[%d], pool[%d]' % (same, ident, i, j))
        self.impl.append('true' if same else 'false')

    def str_(self, i):
        a = self.pool[i]
        self.ops.append('str %d' % i)
        self.impl.append(str(a.root))

    def exp(self, i):
        a = self.pool[i]
        self.ops.append('exp %d' % i)
        self.impl.append(ast_to_exp(ast.parse(str(a.root), mode='eval'), self.ordering))

    def support(self, i):
        a = self.pool[i]
        self.ops.append('support %d' % i)
        self.impl.append(' '.join(map(str, sorted(self.ordering.index(v) for v in a.variables()))))

    def nodes(self):
        live = live_nonterminals()
        d = duplicate_triples(live)
        if d:
            self.notes.append('two live non-terminal nodes share (var, low, high): %r' % (d[:2],))
        self.ops.append('nodes')
        self.impl.append(str(len(live)))

    def live_indices(self):
        return [i for i, o in enumerate(self.pool) if o is not None]

    def line(self):
        return 'BDD|%s|%s' % (' '.join(self.ordering), ';'.join(self.ops))

    def close(self):
        self.pool = []
        gc.collect()


def run_histories(res, histories, what):
    """compare each history's implementation answers with the Lean model; returns stats"""
    lines = [h.line() for h in histories]
    model = lean_batch(lines)
    bad = 0
    nops = 0
    kinds = {}
    for h, m in zip(histories, model):
        ms = [x.strip() for x in m.split(' ; ')] if h.ops else []
        nops += len(h.ops)
        for op in h.ops:
            k = op.split()[0]
            kinds[k] = kinds.get(k, 0) + 1
        first = None
        if len(ms) != len(h.impl):
            first = (-1, 'length', '%d vs %d' % (len(h.impl), len(ms)))
        else:
            for i, (a, b) in enumerate(zip(h.impl, ms)):
                if a.strip() != b:
                    first = (i, a, b)
                    break
        if first is not None:
            bad += 1
            if bad <= 3:
                i = first[0]
                kind = h.ops[i].split()[0] if i >= 0 else '-'
                # the printed text and the live-node count are model fidelity, not the property's observable: they are a
                # failing input only together with a direct finding on the implementation (round trip, identity, duplicates)
                fidelity_only = kind in ('str', 'exp', 'nodes') and not h.notes
                res.violation('%s: step %d (%s): implementation %r, model (proved) %r%s'
                              % (what, i, h.ops[i] if i >= 0 else '-', first[1], first[2],
                                 ' — correspondence of the %s with the model no longer checks; the round-trip / identity '
                                 'oracles found nothing on this history' % {'str': 'printer', 'exp': 'printer', 'nodes': 'live-node count'}.get(kind, '')
                                 if fidelity_only else ''),
                              {'ordering': h.ordering, 'ops': h.ops[: i + 1] if i >= 0 else h.ops,
                               'impl': h.impl[: i + 1] if i >= 0 else h.impl, 'model': ms[: i + 1] if i >= 0 else ms,
                               'correspondence': 'PMC.BDD.printStr / printExp / subtrees vs __str__ / BDDNode.nodes()' if fidelity_only else None},
                              no_input=fidelity_only)
        for n in h.notes[:2]:
            bad += 1
            res.violation('%s: %s' % (what, n), {'ordering': h.ordering, 'ops': h.ops})
    return {'histories': len(histories), 'operations': nops, 'operation_kinds': kinds, 'disagreements': bad,
            'samples': [{'ordering': h.ordering, 'ops': h.ops[:8], 'impl': h.impl[:8]} for h in histories[:2]]}
