"""C01 — CTL model checking returns exactly the satisfying states.

Tie: CTL.modelcheck vs the Lean model `CTL.check` (PMC/Model/CTL.lean): exhaustive small scope + seeded random.
"""
from common import all_structures, big_structure, proof_coverage, random_structure, rng_for
from checks import mc_common
from gen import formulas as F
from theorems import get

MODULES, THEOREMS = get('C01')


def cases_for(res, rng):
    quick = res.tier == 'quick'
    cases = []
    f0 = F.ctl_state(0)
    f1 = F.ctl_state(1)
    # every structure with <= 2 states x every formula of depth <= 1
    small = [K for n in (1, 2) for K in all_structures(n)]
    for K in small:
        for t in f1:
            cases.append((K, t, 'obj'))
    n_exh = len(cases)
    three = list(all_structures(3))
    f2 = F.ctl_state(2, atoms=('p', 'q'), consts=False) if not quick else None
    if quick:
        for K in rng.sample(three, 1200):
            for t in rng.sample(f1, 12):
                cases.append((K, t, 'obj'))
    else:
        for K in three:
            for t in rng.sample(f1, 10):
                cases.append((K, t, 'obj'))
        for K in rng.sample(three, 4000):
            for t in rng.sample(f2, 8):
                cases.append((K, t, 'obj'))
    nrand = 6000 if quick else 60000
    for i in range(nrand):
        K = random_structure(rng, 6)
        cases.append((K, F.rand_ctl(rng, rng.choice([2, 3, 3, 4])), ('text', 'obj', 'short', 'dag')[i % 4]))
    # scale: larger structures, deeper formulas, wide n-ary operators
    for i in range(400 if quick else 4000):
        K = big_structure(rng, 7, 14)
        t = F.rand_ctl(rng, rng.choice([4, 5, 6]))
        if i % 5 == 0:
            t = (rng.choice(['and', 'or']),) + tuple(F.rand_ctl(rng, 2) for _ in range(rng.choice([5, 6, 8])))
        cases.append((K, t, ('text', 'obj', 'short', 'dag')[i % 4]))
    # scale: very long chains and rings (depth of the reachability / SCC traversals)
    from common import KS
    for n in ((1100,) if quick else (1100, 2500)):
        chain = KS([[i + 1] for i in range(n - 1)] + [[n - 1]], [['p'] if i < n - 3 else ['q'] for i in range(n)])
        ring = KS([[(i + 1) % n] for i in range(n)], [['p'] if i % 7 else ['p', 'q'] for i in range(n)])
        for K in (chain, ring):
            for t in (('E', ('G', ('ap', 'p'))), ('A', ('U', ('ap', 'p'), ('ap', 'q'))), ('E', ('F', ('and', ('ap', 'q'), ('not', ('ap', 'p'))))),
                      ('A', ('G', ('E', ('F', ('ap', 'q'))))), ('A', ('R', ('ap', 'q'), ('ap', 'p')))):
                cases.append((K, t, 'obj'))
    return cases, n_exh


def run(res):
    rng = rng_for('C01')
    cases, n_exh = cases_for(res, rng)
    st = mc_common.run_cases(res, 'CTL', cases, 'C01')
    arng = rng_for('C01/names')
    st.update(mc_common.adversarial_names_stream(res, 'CTL', lambda: F.rand_ctl(arng, 3), arng, res.tier == 'quick', 'C01'))
    problems = proof_coverage(res, THEOREMS, MODULES)
    for p in problems:
        res.violation('proof obligation no longer checks: ' + p, {'theorem_or_module': p}, no_input=True)
    res.coverage.update(st)
    res.coverage.update({
        'rule': 'every total structure with <=2 states over {p,q} x every CTL state formula of depth <=1 (exhaustive, '
                '%d cases); 3-state structures x depth<=1 (sample in quick, all in thorough) and depth 2 (thorough); '
                'random: <=6 states, depth <=4, n-ary and/or, text and object entry. distinct_nontrivial = distinct '
                '(structure, formula) pairs whose answer is neither empty nor all states' % n_exh,
        'exhaustive': True, 'exhaustive_scope': '<=2 states x depth<=1',
        'traces_validated_against_impl': st['evaluations'],
    })
