"""C02 — LTL model checking returns exactly the states whose every path satisfies g.

Tie: LTL.modelcheck vs the Lean model `LTL.modelcheck` (declarative-atom tableau, PMC/Model/LTL.lean), under several
PYTHONHASHSEEDs in the thorough tier (C06 covers hash seeds in depth).
"""
from common import all_structures, big_structure, proof_coverage, random_structure, rng_for
from checks import mc_common
from gen import formulas as F
from theorems import get

MODULES, THEOREMS = get('C02')


def cases_for(res, rng):
    quick = res.tier == 'quick'
    cases = []
    f1 = [t for t in F.ltl_path(1)]
    small = [K for n in (1, 2) for K in all_structures(n)]
    for K in small:
        for t in f1:
            cases.append((K, ('A', t), 'obj'))
    n_exh = len(cases)
    three = list(all_structures(3))
    f2 = [t for t in F.ltl_path(2, consts=False) if F.temporal_count(t) <= 3]
    for K in rng.sample(three, 600 if quick else 6000):
        for t in rng.sample(f1, 6):
            cases.append((K, ('A', t), 'obj'))
        for t in rng.sample(f2, 4):
            cases.append((K, ('A', t), 'obj'))
    nrand = 3000 if quick else 30000
    for i in range(nrand):
        K = random_structure(rng, 5)
        cases.append((K, ('A', F.rand_ltl_path(rng, rng.choice([2, 3, 3, 4]), max_temporal=rng.choice([2, 3, 4]))),
                      ('text', 'obj', 'short', 'dag')[i % 4]))
    # scale: more states with few temporal operators; more temporal operators / wide n-ary on tiny structures
    for i in range(150 if quick else 1500):
        K = big_structure(rng, 7, 9)
        cases.append((K, ('A', F.rand_ltl_path(rng, 3, max_temporal=2)), 'obj'))
    tiny = [K for n in (1, 2) for K in all_structures(n)]
    # (the implementation's tableau is exponential in the temporal operators: ~0.5 s per call at 4, ~5 s at 5)
    for i in range(60 if quick else 600):
        K = rng.choice(tiny)
        if i % 3 == 0:
            k = rng.choice([4, 5, 6])
            ops = [F.rand_ltl_path(rng, 1, max_temporal=1) for _ in range(3)] + [F.rand_pl(rng, 1) for _ in range(k - 3)]
            rng.shuffle(ops)
            g = (rng.choice(['and', 'or']),) + tuple(ops)
        else:
            g = F.rand_ltl_path(rng, rng.choice([5, 6]), max_temporal=4 if (quick or i % 10) else 5)
        cases.append((K, ('A', g), 'obj'))
    from common import KS
    for n in ((40,) if quick else (40, 90)):
        chain = KS([[i + 1] for i in range(n - 1)] + [[n - 1]], [['p'] if i < n - 3 else ['q'] for i in range(n)])
        ring = KS([[(i + 1) % n] for i in range(n)], [['p'] if i % 7 else ['p', 'q'] for i in range(n)])
        for K in (chain, ring):
            for t in (('G', ('ap', 'p')), ('U', ('ap', 'p'), ('ap', 'q')), ('F', ('G', ('ap', 'q'))), ('G', ('F', ('ap', 'q')))):
                cases.append((K, ('A', t), 'obj'))
    return cases, n_exh


def run(res):
    rng = rng_for('C02')
    cases, n_exh = cases_for(res, rng)
    st = mc_common.run_cases(res, 'LTL', cases, 'C02')
    arng = rng_for('C02/names')
    st.update(mc_common.adversarial_names_stream(res, 'LTL', lambda: ('A', F.rand_ltl_path(arng, 3, max_temporal=3)), arng, res.tier == 'quick', 'C02'))
    # internal-level tie of the one component that used to be modelled declaratively: closure, processing order, atom
    # multisets, _checkE_path_formula, under several hash seeds in fresh interpreters (harness/validate_ltlatoms.py)
    import os
    import subprocess
    import sys
    import common
    vp = subprocess.run([sys.executable, os.path.join(common.ROOT, 'harness', 'validate_ltlatoms.py'), '--tier',
                         'smoke' if res.tier == 'quick' else 'quick'], stdout=subprocess.PIPE, stderr=subprocess.STDOUT,
                        text=True, env=dict(os.environ, REPO=common.REPO))
    atoms_out = vp.stdout
    if vp.returncode != 0:
        # closure / processing order / atom multisets are internal: a deviation there is a broken correspondence, and a
        # failing input only if some ANSWER is wrong too (the answer-level run above, or the validator's own comparison
        # of modelcheck / _checkE_path_formula answers)
        # a crash of the validator's own hooks into the private tableau (`_get_closure`, `_Tableu`, the `sorted` spy) is
        # a correspondence that no longer fits, not a failing input
        hook_crash = ('Traceback' in atoms_out and 'MISMATCH' not in atoms_out.upper()) or 'HarnessError' in atoms_out or 'AssertionError' in atoms_out
        answers_wrong = (not hook_crash) and (('differs from _checkE_path_formula' in atoms_out) or ('modelcheck is not the complement' in atoms_out)
                                              or ('implementation raised' in atoms_out))
        res.violation('the tableau internals (_get_closure / cl_list / _build_atoms / _Tableu) differ from the model '
                      'buildAtoms (PMC/Model/LTLAtoms.lean, proved equivalent to the declarative tableau): '
                      + atoms_out[-700:].replace('\n', ' '),
                      {'validator_output_tail': atoms_out[-3000:],
                       'correspondence': 'PMC.LTL.closure / buildAtoms / checkEBuilt vs _get_closure / _build_atoms / _Tableu'},
                      no_input=not (answers_wrong or st['disagreements'] > 0))
    res.coverage['atom_level_validation'] = atoms_out[-900:]
    problems = proof_coverage(res, THEOREMS, MODULES)
    for p in problems:
        res.violation('proof obligation no longer checks: ' + p, {'theorem_or_module': p}, no_input=True)
    res.coverage.update(st)
    res.coverage.update({
        'rule': 'every total structure with <=2 states over {p,q} x A g for every LTL path formula g of depth <=1 '
                '(exhaustive, %d cases); sampled 3-state structures x depth<=2 with <=3 temporal operators; random: '
                '<=5 states, <=4 temporal operators. distinct_nontrivial = distinct (structure, formula) pairs whose '
                'answer is neither empty nor all states' % n_exh,
        'exhaustive': True, 'exhaustive_scope': '<=2 states x depth<=1',
        'traces_validated_against_impl': st['evaluations'],
    })
