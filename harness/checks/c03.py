"""C03 — CTL* model checking is exact for arbitrary quantifier/path-operator nesting.

Tie: CTLS.modelcheck vs the Lean model `CTLS.modelcheck` (PMC/Model/CTLS.lean).
"""
from common import all_structures, big_structure, known_findings, proof_coverage, random_structure, rng_for
from checks import mc_common
from gen import formulas as F
from theorems import get

MODULES, THEOREMS = get('C03')

CORPUS = [
    ('E', ('F', ('X', ('ap', 'q')))),
    ('A', ('or', ('G', ('ap', 'p')), ('F', ('E', ('X', ('not', ('ap', 'p'))))))),
    ('E', ('and', ('G', ('F', ('ap', 'p'))), ('G', ('F', ('not', ('ap', 'p')))))),
    ('A', ('G', ('E', ('F', ('ap', 'p'))))),
    ('E', ('not', ('X', ('ap', 'p')))),
    ('E', ('ap', 'p')),
    ('not', ('A', ('imp', ('G', ('ap', 'p')), ('F', ('A', ('G', ('ap', 'q'))))))),
]


def cases_for(res, rng):
    quick = res.tier == 'quick'
    cases = []
    small = [K for n in (1, 2) for K in all_structures(n)]
    for K in small:
        for t in CORPUS:
            cases.append((K, t, 'obj'))
    paths = [t for t in F.ltl_path(1)]
    for K in small:
        for t in rng.sample(paths, 10):
            cases.append((K, (rng.choice('AE'), t), 'obj'))
    n_exh = len(small) * len(CORPUS)
    three = list(all_structures(3))
    for K in rng.sample(three, 500 if quick else 5000):
        for t in CORPUS:
            cases.append((K, t, 'obj'))
        for _ in range(4):
            cases.append((K, F.rand_ctls_state(rng, 4, max_temporal=3, qdepth=2), 'obj'))
    nrand = 3000 if quick else 30000
    for i in range(nrand):
        K = random_structure(rng, 5)
        cases.append((K, F.rand_ctls_state(rng, rng.choice([3, 4, 5]), max_temporal=3, qdepth=2),
                      ('text', 'obj', 'short', 'dag')[i % 4]))
    # scale: larger structures / deeper quantifier nesting / wide n-ary
    for i in range(120 if quick else 1200):
        K = big_structure(rng, 7, 9)
        cases.append((K, F.rand_ctls_state(rng, 4, max_temporal=2, qdepth=2), 'obj'))
    tiny = [K for n in (1, 2) for K in all_structures(n)]
    for i in range(120 if quick else 1200):
        K = rng.choice(tiny)
        if i % 3 == 0:
            k = rng.choice([4, 5])
            ops = [F.rand_ltl_path(rng, 1, max_temporal=1) for _ in range(3)] + [F.rand_pl(rng, 1) for _ in range(k - 3)]
            rng.shuffle(ops)
            t = (rng.choice('AE'), (rng.choice(['and', 'or']),) + tuple(ops))
        else:
            t = F.rand_ctls_state(rng, 6, max_temporal=3, qdepth=4)
        cases.append((K, t, 'obj'))
    return cases, n_exh


def degenerate(rng, t):
    """replace random and/or nodes / leaves by operators with no or one operand (`Or()`, `And()`, `Or(x)`, `And(x)`)"""
    if t in ('tt', 'ff') or t[0] == 'ap':
        r = rng.random()
        return (rng.choice(['or', 'and']),) if r < 0.35 else ((rng.choice(['or', 'and']), t) if r < 0.5 else t)
    if t[0] in ('and', 'or') and rng.random() < 0.3:
        return (t[0],) + tuple(degenerate(rng, c) for c in t[1:rng.choice([1, 2])])
    return (t[0],) + tuple(degenerate(rng, c) for c in t[1:])


def normalise(t):
    """the arity-respecting formula with the same meaning: Or() = false, And() = true, Or(x) = And(x) = x"""
    if t in ('tt', 'ff') or t[0] == 'ap':
        return t
    cs = tuple(normalise(c) for c in t[1:])
    if t[0] in ('and', 'or'):
        if len(cs) == 0:
            return 'ff' if t[0] == 'or' else 'tt'
        if len(cs) == 1:
            return cs[0]
    return (t[0],) + cs


def has_empty(t):
    """an operand-free and/or occurs (it prints `()`; `And()` is rewritten to `not Or()`, so one of them is enough for the
    text-keyed memo tables and fresh names to meet the same print twice)"""
    if t in ('tt', 'ff') or t[0] == 'ap':
        return False
    if t[0] in ('and', 'or') and len(t) == 1:
        return True
    return any(has_empty(c) for c in t[1:])


def has_both_empty(t):
    found = set()

    def go(x):
        if x in ('tt', 'ff') or x[0] == 'ap':
            return
        if x[0] in ('and', 'or') and len(x) == 1:
            found.add(x[0])
        for c in x[1:]:
            go(c)
    go(t)
    return len(found) == 2


KF_WITNESS = ('and', ('A', ('X', ('or',))), ('A', ('X', ('and',))))


def degenerate_stream(res, rng):
    """Formulas outside the arity hypothesis of `ctls_exact` (programmatic `Or(*[])`): the model, which follows the code,
    must still agree with the code; the truth is the model's answer on the normalised formula (inside the theorem).
    A wrong answer on a formula containing both `Or()` and `And()` is the known finding KF-C03-a (both print `()`)."""
    quick = res.tier == 'quick'
    small = [K for n in (1, 2) for K in all_structures(n)]
    cases = [(K, KF_WITNESS) for K in small]
    for _ in range(400 if quick else 4000):
        t = degenerate(rng, F.rand_ctls_state(rng, rng.choice([3, 4]), max_temporal=2, qdepth=2))
        if t != normalise(t) and F.well_formed('CTLS', normalise(t)):
            cases.append((rng.choice(small) if rng.random() < 0.5 else random_structure(rng, 4), t))
    impl = [mc_common.norm(x) for x in mc_common.impl_batch([('CTLS', K.succ, K.labs, t, 'obj') for K, t in cases])]
    from common import lean_batch, sexpr, tree_str
    raw = [mc_common.norm(x) for x in lean_batch(['CTLS|%s|%s' % (K.enc(), sexpr(t)) for K, t in cases])]
    truth = [mc_common.norm(x) for x in lean_batch(['CTLS|%s|%s' % (K.enc(), sexpr(normalise(t))) for K, t in cases])]
    # the same model with the memo table of the final CTL call (keyed by printed formula, as in the code): `Or()` and
    # `And()` also collide there
    rawm = [mc_common.norm(x) for x in lean_batch(['CTLSM|%s|%s' % (K.enc(), sexpr(t)) for K, t in cases])]
    rawc = [mc_common.norm(x) for x in lean_batch(['CTLM|%s|%s' % (K.enc(), sexpr(t)) for K, t in cases])]   # whole formula in CTL
    kf_open = any(k['id'] == 'KF-C03-a' for k in known_findings('C03'))
    known_live = kf_open and any(t == KF_WITNESS and a != tr for (K, t), a, tr in zip(cases, impl, truth))
    known_hits, wrong, infidel, known_unreproduced = 0, 0, 0, 0
    for (K, t), a, m, tr, mm, mc in zip(cases, impl, raw, truth, rawm, rawc):
        if a != tr:
            # excused by KF-C03-a only while that finding is open and its witness still fails, for a set-valued answer
            # that a model which follows the code reproduces (fresh names: CTLS; memo table of the final CTL call: CTLSM),
            # on a formula containing both Or() and And()
            # (the collision of the two `()` prints also happens inside the memo tables of the INNER CTL calls and inside
            # the LTL closure, which these models do not follow: such instances are excused by the shape of the input and
            # counted separately)
            if known_live and a.startswith('OK') and (has_empty(t) or a in (m, mm, mc)):
                known_hits += 1
                if a not in (m, mm, mc):
                    known_unreproduced += 1
                continue
            wrong += 1
            if wrong <= 3:
                res.violation('C03: CTLS.modelcheck(%s) = %s but the formula means %s, on which the model (proved exact) '
                              'gives %s' % (tree_str(t), a, tree_str(normalise(t)), tr),
                              {'logic': 'CTLS', 'structure': K.describe(), 'formula_sexpr': sexpr(t), 'impl': a, 'truth': tr})
        elif a not in (m, mm, mc):
            infidel += 1
            if infidel <= 3:
                res.violation('C03: on the operand-free/one-operand formula %s the implementation answers %s (correct) and '
                              'the model %s: correspondence PMC.CTLS.modelcheck vs CTLS.modelcheck no longer checks'
                              % (tree_str(t), a, m),
                              {'logic': 'CTLS', 'structure': K.describe(), 'formula_sexpr': sexpr(t), 'impl': a, 'model': m,
                               'correspondence': 'PMC.CTLS.modelcheck (PMC/Model/CTLS.lean) vs CTLS.modelcheck'}, no_input=True)
    if known_live:
        for k in known_findings('C03'):
            if k['id'] == 'KF-C03-a':
                res.known.append('%s: %s' % (k['id'], k['what']))
    return {'degenerate_arity_cases': len(cases), 'degenerate_known_finding_instances': known_hits,
            'degenerate_known_finding_instances_not_reproduced_by_the_models': known_unreproduced,
            'degenerate_wrong_answers_not_listed': wrong, 'degenerate_model_deviations': infidel}


def run(res):
    rng = rng_for('C03')
    cases, n_exh = cases_for(res, rng)
    st = mc_common.run_cases(res, 'CTLS', cases, 'C03')
    arng = rng_for('C03/names')
    st.update(mc_common.adversarial_names_stream(res, 'CTLS', lambda: F.rand_ctls_state(arng, 4, max_temporal=3), arng, res.tier == 'quick', 'C03'))
    st.update(degenerate_stream(res, rng_for('C03/degenerate')))
    # static hypotheses of ctls_exact (identifier-style atoms and labels, arity >= 2): decided here per case
    import re
    ident = re.compile(r'^[A-Za-z_][A-Za-z0-9_]*$')
    reserved = {'true', 'false', 'not', 'or', 'and', 'A', 'E', 'X', 'F', 'G', 'U', 'R'}

    def names(t, acc):
        if t in ('tt', 'ff'):
            return
        if t[0] == 'ap':
            acc.add(t[1])
            return
        for c in t[1:]:
            names(c, acc)
    inside = 0
    for K, t, _ in cases:
        acc = set(l for ls in K.labs for l in ls)
        names(t, acc)
        if all(isinstance(n, str) and ident.match(n) and n not in reserved for n in acc) and F.well_formed('CTLS', t):
            inside += 1
    st['cases_inside_hypotheses_of_ctls_exact'] = inside
    problems = proof_coverage(res, THEOREMS, MODULES)
    for p in problems:
        res.violation('proof obligation no longer checks: ' + p, {'theorem_or_module': p}, no_input=True)
    res.coverage.update(st)
    res.coverage.update({
        'rule': 'corpus of nested CTL* formulas x every structure with <=2 states (exhaustive, %d cases) and sampled '
                '3-state structures; random CTL* state formulas (quantifier nesting <=2, <=3 temporal operators per '
                'quantifier) on sampled 3-state and random <=5-state structures; text and object entry. '
                'distinct_nontrivial = distinct (structure, formula) pairs with a non-constant answer' % n_exh,
        'exhaustive': True, 'exhaustive_scope': 'corpus x <=2 states',
        'traces_validated_against_impl': st['evaluations'],
    })
