"""C03 — CTL* model checking is exact for arbitrary quantifier/path-operator nesting.

Tie: CTLS.modelcheck vs the Lean model `CTLS.modelcheck` (PMC/Model/CTLS.lean).
"""
from common import all_structures, big_structure, proof_coverage, random_structure, rng_for
from checks import mc_common
from gen import formulas as F
from theorems import get

MODULES, THEOREMS = get('C03')

CORPUS = [
    ('E', ('F', ('X', ('ap', 'q')))),
    ('A', ('or', ('G', ('ap', 'p')), ('F', ('E', ('X', ('not', ('ap', 'p'))))))),
    ('E', ('and', ('G', ('F', ('ap', 'p'))), ('G', ('F', ('not', ('ap', 'p')))))),
    ('A', ('G', ('E', ('F', ('ap', 'p'))))),
    ('E', ('not', ('X', ('ap', 'p')))),
    ('E', ('ap', 'p')),
    ('not', ('A', ('imp', ('G', ('ap', 'p')), ('F', ('A', ('G', ('ap', 'q'))))))),
]


def cases_for(res, rng):
    quick = res.tier == 'quick'
    cases = []
    small = [K for n in (1, 2) for K in all_structures(n)]
    for K in small:
        for t in CORPUS:
            cases.append((K, t, 'obj'))
    paths = [t for t in F.ltl_path(1)]
    for K in small:
        for t in rng.sample(paths, 10):
            cases.append((K, (rng.choice('AE'), t), 'obj'))
    n_exh = len(small) * len(CORPUS)
    three = list(all_structures(3))
    for K in rng.sample(three, 500 if quick else 5000):
        for t in CORPUS:
            cases.append((K, t, 'obj'))
        for _ in range(4):
            cases.append((K, F.rand_ctls_state(rng, 4, max_temporal=3, qdepth=2), 'obj'))
    nrand = 3000 if quick else 30000
    for i in range(nrand):
        K = random_structure(rng, 5)
        cases.append((K, F.rand_ctls_state(rng, rng.choice([3, 4, 5]), max_temporal=3, qdepth=2),
                      'text' if i % 4 == 0 else 'obj'))
    # scale: larger structures / deeper quantifier nesting / wide n-ary
    for i in range(120 if quick else 1200):
        K = big_structure(rng, 7, 9)
        cases.append((K, F.rand_ctls_state(rng, 4, max_temporal=2, qdepth=2), 'obj'))
    tiny = [K for n in (1, 2) for K in all_structures(n)]
    for i in range(120 if quick else 1200):
        K = rng.choice(tiny)
        if i % 3 == 0:
            k = rng.choice([4, 5])
            ops = [F.rand_ltl_path(rng, 1, max_temporal=1) for _ in range(3)] + [F.rand_pl(rng, 1) for _ in range(k - 3)]
            rng.shuffle(ops)
            t = (rng.choice('AE'), (rng.choice(['and', 'or']),) + tuple(ops))
        else:
            t = F.rand_ctls_state(rng, 6, max_temporal=3, qdepth=4)
        cases.append((K, t, 'obj'))
    return cases, n_exh


def run(res):
    rng = rng_for('C03')
    cases, n_exh = cases_for(res, rng)
    st = mc_common.run_cases(res, 'CTLS', cases, 'C03')
    problems = proof_coverage(res, THEOREMS, MODULES)
    for p in problems:
        res.violation('proof obligation no longer checks: ' + p, {'theorem_or_module': p}, no_input=True)
    res.coverage.update(st)
    res.coverage.update({
        'rule': 'corpus of nested CTL* formulas x every structure with <=2 states (exhaustive, %d cases) and sampled '
                '3-state structures; random CTL* state formulas (quantifier nesting <=2, <=3 temporal operators per '
                'quantifier) on sampled 3-state and random <=5-state structures; text and object entry. '
                'distinct_nontrivial = distinct (structure, formula) pairs with a non-constant answer' % n_exh,
        'exhaustive': True, 'exhaustive_scope': 'corpus x <=2 states',
        'traces_validated_against_impl': st['evaluations'],
    })
