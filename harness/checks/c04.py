"""C04 — the three checkers agree with each other and obey the semantic laws.

Theorems: PMC/Properties/C04.lean (laws for the models, corollaries of exactness).  Tie, needing no reference: every
generated (K, f, g) is pushed through every applicable entry point (CTL / LTL / CTL*, text and object) and every law is
evaluated on the implementation's own answers; the Lean models are run on the same tuples so that a law failure is
also located (which side of the law disagrees with the proved model).
"""
from common import all_structures, proof_coverage, random_structure, rng_for, sexpr, lean_batch, tree_str
from checks import mc_common
from gen import formulas as F
from theorems import get

MODULES, THEOREMS = get('C04')


def laws_for(f, g):
    """(name, logic, lhs-tree, how, rhs) — how in {'eq', 'compl', 'inter', 'union', 'implies'}"""
    L = []
    for M in ('CTL', 'CTLS'):
        L.append(('not', M, ('not', f), 'compl', [f]))
        L.append(('and', M, ('and', f, g), 'inter', [f, g]))
        L.append(('or', M, ('or', f, g), 'union', [f, g]))
        L.append(('imp', M, ('imp', f, g), 'implies', [f, g]))
        L.append(('EU-expand', M, ('E', ('U', f, g)), 'eq', [('or', g, ('and', f, ('E', ('X', ('E', ('U', f, g))))))]))
        L.append(('AU-expand', M, ('A', ('U', f, g)), 'eq', [('or', g, ('and', f, ('A', ('X', ('A', ('U', f, g))))))]))
        L.append(('AG-expand', M, ('A', ('G', f)), 'eq', [('and', f, ('A', ('X', ('A', ('G', f)))))]))
        L.append(('EG-expand', M, ('E', ('G', f)), 'eq', [('and', f, ('E', ('X', ('E', ('G', f)))))]))
        L.append(('AF-expand', M, ('A', ('F', f)), 'eq', [('or', f, ('A', ('X', ('A', ('F', f)))))]))
        L.append(('EF-expand', M, ('E', ('F', f)), 'eq', [('or', f, ('E', ('X', ('E', ('F', f)))))]))
        L.append(('AR-dual', M, ('A', ('R', f, g)), 'eq', [('not', ('E', ('U', ('not', f), ('not', g))))]))
        L.append(('ER-dual', M, ('E', ('R', f, g)), 'eq', [('not', ('A', ('U', ('not', f), ('not', g))))]))
        L.append(('AX-dual', M, ('A', ('X', f)), 'eq', [('not', ('E', ('X', ('not', f))))]))
    return L


def run(res):
    rng = rng_for('C04')
    quick = res.tier == 'quick'
    jobs = {}   # (logic, Kkey, tree, entry) -> index

    structures = [K for n in (1, 2) for K in all_structures(n)]
    three = list(all_structures(3))
    structures = rng.sample(structures, 60 if quick else len(structures)) + rng.sample(three, 60 if quick else 1500)
    structures += [random_structure(rng, 5) for _ in range(40 if quick else 600)]
    props = F.pl(1)
    ctl1 = F.ctl_state(1)
    checks = []  # (name, K, [job keys], evaluator)
    cases = []

    def job(logic, K, t, entry='obj'):
        k = (logic, K.key(), t, entry)
        if k not in jobs:
            jobs[k] = len(cases)
            cases.append((logic, K, t, entry))
        return jobs[k]

    for K in structures:
        for _ in range(3):
            f = rng.choice(ctl1 if rng.random() < 0.5 else props)
            g = rng.choice(ctl1 if rng.random() < 0.5 else props)
            for name, M, lhs, how, rhs in laws_for(f, g):
                entry = 'text' if rng.random() < 0.2 else 'obj'
                checks.append((name + '/' + M, K, job(M, K, lhs, entry), how, [job(M, K, r) for r in rhs], (f, g)))
            # A g = not E not g for an arbitrary path formula (CTL* only)
            pg = F.rand_ltl_path(rng, 2, max_temporal=2)
            checks.append(('A=notEnot/CTLS', K, job('CTLS', K, ('A', pg)), 'eq',
                           [job('CTLS', K, ('not', ('E', ('not', pg))))], (pg, None)))
            # agreement on shared fragments
            c = F.rand_ctl(rng, 2)
            checks.append(('CTL=CTLS', K, job('CTL', K, c, 'obj'), 'eq', [job('CTLS', K, c, 'text')], (c, None)))
            checks.append(('CTL-text=obj', K, job('CTL', K, c, 'text'), 'eq', [job('CTL', K, c, 'obj')], (c, None)))
            lt = ('A', F.rand_ltl_path(rng, 3, max_temporal=3))
            checks.append(('LTL=CTLS', K, job('LTL', K, lt, 'obj'), 'eq', [job('CTLS', K, lt, 'obj')], (lt, None)))
            checks.append(('LTL-text=obj', K, job('LTL', K, lt, 'text'), 'eq', [job('LTL', K, lt, 'obj')], (lt, None)))
            p1, p2 = rng.choice(props), rng.choice(props)
            sh = ('A', rng.choice([('X', p1), ('F', p1), ('G', p1), ('U', p1, p2), ('R', p1, p2)]))
            checks.append(('CTL=LTL', K, job('CTL', K, sh), 'eq', [job('LTL', K, sh)], (sh, None)))
            checks.append(('CTL=LTL=CTLS', K, job('CTLS', K, sh, 'text'), 'eq', [job('LTL', K, sh, 'text')], (sh, None)))
            # the same formula handed over as an object of another language module it also belongs to
            checks.append(('LTL(CTL-object)=CTL', K, job('LTL', K, sh, 'obj@CTL'), 'eq', [job('CTL', K, sh)], (sh, None)))
            checks.append(('CTL(LTL-object)=LTL', K, job('CTL', K, sh, 'obj@LTL'), 'eq', [job('LTL', K, sh)], (sh, None)))
            checks.append(('CTLS(CTL-object)=CTL', K, job('CTLS', K, c, 'obj@CTL'), 'eq', [job('CTL', K, c)], (c, None)))
            checks.append(('CTLS(LTL-object)=LTL', K, job('CTLS', K, lt, 'obj@LTL'), 'eq', [job('LTL', K, lt)], (lt, None)))
            checks.append(('LTL(CTLS-object)=LTL', K, job('LTL', K, lt, 'obj@CTLS'), 'eq', [job('LTL', K, lt)], (lt, None)))
            checks.append(('CTL(CTLS-object)=CTL', K, job('CTL', K, c, 'obj@CTLS'), 'eq', [job('CTL', K, c)], (c, None)))
            checks.append(('CTLS(PL-object)=CTL(PL-object)', K, job('CTLS', K, p1, 'obj@PL'), 'eq', [job('CTL', K, p1, 'obj@PL')], (p1, None)))
            checks.append(('CTL(PL-object)=CTL', K, job('CTL', K, p1, 'obj@PL'), 'eq', [job('CTL', K, p1)], (p1, None)))

    impl = mc_common.impl_batch([(logic, K.succ, K.labs, t, e) for (logic, K, t, e) in cases])
    model = [mc_common.norm(x) for x in lean_batch(['%s|%s|%s' % (logic, K.enc(), sexpr(t)) for (logic, K, t, e) in cases])]

    def as_set(a):
        return None if not a.startswith('OK') else frozenset(int(x) for x in a.split()[1:])

    bad = 0
    per_law = {}
    nontrivial = set()
    for name, K, li, how, ris, fg in checks:
        per_law[name] = per_law.get(name, 0) + 1
        S = frozenset(range(K.n))
        lhs = as_set(impl[li])
        rs = [as_set(impl[r]) for r in ris]
        if lhs is None or any(r is None for r in rs):
            ok = False
        elif how == 'eq':
            ok = lhs == rs[0]
        elif how == 'compl':
            ok = lhs == S - rs[0]
        elif how == 'inter':
            ok = lhs == rs[0] & rs[1]
        elif how == 'union':
            ok = lhs == rs[0] | rs[1]
        else:
            ok = lhs == (S - rs[0]) | rs[1]
        if lhs is not None and 0 < len(lhs) < K.n:
            nontrivial.add((name, K.key(), fg))
        if not ok:
            bad += 1
            if bad <= 3:
                sides = [(cases[i][0], tree_str(cases[i][2]), cases[i][3], impl[i], model[i]) for i in [li] + ris]
                wrong = [s for s in sides if s[3] != s[4]]
                res.violation('law %s fails on the implementation: %s' % (name, '; '.join(
                    '%s.modelcheck(%s)[%s] = %s (model %s)' % s for s in sides)),
                    {'law': name, 'structure': K.describe(), 'sides': sides, 'sides_disagreeing_with_model': wrong})
    # every answer also has to agree with the proved models
    dis = 0
    for (logic, K, t, e), a, m in zip(cases, impl, model):
        if mc_common.norm(a) != m:
            dis += 1
            if dis <= 2 and bad == 0:
                res.violation('%s.modelcheck(%s) = %s, model (proved exact) %s' % (logic, tree_str(t), a, m),
                              {'logic': logic, 'structure': K.describe(), 'formula': tree_str(t), 'entry': e,
                               'impl': a, 'model': m})
    problems = proof_coverage(res, THEOREMS, MODULES)
    for p in problems:
        res.violation('proof obligation no longer checks: ' + p, {'theorem_or_module': p}, no_input=True)
    res.coverage.update({
        'evaluations': len(checks), 'distinct_nontrivial': len(nontrivial),
        'rule': 'structures: sample of all <=2-state and 3-state structures + random <=5 states; per structure 3 '
                'draws of (f, g) from depth<=1 CTL / propositional formulas; 13 laws x {CTL, CTL*}, A g = not E not g, '
                'CTL=CTL*, LTL=CTL*, CTL=LTL on the common fragment, text=object; distinct_nontrivial = distinct '
                '(law, structure, operands) whose left-hand answer is neither empty nor everything',
        'laws_histogram': per_law, 'modelcheck_calls': len(cases), 'law_failures': bad, 'model_disagreements': dis,
        'samples': [{'law': c[0], 'structure': c[1].describe(), 'lhs': tree_str(cases[c[2]][2]), 'impl_lhs': impl[c[2]]}
                    for c in checks[:: max(1, len(checks) // 3)][:3]],
        'traces_validated_against_impl': len(cases),
    })
