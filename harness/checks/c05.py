"""C05 — rewriting to the restricted syntax and LNot preserve meaning.

Theorems: PMC/Properties/C05.lean (alphabet + equivalence for restrict / restrictCTL / lnot, every formula, every
structure).  Tie: the implementation's output *tree* vs the model's output tree, exactly; independently the alphabet
predicate is evaluated (by the Lean driver) on the implementation's own output.
"""
from common import (from_obj, known_findings, lang, lean_batch, parse_sexpr, proof_coverage, rng_for, sexpr, to_obj,
                    tree_ops, tree_str)
from gen import formulas as F
from theorems import get

MODULES, THEOREMS = get('C05')


def run(res):
    rng = rng_for('C05')
    quick = res.tier == 'quick'
    cases = []  # (logic, tree)
    d = 2
    for t in F.ctl_state(1):
        cases.append(('CTL', t))
    for t in F.ltl_path(1):
        cases.append(('LTL', t))
        cases.append(('CTLS', t))
        cases.append(('CTLS', ('A', t)))
        cases.append(('CTLS', ('E', t)))
    n_exh = len(cases)
    ctl2 = F.ctl_state(2, consts=False)
    ltl2 = F.ltl_path(2, consts=False)
    for t in (rng.sample(ctl2, 4000) if quick else ctl2[:60000]):
        cases.append(('CTL', t))
    for t in (rng.sample(ltl2, 3000) if quick else ltl2[:40000]):
        cases.append(('LTL', t))
        cases.append(('CTLS', (rng.choice('AE'), t)))
    for _ in range(3000 if quick else 30000):
        cases.append(('CTL', F.rand_ctl(rng, rng.choice([3, 4, 5, 6]))))
        cases.append(('LTL', F.rand_ltl_path(rng, rng.choice([3, 4, 5, 6]), max_temporal=8)))
        cases.append(('CTLS', F.rand_ctls_state(rng, rng.choice([3, 4, 5, 6]), max_temporal=5, qdepth=3)))
    # known finding: LTL.A(g).get_equivalent_restricted_formula()
    kf = known_findings('C05')
    try:
        lang('LTL').A('p').get_equivalent_restricted_formula()
        kf_live = False
    except AttributeError:
        kf_live = True
    except Exception:
        kf_live = False
    lines, impl = [], []
    errs = {}
    for logic, t in cases:
        L = lang(logic)
        try:
            o = to_obj(t, L)
            r = from_obj(o.get_equivalent_restricted_formula())
            from pyModelChecking.language import LNot
            ln = from_obj(LNot(o))
            impl.append((r, ln))
        except Exception as e:
            impl.append((('ERR', type(e).__name__), None))
            errs[type(e).__name__] = errs.get(type(e).__name__, 0) + 1
        lines.append('RESTRICT|%s|%s' % (logic, sexpr(t)))
        lines.append('LNOT|%s' % sexpr(t))
    model = lean_batch(lines)
    # alphabet predicate on the implementation's own output
    alines = []
    for (logic, t), (r, ln) in zip(cases, impl):
        if isinstance(r, tuple) and r[0] == 'ERR':
            alines.append('ISRESTR|CTLS|tt')
        else:
            alines.append('ISRESTR|%s|%s' % ('CTL' if logic == 'CTL' else 'CTLS', sexpr(r)))
    alpha = lean_batch(alines)
    bad = 0
    ops = {}
    distinct = set()
    for i, ((logic, t), (r, ln)) in enumerate(zip(cases, impl)):
        mr, mln = model[2 * i], model[2 * i + 1]
        if isinstance(r, tuple) and r[0] == 'ERR':
            bad += 1
            res.violation('%s: get_equivalent_restricted_formula() raised %s on %s' % (logic, r[1], tree_str(t)),
                          {'logic': logic, 'formula': tree_str(t), 'formula_sexpr': sexpr(t), 'impl': r[1]})
            continue
        tree_ops(t, ops)
        if r != t:
            distinct.add((logic, t))
        if sexpr(r) != mr.strip() or sexpr(ln) != mln.strip() or alpha[i].strip() != 'true':
            bad += 1
            if bad <= 3:
                what = ('output outside the restricted alphabet' if alpha[i].strip() != 'true'
                        else 'output tree differs from the model (whose output is proved equivalent and restricted)')
                res.violation('%s rewriting of %s: %s; impl %s / LNot %s, model %s / %s'
                              % (logic, tree_str(t), what, tree_str(r), tree_str(ln),
                                 tree_str(parse_sexpr(mr)), tree_str(parse_sexpr(mln))),
                              {'logic': logic, 'formula': tree_str(t), 'formula_sexpr': sexpr(t),
                               'impl_restricted': sexpr(r), 'model_restricted': mr, 'impl_lnot': sexpr(ln),
                               'model_lnot': mln, 'alphabet_ok': alpha[i]})
    if kf_live:
        for k in kf:
            res.known.append(k['what'])
    problems = proof_coverage(res, THEOREMS, MODULES)
    for p in problems:
        res.violation('proof obligation no longer checks: ' + p, {'theorem_or_module': p}, no_input=True)
    res.coverage.update({
        'evaluations': len(cases), 'distinct_nontrivial': len(distinct),
        'rule': 'every CTL state / LTL path / CTL* formula of depth <=1 (%d, exhaustive), depth 2 (sampled in quick), '
                'random to depth 6 with n-ary and/or; distinct_nontrivial = distinct formulas that the rewriting '
                'changes' % n_exh,
        'exhaustive': True, 'exhaustive_scope': 'depth <= 1 per logic', 'operators': ops, 'disagreements': bad,
        'error_kinds': errs,
        'samples': [{'logic': cases[i][0], 'formula': tree_str(cases[i][1]),
                     'impl': tree_str(impl[i][0]),
                     'model': model[2 * i]} for i in (5, len(cases) // 2, len(cases) - 1)],
        'traces_validated_against_impl': len(cases),
    })
