"""C05 — rewriting to the restricted syntax and LNot preserve meaning.

Theorems: PMC/Properties/C05.lean (alphabet + equivalence for restrict / restrictCTL / lnot, every formula, every
structure).  Tie: the implementation's output *tree* vs the model's output tree, exactly; independently the alphabet
predicate is evaluated (by the Lean driver) on the implementation's own output.
"""
from common import (from_obj, known_findings, lang, lean_batch, parse_sexpr, proof_coverage, rng_for, sexpr, to_obj,
                    tree_ops, tree_str)
from gen import formulas as F
from theorems import get

MODULES, THEOREMS = get('C05')


def run(res):
    rng = rng_for('C05')
    quick = res.tier == 'quick'
    cases = []  # (logic, tree)
    d = 2
    for t in F.ctl_state(1):
        cases.append(('CTL', t))
    for t in F.ltl_path(1):
        cases.append(('LTL', t))
        cases.append(('CTLS', t))
        cases.append(('CTLS', ('A', t)))
        cases.append(('CTLS', ('E', t)))
    n_exh = len(cases)
    ctl2 = F.ctl_state(2, consts=False)
    ltl2 = F.ltl_path(2, consts=False)
    for t in (rng.sample(ctl2, 4000) if quick else ctl2[:60000]):
        cases.append(('CTL', t))
    for t in (rng.sample(ltl2, 3000) if quick else ltl2[:40000]):
        cases.append(('LTL', t))
        cases.append(('CTLS', (rng.choice('AE'), t)))
    for _ in range(3000 if quick else 30000):
        cases.append(('CTL', F.rand_ctl(rng, rng.choice([3, 4, 5, 6]))))
        cases.append(('LTL', F.rand_ltl_path(rng, rng.choice([3, 4, 5, 6]), max_temporal=8)))
        cases.append(('CTLS', F.rand_ctls_state(rng, rng.choice([3, 4, 5, 6]), max_temporal=5, qdepth=3)))
    # history + coincidence: two DIFFERENT formulas with the same printed text, rewritten one after the other in this
    # process (f, then f' = f with a subformula replaced by an atom NAMED like that subformula's print, then f again)
    def positions(t, path=()):
        if t in ('tt', 'ff') or t[0] == 'ap':
            return
        if path:
            yield path, t
        for i, c in enumerate(t[1:], 1):
            for x in positions(c, path + (i,)):
                yield x

    def replace_at(t, path, new):
        if not path:
            return new
        i = path[0]
        return t[:i] + (replace_at(t[i], path[1:], new),) + t[i + 1:]
    ncoll = 0
    for _ in range(300 if quick else 3000):
        logic = rng.choice(['CTL', 'CTL', 'LTL', 'CTLS'])
        t = {'CTL': lambda: F.rand_ctl(rng, rng.choice([4, 5, 6])),
             'LTL': lambda: F.rand_ltl_path(rng, rng.choice([4, 5]), max_temporal=6),
             'CTLS': lambda: F.rand_ctls_state(rng, rng.choice([4, 5]), max_temporal=4, qdepth=2)}[logic]()
        cands = [(pth, sub) for pth, sub in positions(t)
                 if logic != 'CTL' or F.is_ctl_state(sub)]
        if not cands:
            continue
        pth, sub = rng.choice(cands)
        try:
            name = str(to_obj(sub, lang(logic)))
            t2 = replace_at(t, pth, ('ap', name))
            if str(to_obj(t2, lang(logic))) != str(to_obj(t, lang(logic))):
                continue
        except Exception:
            continue
        ncoll += 1
        cases += [(logic, t), (logic, t2), (logic, t)]
    # and/or with one operand or none (`And(*conds)` with a short list): outside the parsers' output, inside the API
    from checks.c03 import degenerate
    ndeg = 0
    for _ in range(200 if quick else 2000):
        logic = rng.choice(['CTL', 'LTL', 'CTLS'])
        t = {'CTL': lambda: F.rand_ctl(rng, 3), 'LTL': lambda: F.rand_ltl_path(rng, 3, max_temporal=3),
             'CTLS': lambda: F.rand_ctls_state(rng, 3, max_temporal=3, qdepth=2)}[logic]()
        t2 = degenerate(rng, t)
        if t2 != t:
            cases.append((logic, t2))
            ndeg += 1
    # known finding: LTL.A(g).get_equivalent_restricted_formula()
    kf = known_findings('C05')
    try:
        lang('LTL').A('p').get_equivalent_restricted_formula()
        kf_live = False
    except AttributeError:
        kf_live = True
    except Exception:
        kf_live = False
    lines, impl = [], []
    errs = {}
    for logic, t in cases:
        L = lang(logic)
        try:
            o = to_obj(t, L)
            r = from_obj(o.get_equivalent_restricted_formula())
            from pyModelChecking.language import LNot
            ln = from_obj(LNot(o))
            impl.append((r, ln))
        except Exception as e:
            impl.append((('ERR', type(e).__name__), None))
            errs[type(e).__name__] = errs.get(type(e).__name__, 0) + 1
        lines.append('RESTRICT|%s|%s' % (logic, sexpr(t)))
        lines.append('LNOT|%s' % sexpr(t))
    model = lean_batch(lines)
    # alphabet predicate on the implementation's own output
    alines = []
    for (logic, t), (r, ln) in zip(cases, impl):
        if isinstance(r, tuple) and r[0] == 'ERR':
            alines.append('ISRESTR|CTLS|tt')
        else:
            alines.append('ISRESTR|%s|%s' % ('CTL' if logic == 'CTL' else 'CTLS', sexpr(r)))
    alpha = lean_batch(alines)
    bad = 0
    alpha_bad = 0
    broken = []
    ops = {}
    distinct = set()
    for i, ((logic, t), (r, ln)) in enumerate(zip(cases, impl)):
        mr, mln = model[2 * i], model[2 * i + 1]
        if isinstance(r, tuple) and r[0] == 'ERR':
            bad += 1
            res.violation('%s: get_equivalent_restricted_formula() raised %s on %s' % (logic, r[1], tree_str(t)),
                          {'logic': logic, 'formula': tree_str(t), 'formula_sexpr': sexpr(t), 'impl': r[1]})
            continue
        tree_ops(t, ops)
        if r != t:
            distinct.add((logic, t))
        if alpha[i].strip() != 'true':
            bad += 1
            alpha_bad += 1
            if alpha_bad <= 3:
                res.violation('%s rewriting of %s: output %s uses an operator outside the restricted alphabet'
                              % (logic, tree_str(t), tree_str(r)),
                              {'logic': logic, 'formula': tree_str(t), 'formula_sexpr': sexpr(t), 'impl_restricted': sexpr(r)})
        elif sexpr(r) != mr.strip() or sexpr(ln) != mln.strip():
            # the correspondence is broken: the trees differ from the model's.  The property itself only asks for
            # equivalence, so search for a structure that separates the implementation's output from the original
            bad += 1
            broken.append((logic, t, r, ln, mr, mln))
    sep_found = 0
    if broken:
        from common import all_structures
        Ks = [K for n in (1, 2) for K in all_structures(n)] + rng.sample(list(all_structures(3)), 20)
        # the smallest broken cases are the cheapest to decide (the tableau is exponential in the temporal operators)
        small = [b for b in broken if F.temporal_count(b[1]) <= 2]
        small.sort(key=lambda b: len(sexpr(b[1])))
        broken = small[:6] if small else sorted(broken, key=lambda b: len(sexpr(b[1])))[:1]
        for logic, t, r, ln, mr, mln in broken:
            def wrap(x):
                if logic == 'CTL' or (logic == 'CTLS' and F.is_ctls_state(x) and F.is_ctls_state(t)):
                    return [('CTL' if logic == 'CTL' else 'CTLS', x)]
                return [('CTLS', ('A', x)), ('CTLS', ('E', x))]
            pairs = [(t, r), (('not', t), ln)]
            witness = None
            for orig, out in pairs:
                if witness:
                    break
                wa, wb = wrap(orig), wrap(out)
                lines2 = []
                for K in Ks:
                    for (m1, x1), (m2, x2) in zip(wa, wb):
                        lines2.append('%s|%s|%s' % (m1, K.enc(), sexpr(x1)))
                        lines2.append('%s|%s|%s' % (m2, K.enc(), sexpr(x2)))
                ans = lean_batch(lines2)
                k = 0
                for K in Ks:
                    for _ in wa:
                        if ans[k].strip() != ans[k + 1].strip() and ans[k].startswith('OK') and ans[k + 1].startswith('OK'):
                            witness = (K, orig, out, ans[k], ans[k + 1])
                        k += 2
                        if witness:
                            break
                    if witness:
                        break
            if witness:
                sep_found += 1
                K, orig, out, a1, a2 = witness
                res.violation('%s: the rewriting/LNot of %s is %s, which is NOT equivalent: on the structure %s the '
                              'original holds at %s, the output at %s' % (logic, tree_str(orig), tree_str(out), K.describe(), a1, a2),
                              {'logic': logic, 'formula': tree_str(t), 'formula_sexpr': sexpr(t), 'impl_restricted': sexpr(r),
                               'impl_lnot': sexpr(ln), 'structure': K.describe(), 'original_sat': a1, 'output_sat': a2})
            else:
                res.violation('%s rewriting of %s: output tree %s (LNot %s) differs from the model\'s %s (%s); no separating '
                              'structure with <= 3 states found — correspondence PMC.Fm.restrict/restrictCTL/lnot vs '
                              'get_equivalent_restricted_formula/LNot no longer checks'
                              % (logic, tree_str(t), tree_str(r), tree_str(ln), mr, mln),
                              {'logic': logic, 'formula_sexpr': sexpr(t), 'impl_restricted': sexpr(r), 'model_restricted': mr,
                               'impl_lnot': sexpr(ln), 'model_lnot': mln,
                               'correspondence': 'PMC.Fm.restrict / restrictCTL / lnot (PMC/Model/Syntax.lean) vs the implementation'},
                              no_input=True)
    if kf_live:
        for k in kf:
            res.known.append(k['what'])
    problems = proof_coverage(res, THEOREMS, MODULES)
    for p in problems:
        res.violation('proof obligation no longer checks: ' + p, {'theorem_or_module': p}, no_input=True)
    res.coverage.update({
        'evaluations': len(cases), 'distinct_nontrivial': len(distinct),
        'same_print_different_tree_triples': ncoll, 'formulas_with_one_or_no_operand_and_or': ndeg,
        'rule': 'every CTL state / LTL path / CTL* formula of depth <=1 (%d, exhaustive), depth 2 (sampled in quick), '
                'random to depth 6 with n-ary and/or; distinct_nontrivial = distinct formulas that the rewriting '
                'changes' % n_exh,
        'exhaustive': True, 'exhaustive_scope': 'depth <= 1 per logic', 'operators': ops, 'disagreements': bad,
        'error_kinds': errs,
        'samples': [{'logic': cases[i][0], 'formula': tree_str(cases[i][1]),
                     'impl': tree_str(impl[i][0]),
                     'model': model[2 * i]} for i in (5, len(cases) // 2, len(cases) - 1)],
        'traces_validated_against_impl': len(cases),
    })
