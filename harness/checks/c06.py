"""C06 — answers are independent of presentation order, naming and hash seed.

Theorems: PMC/Properties/C06.lean (presentation / state renaming / atom renaming / unreachable states, for the CTL
and LTL models, from exactness + invariance of the semantics).  Tie: for each (K, f) several presentations (state
bijections to ints / strings / tuples / mixed, shuffled S, R, L, renamed atoms, added unreachable component) are run
under several PYTHONHASHSEEDs, each seed in a fresh interpreter; all answers must coincide after mapping back, and
coincide with the Lean model's answer on the canonical presentation.
"""
import json
import os
import subprocess
import sys
from concurrent.futures import ThreadPoolExecutor

import common
from common import lean_batch, proof_coverage, random_structure, rng_for, sexpr, tree_str, all_structures
from checks import mc_common
from gen import formulas as F
from theorems import get

MODULES, THEOREMS = get('C06')


def rename_atoms(t, m):
    if t in ('tt', 'ff'):
        return t
    if t[0] == 'ap':
        return ('ap', m.get(t[1], t[1]))
    return (t[0],) + tuple(rename_atoms(c, m) for c in t[1:])


def presentation(rng, K, tree, kind):
    n = K.n
    if kind == 'ints':
        names = rng.sample(range(-50, 50), n)
    elif kind == 'strings':
        names = ['s%d' % rng.randrange(1000) + chr(97 + i) for i in range(n)]
    elif kind == 'tuples':
        names = [[rng.randrange(5), 'x%d' % i] for i in range(n)]
    else:
        pool = [7, 's', [1, 2], 3.5, 'tt', [0], -1, 'q0']
        names = rng.sample(pool, n)
    amap = {}
    if rng.random() < 0.5:
        amap = {'p': 'alpha_%d' % rng.randrange(9), 'q': 'Beta'}
    states = list(names)
    back = list(range(n))
    R = [(names[s], names[d]) for s in range(n) for d in K.succ[s]]
    L = [(names[s], [amap.get(l, l) for l in K.labs[s]]) for s in range(n)]
    # unreachable component: new states with edges among themselves and into K, never from K
    if rng.random() < 0.5:
        extra = [['extra', i] for i in range(rng.randint(1, 2))]
        for e in extra:
            states.append(e)
            back.append(None)
            tgt = rng.choice(extra + [names[rng.randrange(n)]])
            R.append((e, tgt))
            if rng.random() < 0.5:
                R.append((e, e))
            L.append((e, [amap.get(a, a) for a in ('p', 'q') if rng.random() < 0.5]))
    order = list(range(len(states)))
    rng.shuffle(order)
    states = [states[i] for i in order]
    back = [back[i] for i in order]
    rng.shuffle(R)
    rng.shuffle(L)
    if rng.random() < 0.3:   # leave some states to be discovered through R only
        keep = [i for i in range(len(states)) if rng.random() < 0.6]
        states2 = [states[i] for i in keep]
        # `back` must cover every state the structure ends up with: keep the full map separately
        return {'states_arg': states2, 'states': states, 'back': back, 'R': R, 'L': L, 'formula': rename_atoms(tree, amap)}
    return {'states_arg': states, 'states': states, 'back': back, 'R': R, 'L': L, 'formula': rename_atoms(tree, amap)}


def run_seed(seed, jobs):
    env = dict(os.environ, PYTHONHASHSEED=str(seed), REPO=common.REPO)
    p = subprocess.run([sys.executable, os.path.join(common.ROOT, 'harness', 'workers', 'mc_worker.py')],
                       input=json.dumps(jobs), stdout=subprocess.PIPE, stderr=subprocess.PIPE, text=True, env=env)
    if p.returncode != 0:
        raise common.HarnessError('worker failed under PYTHONHASHSEED=%s: %s' % (seed, p.stderr[-1500:]))
    return json.loads(p.stdout)


def run(res):
    rng = rng_for('C06')
    quick = res.tier == 'quick'
    seeds = [0, 1, 2, 3] if quick else list(range(32))
    ncases = 300 if quick else 1500
    base = []
    small = [K for n in (2, 3) for K in all_structures(n)]
    for i in range(ncases):
        K = rng.choice(small) if i % 2 else random_structure(rng, 5)
        r = i % 3
        if r == 0:
            base.append(('CTL', K, F.rand_ctl(rng, 3)))
        elif r == 1:
            base.append(('LTL', K, ('A', F.rand_ltl_path(rng, 3, max_temporal=3))))
        else:
            base.append(('CTLS', K, F.rand_ctls_state(rng, 4, max_temporal=3)))
    jobs = []
    owner = []
    kinds = ['ints', 'strings', 'tuples', 'mixed']
    for ci, (logic, K, t) in enumerate(base):
        for k in range(3):
            pr = presentation(rng, K, t, kinds[(ci + k) % 4])
            jobs.append({'logic': logic, 'formula': pr['formula'], 'states': pr['states'], 'states_arg': pr['states_arg'],
                         'R': pr['R'], 'L': pr['L'], 'back': pr['back'], 'entry': 'text' if k == 2 else 'obj'})
            owner.append(ci)
    # the worker builds Kripke(S=states): to let R introduce states, pass only part of the states for some jobs
    with ThreadPoolExecutor(min(len(seeds), common.NPROC)) as ex:
        answers = list(ex.map(lambda s: run_seed(s, jobs), seeds))
    model = [mc_common.norm(x) for x in lean_batch(['%s|%s|%s' % (l, K.enc(), sexpr(t)) for (l, K, t) in base])]
    bad = 0
    nontrivial = set()
    for ji in range(len(jobs)):
        ci = owner[ji]
        want = model[ci]
        for si, seed in enumerate(seeds):
            got = mc_common.norm(answers[si][ji])
            if got != want:
                bad += 1
                if bad <= 3:
                    logic, K, t = base[ci]
                    res.violation('%s.modelcheck(%s) under PYTHONHASHSEED=%d on a re-presented structure gives %s, '
                                  'canonical answer (model, proved) %s' % (logic, tree_str(t), seed, got, want),
                                  {'logic': logic, 'canonical_structure': K.describe(), 'formula': tree_str(t),
                                   'presentation': jobs[ji], 'seed': seed, 'impl': got, 'model': want})
                break
        if want.startswith('OK') and 0 < len(want.split()) - 1 < base[ci][1].n:
            nontrivial.add(ci)
    problems = proof_coverage(res, THEOREMS, MODULES)
    for p in problems:
        res.violation('proof obligation no longer checks: ' + p, {'theorem_or_module': p}, no_input=True)
    res.coverage.update({
        'evaluations': len(jobs) * len(seeds), 'distinct_nontrivial': len(nontrivial),
        'rule': '%d (K, f) cases (CTL / LTL / CTL*; small-scope and random structures), 3 presentations each (state '
                'bijections to ints / strings / tuples / mixed types, shuffled S, R, L, atoms renamed in half of them, '
                'an unreachable component added in half of them, text entry for one), each under PYTHONHASHSEED in %s, '
                'fresh interpreter per seed; distinct_nontrivial = cases with a non-constant answer'
                % (len(base), seeds),
        'hash_seeds': seeds, 'presentations': len(jobs), 'disagreements': bad,
        'samples': [jobs[0], jobs[len(jobs) // 2]],
        'traces_validated_against_impl': len(jobs) * len(seeds),
    })
