"""C07 — model checking is a pure function of its arguments.

Model side: the three checkers are mathematical functions of (K, f) — no hidden state — and every label written by
CTL*/fairness goes to a clone (PMC/Properties/C07.lean: frame theorems over the effect model).  Tie: random
interleavings of modelcheck calls (three logics, text/object formulas, with and without F) over a pool of live
structures and formula objects; a deep snapshot (states, transitions, content and id of every label set, S0, tree and
node ids of every formula object) is taken around every call; a repeated call must return a set equal to its first
answer and (for F=None) to the Lean model's.
"""
import contextlib
import io

from common import (KS, from_obj, lang, lean_batch, proof_coverage, random_structure, rng_for, sexpr, to_obj, tree_str,
                    all_structures)
from checks import mc_common
from gen import formulas as F
from theorems import get

MODULES, THEOREMS = get('C07')


def snap_k(K):
    # content of states, transitions, every label set and S0 (the identity of the containers is not part of the property)
    return ({k: frozenset(v) for k, v in K._next.items()}, {k: frozenset(v) for k, v in K._labels.items()}, frozenset(K.S0))


def snap_f(o):
    if isinstance(o, str):
        return o
    out = []

    def go(x):
        out.append((type(x).__module__, type(x).__name__, getattr(x, 'name', None), getattr(x, '_value', None),
                    len(getattr(x, '_subformula', []) or [])))
        for c in getattr(x, '_subformula', []) or []:
            go(c)
    go(o)
    return (tuple(out), str(o))


def run(res):
    rng = rng_for('C07')
    quick = res.tier == 'quick'
    nhist = 12 if quick else 30
    length = 250 if quick else 800
    import validate_fair as VF
    lines, impl_first, owners = [], [], []
    flines, fimpl, fowners = [], [], []
    violations = []
    edits = {'label_add': 0, 'label_discard': 0, 'replace_labelling': 0, 'F_edited_in_place': 0}
    calls = 0
    kinds = {}
    for h in range(nhist):
        small = [K for n in (2, 3) for K in all_structures(n)]
        pool_ks = [rng.choice(small) for _ in range(3)] + [random_structure(rng, 5) for _ in range(3)]
        # two of the pooled structures use atoms spelled like the labels the fairness code invents
        for i in (1, 4):
            ren = {'q': 'fair', 'r': 'fair0'} if i == 1 else {'p': 'fair'}
            pool_ks[i] = KS(pool_ks[i].succ, [[ren.get(l, l) for l in ls] for ls in pool_ks[i].labs])
        pool_k = [k.to_impl() for k in pool_ks]
        version = [0] * len(pool_ks)
        aliased = [False] * len(pool_ks)
        F_pool = [[set(), set()][:rng.choice([0, 1, 2])] for _ in range(3)]     # live lists, edited in place between calls
        forms = []
        for _ in range(4):
            forms.append(('CTL', F.rand_ctl(rng, 3)))
            forms.append(('LTL', ('A', F.rand_ltl_path(rng, 3, max_temporal=3))))
            forms.append(('CTLS', F.rand_ctls_state(rng, 4, max_temporal=3)))
        objs = []
        for logic, t in forms:
            L = lang(logic)
            o = to_obj(t, L)
            objs.append((logic, t, o, str(to_obj(t, lang('CTLS') if logic == 'CTL' else L))))
        seen = {}
        for step in range(length):
            ki = rng.randrange(len(pool_k))
            # the caller changes its own objects between calls (public API): the next answers must follow
            if rng.random() < 0.04:
                n = pool_ks[ki].n
                st_, ap = rng.randrange(n), rng.choice(['p', 'q', 'r', 'fair'])
                how = rng.choice(['label_add', 'label_discard', 'replace_labelling'])
                if aliased[ki]:
                    how = 'replace_labelling'      # in-place edits of shared / frozen label sets would edit several states
                labs = [list(ls) for ls in pool_ks[ki].labs]
                if how == 'label_add':
                    pool_k[ki].labels(st_).add(ap)
                    labs[st_] = sorted(set(labs[st_]) | {ap})
                elif how == 'label_discard':
                    pool_k[ki].labels(st_).discard(ap)
                    labs[st_] = [l for l in labs[st_] if l != ap]
                else:
                    labs = [[l for l in ('p', 'q', 'r') if rng.random() < 0.4] for _ in range(n)]
                    if rng.random() < 0.5:
                        pool_k[ki].replace_labelling_function({s_: set(ls) for s_, ls in enumerate(labs)})
                        aliased[ki] = False
                    else:
                        # the caller's dict uses ONE object for equal label sets, some of them frozensets
                        shared = {}
                        mk_ = frozenset if rng.random() < 0.5 else set
                        pool_k[ki].replace_labelling_function(
                            {s_: shared.setdefault(frozenset(ls), mk_(ls)) for s_, ls in enumerate(labs)})
                        aliased[ki] = True
                        edits['replace_labelling_with_shared_or_frozen_sets'] = edits.get('replace_labelling_with_shared_or_frozen_sets', 0) + 1
                pool_ks[ki] = KS(pool_ks[ki].succ, labs)
                version[ki] += 1
                edits[how] += 1
            fi = rng.randrange(len(objs))
            logic, t, o, txt = objs[fi]
            entry = rng.choice(['obj', 'obj', 'text'])
            withF = rng.random() < 0.25
            Fv = None
            if withF:
                n = pool_ks[ki].n
                if rng.random() < 0.5:
                    Fv = [set(s for s in range(n) if rng.random() < 0.5) for _ in range(rng.choice([0, 1, 2]))]
                else:
                    Fv = rng.choice(F_pool)              # the same list object as in earlier calls, edited in place
                    for P in Fv:
                        P.clear()
                        P.update(s for s in range(n) if rng.random() < 0.5)
                    edits['F_edited_in_place'] += 1
                Fkey = tuple(tuple(sorted(P)) for P in Fv)
            else:
                Fkey = None
            arg = o if entry == 'obj' else txt
            K = pool_k[ki]
            before_k = [snap_k(x) for x in pool_k]
            before_f = [snap_f(x[2]) for x in objs]
            before_F = None if Fv is None else [frozenset(P) for P in Fv]
            try:
                with contextlib.redirect_stdout(io.StringIO()):
                    r = lang(logic).modelcheck(K, arg, F=Fv) if withF else lang(logic).modelcheck(K, arg)
                a = 'OK ' + ' '.join(map(str, sorted(r)))
            except Exception as e:
                a = 'ERR ' + type(e).__name__
            calls += 1
            kinds[(logic, entry, withF)] = kinds.get((logic, entry, withF), 0) + 1
            after_k = [snap_k(x) for x in pool_k]
            after_f = [snap_f(x[2]) for x in objs]
            ctx = {'history': h, 'step': step, 'logic': logic, 'structure': pool_ks[ki].describe(),
                   'formula': tree_str(t), 'entry': entry, 'F': [sorted(P) for P in Fv] if withF else None}
            if after_k != before_k:
                which = [i for i in range(len(pool_k)) if after_k[i] != before_k[i]]
                violations.append(('a modelcheck call modified Kripke structure(s) #%s of the pool (called on #%d)' % (which, ki), ctx))
                pool_k = [k.to_impl() for k in pool_ks]   # restore and go on
                aliased = [False] * len(pool_ks)
            if after_f != before_f:
                violations.append(('a modelcheck call modified a formula object', ctx))
            if Fv is not None and [frozenset(P) for P in Fv] != before_F:
                violations.append(('a modelcheck call modified the caller\'s fairness constraints: %s -> %s'
                                   % ([sorted(P) for P in before_F], [sorted(P) for P in Fv]), ctx))
                for P, B0 in zip(Fv, before_F):
                    P.clear()
                    P.update(B0)
            # purity as "a function of the VALUES of its arguments": the same call on freshly built equal arguments
            if step % 3 == 0 or withF:
                try:
                    with contextlib.redirect_stdout(io.StringIO()):
                        Kf = pool_ks[ki].to_impl()
                        argf = to_obj(t, lang(logic)) if entry == 'obj' else str(txt)
                        rf = (lang(logic).modelcheck(Kf, argf, F=[set(P) for P in Fv]) if withF
                              else lang(logic).modelcheck(Kf, argf))
                    af = 'OK ' + ' '.join(map(str, sorted(rf)))
                except Exception as e:
                    af = 'ERR ' + type(e).__name__
                if af != a:
                    violations.append(('the answer depends on the history of the objects: %s on the pooled (long-lived, '
                                       'possibly relabelled) structure / formula / F list, %s on freshly built equal arguments'
                                       % (a, af), ctx))
            key = (ki, version[ki], fi, Fkey)   # text and object entry must give the same answer as well
            if key in seen:
                if seen[key] != a:
                    violations.append(('repeating the call returned %s, the first call returned %s' % (a, seen[key]), ctx))
            else:
                seen[key] = a
                if not withF:
                    lines.append('%s|%s|%s' % (logic, pool_ks[ki].enc(), sexpr(t)))
                    impl_first.append(a)
                    owners.append(ctx)
                else:
                    # with F: the as-implemented fairness model (validated in C15), fed with the clone's iteration order
                    flines.append('%s|%s|%s|%s' % (VF.CMD[logic], VF.enc_struct(K.clone()), VF.enc_fair([sorted(P) for P in Fv]), sexpr(t)))
                    fimpl.append(a)
                    fowners.append(ctx)
    # concurrency: the same long-lived structures and formula objects queried from several threads at once; every
    # answer must be the one obtained sequentially
    import threading
    import sys as _sys
    from common import big_structure
    tK = [random_structure(rng, 5) for _ in range(2)] + [big_structure(rng, 8, 10)]
    tk = [k.to_impl() for k in tK]
    tf = []
    for _ in range(6):
        tf.append(('CTL', to_obj(F.rand_ctl(rng, rng.choice([3, 4, 5])), lang('CTL'))))
        tf.append(('CTLS', to_obj(F.rand_ctls_state(rng, 3, max_temporal=2), lang('CTLS'))))
    for _ in range(2):
        tf.append(('LTL', to_obj(('A', F.rand_ltl_path(rng, 2, max_temporal=2)), lang('LTL'))))
    jobs_t = [(ki, fi) for ki in range(len(tk)) for fi in range(len(tf))]

    def ask(ki, fi):
        logic, o = tf[fi]
        try:
            return 'OK ' + ' '.join(map(str, sorted(lang(logic).modelcheck(tk[ki], o))))
        except Exception as e:
            return 'ERR ' + type(e).__name__
    real_stdout = _sys.stdout
    _sys.stdout = io.StringIO()          # one redirection for the whole section (redirect_stdout is not thread-safe)
    seq_ans = {j: ask(*j) for j in jobs_t}
    par_ans = {}

    def worker(share):
        for j in share:
            par_ans[j] = ask(*j)
    order_t = list(jobs_t) * (3 if quick else 10)
    rng.shuffle(order_t)
    par_bad = {}

    def worker(share):                                      # noqa: F811
        for j in share:
            a_ = ask(*j)
            if a_ != seq_ans[j]:
                par_bad[j] = a_
    old_si = _sys.getswitchinterval()
    _sys.setswitchinterval(1e-6)                            # switch threads as often as the interpreter allows
    try:
        threads = [threading.Thread(target=worker, args=(order_t[i::4],)) for i in range(4)]
        for th in threads:
            th.start()
        for th in threads:
            th.join()
    finally:
        _sys.setswitchinterval(old_si)
        _sys.stdout = real_stdout
    par_ans = dict(seq_ans)
    par_ans.update(par_bad)
    tbad = sorted(par_bad)
    for j in tbad[:2]:
        violations.append(('queried from 4 threads at once, %s on structure #%d answers %s; alone it answers %s'
                           % (tf[j[1]][1], j[0], par_ans.get(j), seq_ans[j]),
                           {'structure': tK[j[0]].describe(), 'formula': str(tf[j[1]][1]), 'logic': tf[j[1]][0],
                            'history': '4 threads share the structures and formula objects'}))
    model = [mc_common.norm(x) for x in lean_batch(lines)]
    bad = 0
    for a, m, ctx in zip(impl_first, model, owners):
        if mc_common.norm(a) != m:
            bad += 1
            if bad <= 2:
                res.violation('answer %s differs from the model (proved exact) %s' % (a, m), dict(ctx, impl=a, model=m))
    fbad = 0
    for a, m, ctx in zip(fimpl, [VF.norm(x) for x in lean_batch(flines)], fowners):
        if VF.norm(a) != m:
            fbad += 1
            if fbad <= 2:
                res.violation('with F, on long-lived objects the answer is %s; the as-implemented fairness model (tied to '
                              'fresh-object runs by C15) gives %s: the answer depends on history' % (a, m), dict(ctx, impl=a, model=m))
    for what, ctx in violations[:3]:
        res.violation(what, ctx)
    problems = proof_coverage(res, THEOREMS, MODULES)
    for p in problems:
        res.violation('proof obligation no longer checks: ' + p, {'theorem_or_module': p}, no_input=True)
    res.coverage.update({
        'evaluations': calls, 'distinct_nontrivial': len(lines),
        'rule': '%d histories of %d modelcheck calls over a pool of 6 live structures and 12 live formula objects '
                '(CTL / LTL / CTL*, object and text entry, 25%% with a random F); deep snapshot of every pooled '
                'structure and formula around every call; distinct_nontrivial = distinct (structure, formula) pairs '
                'without F, whose first answer is also compared with the Lean model' % (nhist, length),
        'call_kinds': {'%s/%s/%s' % k: v for k, v in sorted(kinds.items())},
        'purity_violations': len(violations), 'model_disagreements': bad, 'fair_model_disagreements': fbad,
        'caller_side_edits_between_calls': edits, 'threaded_calls': len(order_t), 'threaded_disagreements': len(tbad), 'calls_with_F_compared_with_model': len(flines),
        'samples': owners[:2],
        'traces_validated_against_impl': nhist,
    })
    if not THEOREMS:
        res.level = 'exploration'
