"""C08 — formula objects always belong to their logic; out-of-logic input is rejected.

Translator: harness/extract/classes.py observes the live class lattice (alphabets, the operand class each constructor
hands to wrap_subformulas, subclass facts) and regenerates PMC/Generated/ClassTable.lean on every run.
Theorems: PMC/Properties/C08.lean — for the reference lattice `refTable`: construct / cast_to succeed exactly on the
trees that are formulas of the logic and otherwise raise TypeError (AttributeError only for an operator the module
does not have), the three modelcheck guards; generated obligation `table_ok : generatedTable = refTable`.
Tie: all ranked operator trees over the union alphabet to depth 2 (exhaustive) + sampled depth 3, in the four modules:
construct, cast_to every other module, mixed-module operands, the three guards with a Kripke and a non-Kripke;
independent direct oracle on the implementation: whatever gets built in module M is a formula of M by the documented
syntax (decided by the driver's `inLogic` on the tree), casts keep the tree and land in the target module.
Stream FAPI (checks/formula_api.py, PMC/Properties/C08Api.lean): operators & | ~, the CTL shortcuts, str/bool/other
operands of every constructor, clone(), subformula(i)/subformulas() against PMC/Model/FormulaApi.lean.
"""
import common
from common import lean_batch, proof_coverage, rng_for, sexpr, tree_str, tree_depth
from theorems import get
import validate_classes as V
from checks import formula_api

MODULES, THEOREMS = get('C08')


def run(res):
    rng = rng_for('C08')
    quick = res.tier == 'quick'
    mods = {m: common.lang(m) for m in V.LOGICS}
    from pyModelChecking.kripke import Kripke
    K = Kripke(S=[0, 1], R=[(0, 1), (1, 0), (1, 1)], L={0: set(['p']), 1: set()})
    NOTK = {'S': [0, 1]}
    all2, level = V.trees_upto(2)
    d3 = V.sample_depth3(rng, all2, level[2], 1500 if quick else 40000)
    trees = all2 + d3
    lines, expect, what = [], [], []
    stats = {}
    direct = []

    def add(kind, line, r, desc):
        lines.append(line)
        expect.append(V.ans(r))
        what.append(desc)
        d = stats.setdefault(kind, {})
        d[r] = d.get(r, 0) + 1

    built = {m: [] for m in V.LOGICS}
    inlogic_q = []
    for m in V.LOGICS:
        for t in trees:
            r, obj = V.py_result(lambda: common.to_obj(t, mods[m]))
            add('construct', 'CONSTRUCT|%s|%s' % (m, sexpr(t)), r, ('construct', m, t))
            inlogic_q.append((m, t, r))
            if r == 'OK':
                if common.from_obj(obj) != t or not all(common.obj_module(o) == m for o in V.walk(obj)):
                    direct.append(('%s constructor returned a different tree or foreign nodes for %s' % (m, tree_str(t)), m, t))
                built[m].append((t, obj))
            elif r not in ('TypeError', 'AttributeError'):
                direct.append(('building %s in %s raised %s' % (tree_str(t), m, r), m, t))
    for m in V.LOGICS:
        sample = built[m] if not quick else built[m][:: max(1, len(built[m]) // 1500)]
        for t, obj in sample:
            for m2 in V.LOGICS:
                if m2 == m:
                    continue
                r, o2 = V.py_result(lambda: obj.cast_to(mods[m2]))
                if r == 'OK' and (common.from_obj(o2) != t or not all(common.obj_module(o) == m2 for o in V.walk(o2))):
                    direct.append(('cast_to(%s) of the %s formula %s changed the tree or kept foreign nodes' % (m2, m, tree_str(t)), m, t))
                    r = 'WRONG-STRUCTURE'
                if r not in ('OK', 'TypeError', 'WRONG-STRUCTURE'):
                    direct.append(('cast_to(%s) of %s raised %s' % (m2, tree_str(t), r), m, t))
                add('cast', 'CAST|%s|%s|%s' % (m, m2, sexpr(t)), r, ('cast', m, m2, t))
    small = {m: [(t, o) for t, o in built[m] if tree_depth(t) <= 1] for m in V.LOGICS}
    pool = [(m, t, o) for m in V.LOGICS for t, o in small[m]]
    for m in V.LOGICS:
        for op in V.UN:
            for (mi, t, o) in pool:
                r, _ = V.py_result(lambda: getattr(mods[m], common.CLASSNAME[op])(o))
                add('mixed', 'MIXED|%s|%s|%s %s' % (m, common.CLASSNAME[op], mi, sexpr(t)), r, ('mixed', m, op, [(mi, t)]))
        for op in V.BIN:
            for _ in range(60 if quick else 600):
                k = 2 if op in ('imp', 'U', 'R') else rng.choice([2, 2, 3])
                kids = [rng.choice(pool) for _ in range(k)]
                r, _ = V.py_result(lambda: getattr(mods[m], common.CLASSNAME[op])(*[o for _, _, o in kids]))
                add('mixed', 'MIXED|%s|%s|%s' % (m, common.CLASSNAME[op], ' ; '.join('%s %s' % (mi, sexpr(t)) for mi, t, _ in kids)),
                    r, ('mixed', m, op, [(mi, t) for mi, t, _ in kids]))
    # operator overloads (&, |, ~ with formula / bool / str operands on either side) and the CTL shortcuts AX … ER
    overload = 0
    for m in V.LOGICS:
        L = mods[m]
        objs = [o for t, o in small[m]][:40]
        for a in objs:
            for b in rng.sample(objs, 3) + [True, False, 'r']:
                for name, build, ctor in (('a & b', lambda: a & b, lambda: L.And(a, b)), ('a | b', lambda: a | b, lambda: L.Or(a, b)),
                                          ('b & a', lambda: b & a, lambda: L.And(b, a)), ('b | a', lambda: b | a, lambda: L.Or(b, a))):
                    if isinstance(b, str) and name.startswith('b'):
                        continue   # str has its own & / |: not a formula operation
                    overload += 1
                    r1, o1 = V.py_result(build)
                    r2, o2 = V.py_result(ctor)
                    same = (r1 == r2) and (r1 != 'OK' or (common.from_obj(o1) == common.from_obj(o2) and type(o1) is type(o2)))
                    if not same:
                        direct.append(('%s in %s: the operator gives %s, the constructor %s' % (name, m, r1, r2), m, common.from_obj(a)))
            r1, o1 = V.py_result(lambda: ~a)
            r2, o2 = V.py_result(lambda: L.Not(a))
            overload += 1
            if r1 != r2 or (r1 == 'OK' and common.from_obj(o1) != common.from_obj(o2)):
                direct.append(('~a in %s: the operator gives %s, the constructor %s' % (m, r1, r2), m, common.from_obj(a)))
    C = mods['CTL']
    for t, o in small['CTL'][:60]:
        for sc, (q, op) in {'AX': ('A', 'X'), 'EX': ('E', 'X'), 'AF': ('A', 'F'), 'EF': ('E', 'F'), 'AG': ('A', 'G'), 'EG': ('E', 'G')}.items():
            r, x = V.py_result(lambda: getattr(C, sc)(o))
            r2, x2 = V.py_result(lambda: common.to_obj((q, (op, t)), C))
            overload += 1
            if r != r2 or (r == 'OK' and common.from_obj(x) != common.from_obj(x2)):
                direct.append(('CTL.%s(%s) = %s, A/E(%s(..)) = %s' % (sc, tree_str(t), r, op, r2), 'CTL', t))
        for sc, (q, op) in {'AU': ('A', 'U'), 'EU': ('E', 'U'), 'AR': ('A', 'R'), 'ER': ('E', 'R')}.items():
            t2, o2 = rng.choice(small['CTL'][:60])
            r, x = V.py_result(lambda: getattr(C, sc)(o, o2))
            r2, x2 = V.py_result(lambda: common.to_obj((q, (op, t, t2)), C))
            overload += 1
            if r != r2 or (r == 'OK' and common.from_obj(x) != common.from_obj(x2)):
                direct.append(('CTL.%s = %s, A/E(%s(..)) = %s' % (sc, r, op, r2), 'CTL', t))
    checkers = {'CTL': mods['CTL'].modelcheck, 'LTL': mods['LTL'].modelcheck, 'CTLS': mods['CTLS'].modelcheck}
    import contextlib
    import io
    for m in V.LOGICS:
        sample = built[m] if not quick else built[m][:: max(1, len(built[m]) // 700)]
        for t, obj in sample:
            for chk, fn in checkers.items():
                for flag, k in (('1', K), ('0', NOTK)):
                    with contextlib.redirect_stdout(io.StringIO()):
                        r, rr = V.py_result(lambda: fn(k.clone() if flag == '1' else k, obj))
                    if r == 'OK' and not isinstance(rr, set):
                        r = 'NOT-A-SET'
                    if r not in ('OK', 'TypeError'):
                        direct.append(('%s.modelcheck(%s, %s:%s) raised/returned %s' % (chk, 'K' if flag == '1' else 'non-Kripke', m, tree_str(t), r), m, t))
                    if flag == '0' and r != 'TypeError':
                        direct.append(('%s.modelcheck on a non-Kripke did not raise TypeError (%s)' % (chk, r), m, t))
                    add('guard-' + chk, 'GUARD|%s|%s|%s|%s' % (chk, m, sexpr(t), flag), r, ('guard', chk, m, t, flag))
    # the rest of the formula API (operators, CTL shortcuts, shorthand operands, clone, subformula) vs PMC/Model/FormulaApi.lean
    fapi = formula_api.run_stream(res, rng_for('C08/FAPI'), quick, mods, small, built)
    got = lean_batch(lines)
    inl = lean_batch(['INLOGIC|%s|%s' % (m, sexpr(t)) for m, t, _ in inlogic_q])
    for (m, t, r), a in zip(inlogic_q, inl):
        if (r == 'OK') != (a.strip() == 'true'):
            direct.append(('%s: building %s gives %s but the documented syntax says in-logic=%s' % (m, tree_str(t), r, a), m, t))
    # is_a_state_formula() of every object built in the CTL* and CTL modules vs the model's state-formula predicates
    # (Fm.isCTLSState is a hypothesis of the C03 theorems, Fm.isCTLState of C01's)
    isq = [(m, t, o) for m in ('CTLS', 'CTL') for t, o in built[m]]
    isstate_bad = 0
    for (m, t, o), a in zip(isq, lean_batch(['ISSTATE|%s|%s' % (m, sexpr(t)) for m, t, _ in isq])):
        r, v = V.py_result(lambda: o.is_a_state_formula())
        got_ = ('true' if v else 'false') if r == 'OK' and isinstance(v, bool) else r
        if got_ != a.strip():
            isstate_bad += 1
            if isstate_bad <= 2:
                res.violation('%s: is_a_state_formula() of %s is %s, the model\'s state-formula predicate says %s — correspondence '
                              'Fm.isCTLSState / isCTLState vs is_a_state_formula no longer checks' % (m, tree_str(t), got_, a.strip()),
                              {'module': m, 'tree': sexpr(t), 'impl': got_, 'model': a.strip(),
                               'correspondence': 'PMC.Fm.isCTLSState / isCTLState (PMC/Model/Syntax.lean) vs is_a_state_formula'},
                              no_input=True)
    bad = 0
    for w, e, g in zip(what, expect, got):
        if e != g.strip():
            bad += 1
            if bad <= 3:
                res.violation('%s: implementation %s, model (extracted lattice) %s' % (w[0:3], e, g),
                              {'operation': [str(x) for x in w], 'impl': e, 'model': g})
    for d in direct[:3]:
        res.violation(d[0], {'module': d[1], 'tree': sexpr(d[2])})
    problems = proof_coverage(res, THEOREMS, MODULES)
    for p in problems:
        res.violation('proof obligation no longer checks: ' + p, {'theorem_or_module': p}, no_input=True)
    res.coverage.update({
        'evaluations': len(lines), 'distinct_nontrivial': sum(v for k, d in stats.items() for r, v in d.items() if r == 'OK'),
        'rule': 'all ranked operator trees over the union alphabet to depth 2 (%d, exhaustive) + %d sampled depth-3 '
                'trees x 4 modules: construct; cast_to the 3 other modules; mixed-module operands (every unary class x '
                'every depth<=1 object of every module, sampled binary/n-ary); 3 modelcheck guards with a Kripke and '
                'a non-Kripke; distinct_nontrivial = operations that succeed' % (len(all2), len(d3)),
        'exhaustive': True, 'exhaustive_scope': 'depth <= 2', 'outcomes': stats, 'disagreements': bad,
        'direct_oracle_violations': len(direct), 'operator_overload_and_shortcut_cases': overload,
        'is_a_state_formula_compared': len(isq), 'is_a_state_formula_mismatches': isstate_bad,
        'formula_api': fapi, 'formula_api_cases': fapi['cases'], 'formula_api_mismatches': fapi['mismatches'],
        'formula_api_results_outside_the_logic': fapi['results_outside_the_logic'],
        'samples': [{'op': lines[i], 'impl': expect[i], 'model': got[i]} for i in (7, len(lines) // 2, len(lines) - 1)],
        'traces_validated_against_impl': len(lines),
    })
