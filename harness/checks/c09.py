"""C09 — printing then parsing a formula gives back the same formula.

Theorems: PMC/Properties/C09.lean (the printed language is uniquely decodable; printing is injective in both
notations).  Tie: (1) str(f) vs the model's printer, character for character (both notations); (2) Parser()(str(f)) vs f
structurally (class module, class names, atom names, child order — never ==), for PL / LTL / CTL* and for CTL printed in
CTL* notation; (3) the table-driven Lean parser (C10's model, tables regenerated from the live Lark objects) on the
printed text vs f.
"""
from common import (from_obj, lang, lean_batch, obj_module, parse_sexpr, proof_coverage, rng_for, sexpr, to_obj,
                    tree_depth, tree_ops, tree_str)
from gen import formulas as F
from theorems import get

MODULES, THEOREMS = get('C09')
ATOMS = ('p', 'q', 'AX', 'Xp', 'nota', 'x_1', '_u', 'Truex', 'EG')


def enc_text(s):
    return ' '.join(str(ord(c)) for c in s)


def modules_of(o, acc):
    acc.add(type(o).__module__)
    for c in getattr(o, '_subformula', []) or []:
        modules_of(c, acc)
    return acc


def have_lean_parser():
    import os
    import common
    return os.path.exists(os.path.join(common.LEAN, 'PMC', 'Model', 'Parser.lean'))


def run(res):
    rng = rng_for('C09')
    quick = res.tier == 'quick'
    cases = []
    pools = {'PL': F.pl(2), 'LTL': F.ltl_path(1) + [('A', t) for t in F.ltl_path(1)],
             'CTLS': F.ltl_path(1) + [(q, t) for t in F.ltl_path(1) for q in 'AE'],
             'CTL': F.ctl_state(1)}
    for M, pool in pools.items():
        for t in pool:
            cases.append((M, t))
    n_exh = len(cases)
    d2 = {'PL': F.pl(3, consts=False), 'LTL': F.ltl_path(2, consts=False), 'CTL': F.ctl_state(2, consts=False)}
    for M, pool in d2.items():
        for t in rng.sample(pool, min(len(pool), 3000 if quick else 30000)):
            cases.append((M, t))
    for _ in range(3000 if quick else 30000):
        atoms = tuple(rng.sample(ATOMS, 3))
        cases.append(('PL', F.rand_pl(rng, rng.choice([3, 4, 5]), atoms=atoms)))
        cases.append(('CTL', F.rand_ctl(rng, rng.choice([3, 4, 5]), atoms=atoms)))
        cases.append(('LTL', ('A', F.rand_ltl_path(rng, rng.choice([3, 4, 5]), atoms=atoms, max_temporal=9))))
        cases.append(('LTL', F.rand_ltl_path(rng, rng.choice([3, 4, 5]), atoms=atoms, max_temporal=9)))
        cases.append(('CTLS', F.rand_ctls_state(rng, rng.choice([3, 4, 5]), atoms=atoms, max_temporal=5, qdepth=3)))
    plines, texts = [], []
    direct = []
    ops, depths = {}, {}
    parsers = {M: lang(M).Parser() for M in ('PL', 'CTL', 'LTL', 'CTLS')}
    for M, t in cases:
        L = lang(M)
        o = to_obj(t, L)
        own = str(o)
        star = own if M != 'CTL' else str(to_obj(t, lang('CTLS')))
        plines.append('PRINT|%s|%s' % (M, sexpr(t)))
        if M == 'CTL':
            plines.append('PRINT|CTLS|%s' % sexpr(t))
        texts.append((M, t, own, star))
        tree_ops(t, ops)
        depths[tree_depth(t)] = depths.get(tree_depth(t), 0) + 1
        try:
            back = parsers[M](star)
        except Exception as e:
            direct.append(('%s.Parser()(%r) raised %s' % (M, star, type(e).__name__), M, t, star))
            continue
        if from_obj(back) != t:
            direct.append(('%s.Parser()(str(f)) has a different tree: %s' % (M, tree_str(from_obj(back))), M, t, star))
        mods = modules_of(back, set())
        if mods != {'pyModelChecking.%s.language' % M}:
            direct.append(('%s.Parser()(str(f)) contains nodes of %s' % (M, sorted(mods)), M, t, star))
    model = lean_batch(plines)
    bad = 0
    k = 0
    # "two formulas with different trees never print identically": collisions inside this run, on the implementation
    seen = {}
    for (M, t, own, star) in texts:
        for notation, txt in (('own', own), ('ctls', star)):
            key = (M, notation, txt)
            if key in seen and seen[key] != t:
                direct.append(('%s: two different trees print identically as %r: %s and %s' % (M, txt, tree_str(seen[key]), tree_str(t)), M, t, txt))
            seen.setdefault(key, t)
    printer_diffs = []
    for (M, t, own, star) in texts:
        m_own = model[k]
        k += 1
        if own != m_own:
            bad += 1
            printer_diffs.append((M, t, own, m_own))
        if M == 'CTL':
            if star != model[k]:
                bad += 1
                printer_diffs.append((M, t, star, model[k]))
            k += 1
    for (M, t, a, m) in printer_diffs[:3]:
        # the printed text is model fidelity; the property is the round trip and injectivity, searched above and below
        res.violation('%s: str(f) = %r, the model prints %r%s' % (M, a, m, '' if direct else
                      ' — correspondence Fm.print/printCTL vs __str__ no longer checks; round trip and injectivity hold on '
                      'every formula of this run'),
                      {'logic': M, 'formula': sexpr(t), 'impl': a, 'model': m,
                       'correspondence': 'PMC.Fm.print / printCTL (PMC/Model/Syntax.lean) vs Formula.__str__'},
                      no_input=not direct)
    lean_parser = have_lean_parser()
    pbad = 0
    if lean_parser:
        plines2 = ['PARSE|%s|%s' % (M, enc_text(star)) for (M, t, own, star) in texts]
        pm = lean_batch(plines2)
        for (M, t, own, star), m in zip(texts, pm):
            if m.strip() != 'OK ' + sexpr(t):
                pbad += 1
                if pbad <= 3:
                    res.violation('the table-driven model of %s.Parser on %r gives %s, expected the tree of f' % (M, star, m),
                                  {'logic': M, 'formula': sexpr(t), 'text': star, 'model_parser': m})
    for d in direct[:3]:
        res.violation(d[0], {'logic': d[1], 'formula': sexpr(d[2]), 'text': d[3]})
    problems = proof_coverage(res, THEOREMS, MODULES)
    for p in problems:
        res.violation('proof obligation no longer checks: ' + p, {'theorem_or_module': p}, no_input=True)
    res.coverage.update({
        'evaluations': len(cases), 'distinct_nontrivial': len(set(cases)),
        'rule': 'every formula of depth <=2 (PL) / <=1 (LTL, CTL*, CTL) (%d, exhaustive), sampled depth 3 / 2, random to '
                'depth 5 with n-ary and/or of arity 2-4 over identifier atoms incl. operator-prefixed names (AX, Xp, '
                'nota, EG); distinct_nontrivial = distinct (logic, formula) pairs' % n_exh,
        'exhaustive': True, 'exhaustive_scope': 'depth <=1 per temporal logic, <=2 PL',
        'operators': ops, 'depths': depths, 'roundtrip_failures': len(direct), 'printer_disagreements': bad,
        'lean_parser_used': lean_parser, 'lean_parser_disagreements': pbad,
        'samples': [{'logic': M, 'formula': tree_str(t), 'printed': own, 'printed_for_parser': star}
                    for (M, t, own, star) in texts[:: max(1, len(texts) // 3)][:3]],
        'traces_validated_against_impl': len(cases),
    })
