"""C10 — parsers reject text outside their language with a positioned ParserError.

Theorems: PMC/Properties/C10.lean (for every table: error positions lie within the input, acceptance follows a
derivation of the extracted grammar; for the generated tables: `grammar_ok` ⇒ the result is a formula of the logic).
Translator: harness/extract/larktables.py regenerates PMC/Generated/Grammar.lean from the live Lark objects on every
run.  Tie: real parser vs the table-driven Lean parser on valid strings of every logic fed to every parser, token and
character mutations, random token sequences, character noise: verdict, tree, exception class and position.
Independently of the model, the implementation's outcome is checked directly against the property: exception class in
{UnexpectedToken, UnexpectedCharacters}, 0 <= pos <= len(s), result an object of exactly that logic's module whose tree
is a formula of the logic.
"""
import warnings

import common

from common import from_obj, lang, lean_batch, proof_coverage, rng_for, sexpr
from gen.formulas import is_ctl_state, is_ltl_path, is_pl
from theorems import get
import validate_parser as V

MODULES, THEOREMS = get('C10')


def in_logic(M, t):
    if M == 'PL':
        return is_pl(t)
    if M == 'CTL':
        if is_ctl_state(t):
            return True
        return isinstance(t, tuple) and t[0] in ('X', 'F', 'G', 'U', 'R') and all(is_ctl_state(c) for c in t[1:])
    if M == 'LTL':
        return is_ltl_path(t) or (isinstance(t, tuple) and t[0] == 'A' and is_ltl_path(t[1]))
    return True


def modules_of(o, acc):
    acc.add(type(o).__module__)
    for c in getattr(o, '_subformula', []) or []:
        modules_of(c, acc)
    return acc


def lang_outcome(p, s, L):
    """outcome of a parser built with language=L on s: ('OK', tree, modules) / ('ERR', class, pos) / ('EXC', class)"""
    import pyModelChecking.parser as PP
    try:
        with common.quiet():
            o = p(s)
    except (PP.UnexpectedToken, PP.UnexpectedCharacters) as e:
        return ('ERR', type(e).__name__, e.pos)
    except Exception as e:
        return ('EXC', type(e).__name__)
    try:
        return ('OK', from_obj(o), sorted(modules_of(o, set())))
    except RecursionError:
        return ('OK', None, sorted(modules_of(o, set())))


LANG_TEXTS = ['p and not q', 'A G (p --> A F q)', 'A F G q', 'A (p U X q)', 'E X p', 'not (p or true)', 'E (p U (q and A X p))',
              'A (F p or G q)', 'X p', '(p R q)', 'A F G q )', 'p and and', 'A G (p --> A F $)']


def _reverse_child():
    """fresh interpreter: for every notation N and language L the parser for L is created FIRST, then the default one"""
    import json
    out = {}
    for N in V.LOGICS:
        for L in V.LOGICS:
            if L == N:
                continue
            try:
                with common.quiet():
                    pl = lang(N).Parser(language=lang(L))
                    pd = lang(N).Parser()
            except Exception as e:
                out['%s/%s' % (N, L)] = ['ctor ' + type(e).__name__]
                continue
            out['%s/%s' % (N, L)] = [[lang_outcome(pl, s, L), lang_outcome(pd, s, N)] for s in LANG_TEXTS]
    print(json.dumps(out))


def language_stream(res, rng, quick, parsers, strings):
    """`N.Parser(language=L)`: N's notation, formulas built in L.  Expected (composition of the two models, both tied
    and proved elsewhere): where N's default parser reports a syntax error at p, the same error unless a constructor of
    L refused an already reduced subformula first (TypeError / AttributeError); where it accepts with tree t, exactly
    what building t in L gives (C08's `construct`): the same tree made of L's classes only, or a constructor error.
    History: the default parser exists BEFORE the language parser here, and AFTER it in a fresh interpreter."""
    import json
    import os
    import subprocess
    import sys
    texts = list(LANG_TEXTS) + [s for _, s in rng.sample(strings, min(len(strings), 300 if quick else 3000))
                                if not any(0xD800 <= ord(c) <= 0xDFFF for c in s)]
    problems, n = [], 0
    clines, cmeta = [], []
    for N in V.LOGICS:
        for L in V.LOGICS:
            if L == N:
                continue
            with common.quiet():
                pl = lang(N).Parser(language=lang(L))
            for s in texts:
                d = lang_outcome(parsers[N], s, N)
                a = lang_outcome(pl, s, L)
                n += 1
                if d[0] == 'EXC':
                    continue                      # reported by the main stream
                if d[0] == 'ERR':
                    if not (a == d or (a[0] == 'EXC' and a[1] in ('TypeError', 'AttributeError'))):
                        problems.append(('%s.Parser(language=%s)(%r): %s, while %s.Parser() reports %s' % (N, L, s, a, N, d), N, L, s))
                elif d[1] is not None:
                    clines.append('CONSTRUCT|%s|%s' % (L, sexpr(d[1])))
                    cmeta.append((N, L, s, d[1], a))
    for (N, L, s, t, a), m in zip(cmeta, lean_batch(clines)):
        m = m.strip()
        if m.startswith('OK'):
            want = ('OK', t, ['pyModelChecking.%s.language' % L])
        else:
            # the tree is not a formula of L: some constructor refuses; WHICH one is met first depends on the order of
            # construction (the parser builds bottom-up, `construct` looks the class up first), so only the kind is fixed
            want = a if (a[0] == 'EXC' and a[1] in ('TypeError', 'AttributeError')) else ('EXC', 'TypeError|AttributeError')
        if a != want:
            problems.append(('%s.Parser(language=%s)(%r) gives %s; building the parsed tree in %s gives %s'
                             % (N, L, s, a if a[0] != 'OK' else ('OK', sexpr(a[1]) if a[1] else None, a[2]), L, m), N, L, s))
    # reverse creation order, fresh interpreter
    here = os.path.dirname(os.path.dirname(os.path.abspath(__file__)))
    p = subprocess.run([sys.executable, '-c',
                        'import sys; sys.path.insert(0, %r); from checks import c10; c10._reverse_child()' % here],
                       stdout=subprocess.PIPE, stderr=subprocess.PIPE, text=True,
                       env=dict(os.environ, PYTHONPATH=os.pathsep.join(x for x in sys.path if x)))
    rev = 0
    if p.returncode != 0:
        problems.append(('the reverse-order scenario crashed: ' + p.stderr[-300:], '-', '-', ''))
    else:
        out = json.loads(p.stdout.strip().splitlines()[-1])
        for N in V.LOGICS:
            for L in V.LOGICS:
                if L == N:
                    continue
                with common.quiet():
                    pl = lang(N).Parser(language=lang(L))
                got = out['%s/%s' % (N, L)]
                for s, pair in zip(LANG_TEXTS, got):
                    rev += 1
                    here_l = json.loads(json.dumps(lang_outcome(pl, s, L)))
                    here_d = json.loads(json.dumps(lang_outcome(parsers[N], s, N)))
                    if pair[0] != here_l or pair[1] != here_d:
                        problems.append(('creation order matters: with %s.Parser(language=%s) created first and %s.Parser() second, '
                                         '%r gives %s / %s; in the other order %s / %s' % (N, L, N, s, pair[0], pair[1], here_l, here_d), N, L, s))
    for msg, N, L, s in problems[:3]:
        res.violation(msg, {'notation': N, 'language': L, 'text': s,
                            'history': 'see message: default parser first (in process) / language parser first (fresh interpreter)'})
    return {'language_parameter_cases': n, 'language_parameter_reverse_order_cases': rev, 'language_parameter_problems': len(problems)}


def run(res):
    import pyModelChecking.parser as PP
    rng = rng_for('C10')
    quick = res.tier == 'quick'
    strings = V.fixed_strings() if not quick else ([x for x in V.fixed_strings() if x[0] != 'long'][::3] + [x for x in V.fixed_strings() if x[0] == 'long'][::4])
    strings += V.random_strings(rng, 5000 if quick else 60000)
    with common.quiet():
        parsers = {M: lang(M).Parser() for M in V.LOGICS}
    lines, impl, meta = [], [], []
    direct = []
    outcomes = {}
    streams = {}
    for stream, s in strings:
        if any(0xD800 <= ord(c) <= 0xDFFF for c in s):
            continue
        streams[stream] = streams.get(stream, 0) + 1
        for M in V.LOGICS:
            p = parsers[M]
            try:
                with common.quiet():
                    o = p(s)
                try:
                    t = from_obj(o)
                    a = 'OK ' + sexpr(t)
                except RecursionError:
                    t = None
                    a = 'OK ' + V.sexpr_iter(o)
                if t is not None:
                    if not in_logic(M, t):
                        direct.append(('%s.Parser() accepted %r as %s, which is not a formula of %s' % (M, s, a, M), M, s))
                    mods = modules_of(o, set())
                    if mods != {'pyModelChecking.%s.language' % M}:
                        direct.append(('%s.Parser() returned an object with nodes of %s' % (M, sorted(mods)), M, s))
            except (PP.UnexpectedToken, PP.UnexpectedCharacters) as e:
                a = 'ERR %s %d' % (type(e).__name__, e.pos)
                if not (0 <= e.pos <= len(s)):
                    direct.append(('%s.Parser()(%r): position %d outside the input' % (M, s, e.pos), M, s))
                if str(e) != 'Parser Error: \n\n%s\n%s^\n' % (s, ' ' * e.pos) or e.string != s:
                    direct.append(('%s.Parser()(%r): the error does not display the input with a caret at pos %d' % (M, s, e.pos), M, s))
                if type(e) not in (PP.UnexpectedToken, PP.UnexpectedCharacters):
                    direct.append(('%s.Parser()(%r) raised a subclass %s' % (M, s, type(e).__name__), M, s))
            except Exception as e:
                a = 'OTHER ' + type(e).__name__
                direct.append(('%s.Parser()(%r) raised %s: %s' % (M, s, type(e).__name__, str(e)[:80]), M, s))
            k = a.split()[0] + (' ' + a.split()[1] if a.startswith('ERR') else '')
            outcomes[k] = outcomes.get(k, 0) + 1
            lines.append('PARSE|%s|%s' % (M, V.encode(s)))
            impl.append(a)
            meta.append((M, s, stream))
    model = lean_batch(lines)
    bad = 0
    for (M, s, stream), a, m in zip(meta, impl, model):
        if a.strip() != m.strip():
            bad += 1
            if bad <= 3:
                res.violation('%s.Parser()(%r) = %s, the table-driven model gives %s' % (M, s, a[:200], m[:200]),
                              {'logic': M, 'text': s, 'stream': stream, 'impl': a, 'model': m})
    for d in direct[:3]:
        res.violation(d[0], {'logic': d[1], 'text': d[2]})
    res.coverage.update(language_stream(res, rng_for('C10/language'), quick, parsers, strings))
    problems = proof_coverage(res, THEOREMS, MODULES)
    for p in problems:
        res.violation('proof obligation no longer checks: ' + p, {'theorem_or_module': p}, no_input=True)
    res.coverage.update({
        'evaluations': len(lines), 'distinct_nontrivial': len(set((M, s) for (M, s, _), a in zip(meta, impl) if a.startswith('OK'))),
        'rule': 'strings: hand-written corpus, every string over {", \\, a, newline} up to length 6, special characters '
                'in 8 contexts, long inputs (thorough), and seeded random: printed formulas, random spellings, token '
                'mutations, random token sequences, character mutations and noise; every string is fed to all four '
                'parsers; distinct_nontrivial = distinct (parser, string) pairs that are accepted',
        'outcome_histogram': outcomes, 'stream_histogram': streams, 'direct_oracle_violations': len(direct),
        'disagreements': bad,
        'samples': [{'logic': meta[i][0], 'text': meta[i][1], 'impl': impl[i][:120], 'model': model[i][:120]}
                    for i in (3, len(lines) // 2, len(lines) - 2)],
        'traces_validated_against_impl': len(lines),
    })
