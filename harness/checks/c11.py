"""C11 — formula equality, hashing and cloning are coherent.

Theorems: PMC/Properties/C11.lean (pyEq = tree equality on identifier atoms, hash coherence, equivalence relation).
Tie: all pairs (and sampled triples) of formulas from the small-scope enumeration of each logic: `==` vs the model's
`pyEq` and vs tree equality, `hash`, behaviour as set / dict keys, `Bool(b) == b` in both directions, `clone()` equal
and sharing no node.
"""
import itertools

from common import from_obj, lang, lean_batch, proof_coverage, rng_for, sexpr, to_obj, tree_str
from gen import formulas as F
from theorems import get

MODULES, THEOREMS = get('C11')


def nodes_of(o, acc):
    acc.append(o)
    for c in getattr(o, '_subformula', []) or []:
        nodes_of(c, acc)
    return acc


def run(res):
    rng = rng_for('C11')
    quick = res.tier == 'quick'
    pools = {
        'PL': F.pl(2, consts=True),
        'CTL': F.ctl_state(1) + [(t[1]) for t in F.ctl_state(1) if isinstance(t, tuple) and t[0] in 'AE'],
        'LTL': F.ltl_path(1) + [('A', t) for t in F.ltl_path(1)],
        'CTLS': F.ltl_path(1) + [('A', t) for t in F.ltl_path(1)[:40]] + [('E', t) for t in F.ltl_path(1)[:40]],
    }
    nary = [('or', ('ap', 'p'), ('ap', 'q'), ('ap', 'p')), ('or', ('or', ('ap', 'p'), ('ap', 'q')), ('ap', 'p')),
            ('and', ('ap', 'p'), ('and', ('ap', 'q'), ('ap', 'p'))), ('and', ('ap', 'p'), ('ap', 'q'), ('ap', 'p')),
            ('ap', 'AX'), ('ap', 'Xp'), ('ap', 'nota'), ('ap', 'p_1'), ('ap', '_'), ('ap', 'trueish')]
    lines, impl, descr = [], [], []
    viol = []
    for M, pool in pools.items():
        L = lang(M)
        pool = F.dedup(list(pool) + nary)
        if len(pool) > (120 if quick else 400):
            pool = rng.sample(pool, 120 if quick else 400)
        objs = [to_obj(t, L) for t in pool]
        for (i, a), (j, b) in itertools.product(enumerate(objs), repeat=2):
            eq = (a == b)
            heq = (hash(a) == hash(b))
            lines.append('EQ|%s|%s|%s' % (M, sexpr(pool[i]), sexpr(pool[j])))
            impl.append('%s %s' % ('true' if eq else 'false', 'true' if pool[i] == pool[j] else 'false'))
            descr.append((M, pool[i], pool[j]))
            if eq != (pool[i] == pool[j]):
                viol.append(('== is %s but trees %s' % (eq, 'equal' if pool[i] == pool[j] else 'differ'), M, pool[i], pool[j]))
            if eq and not heq:
                viol.append(('equal formulas with different hashes', M, pool[i], pool[j]))
            if eq != (b == a):
                viol.append(('== is not symmetric', M, pool[i], pool[j]))
        # set / dict behaviour
        s = set(objs)
        if len(s) != len(set(pool)):
            viol.append(('set of %d distinct trees has %d elements' % (len(set(pool)), len(s)), M, None, None))
        d = {}
        for t, o in zip(pool, objs):
            d[o] = t
        for t in pool:
            if d.get(to_obj(t, L)) != t:
                viol.append(('dict lookup with an equal key fails or hits another tree', M, t, d.get(to_obj(t, L))))
        # transitivity on sampled triples
        for _ in range(2000 if quick else 20000):
            a, b, c = (rng.choice(objs) for _ in range(3))
            if a == b and b == c and not a == c:
                viol.append(('== is not transitive', M, from_obj(a), from_obj(c)))
        # reflexivity, clone
        for t, o in zip(pool, objs):
            if not o == o:
                viol.append(('== is not reflexive', M, t, t))
            c = o.clone()
            if not (c == o) or from_obj(c) != t:
                viol.append(('clone() is not equal to the original', M, t, from_obj(c)))
            ids = set(id(x) for x in nodes_of(o, []))
            if any(id(x) in ids for x in nodes_of(c, [])):
                viol.append(('clone() shares a node with the original', M, t, None))
        # Bool against Python bool, both directions
        for bval in (True, False):
            B = L.Bool(bval)
            if not (B == bval) or not (bval == B) or (B == (not bval)) or ((not bval) == B):
                viol.append(('Bool(%s) == %s does not hold in both directions' % (bval, bval), M, None, None))
            if hash(B) != hash(L.Bool(bval)):
                viol.append(('hash of Bool not stable', M, None, None))
    model = lean_batch(lines)
    bad = 0
    for d, a, m in zip(descr, impl, model):
        if a != m.strip():
            bad += 1
            if bad <= 3:
                res.violation('%s: (f == g, same tree) = %s on the implementation, %s in the model for f=%s g=%s'
                              % (d[0], a, m, tree_str(d[1]), tree_str(d[2])),
                              {'logic': d[0], 'f': sexpr(d[1]), 'g': sexpr(d[2]), 'impl': a, 'model': m})
    for v in viol[:3]:
        res.violation('%s (%s): %s / %s' % (v[0], v[1], tree_str(v[2]) if v[2] else '-', tree_str(v[3]) if isinstance(v[3], tuple) else v[3]),
                      {'what': v[0], 'logic': v[1], 'f': v[2], 'g': v[3]})
    problems = proof_coverage(res, THEOREMS, MODULES)
    for p in problems:
        res.violation('proof obligation no longer checks: ' + p, {'theorem_or_module': p}, no_input=True)
    res.coverage.update({
        'evaluations': len(lines), 'distinct_nontrivial': sum(1 for a in impl if a.startswith('true')),
        'rule': 'all ordered pairs from a pool per logic (small-scope enumeration + n-ary/nested and/or + atoms that '
                'look like operator prefixes: AX, Xp, nota), sampled triples for transitivity; distinct_nontrivial = '
                'pairs that compare equal',
        'direct_oracle_violations': len(viol), 'disagreements': bad,
        'samples': [{'op': lines[i], 'impl': impl[i], 'model': model[i]} for i in (1, len(lines) // 2)],
        'traces_validated_against_impl': len(lines),
    })
