"""C11 — formula equality, hashing and cloning are coherent.

Theorems: PMC/Properties/C11.lean (pyEq = tree equality on identifier atoms, hash coherence, equivalence relation).
Tie: all pairs (and sampled triples) of formulas from the small-scope enumeration of each logic: `==` vs the model's
`pyEq` and vs tree equality, `hash`, behaviour as set / dict keys, `Bool(b) == b` in both directions, `clone()` equal
and sharing no node.
"""
import itertools

import common
from common import from_obj, lang, lean_batch, proof_coverage, rng_for, sexpr, to_obj, tree_str
from gen import formulas as F
from theorems import get

MODULES, THEOREMS = get('C11')


def nodes_of(o, acc):
    acc.append(o)
    for c in getattr(o, '_subformula', []) or []:
        nodes_of(c, acc)
    return acc


def to_obj_short(t, L):
    """the same tree built through the constructors' shorthand: atoms as `str`, constants as `bool` operands"""
    if t == 'tt':
        return L.Bool(True)
    if t == 'ff':
        return L.Bool(False)
    if t[0] == 'ap':
        return L.AtomicProposition(t[1])
    from common import CLASSNAME
    kids = []
    for c in t[1:]:
        if c == 'tt':
            kids.append(True)
        elif c == 'ff':
            kids.append(False)
        elif c[0] == 'ap':
            kids.append(c[1])
        else:
            kids.append(to_obj_short(c, L))
    return getattr(L, CLASSNAME[t[0]])(*kids)


PICKLE_TREES = [('ap', 'p'), ('ap', 'x_1'), 'tt', ('not', ('ap', 'p')), ('or', ('ap', 'p'), ('ap', 'q')),
                ('and', ('ap', 'p'), ('not', ('ap', 'q')), 'ff'), ('imp', ('ap', 'p'), ('or', ('ap', 'q'), ('ap', 'p')))]


def _pickle_child(mode):
    """child interpreter with its own PYTHONHASHSEED: `dump` builds the formulas of every logic, hashes them, uses them as
    keys, and prints their pickles; `load` reads the pickles and compares each with a freshly built formula"""
    import base64
    import json
    import pickle
    import sys
    if mode == 'dump':
        out = {}
        for M in ('PL', 'CTL', 'LTL', 'CTLS'):
            objs = [to_obj(t, lang(M)) for t in PICKLE_TREES]
            for o in objs:
                hash(o)
            _ = set(objs)
            out[M] = base64.b64encode(pickle.dumps(objs)).decode()
        print(json.dumps(out))
    else:
        data = json.load(sys.stdin)
        bad = []
        for M, blob in data.items():
            objs = pickle.loads(base64.b64decode(blob))
            for t, o in zip(PICKLE_TREES, objs):
                g = to_obj(t, lang(M))
                if from_obj(o) != t:
                    bad.append([M, str(t), 'the unpickled formula has another tree'])
                elif not (o == g and g == o):
                    bad.append([M, str(t), 'the unpickled formula is not == to a fresh formula with the same tree'])
                elif hash(o) != hash(g):
                    bad.append([M, str(t), 'the unpickled formula == a fresh one but hashes differently'])
                elif g not in {o} or o not in {g: 1} or hash(o.clone()) != hash(o):
                    bad.append([M, str(t), 'the unpickled formula and a fresh equal one are two keys in a set / dict'])
        print(json.dumps(bad))


def pickle_stream(res):
    """formulas hashed and pickled by one interpreter, loaded by another with a different PYTHONHASHSEED (the default
    situation of any later run): equal formulas must still have equal hashes there"""
    import json
    import os
    import subprocess
    import sys
    here = os.path.dirname(os.path.dirname(os.path.abspath(__file__)))
    cmd = 'import sys; sys.path.insert(0, %r); from checks import c11; c11._pickle_child(%%r)' % here
    env = dict(os.environ, PYTHONPATH=os.pathsep.join(x for x in sys.path if x))
    n = 0
    for s1, s2 in (('101', '202'), ('7', '7'), ('0', '12345')):
        d = subprocess.run([sys.executable, '-c', cmd % 'dump'], stdout=subprocess.PIPE, stderr=subprocess.PIPE, text=True,
                           env=dict(env, PYTHONHASHSEED=s1))
        if d.returncode != 0:
            common.helper_crash(res, 'formulas cannot be pickled', d.stderr, {'history': 'pickle.dumps(list of formulas)'})
            return 0
        l = subprocess.run([sys.executable, '-c', cmd % 'load'], input=d.stdout.strip().splitlines()[-1], stdout=subprocess.PIPE,
                           stderr=subprocess.PIPE, text=True, env=dict(env, PYTHONHASHSEED=s2))
        if l.returncode != 0:
            common.helper_crash(res, 'pickled formulas cannot be loaded', l.stderr, {'history': 'pickle.loads in another interpreter'})
            return 0
        bad = json.loads(l.stdout.strip().splitlines()[-1])
        n += 4 * len(PICKLE_TREES)
        for M, t, what in bad[:2]:
            res.violation('%s (%s): %s — hashed and pickled under PYTHONHASHSEED=%s, loaded under PYTHONHASHSEED=%s'
                          % (what, M, t, s1, s2),
                          {'logic': M, 'tree': t, 'history': ['PYTHONHASHSEED=%s: build, hash, pickle.dumps' % s1,
                                                              'PYTHONHASHSEED=%s: pickle.loads, compare with a fresh formula' % s2]})
    return n


def run(res):
    rng = rng_for('C11')
    quick = res.tier == 'quick'
    pools = {
        'PL': F.pl(2, consts=True),
        'CTL': F.ctl_state(1) + [(t[1]) for t in F.ctl_state(1) if isinstance(t, tuple) and t[0] in 'AE'],
        'LTL': F.ltl_path(1) + [('A', t) for t in F.ltl_path(1)],
        'CTLS': F.ltl_path(1) + [('A', t) for t in F.ltl_path(1)[:40]] + [('E', t) for t in F.ltl_path(1)[:40]],
    }
    nary = [('or', ('ap', 'p'), ('ap', 'q'), ('ap', 'p')), ('or', ('or', ('ap', 'p'), ('ap', 'q')), ('ap', 'p')),
            ('and', ('ap', 'p'), ('and', ('ap', 'q'), ('ap', 'p'))), ('and', ('ap', 'p'), ('ap', 'q'), ('ap', 'p')),
            ('ap', 'AX'), ('ap', 'Xp'), ('ap', 'nota'), ('ap', 'p_1'), ('ap', '_'), ('ap', 'trueish')]
    lines, impl, descr = [], [], []
    viol = []
    for M, pool in pools.items():
        L = lang(M)
        pool = F.dedup(list(pool) + nary)
        if len(pool) > (110 if quick else 380):
            pool = rng.sample(pool, 110 if quick else 380)
        # n-ary operators of different arity sharing a prefix of operands, built from state-like members of the pool
        base = [t for t in pool if (M != 'CTL' or F.is_ctl_state(t)) and (M != 'LTL' or F.is_ltl_path(t))][:6] or [('ap', 'p'), ('ap', 'q')]
        for op in ('or', 'and'):
            for _ in range(5):
                a, b, c = (rng.choice(base) for _ in range(3))
                pool += [(op, a, b), (op, a, b, c), (op, a, b, a), (op, a, b, c, a)]
        # scale: towers of 6..12 operators whose only difference is at the bottom, and deep binary nests
        un = {'PL': ['not'], 'CTL': ['not'], 'LTL': ['not', 'X', 'G'], 'CTLS': ['not', 'X', 'F']}[M]
        for k in (6, 7, 8, 10, 12):
            for leaf in (('ap', 'p'), ('ap', 'q'), 'tt'):
                t = leaf
                for i in range(k):
                    t = (un[(i + k) % len(un)], t)
                pool.append(t)
                t = leaf
                for i in range(k):
                    t = ('or', ('ap', 'p'), t) if i % 2 else ('and', t, ('ap', 'q'))
                pool.append(t)
        pool = F.dedup(pool)
        objs = [to_obj(t, L) for t in pool]
        # a second construction route for the same trees
        short = [to_obj_short(t, L) for t in pool]
        for t, o, o2 in zip(pool, objs, short):
            if from_obj(o2) != t:
                viol.append(('shorthand construction builds another tree', M, t, from_obj(o2)))
                continue
            if not (o == o2 and o2 == o):
                viol.append(('the same tree built with shorthand operands is not == to the one built from nodes', M, t, t))
            if hash(o) != hash(o2):
                viol.append(('the same tree built in two ways has two different hashes', M, t, t))
            if o2 not in {o} or o not in {o2: 1}:
                viol.append(('the same tree built in two ways is two different keys in a set / dict', M, t, t))
            c2 = o2.clone()
            if hash(c2) != hash(o2) or c2 not in {o2}:
                viol.append(('clone() of a shorthand-built formula is another key in a set', M, t, t))
        for (i, a), (j, b) in itertools.product(enumerate(objs), repeat=2):
            eq = (a == b)
            heq = (hash(a) == hash(b))
            lines.append('EQ|%s|%s|%s' % (M, sexpr(pool[i]), sexpr(pool[j])))
            impl.append('%s %s' % ('true' if eq else 'false', 'true' if pool[i] == pool[j] else 'false'))
            descr.append((M, pool[i], pool[j]))
            if eq != (pool[i] == pool[j]):
                viol.append(('== is %s but trees %s' % (eq, 'equal' if pool[i] == pool[j] else 'differ'), M, pool[i], pool[j]))
            if eq and not heq:
                viol.append(('equal formulas with different hashes', M, pool[i], pool[j]))
            if eq != (b == a):
                viol.append(('== is not symmetric', M, pool[i], pool[j]))
        # set / dict behaviour
        s = set(objs)
        if len(s) != len(set(pool)):
            viol.append(('set of %d distinct trees has %d elements' % (len(set(pool)), len(s)), M, None, None))
        d = {}
        for t, o in zip(pool, objs):
            d[o] = t
        for t in pool:
            if d.get(to_obj(t, L)) != t:
                viol.append(('dict lookup with an equal key fails or hits another tree', M, t, d.get(to_obj(t, L))))
        # transitivity on sampled triples
        for _ in range(2000 if quick else 20000):
            a, b, c = (rng.choice(objs) for _ in range(3))
            if a == b and b == c and not a == c:
                viol.append(('== is not transitive', M, from_obj(a), from_obj(c)))
        # reflexivity, clone
        for t, o in zip(pool, objs):
            if not o == o:
                viol.append(('== is not reflexive', M, t, t))
            c = o.clone()
            if not (c == o) or from_obj(c) != t:
                viol.append(('clone() is not equal to the original', M, t, from_obj(c)))
            ids = set(id(x) for x in nodes_of(o, []))
            if any(id(x) in ids for x in nodes_of(c, [])):
                viol.append(('clone() shares a node with the original', M, t, None))
        # history: a formula that has been hashed / used as a key is given new operands through its own constructor
        # protocol (`__init__` -> `wrap_subformulas`); afterwards it must be == to, hash like, and be the same key as
        # a freshly built formula with the new tree (and no longer equal to its old tree)
        nonleaf = [(t, o) for t, o in zip(pool, objs) if isinstance(t, tuple) and t[0] != 'ap']
        for t, _ in (nonleaf if len(nonleaf) < 60 else rng.sample(nonleaf, 60)):
            same_shape = [u for u, _ in nonleaf if u[0] == t[0] and len(u) == len(t) and u != t]
            if not same_shape:
                continue
            u = rng.choice(same_shape)
            f = to_obj(t, L)
            h0 = hash(f)
            keyed = {f: 'old'}
            try:
                f.__init__(*[to_obj(c, L) for c in u[1:]])
            except Exception as e:
                viol.append(('re-initialising a %s node with the operands of %s raised %s' % (t[0], tree_str(u), type(e).__name__), M, t, u))
                continue
            if from_obj(f) != u:
                viol.append(('re-initialised node has another tree than its new operands', M, u, from_obj(f)))
                continue
            g = to_obj(u, L)
            if not (f == g and g == f):
                viol.append(('a formula given new operands is not == to a fresh formula with the same tree', M, u, u))
            elif hash(f) != hash(g):
                viol.append(('after being hashed and then given new operands, a formula is == to a fresh formula with '
                             'the same tree but hashes differently (was hashed as %s before)' % tree_str(t), M, u, u))
            elif g not in {f} or f not in {g: 1}:
                viol.append(('a formula given new operands and a fresh equal one are two keys in a set / dict', M, u, u))
            if f == to_obj(t, L):
                viol.append(('a formula given new operands still == its old tree', M, t, u))
            del keyed, h0
        # history: a compound formula is hashed / used as a key, then one of its DESCENDANT atoms is re-initialised with
        # another name: the ancestor must now be == to (and hash like) a fresh formula with the new leaf, not the old one
        for t, _ in (nonleaf if len(nonleaf) < 40 else rng.sample(nonleaf, 40)):
            f = to_obj(t, L)
            leaves = [x for x in nodes_of(f, []) if type(x).__name__ == 'AtomicProposition']
            if not leaves:
                continue
            hash(f)
            _k = {f: 1}
            victim = rng.choice(leaves)
            oldname = victim.name
            try:
                victim.__init__('zz_renamed')
            except Exception as e:
                viol.append(('re-initialising an atom raised %s' % type(e).__name__, M, t, None))
                continue

            def ren(x):
                if x in ('tt', 'ff'):
                    return x
                if x[0] == 'ap':
                    return x
                return (x[0],) + tuple(ren(c) for c in x[1:])
            t_new = from_obj(f)
            g = to_obj(t_new, L)
            if t_new == t:
                viol.append(('re-initialising a descendant atom did not change the tree', M, t, t_new))
            elif not (f == g and g == f) or hash(f) != hash(g) or g not in {f}:
                viol.append(('after a descendant atom (%s) was re-initialised, the formula is not an equal key to a fresh '
                             'formula with the same tree (== %r/%r, same hash %r)' % (oldname, f == g, g == f, hash(f) == hash(g)), M, t_new, t_new))
            elif f == to_obj(t, L):
                viol.append(('after a descendant atom (%s) was re-initialised, the formula still == its old tree' % oldname, M, t, t_new))
        # Bool against Python bool, both directions
        for bval in (True, False):
            B = L.Bool(bval)
            if not (B == bval) or not (bval == B) or (B == (not bval)) or ((not bval) == B):
                viol.append(('Bool(%s) == %s does not hold in both directions' % (bval, bval), M, None, None))
            if hash(B) != hash(L.Bool(bval)):
                viol.append(('hash of Bool not stable', M, None, None))
    pickled = pickle_stream(res)
    # copy / deepcopy in process
    import copy
    for M in ('PL', 'CTL', 'LTL', 'CTLS'):
        for t in PICKLE_TREES:
            o = to_obj(t, lang(M))
            hash(o)
            for how, c in (('copy.copy', copy.copy(o)), ('copy.deepcopy', copy.deepcopy(o))):
                if from_obj(c) != t or not (c == o and o == c) or hash(c) != hash(o) or c not in {o}:
                    viol.append(('%s of a formula is not an equal key' % how, M, t, t))
    model = lean_batch(lines)
    bad = 0
    for d, a, m in zip(descr, impl, model):
        if a != m.strip():
            bad += 1
            if bad <= 3:
                res.violation('%s: (f == g, same tree) = %s on the implementation, %s in the model for f=%s g=%s'
                              % (d[0], a, m, tree_str(d[1]), tree_str(d[2])),
                              {'logic': d[0], 'f': sexpr(d[1]), 'g': sexpr(d[2]), 'impl': a, 'model': m})
    for v in viol[:3]:
        res.violation('%s (%s): %s / %s' % (v[0], v[1], tree_str(v[2]) if v[2] else '-', tree_str(v[3]) if isinstance(v[3], tuple) else v[3]),
                      {'what': v[0], 'logic': v[1], 'f': v[2], 'g': v[3]})
    problems = proof_coverage(res, THEOREMS, MODULES)
    for p in problems:
        res.violation('proof obligation no longer checks: ' + p, {'theorem_or_module': p}, no_input=True)
    res.coverage.update({
        'evaluations': len(lines), 'distinct_nontrivial': sum(1 for a in impl if a.startswith('true')),
        'rule': 'all ordered pairs from a pool per logic (small-scope enumeration + n-ary/nested and/or + atoms that '
                'look like operator prefixes: AX, Xp, nota), sampled triples for transitivity; distinct_nontrivial = '
                'pairs that compare equal',
        'direct_oracle_violations': len(viol), 'disagreements': bad,
        'pickled_across_hash_seeds': pickled,
        'samples': [{'op': lines[i], 'impl': impl[i], 'model': model[i]} for i in (1, len(lines) // 2)],
        'traces_validated_against_impl': len(lines),
    })
