"""C12 — strongly connected components are computed exactly.

Theorems (PMC/Properties/C12.lean): scc_partition, scc_exact for the model `Graph.sccs` of compute_SCCs, all digraphs.
Tie: compute_SCCs vs the model on the same graph, with successor lists sent in the implementation's own iteration
order.  Verdict on the property's observable (partition as a set of sets + every node exactly once + mutual
reachability recomputed independently); ordered agreement is reported as a fidelity figure only.
"""
import itertools

from common import enc_graph, lean_batch, proof_coverage, rng_for
from gen.graphs import all_digraphs, impl_graph, observed_adj, random_digraph

from theorems import get as _get
MODULES, THEOREMS = _get('C12')


def mutual_classes(adj_pairs):
    nodes = [v for v, _ in adj_pairs]
    succ = dict(adj_pairs)
    reach = {}
    for v in nodes:
        seen = {v}
        st = [v]
        while st:
            x = st.pop()
            for y in succ[x]:
                if y not in seen:
                    seen.add(y)
                    st.append(y)
        reach[v] = seen
    classes = set()
    for v in nodes:
        classes.add(frozenset(w for w in nodes if w in reach[v] and v in reach[w]))
    return classes


def run(res):
    from pyModelChecking.graph import compute_SCCs
    rng = rng_for('C12')
    cases = []
    quick = res.tier == 'quick'
    # exhaustive small scope
    nmax = 3 if quick else 4
    for n in range(1, nmax + 1):
        orders = list(itertools.permutations(range(n)))
        for adj in all_digraphs(n):
            if n == 4:
                os_ = [orders[0], rng.choice(orders)]
            else:
                os_ = orders
            for order in os_:
                cases.append((adj, list(order)))
    exhaustive_n = nmax
    if quick:  # a seeded slice of n = 4
        all4 = list(itertools.permutations(range(4)))
        for _ in range(6000):
            mask = rng.getrandbits(16)
            adj = [[b for b in range(4) if (mask >> (4 * a + b)) & 1] for a in range(4)]
            cases.append((adj, list(rng.choice(all4))))
    nrand = 3000 if quick else 30000
    for _ in range(nrand):
        adj = random_digraph(rng, 12)
        order = list(range(len(adj)))
        rng.shuffle(order)
        cases.append((adj, order))

    # scale: long chains / rings / combs (an explicit-stack DFS must not care about depth)
    for n in ((1200, 2500) if quick else (1200, 2500, 6000)):
        cases.append(([[i + 1] if i + 1 < n else [] for i in range(n)], list(range(n))))            # path
        cases.append(([[(i + 1) % n] for i in range(n)], list(range(n))))                            # ring
        cases.append(([[i + 1, i] if i % 3 == 0 and i + 1 < n else ([i + 1] if i + 1 < n else [0]) for i in range(n)],
                      list(reversed(range(n)))))                                                      # ring with self-loops
    # odd node names: the same graphs with nodes renamed to None, tuples, strings, negative ints, floats, frozensets
    # float('nan') is a legal node (hashable) that is not equal to itself: dicts find it by identity
    ODD = [None, (), float('nan'), (0, 1), 'x', '', -1, -2, 2.5, frozenset([1]), ('t', None), 'None', 0, True]
    named = []
    for _ in range(400 if quick else 4000):
        adj = random_digraph(rng, 7)
        n = len(adj)
        names = rng.sample(ODD[:-2], n) if rng.random() < 0.8 else rng.sample(ODD[2:], n)
        if len(set(map(repr, names))) == n and len(set(names)) == n:
            order = list(range(n))
            rng.shuffle(order)
            named.append((adj, order, names))
    for adj, order, names in named:
        n = len(adj)
        G = impl_graph(adj, order, names=names)
        try:
            out = [list(c) for c in compute_SCCs(G)]
        except Exception as e:
            res.violation('compute_SCCs raised %s on a graph whose nodes are %r' % (type(e).__name__, names),
                          {'adjacency': adj, 'order': order, 'names': [repr(x) for x in names]})
            continue
        inv = {}
        for i, nm in enumerate(names):
            inv[nm] = i
        got = set(frozenset(inv[v] for v in c) for c in out)
        truth = mutual_classes([(v, adj[v]) for v in range(n)])
        flat = sorted(inv[v] for c in out for v in c)
        if got != truth or flat != list(range(n)):
            res.violation('compute_SCCs is wrong on a graph with nodes %r' % (names,),
                          {'adjacency': adj, 'order': order, 'names': [repr(x) for x in names],
                           'impl': sorted(map(sorted, got)), 'expected': sorted(map(sorted, truth))})
    # the generator consumed lazily: two generators over the same graph advanced in lock-step, and one consumed twice
    lazy = 0
    for adj, order in cases[:: max(1, len(cases) // 300)]:
        G = impl_graph(adj, order)
        seq = [sorted(c) for c in compute_SCCs(G)]
        g1, g2 = compute_SCCs(G), compute_SCCs(G)
        inter = []
        for a, b in itertools.zip_longest(g1, g2):
            inter.append((sorted(a) if a is not None else None, sorted(b) if b is not None else None))
        again = [sorted(c) for c in g1]
        lazy += 1
        if [a for a, _ in inter] != seq or [b for _, b in inter] != seq or again != []:
            res.violation('compute_SCCs: two generators over the same graph advanced in lock-step give %r, one consumed at once %r '
                          '(a second pass over an exhausted generator: %r)' % (inter, seq, again),
                          {'adjacency': adj, 'order': order})
    lines, impl = [], []
    for adj, order in cases:
        G = impl_graph(adj, order)
        obs = observed_adj(G)
        out = [list(c) for c in compute_SCCs(G)]
        lines.append('SCC|' + enc_graph(obs))
        impl.append((obs, out))
    model = lean_batch(lines)

    ordered_same = 0
    sizes = {}
    nontrivial = set()
    for (adj, order), (obs, out), m in zip(cases, impl, model):
        mcomps = [[int(x) for x in c.split()] for c in m.split(';')] if m.strip() else []
        n = len(adj)
        sizes[n] = sizes.get(n, 0) + 1
        flat = [v for c in out for v in c]
        truth = mutual_classes(obs) if n <= 12 else set(frozenset(c) for c in mcomps)
        impl_set = set(frozenset(c) for c in out)
        model_set = set(frozenset(c) for c in mcomps)
        if sorted(flat) != sorted(range(n)) or impl_set != truth:
            res.violation('compute_SCCs is not the partition into mutual-reachability classes',
                          {'adjacency_in_iteration_order': obs, 'impl': out, 'expected': sorted(map(sorted, truth)),
                           'model': mcomps})
            continue
        if model_set != impl_set:
            # model is proved exact, so this cannot be a disagreement on the observable unless the harness is broken
            res.violation('model and implementation disagree on the SCC partition',
                          {'adjacency_in_iteration_order': obs, 'impl': out, 'model': mcomps})
            continue
        if out == mcomps:
            ordered_same += 1
        if n <= 12 and len(out) < n and len(out) > 1:
            nontrivial.add((tuple(map(tuple, adj))))
    problems = proof_coverage(res, THEOREMS, MODULES)
    for p in problems:
        res.violation('proof obligation no longer checks: ' + p, {'theorem_or_module': p}, no_input=True)
    res.coverage.update({
        'evaluations': len(cases),
        'distinct_nontrivial': len(nontrivial),
        'rule': 'all labelled digraphs with <= %d nodes under all (n<=3) / two (n=4) insertion orders, a seeded slice '
                'of n=4 in the quick tier, random digraphs to 12 nodes; non-trivial = distinct edge sets with more '
                'than one component and at least one component of size > 1' % exhaustive_n,
        'exhaustive': True,
        'exhaustive_scope': 'n <= %d' % exhaustive_n,
        'sizes_histogram': sizes,
        'ordered_agreement': ordered_same, 'odd_named_graphs': len(named),
        'samples': [{'adjacency_in_iteration_order': impl[i][0], 'impl': impl[i][1], 'model': model[i]}
                    for i in (0, len(cases) // 2, len(cases) - 1)],
        'traces_validated_against_impl': len(cases),
    })
    res.assumptions = ['recursion in the model vs explicit stack in the code: validated by ordered agreement (%d/%d)'
                       % (ordered_same, len(cases))]
