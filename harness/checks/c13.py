"""C13 — reachability, reversal and subgraph extraction are exact and non-destructive.

Tie: DiGraph(V,E), get_reachable_set_from, get_reversed_graph, get_subgraph, clone vs the Lean model (Graph.mk,
reachFrom, reversed, subgraph, clone) on the same graph; the graph is snapshotted before and after every call
(content and identity of every successor set) and the returned containers are checked to be fresh.
"""
import itertools

from common import enc_graph, enc_pairs, enc_set, lean_batch, proof_coverage, rng_for
from gen.graphs import all_digraphs, impl_graph, observed_adj, random_digraph
from theorems import get

MODULES, THEOREMS = get('C13')


def canon(G):
    nodes = sorted(G._next.keys())
    edges = sorted((s, d) for s in G._next for d in G._next[s])
    return '%s / %s' % (' '.join(map(str, nodes)), ' '.join('%d-%d' % e for e in edges))


def snapshot(G):
    # content only: the property is about the graph's nodes and edges, not about the identity of its containers
    return {k: frozenset(v) for k, v in G._next.items()}


def run(res):
    rng = rng_for('C13')
    quick = res.tier == 'quick'
    graphs = []
    for n in range(1, 4):
        graphs.extend(all_digraphs(n))
    n_exh = len(graphs)
    if quick:
        for _ in range(300):
            mask = rng.getrandbits(16)
            graphs.append([[b for b in range(4) if (mask >> (4 * a + b)) & 1] for a in range(4)])
    else:
        graphs.extend(all_digraphs(4))
    for _ in range(400 if quick else 4000):
        graphs.append(random_digraph(rng, 12))

    lines, impl, descr = [], [], []
    mutated = []
    for adj in graphs:
        n = len(adj)
        order = list(range(n))
        rng.shuffle(order)
        G = impl_graph(adj, order)
        obs = observed_adj(G)
        g = enc_graph(obs)
        before = snapshot(G)
        ops = []
        subsets = list(itertools.chain.from_iterable(itertools.combinations(range(n), k) for k in range(n + 1))) \
            if n <= 4 else [tuple(sorted(rng.sample(range(n), rng.randint(0, n)))) for _ in range(6)]
        if n == 4 and quick:
            subsets = rng.sample(subsets, 6)
        for X in subsets:
            Xl = list(X)
            rng.shuffle(Xl)
            ops.append(('REACH|%s|%s' % (g, ' '.join(map(str, Xl))), lambda Xl=Xl: 'OK ' + enc_set(G.get_reachable_set_from(Xl)), ('reach', Xl)))
            # subsets may mention non-nodes: get_subgraph must ignore them
            Xs = Xl + ([n + 1] if rng.random() < 0.3 else [])
            ops.append(('SUB|%s|%s' % (g, ' '.join(map(str, Xs))), lambda Xs=Xs: canon(G.get_subgraph(Xs)), ('sub', Xs)))
        # a start node outside the graph
        ops.append(('REACH|%s|%s' % (g, ' '.join(map(str, [0, n + 3]))), lambda: 'OK ' + enc_set(G.get_reachable_set_from([0, n + 3])), ('reach', [0, n + 3])))
        ops.append(('REV|%s' % g, lambda: canon(G.get_reversed_graph()), ('rev',)))
        ops.append(('REV|%s' % enc_graph(observed_adj(G.get_reversed_graph())), lambda: canon(G.get_reversed_graph().get_reversed_graph()), ('revrev',)))
        ops.append(('CLONE|%s' % g, lambda: canon(G.clone()), ('clone',)))
        V = [v for v in order]
        E = [(a, b) for a in order for b in adj[a]]
        rng.shuffle(E)
        from pyModelChecking.graph import DiGraph
        ops.append(('MKG|%s|%s' % (' '.join(map(str, V[: max(0, n - 1)])), enc_pairs(E)),
                    lambda: canon(DiGraph(V=V[: max(0, n - 1)], E=E)), ('mk', V[: max(0, n - 1)], E)))
        for line, f, d in ops:
            try:
                a = f()
            except Exception as e:
                a = 'ERR ' + type(e).__name__
            lines.append(line)
            impl.append(a)
            descr.append((obs, d))
            if snapshot(G) != before:
                mutated.append((obs, d))
                before = snapshot(G)
        # freshness of returned containers
        C = G.clone()
        R = G.get_reversed_graph()
        S = G.get_subgraph(list(range(n)))
        own = set(id(v) for v in G._next.values())
        for name, H in (('clone', C), ('reversed', R), ('subgraph', S)):
            if H is G or H._next is G._next or any(id(v) in own for v in H._next.values()):
                res.violation('%s() shares a container with the original graph' % name,
                              {'adjacency': obs, 'operation': name})
        if n >= 1:
            C.add_edge(0, n + 7)
            if canon(G) != canon(impl_graph(adj, order)):
                res.violation('mutating a clone changed the original', {'adjacency': obs})
            # the node set X in every container type (a one-shot iterator only for get_subgraph: get_reachable_set_from
            # documents "a container of nodes")
            Xs = [v for v in range(n + 2) if rng.random() < 0.5]
            want_sub = canon(G.get_subgraph(list(Xs)))
            want_reach = sorted(G.get_reachable_set_from([x for x in Xs if x < n]))
            Xin = [x for x in Xs if x < n]
            for kind, mkc in (('tuple', tuple), ('set', set), ('frozenset', frozenset), ('dict', lambda l: dict.fromkeys(l)),
                              ('dict keys view', lambda l: dict.fromkeys(l).keys()), ('iterator', iter),
                              ('generator', lambda l: (x for x in l)), ('map object', lambda l: map(int, l)),
                              ('list with repetitions', lambda l: list(l) + list(l))):
                got = canon(G.get_subgraph(mkc(Xs)))
                if got != want_sub:
                    res.violation('get_subgraph(X) with X given as a %s differs from X given as a list: %s vs %s' % (kind, got, want_sub),
                                  {'adjacency': obs, 'X': Xs, 'container': kind})
                if kind in ('iterator', 'generator', 'map object'):
                    continue
                gotr = sorted(G.get_reachable_set_from(mkc(Xin)))
                if gotr != want_reach:
                    res.violation('get_reachable_set_from(X) with X given as a %s differs from X given as a list: %s vs %s'
                                  % (kind, gotr, want_reach), {'adjacency': obs, 'X': Xin, 'container': kind})
            # history: the caller edits what an earlier call returned; the same call on the unchanged graph must give the
            # same answer again (and leave G alone)
            first = {'reversed': canon(G.get_reversed_graph()), 'subgraph': canon(G.get_subgraph(list(range(n)))),
                     'clone': canon(impl_graph(adj, order)), 'reach': sorted(G.get_reachable_set_from([0]))}
            R.add_edge(0, n + 7)
            R.add_node(n + 9)
            S.add_edge(n + 8, 0)
            rs = G.get_reachable_set_from([0])
            rs.add(n + 11)
            again = {'reversed': canon(G.get_reversed_graph()), 'subgraph': canon(G.get_subgraph(list(range(n)))),
                     'clone': canon(G.clone()), 'reach': sorted(G.get_reachable_set_from([0]))}
            for k_ in first:
                if first[k_] != again[k_]:
                    res.violation('after the caller edited the object returned by an earlier %s call, the same call on the '
                                  'unchanged graph returns something else' % k_,
                                  {'adjacency': obs, 'operation': k_, 'first': str(first[k_])[:300], 'again': str(again[k_])[:300],
                                   'history': ['r = G.%s(..)' % k_, 'r.add_edge(0, %d) / r.add_node(%d) / r.add(%d)' % (n + 7, n + 9, n + 11),
                                               'G.%s(..) again' % k_]})
            if canon(G) != canon(impl_graph(adj, order)):
                res.violation('editing the reversed graph / subgraph / reachable set returned earlier changed the original',
                              {'adjacency': obs})
            # history: the caller edits G itself after the operations have been used once; everything must follow
            from pyModelChecking.graph import compute_SCCs
            list(compute_SCCs(G))
            G.add_node(n + 20)
            G.add_edge(0, n + 20)
            G.add_edge(n + 20, n - 1)
            adj2 = [list(a) for a in adj] + [[] for _ in range(n, n + 21)]
            adj2[0] = adj2[0] + [n + 20]
            adj2[n + 20] = [n - 1]
            order2 = list(order) + [n + 20]
            Gf = impl_graph([adj2[v] if v in order2 else [] for v in range(n + 21)], order2)
            now = {'reversed': canon(G.get_reversed_graph()), 'clone': canon(G.clone()),
                   'subgraph': canon(G.get_subgraph(order2)), 'reach': sorted(G.get_reachable_set_from([n - 1])),
                   'sccs': sorted(sorted(c) for c in compute_SCCs(G))}
            fresh = {'reversed': canon(Gf.get_reversed_graph()), 'clone': canon(Gf.clone()),
                     'subgraph': canon(Gf.get_subgraph(order2)), 'reach': sorted(Gf.get_reachable_set_from([n - 1])),
                     'sccs': sorted(sorted(c) for c in compute_SCCs(Gf))}
            for k_ in now:
                if now[k_] != fresh[k_]:
                    res.violation('after add_node / add_edge on a graph whose %s had been computed before, %s differs from the '
                                  'one of a freshly built equal graph' % (k_, k_),
                                  {'adjacency': obs, 'operation': k_, 'on_the_edited_graph': str(now[k_])[:300],
                                   'on_a_fresh_equal_graph': str(fresh[k_])[:300],
                                   'history': ['compute %s on G' % k_, 'G.add_node(%d); G.add_edge(0, %d); G.add_edge(%d, %d)' % (n + 20, n + 20, n + 20, n - 1),
                                               'compute %s on G again' % k_]})
    # scale: long paths / rings / combs (depth must not matter), through the same operations
    from pyModelChecking.graph import DiGraph
    for n in ((1500, 3000) if quick else (1500, 3000, 8000)):
        shapes = {'path': [[i + 1] if i + 1 < n else [] for i in range(n)],
                  'ring': [[(i + 1) % n] for i in range(n)],
                  'comb': [[i + 2, i + 1] if i % 2 == 0 and i + 2 < n else [] for i in range(n)]}
        for shape, adj in shapes.items():
            G = impl_graph(adj, list(range(n)))
            g = enc_graph(observed_adj(G))
            for X in ([0], [n // 2, n - 1]):
                lines.append('REACH|%s|%s' % (g, ' '.join(map(str, X))))
                try:
                    impl.append('OK ' + enc_set(G.get_reachable_set_from(X)))
                except Exception as e:
                    impl.append('ERR ' + type(e).__name__)
                descr.append(('%s with %d nodes' % (shape, n), ('reach', X)))
            lines.append('REV|%s' % g)
            try:
                impl.append(canon(G.get_reversed_graph()))
            except Exception as e:
                impl.append('ERR ' + type(e).__name__)
            descr.append(('%s with %d nodes' % (shape, n), ('rev',)))
    # odd node names (None, tuples, '', negative ints, floats, frozensets): same answers up to renaming
    ODD = [None, (), (0, 1), 'x', '', -1, -2, 2.5, frozenset([1]), ('t', None), 'None']
    for _ in range(300 if quick else 3000):
        adj = random_digraph(rng, 7)
        n = len(adj)
        names = rng.sample(ODD, n)
        inv = {nm: i for i, nm in enumerate(names)}
        G = impl_graph(adj, list(range(n)), names=names)
        X = [v for v in range(n) if rng.random() < 0.4]
        try:
            r = set(inv[v] for v in G.get_reachable_set_from([names[v] for v in X]))
            S = G.get_subgraph([names[v] for v in X] + ['ghost'])
            sub = (sorted(inv[v] for v in S._next), sorted((inv[a], inv[b]) for a in S._next for b in S._next[a]))
            R = G.get_reversed_graph()
            rev = sorted((inv[a], inv[b]) for a in R._next for b in R._next[a])
        except Exception as e:
            res.violation('a graph operation raised %s on a graph whose nodes are %r' % (type(e).__name__, names),
                          {'adjacency': adj, 'names': [repr(x) for x in names], 'X': X})
            continue
        seen = set(X)
        st = list(X)
        while st:
            x = st.pop()
            for y in adj[x]:
                if y not in seen:
                    seen.add(y)
                    st.append(y)
        exp_sub = (sorted(X), sorted((a, b) for a in X for b in adj[a] if b in X))
        exp_rev = sorted((b, a) for a in range(n) for b in adj[a])
        if r != seen or sub != exp_sub or rev != exp_rev:
            res.violation('graph operations disagree with the definition on a graph with nodes %r' % (names,),
                          {'adjacency': adj, 'names': [repr(x) for x in names], 'X': X, 'reach': sorted(r),
                           'expected_reach': sorted(seen), 'sub': sub, 'expected_sub': exp_sub})
    # histories of add_node / add_edge (existing and new nodes, existing and new edges, new endpoints) against the model
    for _ in range(300 if quick else 3000):
        adj = random_digraph(rng, 4)
        n = len(adj)
        G = impl_graph(adj, list(range(n)))
        g = enc_graph(observed_adj(G))
        ops, answers = [], []
        for _k in range(rng.choice([2, 4, 7])):
            if rng.random() < 0.4:
                v = rng.randrange(n + 3)
                ops.append('n %d' % v)
                try:
                    G.add_node(v)
                    answers.append('ok')
                except Exception as e:
                    answers.append('ERR ' + type(e).__name__)
            else:
                u, v = rng.randrange(n + 3), rng.randrange(n + 3)
                ops.append('e %d %d' % (u, v))
                try:
                    G.add_edge(u, v)
                    answers.append('ok')
                except Exception as e:
                    answers.append('ERR ' + type(e).__name__)
        lines.append('GRAPHOPS|%s|%s' % (g, ';'.join(ops)))
        impl.append(' ; '.join(answers) + ' => ' + canon(G))
        descr.append((observed_adj(impl_graph(adj, list(range(n)))), ('graphops', ops)))
    model = lean_batch(lines)
    bad = 0
    kinds = {}
    for (obs, d), a, m in zip(descr, impl, model):
        kinds[d[0]] = kinds.get(d[0], 0) + 1
        if a.strip() != m.strip():
            bad += 1
            if bad <= 3:
                res.violation('graph operation %s: implementation gives %r, the model (proved) gives %r' % (d, a, m),
                              {'adjacency_in_iteration_order': obs, 'operation': d, 'impl': a, 'model': m})
    for obs, d in mutated[:3]:
        res.violation('graph operation %s modified the graph it was called on' % (d,),
                      {'adjacency_in_iteration_order': obs, 'operation': d})
    problems = proof_coverage(res, THEOREMS, MODULES)
    for p in problems:
        res.violation('proof obligation no longer checks: ' + p, {'theorem_or_module': p}, no_input=True)
    res.coverage.update({
        'evaluations': len(lines), 'distinct_nontrivial': len(set(lines)) - kinds.get('clone', 0),
        'rule': 'all labelled digraphs with <=3 nodes (%d) [+ all 4-node digraphs in the thorough tier, a seeded slice '
                'in quick], random to 12 nodes, each under a shuffled insertion order; all subsets X (sampled above 4 '
                'nodes) incl. non-nodes; distinct_nontrivial = distinct operation lines other than clone' % n_exh,
        'exhaustive': True, 'exhaustive_scope': 'n <= %d' % (3 if quick else 4),
        'operation_kinds': kinds, 'disagreements': bad, 'graphs': len(graphs),
        'samples': [{'op': lines[i], 'impl': impl[i], 'model': model[i]} for i in (0, len(lines) // 2, len(lines) - 1)],
        'traces_validated_against_impl': len(lines),
    })
