"""C14 — Kripke structures are always total, fully labelled, and copy faithfully.

Tie: Kripke(S,S0,R,L), clone(), get_substructure(V), labels(s)/next(s) vs the Lean model (KripkeD.make, clone,
substructure, labelsAt, nextAt) over all argument combinations on <=3 states (quick: <=3 sampled) incl. non-total R,
labels for non-states, S0 outside S, L not a dict, non-iterable label values; all subsets V; aliasing observed via id().
Stream KRELABEL (PMC/Model/KripkeApi.lean, PMC/Properties/C14Api.lean): labelling_function() / replace_labelling_function(L2)
with L2 lacking states and holding keys that are not states — the dict afterwards, labels(), labels(x), clone(),
get_substructure(V), the returned former dict, and CTL.modelcheck afterwards, against the model; the adoption of the
caller's dict BY REFERENCE (not expressible in the functional model) is observed directly and recorded, not judged.
"""
import itertools

from common import enc_labels, enc_name, enc_pairs, enc_set, lean_batch, proof_coverage, rng_for, sexpr
from theorems import get

MODULES, THEOREMS = get('C14')


def canon(K):
    nodes = sorted(K._next.keys())
    edges = sorted((s, d) for s in K._next for d in K._next[s])
    labs = ';'.join('%d:%s' % (s, ' '.join(sorted(enc_name(l) for l in K._labels[s]))) for s in sorted(K._labels))
    return 'OK %s / %s / %s / %s' % (' '.join(map(str, nodes)), ' '.join('%d-%d' % e for e in edges),
                                     ' '.join(map(str, sorted(K.S0))), labs)


def attempt(f):
    try:
        return f()
    except Exception as e:
        return 'ERR ' + type(e).__name__


def run(res):
    from pyModelChecking.kripke import Kripke
    rng = rng_for('C14')
    quick = res.tier == 'quick'
    cases = []
    for n in (1, 2, 3):
        pairs = [(a, b) for a in range(n) for b in range(n)]
        masks = range(1 << len(pairs)) if n < 3 else (rng.sample(range(1 << 9), 120 if quick else 512))
        for mask in masks:
            R = [p for i, p in enumerate(pairs) if (mask >> i) & 1]
            for _ in range(2 if n < 3 else 1):
                S = [s for s in range(n) if rng.random() < 0.7]
                S0 = [s for s in range(n + 1) if rng.random() < 0.4]
                L = {s: [a for a in ('p', 'q') if rng.random() < 0.5] for s in range(n + 2) if rng.random() < 0.6}
                cases.append((S, S0, R, L))
    lines, impl, descr = [], [], []
    alias_viol = []
    obs = {k: 0 for k in ('calls', 'returned_former_dict_is_the_internal_object', 'internal_dict_is_the_callers_object',
                          'callers_dict_grew_the_missing_states', 'label_sets_adopted_not_copied',
                          'later_edit_of_the_callers_set_shows_through_labels',
                          'later_assignment_in_the_callers_dict_shows_through_labels')}
    for S, S0, R, L in cases:
        rs = list(R)
        rng.shuffle(rs)
        Lenc = enc_labels(sorted(L.items()))
        mk = lambda: Kripke(S=list(S), S0=list(S0), R=list(rs), L={k: set(v) for k, v in L.items()})
        base = 'KRIPKE|%s|%s|%s|%s' % (enc_set(S) if False else ' '.join(map(str, S)), ' '.join(map(str, S0)), enc_pairs(rs), Lenc)
        lines.append(base + '|dict|')
        impl.append(attempt(lambda: canon(mk())))
        descr.append(('make', S, S0, rs, L))
        # L not a dict
        lines.append(base + '|nodict|')
        impl.append(attempt(lambda: canon(Kripke(S=list(S), S0=list(S0), R=list(rs), L=[(k, v) for k, v in L.items()]))))
        descr.append(('make-L-not-dict', S, S0, rs, L))
        # a non-iterable label value for one key
        if L:
            k = sorted(L)[0]
            L2 = {kk: (set(v) if kk != k else 42) for kk, v in L.items()}
            lines.append(base + '|dict|%d' % k)
            impl.append(attempt(lambda: canon(Kripke(S=list(S), S0=list(S0), R=list(rs), L=L2))))
            descr.append(('make-bad-label-value', S, S0, rs, L, k))
        try:
            K = mk()
        except Exception:
            continue
        nodes = sorted(K._next.keys())
        if not nodes:
            continue
        # every state has a label set OF ITS OWN: the idiom the library itself uses, labels(s).add(x), on a second
        # instance and on a clone of it, must label s and nobody else
        # the same thing when the caller's L uses ONE set object for several states (aliasing between arguments), or
        # hands in tuples / frozensets / lists as label collections, or tuples for S, S0 and R
        shared = {}
        L_alias = {k: shared.setdefault(frozenset(v), set(v)) for k, v in L.items()}
        kinds = [tuple, frozenset, list, set]
        L_kinds = {k: kinds[i % 4](v) for i, (k, v) in enumerate(sorted(L.items()))}
        variants = [('constructed structure', mk()), ('clone', mk().clone()),
                    ('structure constructed from an L whose equal label sets are one shared object',
                     Kripke(S=list(S), S0=list(S0), R=list(rs), L=L_alias)),
                    ('structure constructed from tuples / frozensets (S, S0, R as tuples, label collections of mixed types)',
                     Kripke(S=tuple(S), S0=frozenset(S0), R=tuple(rs), L=L_kinds))]
        for what, K2 in variants[2:]:
            if canon(K2) != canon(K):
                res.violation('a %s differs from the one built from lists and fresh sets: %s vs %s' % (what, canon(K2), canon(K)),
                              {'S': S, 'S0': S0, 'R': rs, 'L': L})
        for what, K2 in variants:
            for s in nodes:
                K2.labels(s).add('zz_%s' % s)
            wrong = [s for s in nodes if set(K2.labels(s)) != set(L.get(s, [])) | {'zz_%s' % s}]
            # ... and what is computed afterwards follows the edit
            for how, K3 in (('clone()', K2.clone()), ('get_substructure(all states)', K2.get_substructure(set(nodes)))):
                stale = [s for s in nodes if set(K3.labels(s)) != set(K2.labels(s))]
                if stale and not wrong:
                    res.violation('%s of a %s whose labels were edited in place has labels %s at state %r instead of %s'
                                  % (how, what, sorted(K3.labels(stale[0])), stale[0], sorted(K2.labels(stale[0]))),
                                  {'S': S, 'S0': S0, 'R': rs, 'L': L,
                                   'history': ['K = Kripke(S, S0, R, L)', 'for s in states: K.labels(s).add("zz_%s" % s)', 'K.' + how]})
            if wrong:
                res.violation('in a %s, labels(s).add(x) on each state in turn leaves state %r with %s: label sets are shared '
                              'between states' % (what, wrong[0], sorted(K2.labels(wrong[0]))),
                              {'S': S, 'S0': S0, 'R': rs, 'L': L, 'history': ['K = Kripke(S, S0, R, L)' + ('.clone()' if what == 'clone' else ''),
                                                                              'for s in states: K.labels(s).add("zz_%s" % s)', 'K.labels(%r)' % wrong[0]]})
        # labels / next of states and of a non-state
        for s in nodes + [max(nodes) + 5]:
            a = attempt(lambda: 'OK ' + ' '.join(sorted(K.labels(s))))
            b = attempt(lambda: 'OK ' + ' '.join(map(str, sorted(K.next(s)))))
            exp_a = ('OK ' + ' '.join(sorted(set(L.get(s, []))))) if s in nodes else 'ERR RuntimeError'
            if a != exp_a:
                res.violation('labels(%r) = %s, expected %s' % (s, a, exp_a), {'S': S, 'S0': S0, 'R': rs, 'L': L, 'state': s})
            if (s not in nodes) and b != 'ERR RuntimeError':
                res.violation('next(%r) of a non-state = %s' % (s, b), {'S': S, 'S0': S0, 'R': rs, 'L': L, 'state': s})
        for probe in ((0, 1), (), ('n', 'x', 3), 'zz', '', -7, 2.5, frozenset([1]), (nodes[0],)):
            for what, call in (('labels', lambda: K.labels(probe)), ('next', lambda: K.next(probe))):
                r = attempt(call)
                if r != 'ERR RuntimeError':
                    res.violation('%s(%r) of a non-state gives %s, expected RuntimeError' % (what, probe, r if isinstance(r, str) else 'a value'),
                                  {'S': S, 'S0': S0, 'R': rs, 'L': L, 'probe': repr(probe)})
        # labels(x) / next(x) for every state and two non-states, against the model's labelsAt / nextAt
        probes = nodes + [max(nodes) + 5, max(nodes) + 6]
        lines.append('KACCESS|%s|%s|%s|%s|%s' % (' '.join(map(str, S)), ' '.join(map(str, S0)), enc_pairs(rs), Lenc,
                                                 ' '.join(map(str, probes))))
        impl.append(' ; '.join('%s / %s' % (attempt(lambda: 'OK ' + ' '.join(sorted(enc_name(l) for l in K.labels(x)))),
                                            attempt(lambda: 'OK ' + ' '.join(map(str, sorted(K.next(x))))))
                               for x in probes))
        descr.append(('access', S, S0, rs, L, probes))
        own = set(id(v) for v in K._labels.values())
        snap = canon(K)
        lines.append('KCLONE|%s|%s|%s|%s' % (' '.join(map(str, S)), ' '.join(map(str, S0)), enc_pairs(rs), Lenc))
        C = [None]

        def do_clone():
            C[0] = K.clone()
            return canon(C[0])
        impl.append(attempt(do_clone))
        descr.append(('clone', S, S0, rs, L))
        if C[0] is not None and any(id(v) in own for v in C[0]._labels.values()):
            alias_viol.append(('clone', S, S0, rs, L, None))
        # labelling_function() / replace_labelling_function(L2): L2 may lack states and may have keys that are no states
        for _ in range(2):
            keys = [k for k in nodes + [max(nodes) + 1, max(nodes) + 2] if rng.random() < 0.6]
            L2 = {k: [a for a in ('a', 'b', 'zz') if rng.random() < 0.5] for k in keys}
            Vr = [v for v in nodes + [max(nodes) + 1] if rng.random() < 0.6]
            probes2 = nodes + [max(nodes) + 1, max(nodes) + 2]
            K2 = mk()
            lf = K2.labelling_function()
            L2obj = {k: set(v) for k, v in L2.items()}
            vals = {k: v for k, v in L2obj.items()}

            def dict_enc(d):
                return ';'.join('%d:%s' % (k, ' '.join(sorted(enc_name(l) for l in d[k]))) for k in sorted(d))

            def relabel():
                old = K2.replace_labelling_function(L2obj)
                obs['calls'] += 1
                obs['returned_former_dict_is_the_internal_object'] += int(old is lf)
                obs['internal_dict_is_the_callers_object'] += int(K2._labels is L2obj and K2.labelling_function() is L2obj)
                obs['callers_dict_grew_the_missing_states'] += int(any(k not in L2 for k in L2obj))
                obs['label_sets_adopted_not_copied'] += int(all(K2._labels[k] is vals[k] for k in vals))
                parts = [dict_enc(K2._labels), ' '.join(sorted(enc_name(l) for l in K2.labels())),
                         ' ; '.join(attempt(lambda: 'OK ' + ' '.join(sorted(enc_name(l) for l in K2.labels(x)))) for x in probes2),
                         attempt(lambda: canon(K2.clone())), attempt(lambda: canon(K2.get_substructure(set(Vr)))), dict_enc(old)]
                return ' / '.join(parts)
            lines.append('KRELABEL|%s|%s|%s|%s|%s|%s|%s' % (' '.join(map(str, S)), ' '.join(map(str, S0)), enc_pairs(rs), Lenc,
                                                          enc_labels(sorted(L2.items())), ' '.join(map(str, probes2)),
                                                          ' '.join(map(str, Vr))))
            impl.append(attempt(relabel))
            descr.append(('relabel', S, S0, rs, L, L2, Vr))
            if K2._labels is L2obj:
                # what the checker computes afterwards: the same graph labelled by L2 (keys that are no states ignored)
                from pyModelChecking import CTL as _CTL
                g_enc = ';'.join('%d:%s' % (v, ' '.join(map(str, sorted(K2._next[v])))) for v in K2._next)
                for ft, fo in ((('ap', 'a'), _CTL.AtomicProposition('a')), (('ap', 'zz'), _CTL.AtomicProposition('zz')),
                               (('E', ('X', ('ap', 'b'))), _CTL.EX('b')), (('not', ('ap', 'a')), _CTL.Not('a'))):
                    lines.append('CTL|%s|%s|%s' % (g_enc, enc_labels(sorted(L2.items())), sexpr(ft)))
                    impl.append(attempt(lambda: 'OK ' + ' '.join(map(str, sorted(_CTL.modelcheck(K2, fo))))))
                    descr.append(('ctl-after-relabel', S, S0, rs, L, L2, sexpr(ft)))
                # by reference: an edit of the caller's dict after the call shows through labels(s)
                s0_ = nodes[0]
                if s0_ in L2obj and hasattr(L2obj[s0_], 'add'):        # observations only: nothing here is a verdict
                    L2obj[s0_].add('late')
                    obs['later_edit_of_the_callers_set_shows_through_labels'] += int(attempt(lambda: 'late' in K2.labels(s0_)) is True)
                    L2obj[s0_] = set(['swapped'])
                    obs['later_assignment_in_the_callers_dict_shows_through_labels'] += int(attempt(lambda: K2.labels(s0_) == set(['swapped'])) is True)
        subsets = list(itertools.chain.from_iterable(itertools.combinations(nodes + [max(nodes) + 1], k)
                                                     for k in range(len(nodes) + 2)))
        for V in subsets:
            lines.append('SUBSTRUCT|%s|%s|%s|%s|%s' % (' '.join(map(str, S)), ' '.join(map(str, S0)), enc_pairs(rs),
                                                       Lenc, ' '.join(map(str, V))))
            Sub = [None]

            def do_sub():
                Sub[0] = K.get_substructure(set(V))
                return canon(Sub[0])
            impl.append(attempt(do_sub))
            descr.append(('substructure', S, S0, rs, L, V))
            # V in the other set types (the docstring says `:type V: set`; lists / tuples raise TypeError at `V & ...`)
            class MySet(set):
                pass
            base = impl[-1]
            for kind, mkc in (('frozenset', frozenset), ('set subclass', MySet)):
                alt = attempt(lambda: canon(K.get_substructure(mkc(V))))
                if alt != base:
                    res.violation('get_substructure(V) with V given as a %s gives %s, as a set %s' % (kind, alt, base),
                                  {'S': S, 'S0': S0, 'R': rs, 'L': L, 'V': list(V), 'container': kind})
            if Sub[0] is not None:
                if any(id(v) in own for v in Sub[0]._labels.values()):
                    alias_viol.append(('substructure', S, S0, rs, L, V))
                # mutate the copy's labels, the original must not move
                for v in Sub[0]._labels.values():
                    v.add('zz')
                if canon(K) != snap:
                    alias_viol.append(('substructure-mutation-leaks', S, S0, rs, L, V))
        if canon(K) != snap:
            res.violation('clone/get_substructure modified the structure', {'S': S, 'S0': S0, 'R': rs, 'L': L})
    model = lean_batch(lines)
    bad = 0
    kinds, errs = {}, 0
    for d, a, m in zip(descr, impl, model):
        kinds[d[0]] = kinds.get(d[0], 0) + 1
        if a.startswith('ERR'):
            errs += 1
        if ' '.join(a.split()) != ' '.join(m.split()):
            bad += 1
            if bad <= 3:
                res.violation('Kripke operation %s: implementation gives %r, the model (proved) gives %r' % (d[0], a, m),
                              {'operation': d[0], 'S': d[1], 'S0': d[2], 'R': d[3], 'L': d[4], 'extra': d[5:],
                               'impl': a, 'model': m})
    for v in alias_viol[:3]:
        res.violation('%s shares a label set with the original' % v[0],
                      {'operation': v[0], 'S': v[1], 'S0': v[2], 'R': v[3], 'L': v[4], 'V': v[5]})
    problems = proof_coverage(res, THEOREMS, MODULES)
    for p in problems:
        res.violation('proof obligation no longer checks: ' + p, {'theorem_or_module': p}, no_input=True)
    res.coverage.update({
        'evaluations': len(lines), 'distinct_nontrivial': len(set(l for l, a in zip(lines, impl) if not a.startswith('ERR'))),
        'rule': 'every relation on <=2 states and a sample on 3 states, random S subset, S0 (may lie outside S), L '
                '(may label non-states); per structure: construction (dict / non-dict L / non-iterable label value), '
                'labels/next of every state and a non-state, clone, get_substructure for every subset of states plus '
                'one non-state; distinct_nontrivial = distinct operations that succeed',
        'operation_kinds': kinds, 'error_answers': errs, 'disagreements': bad,
        'replace_labelling_function_observations': obs,
        'samples': [{'op': lines[i], 'impl': impl[i], 'model': model[i]} for i in (0, len(lines) // 2, len(lines) - 1)],
        'traces_validated_against_impl': len(lines),
    })
