"""C15 — fairness restricts path quantifiers to fair paths.   (DOES NOT HOLD on this tree: known findings KF-C15-a..d)

Lean: PMC/Spec/Fair.lean (fair paths, CGP fair semantics), PMC/Model/Fair.lean (get_fair_states, label_fair_states,
get_equivalent_non_fair_formula and the three modelcheck(..., F=...) pipelines AS IMPLEMENTED, next to the corrected
fairStatesSpec), PMC/Properties/C15.lean: `fairStatesSpec_exact` (the corrected computation meets the specification),
`spec_trivial_F`, and machine-checked refutations of the property for the implemented behaviour (KF_a, KF_b, KF_c,
KF_d), plus the parts that hold (F=None is the unconstrained checker by definition).

What this check decides:
 * the implementation must behave EXACTLY like the as-implemented model (result sets and exception classes, for
   get_fair_states under every state insertion order and for the three modelcheck entry points with F); a deviation
   that also deviates from the specification (fairStatesSpec / the independent fair reference semantics) is a NEW
   violation; a deviation that lands on the specification means a finding was repaired and is not reported;
 * the parts of the property that do hold are checked directly: no call modifies K, F=None equals the call without F;
 * every open finding whose witness still fails on the real code is printed as KNOWN-FINDING.
"""
import contextlib
import io
import itertools

import common
from common import all_structures, known_findings, lang, lean_batch, proof_coverage, rng_for, sexpr, to_obj, tree_str
from gen import formulas as FG
from theorems import get
import validate_fair as V

MODULES, THEOREMS = get('C15')


def witnesses_live():
    """replay the recorded witnesses on the real code: which findings still fail?"""
    from pyModelChecking.kripke import Kripke
    CTL, LTL = lang('CTL'), lang('LTL')
    live = {}
    try:
        live['KF-C15-a'] = Kripke(R=[(0, 0)]).get_fair_states([{0}]) != {0}
    except Exception:
        live['KF-C15-a'] = True
    K = Kripke(R=[(0, 0), (0, 1), (1, 0)], L={0: {'p'}})
    try:
        live['KF-C15-b'] = CTL.modelcheck(K, 'E G p', F=[{1}]) != set()
    except Exception:
        live['KF-C15-b'] = True
    K0 = Kripke(R=[(0, 0)], L={0: {'p'}})
    for key, f in (('KF-C15-c', lambda: LTL.modelcheck(K0, 'A G p', F=[{0}])),
                   ('KF-C15-d', lambda: CTL.modelcheck(K0, 'E(p R q)', F=[{0}]))):
        try:
            with contextlib.redirect_stdout(io.StringIO()):
                f()
            live[key] = False
        except Exception:
            live[key] = True
    return live


def ref_fair(succ, labs, F, tree):
    import reference
    from checks.mc_common import ref_tree
    n = len(succ)
    RK = (list(range(n)), {s: set(succ[s]) for s in range(n)}, {s: set(labs[s]) for s in range(n)})
    return sorted(reference.sat(RK, ref_tree(tree), fair=[set(P) for P in F]))


def run(res):
    rng = rng_for('C15')
    quick = res.tier == 'quick'
    res.level = 'other'
    # ------------------------------------------------------------------ get_fair_states, every insertion order
    fs_jobs = []
    for n in (1, 2, 3):
        structs = list(all_structures(n, atoms=()))
        if n == 3 and quick:
            structs = rng.sample(structs, 60)
        Fl = V.fair_lists(n, ordered=(n < 3))
        if n == 3:
            Fl = rng.sample(Fl, min(len(Fl), 20 if quick else 200))
        for K in structs:
            for order in itertools.permutations(range(n)):
                for F in Fl:
                    fs_jobs.append((K.succ, F, list(order)))
    fs = V.par(V.fs_chunk, fs_jobs)
    fs_model = lean_batch(['FAIRSTATES|%s|%s' % (enc, V.enc_fair(F)) for (enc, a, unch), (succ, F, order) in zip(fs, fs_jobs)])
    new_viol = 0
    impl_ne_spec = 0
    repaired = 0
    for (enc, a, unchanged), (succ, F, order), m in zip(fs, fs_jobs, fs_model):
        mi = m.split('spec:')[0].replace('impl:', '').strip()
        ms = m.split('spec:')[1].strip()
        if not unchanged:
            new_viol += 1
            res.violation('get_fair_states modified the structure', {'succ': succ, 'F': [sorted(P) for P in F], 'order': order})
        if V.norm(a) != V.norm(ms):
            impl_ne_spec += 1
        if V.norm(a) != V.norm(mi):
            if V.norm(a) == V.norm(ms):
                repaired += 1
            else:
                new_viol += 1
                if new_viol <= 3:
                    res.violation('get_fair_states(%s) = {%s}; as implemented (known finding KF-C15-a) it would be {%s}, the '
                                  'specification says {%s}: a deviation that no recorded finding explains'
                                  % ([sorted(P) for P in F], a, mi, ms),
                                  {'succ': succ, 'insertion_order': order, 'F': [sorted(P) for P in F], 'impl': a,
                                   'as_implemented_model': mi, 'spec': ms})
    # ------------------------------------------------------------------ modelcheck(..., F=...)
    mc_jobs = []
    small = [K for n in (1, 2) for K in all_structures(n)]
    structs = rng.sample(small, 40 if quick else len(small)) + rng.sample(list(all_structures(3)), 25 if quick else 600)
    ctl1 = FG.ctl_state(1)
    ltl1 = FG.ltl_path(1)
    from common import KS
    from checks.c06 import rename_atoms
    relabelled = []
    for K in structs[::3]:
        # labels that look like the fair label itself: 'fair' / 'fair0' on some states
        m = rng.choice([{'p': 'fair'}, {'p': 'fair', 'q': 'fair0'}, {'q': 'fair0'}, {'p': 'fair0', 'q': 'fair'}])
        relabelled.append((KS(K.succ, [[m.get(l, l) for l in ls] for ls in K.labs]), m))
    for K, amap in [(K, {}) for K in structs] + relabelled:
        Fl = V.fair_lists(K.n, ordered=False)
        for F in [None] + rng.sample(Fl, min(len(Fl), 5 if quick else 12)):
            order = list(range(K.n))
            rng.shuffle(order)
            ren = (lambda t: rename_atoms(t, amap)) if (amap and rng.random() < 0.6) else (lambda t: t)
            for t in rng.sample(ctl1, 6):
                mc_jobs.append(('CTL', K.succ, K.labs, F, ren(t), order))
            for t in rng.sample(ltl1, 2):
                mc_jobs.append(('LTL', K.succ, K.labs, F, ('A', ren(t)), order))
            for _ in range(4):
                mc_jobs.append(('CTLS', K.succ, K.labs, F, ren(FG.rand_ctls_state(rng, 3, max_temporal=2)), order))
    mc = V.par(V.mc_chunk, mc_jobs)
    mc_model = lean_batch(['%s|%s|%s|%s' % (V.CMD[j[0]], enc, V.enc_fair(j[3]), sexpr(j[4])) for (enc, a, u, so, a0), j in zip(mc, mc_jobs)])
    differs_from_unconstrained = 0
    typeerrors = {}
    for (enc, a, unchanged, same_order, a0), j, m in zip(mc, mc_jobs, mc_model):
        logic, succ, labs, F, tree, order = j
        ctx = {'logic': logic, 'succ': succ, 'labels': labs, 'F': None if F is None else [sorted(P) for P in F],
               'formula': tree_str(tree), 'insertion_order': order}
        if not unchanged:
            new_viol += 1
            res.violation('%s.modelcheck(..., F=%s) modified the caller\'s structure' % (logic, ctx['F']), ctx)
        if F is None and V.norm(a) != V.norm(a0):
            new_viol += 1
            res.violation('F=None gives %s, the call without F gives %s' % (a, a0), ctx)
        if a.startswith('ERR'):
            typeerrors[(logic, a)] = typeerrors.get((logic, a), 0) + 1
            if a != 'ERR TypeError':
                new_viol += 1
                res.violation('%s.modelcheck with F raised %s (an internal error other than the recorded TypeErrors)' % (logic, a), ctx)
        if F is not None and a.startswith('OK') and V.norm(a) != V.norm(a0):
            differs_from_unconstrained += 1
        if V.norm(a) != V.norm(m):
            spec = None
            if F is not None and a.startswith('OK'):
                try:
                    spec = 'OK ' + ' '.join(map(str, ref_fair(succ, labs, F, tree)))
                except Exception:
                    spec = None
            if spec is not None and V.norm(spec) == V.norm(a):
                repaired += 1
            else:
                new_viol += 1
                if new_viol <= 3:
                    res.violation('%s.modelcheck(%s, F=%s) = %s; as implemented (known findings KF-C15-a..d) it would be %s; '
                                  'fair reference semantics: %s — a deviation that no recorded finding explains'
                                  % (logic, tree_str(tree), ctx['F'], a, m, spec),
                                  dict(ctx, impl=a, as_implemented_model=m, fair_reference=spec))
    # ------------------------------------------------------------------ the rewriting and the label, on their own
    # (fidelity of the as-implemented model: get_equivalent_non_fair_formula trees and the label label_fair_states picks)
    from common import from_obj, enc_name
    rw_lines, rw_impl, rw_meta = [], [], []
    for logic, pool in (('CTL', FG.ctl_state(1) + [FG.rand_ctl(rng, 3) for _ in range(150 if quick else 1500)]),
                        ('LTL', FG.ltl_path(1)[:200] + [FG.rand_ltl_path(rng, 3, max_temporal=4) for _ in range(100 if quick else 1000)]),
                        ('CTLS', [FG.rand_ctls_state(rng, 3, max_temporal=3, qdepth=2) for _ in range(200 if quick else 2000)])):
        for t in pool:
            fair = rng.choice(['fair', 'fair0', 'fair12'])
            try:
                a = 'OK ' + sexpr(from_obj(to_obj(t, lang(logic)).get_equivalent_non_fair_formula(fair)))
            except Exception as e:
                a = 'ERR ' + type(e).__name__
            rw_lines.append('NONFAIR|%s|%s|%s' % (logic, enc_name(fair), sexpr(t)))
            rw_impl.append(a)
            rw_meta.append((logic, t, fair))
    rw_bad = 0
    for (logic, t, fair), a, m in zip(rw_meta, rw_impl, lean_batch(rw_lines)):
        m = m.strip()
        m = m if m.startswith('ERR') or m.startswith('OK') else 'OK ' + m
        if a.strip() != m:
            rw_bad += 1
            if rw_bad <= 2:
                res.violation('%s: get_equivalent_non_fair_formula(%r) of %s is %s, the as-implemented model gives %s — '
                              'correspondence Fair.nonFairCTL / nonFairCTLS vs the code no longer checks'
                              % (logic, fair, tree_str(t), a[:200], m[:200]),
                              {'logic': logic, 'formula_sexpr': sexpr(t), 'fair_label': fair, 'impl': a, 'model': m,
                               'correspondence': 'PMC.Fair.nonFairCTL / nonFairCTLS (PMC/Model/Fair.lean) vs get_equivalent_non_fair_formula'},
                              no_input=True)
    lb_lines, lb_impl, lb_meta = [], [], []
    for _ in range(150 if quick else 1500):
        n = rng.choice([1, 2, 3])
        succ = [[rng.randrange(n)] for _ in range(n)]
        names = rng.sample(['fair', 'fair0', 'fair1', 'fair2', 'p', 'fair00', 'Fair', 'fair10'], rng.choice([0, 1, 2, 3, 4]))
        labs = [[x for x in names if rng.random() < 0.6] for _ in range(n)]
        K = V.build(succ, labs, list(range(n)))
        try:
            a = K.clone().label_fair_states([])
        except Exception as e:
            a = 'ERR ' + type(e).__name__
        lb_lines.append('FAIRLABEL|%s' % V.enc_struct(K))
        lb_impl.append(a)
        lb_meta.append((succ, labs))
    lb_bad = 0
    for (succ, labs), a, m in zip(lb_meta, lb_impl, lean_batch(lb_lines)):
        if enc_name(a) != m.strip() and a != m.strip():
            lb_bad += 1
            if lb_bad <= 2:
                res.violation('label_fair_states on labels %s returns %r, the model %r — correspondence Fair.fairLabel vs the '
                              'code no longer checks' % (labs, a, m.strip()),
                              {'succ': succ, 'labels': labs, 'impl': a, 'model': m.strip(),
                               'correspondence': 'PMC.Fair.fairLabel vs Kripke.label_fair_states'}, no_input=True)
    # ------------------------------------------------------------------ findings
    live = witnesses_live()
    for k in known_findings('C15'):
        if live.get(k['id']):
            res.known.append('%s: %s' % (k['id'], k['what']))
    problems = proof_coverage(res, THEOREMS, MODULES)
    for p in problems:
        res.violation('proof obligation no longer checks: ' + p, {'theorem_or_module': p}, no_input=True)
    res.coverage.update({
        'explanation': 'The property is REFUTED on the current tree (machine-checked witnesses KF_a, KF_b and universally '
                       'quantified KF_c, KF_d in PMC/Properties/C15.lean; witnesses replayed on the real code on this '
                       'run: %s). The check pins the residual behaviour: the implementation must equal the '
                       'as-implemented Lean model on every explored input (else a new violation unless it lands on the '
                       'specification), must not modify K, must treat F=None like no F, and may raise only TypeError.'
                       % sorted(k for k, v in live.items() if v),
        'evaluations': len(fs_jobs) + len(mc_jobs), 'distinct_nontrivial': impl_ne_spec + differs_from_unconstrained,
        'rule': 'get_fair_states: every total structure with <=2 states and a sample with 3, under every insertion '
                'order of the states, x lists of <=2 subsets; modelcheck: sampled structures x F in {None, sampled '
                'lists} x depth<=1 CTL formulas, A over depth<=1 LTL path formulas, random CTL* formulas; '
                'distinct_nontrivial = cases where the implemented answer differs from the specification / from the '
                'unconstrained answer',
        'get_fair_states_cases': len(fs_jobs), 'get_fair_states_impl_differs_from_spec': impl_ne_spec,
        'modelcheck_cases': len(mc_jobs), 'modelcheck_F_answer_differs_from_unconstrained': differs_from_unconstrained,
        'exceptions_histogram': {'%s %s' % k: v for k, v in sorted(typeerrors.items())},
        'non_fair_rewritings_compared': len(rw_lines), 'non_fair_rewriting_mismatches': rw_bad,
        'fair_labels_compared': len(lb_lines), 'fair_label_mismatches': lb_bad,
        'unexplained_deviations': new_viol, 'deviations_landing_on_the_specification': repaired,
        'findings_still_failing': live,
        'samples': [{'job': [str(x) for x in mc_jobs[i]], 'impl': mc[i][1], 'as_implemented_model': mc_model[i]}
                    for i in (0, len(mc_jobs) // 2, len(mc_jobs) - 1)],
        'traces_validated_against_impl': len(fs_jobs) + len(mc_jobs),
    })
