"""C16 — equal Boolean functions share one OBDD under every creation/GC history.

Tie: random histories (parse, &, |, ^, ~, restrict, drop, gc.collect()) over a pool of OBDDs with one ordering; after
each step the implementation's diagram is compared, as a tree, with the Lean model's; `==`/`is` on all pairs of live
roots is compared with equality of truth tables (independent of the model); BDDNode.nodes() is scanned for duplicate
(var, low, high) triples and its size after gc.collect() is compared with the number of distinct subtrees reachable
from the live roots (the model's prediction of what a collection must leave).
"""
import itertools

from checks import bdd_common as B
from common import proof_coverage, rng_for
from theorems import get

MODULES, THEOREMS = get('C16')


def one_history(rng, ordering, nsteps):
    h = B.History(ordering)
    names = list(ordering)
    h.nodes()
    for _ in range(nsteps):
        live = h.live_indices()
        r = rng.random()
        if not live or r < 0.25:
            h.new(B.rand_exp(rng, rng.choice([1, 2, 3, 3]), names), lam=rng.random() < 0.2)
        elif r < 0.5:
            h.binop(rng.choice(['and', 'or', 'xor']), rng.choice(live), rng.choice(live))
        elif r < 0.58:
            h.inv(rng.choice(live))
        elif r < 0.68:
            h.restrict(rng.choice(live), rng.choice(names), rng.random() < 0.5)
        elif r < 0.8:
            h.drop(rng.choice(live))
        elif r < 0.9:
            h.nodes()
        else:
            h.eq(rng.choice(live), rng.choice(live))
    h.nodes()
    # identity vs function, independent of the model: all pairs of live roots
    live = h.live_indices()
    tts = {i: B.truth_table(lambda env, o=h.pool[i]: B.impl_eval(o.root, env), names) for i in live}
    pairs = 0
    for i, j in itertools.combinations(live, 2):
        pairs += 1
        same_f = tts[i] == tts[j]
        same_o = (h.pool[i] == h.pool[j])
        if same_f != same_o or same_o != (h.pool[i].root is h.pool[j].root):
            h.notes.append('pool[%d] and pool[%d]: same function=%s, ==%s, same root=%s'
                           % (i, j, same_f, same_o, h.pool[i].root is h.pool[j].root))
    for i in live:
        if not B.ordered_reduced(h.pool[i].root, h.ordering):
            h.notes.append('pool[%d] is not ordered/reduced' % i)
    h.pairs = pairs
    h.close()
    return h


def run(res):
    rng = rng_for('C16')
    quick = res.tier == 'quick'
    B.live_nonterminals()
    hs = []
    orders = list(itertools.permutations(B.VARS))
    n = 250 if quick else 3000
    for k in range(n):
        nv = rng.choice([2, 3, 4, 4])
        ordering = list(rng.choice(orders))[:]
        ordering = [v for v in ordering if v in B.VARS[:nv]]
        hs.append(one_history(rng, ordering, rng.choice([10, 20, 30, 40])))
    st = B.run_histories(res, hs, 'C16')
    problems = proof_coverage(res, THEOREMS, MODULES)
    for p in problems:
        res.violation('proof obligation no longer checks: ' + p, {'theorem_or_module': p}, no_input=True)
    pairs = sum(h.pairs for h in hs)
    res.coverage.update(st)
    res.coverage.update({
        'evaluations': st['operations'], 'distinct_nontrivial': len(set(h.line() for h in hs)),
        'rule': 'random histories of 10-40 steps (parse/lambda-parse, &, |, ^, ~, restrict, drop, gc+live-node scan, ==) '
                'over <=4 variables, orderings drawn from all 24 permutations; distinct_nontrivial = distinct histories',
        'pairs_compared_identity_vs_function': pairs,
        'traces_validated_against_impl': len(hs),
    })
