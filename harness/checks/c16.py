"""C16 — equal Boolean functions share one OBDD under every creation/GC history.

Tie: random histories (parse, &, |, ^, ~, restrict, drop, gc.collect()) over a pool of OBDDs with one ordering; after
each step the implementation's diagram is compared, as a tree, with the Lean model's; `==`/`is` on all pairs of live
roots is compared with equality of truth tables (independent of the model); BDDNode.nodes() is scanned for duplicate
(var, low, high) triples and its size after gc.collect() is compared with the number of distinct subtrees reachable
from the live roots (the model's prediction of what a collection must leave).
"""
import itertools

from checks import bdd_common as B
from common import proof_coverage, rng_for
from theorems import get

MODULES, THEOREMS = get('C16')


def step(rng, h, names, shared):
    """one random operation on history h; `shared` carries the last expression parsed by ANY live history, so that
    the same text is parsed under different orderings while the earlier results are still referenced"""
    live = h.live_indices()
    r = rng.random()
    if not live or r < 0.25:
        if shared and rng.random() < 0.5 and all(v in names for v in shared[0][1]):
            e = shared[0][0]
        else:
            e = B.rand_exp(rng, rng.choice([1, 2, 3, 3]), names)
            shared[:] = [(e, vars_of(e))]
        h.new(e, lam=rng.random() < 0.2)
    elif r < 0.5:
        h.binop(rng.choice(['and', 'or', 'xor']), rng.choice(live), rng.choice(live))
    elif r < 0.58:
        h.inv(rng.choice(live))
    elif r < 0.68:
        h.restrict(rng.choice(live), rng.choice(names), rng.random() < 0.5)
    elif r < 0.8:
        h.drop(rng.choice(live))
    else:
        h.eq(rng.choice(live), rng.choice(live))


def vars_of(e):
    if e[0] == 'v':
        return {e[1]}
    out = set()
    for x in e[1:]:
        if isinstance(x, tuple):
            out |= vars_of(x)
    return out


def finish(h):
    names = list(h.ordering)
    live = h.live_indices()
    tts = {i: B.truth_table(lambda env, o=h.pool[i]: B.impl_eval(o.root, env), names) for i in live}
    pairs = 0
    for i, j in itertools.combinations(live, 2):
        pairs += 1
        same_f = tts[i] == tts[j]
        same_o = (h.pool[i] == h.pool[j])
        if same_f != same_o or same_o != (h.pool[i].root is h.pool[j].root):
            h.notes.append('pool[%d] and pool[%d]: same function=%s, ==%s, same root=%s'
                           % (i, j, same_f, same_o, h.pool[i].root is h.pool[j].root))
    for i in live:
        if not B.ordered_reduced(h.pool[i].root, h.ordering):
            h.notes.append('pool[%d] is not ordered/reduced w.r.t. its own ordering' % i)
    h.pairs = pairs


def history_group(rng, orderings, nsteps):
    """several histories, one per ordering, alive at the same time and advanced in turns (the node store and any
    module-level state are shared by all of them); the live-node count is taken while only ONE of them is alive"""
    hs = [B.History(o) for o in orderings]
    shared = []
    hs[0].nodes()
    for _ in range(nsteps):
        h = rng.choice(hs)
        step(rng, h, list(h.ordering), shared)
    for h in hs:
        finish(h)
    # close all but the first, then count the live nodes for the first
    for h in hs[1:]:
        h.close()
    hs[0].nodes()
    hs[0].close()
    return hs


def run(res):
    rng = rng_for('C16')
    quick = res.tier == 'quick'
    B.live_nonterminals()
    hs = []
    orders = list(itertools.permutations(B.VARS))
    n = 120 if quick else 1500
    for k in range(n):
        nv = rng.choice([2, 3, 4, 4])
        names = B.VARS[:nv]
        group = []
        for _ in range(rng.choice([1, 2, 3])):
            group.append([v for v in rng.choice(orders) if v in names])
        hs.extend(history_group(rng, group, rng.choice([20, 40, 60])))
    st = B.run_histories(res, hs, 'C16')
    problems = proof_coverage(res, THEOREMS, MODULES)
    for p in problems:
        res.violation('proof obligation no longer checks: ' + p, {'theorem_or_module': p}, no_input=True)
    pairs = sum(h.pairs for h in hs)
    res.coverage.update(st)
    res.coverage.update({
        'evaluations': st['operations'], 'distinct_nontrivial': len(set(h.line() for h in hs)),
        'rule': 'groups of 1-3 histories (one ordering each, drawn from all 24 permutations of <=4 variables) alive at the '
                'same time and advanced in turns for 20-60 steps (parse/lambda-parse — half of the time re-parsing the '
                'text another live history has just parsed —, &, |, ^, ~, restrict, drop, ==), live-node scan before and '
                'after; distinct_nontrivial = distinct histories',
        'pairs_compared_identity_vs_function': pairs,
        'traces_validated_against_impl': len(hs),
    })
