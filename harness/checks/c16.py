"""C16 — equal Boolean functions share one OBDD under every creation/GC history.

Tie: random histories (parse, &, |, ^, ~, restrict, drop, gc.collect()) over a pool of OBDDs with one ordering; after
each step the implementation's diagram is compared, as a tree, with the Lean model's; `==`/`is` on all pairs of live
roots is compared with equality of truth tables (independent of the model); BDDNode.nodes() is scanned for duplicate
(var, low, high) triples and its size after gc.collect() is compared with the number of distinct subtrees reachable
from the live roots (the model's prediction of what a collection must leave).
"""
import itertools

from checks import bdd_common as B
from common import proof_coverage, rng_for
from theorems import get

MODULES, THEOREMS = get('C16')


def step(rng, h, names, shared):
    """one random operation on history h; `shared` carries the last expression parsed by ANY live history, so that
    the same text is parsed under different orderings while the earlier results are still referenced"""
    live = h.live_indices()
    r = rng.random()
    if not live or r < 0.25:
        if shared and rng.random() < 0.5 and all(v in names for v in shared[0][1]):
            e = shared[0][0]
        else:
            e = B.rand_exp(rng, rng.choice([1, 2, 3, 3]), names)
            shared[:] = [(e, vars_of(e))]
        h.new(e, lam=rng.random() < 0.2)
    elif r < 0.5:
        h.binop(rng.choice(['and', 'or', 'xor']), rng.choice(live), rng.choice(live))
    elif r < 0.58:
        h.inv(rng.choice(live))
    elif r < 0.68:
        h.restrict(rng.choice(live), rng.choice(names), rng.random() < 0.5)
    elif r < 0.8:
        h.drop(rng.choice(live))
    else:
        h.eq(rng.choice(live), rng.choice(live))


def vars_of(e):
    if e[0] == 'v':
        return {e[1]}
    out = set()
    for x in e[1:]:
        if isinstance(x, tuple):
            out |= vars_of(x)
    return out


def finish(h):
    names = list(h.ordering)
    live = h.live_indices()
    tts = {i: B.truth_table(lambda env, o=h.pool[i]: B.impl_eval(o.root, env), names) for i in live}
    pairs = 0
    for i, j in itertools.combinations(live, 2):
        pairs += 1
        same_f = tts[i] == tts[j]
        same_o = (h.pool[i] == h.pool[j])
        if same_f != same_o or same_o != (h.pool[i].root is h.pool[j].root):
            h.notes.append('pool[%d] and pool[%d]: same function=%s, ==%s, same root=%s'
                           % (i, j, same_f, same_o, h.pool[i].root is h.pool[j].root))
        # the nodes themselves: `==` / `!=` of two BDD nodes (documented: "isomorph") must coincide with identity, as
        # canonicity says, for roots and for their children alike
        ra, rb = h.pool[i].root, h.pool[j].root
        for x, y in ((ra, rb), (ra, ra), (getattr(ra, 'low', ra), getattr(rb, 'low', rb)), (getattr(ra, 'high', ra), getattr(ra, 'high', ra))):
            e1 = B.attempt(lambda: (x == y, x != y))
            if e1 != ((x is y), (x is not y)):
                h.notes.append('node-level == / != of two diagrams gives %r, identity says %r (pool[%d], pool[%d])'
                               % (e1, ((x is y), (x is not y)), i, j))
                break
    for i in live:
        if not B.ordered_reduced(h.pool[i].root, h.ordering):
            h.notes.append('pool[%d] is not ordered/reduced w.r.t. its own ordering' % i)
    h.pairs = pairs


def history_group(rng, orderings, nsteps):
    """several histories, one per ordering, alive at the same time and advanced in turns (the node store and any
    module-level state are shared by all of them); the live-node count is taken while only ONE of them is alive"""
    hs = [B.History(o) for o in orderings]
    shared = []
    hs[0].nodes()
    for _ in range(nsteps):
        h = rng.choice(hs)
        step(rng, h, list(h.ordering), shared)
    for h in hs:
        finish(h)
    # close all but the first, then count the live nodes for the first
    for h in hs[1:]:
        h.close()
    hs[0].nodes()
    hs[0].close()
    return hs


def mixed_name_sources(res, rng, quick):
    """equal variable names that are DIFFERENT str objects (built at run time, not interned) reaching the library through
    different doors — expression parser, lambda parser, node constructors — while the diagrams are alive: one function,
    one node"""
    from pyModelChecking.BDD import BDDNode, OBDD
    mixed = 0
    for k in range(60 if quick else 600):
        base = rng.sample(['x1', 'x2', 'y10', 'sel', 'carry_in', 'q0'], rng.choice([2, 3]))

        def fresh(nm):
            return ''.join(list(nm))            # a new str object equal to nm
        order = [fresh(v) for v in base]
        e1 = B.rand_exp(rng, rng.choice([1, 2, 3]), base)
        keep = [OBDD(B.render(e1), [fresh(v) for v in base])]
        keep.append(OBDD('lambda %s: %s' % (','.join(base), B.render(e1))))

        # the same function rebuilt node by node (Shannon expansion along the ordering) with fresh name objects
        def shannon(env, rest):
            if not rest:
                return BDDNode(bool(B.eval_exp(e1, env)))
            v = rest[0]
            lo = shannon(dict(env, **{v: False}), rest[1:])
            hi = shannon(dict(env, **{v: True}), rest[1:])
            return lo if lo is hi else BDDNode(fresh(v), lo, hi)
        hand = B.attempt(lambda: OBDD(shannon({}, list(base)), order))
        mixed += 1
        msgs = []
        if isinstance(hand, tuple):
            msgs.append('OBDD(node built by Shannon expansion, %s) raised %s' % (order, hand[1]))
        else:
            keep.append(hand)
            for i, a in enumerate(keep):
                for b in keep[i + 1:]:
                    if not (a == b) or a.root is not b.root:
                        msgs.append('the same function over %s built through two doors gives == %r, same root %r'
                                    % (base, a == b, a.root is b.root))
            by = {}
            for nd in B.live_nonterminals():
                by.setdefault((nd.var, id(nd.low), id(nd.high)), []).append(nd)
            if any(len(v) > 1 for v in by.values()):
                msgs.append('two live nodes share (var, low, high) after building %s through the parser and the node API'
                            % B.render(e1))
        for m in msgs[:1]:
            res.violation('C16 (equal-but-not-identical variable names): ' + m,
                          {'variables': base, 'expression': B.render(e1),
                           'history': ['OBDD(expr, fresh-name list)', 'OBDD(lambda text)',
                                       'OBDD(Shannon-expanded BDDNode tree with fresh name objects, fresh-name list)']})
    return mixed


def run(res):
    rng = rng_for('C16')
    quick = res.tier == 'quick'
    # descendents()/ancestors()/BDDNode.nodes() against the unique-table model (hand-built and library-built
    # diagrams); first, while the process holds no other diagram
    from checks import bdd_api
    store_api = bdd_api.run_store(res, rng_for('C16/store'), quick)
    mixed = mixed_name_sources(res, rng_for('C16/names'), quick)
    B.live_nonterminals()
    hs = []
    orders = list(itertools.permutations(B.VARS))
    n = 120 if quick else 1500
    for k in range(n):
        nv = rng.choice([2, 3, 4, 4])
        names = B.VARS[:nv]
        group = []
        for _ in range(rng.choice([1, 2, 3])):
            group.append([v for v in rng.choice(orders) if v in names])
        hs.extend(history_group(rng, group, rng.choice([20, 40, 60])))
    # scale: thousands of live nodes over 13-16 variables; literals and cubes requested again must be the same roots
    from pyModelChecking.BDD import OBDD
    import gc as _gc
    big_roots = 0
    for rounds in range(1 if quick else 3):
        nv = rng.choice([13, 14, 16])
        order = ['v%d' % i for i in range(nv)]
        rng.shuffle(order)
        keep = {}
        exprs = []
        # every positive cube and clause over <= 5 of the first 12 variables (1585 each: that many distinct nodes hang
        # off each terminal), plus random signed ones; the last variables stay unused until the literal test below
        aux = order[:12]
        for k in range(1, 6):
            for sub in itertools.combinations(aux, k):
                exprs.append(' & '.join(sub))
                exprs.append(' | '.join(sub))
        for i in range(400 if quick else 3000):
            lits = rng.sample(aux, rng.choice([2, 3, 4]))
            signs = [rng.random() < 0.5 for _ in lits]
            op = ' & ' if i % 2 else ' | '
            exprs.append(op.join(('~' if s else '') + l for l, s in zip(lits, signs)))
        for e in exprs:
            keep[e] = OBDD(e, list(order))
        big_roots += len(keep)
        problems16 = []
        for v in order:
            a, b = OBDD(v, list(order)), OBDD(v, list(order))
            if a.root is not b.root or not (a == b):
                problems16.append('the literal %s parsed twice gives two different roots' % v)
            c = OBDD('~(~%s)' % v, list(order))
            if c.root is not a.root:
                problems16.append('~~%s is not the node of %s' % (v, v))
        for e in rng.sample(exprs, 300):
            again = OBDD(e, list(order))
            if again.root is not keep[e].root:
                problems16.append('%r parsed again gives another root' % e)
        live = B.live_nonterminals()
        d = B.duplicate_triples(live)
        if d:
            problems16.append('%d duplicate (var, low, high) triples among %d live nodes' % (len(d), len(live)))
        for pmsg in problems16[:3]:
            res.violation('C16 at scale (%d variables, %d live OBDDs, %d live nodes): %s' % (nv, len(keep), len(live), pmsg),
                          {'ordering': order, 'expressions': exprs[:20], 'n_expressions': len(exprs)})
        keep.clear()
        _gc.collect()
    st = B.run_histories(res, hs, 'C16')
    res.coverage['store_api'] = store_api
    res.coverage['mixed_name_source_cases'] = mixed
    problems = proof_coverage(res, THEOREMS, MODULES)
    for p in problems:
        res.violation('proof obligation no longer checks: ' + p, {'theorem_or_module': p}, no_input=True)
    pairs = sum(h.pairs for h in hs)
    res.coverage.update(st)
    res.coverage.update({
        'evaluations': st['operations'], 'distinct_nontrivial': len(set(h.line() for h in hs)),
        'rule': 'groups of 1-3 histories (one ordering each, drawn from all 24 permutations of <=4 variables) alive at the '
                'same time and advanced in turns for 20-60 steps (parse/lambda-parse — half of the time re-parsing the '
                'text another live history has just parsed —, &, |, ^, ~, restrict, drop, ==), live-node scan before and '
                'after; distinct_nontrivial = distinct histories',
        'pairs_compared_identity_vs_function': pairs, 'roots_alive_in_the_large_population': big_roots,
        'traces_validated_against_impl': len(hs),
    })
