"""C17 — OBDD operations compute the right function, reduced and ordered.

Tie: for expression pairs over <=4 variables and every ordering: &, |, ^, ~ and restrict(v,b) for all (v,b): the
implementation's result tree vs the model's; independently of the model the truth table of the result is compared
with the truth table computed from the expressions in Python on all assignments, every reachable node is checked to
be ordered with distinct children, variables() is compared with the set of variables the function depends on, and
the RuntimeError guards (different orderings, foreign variable) are exercised.
"""
import itertools

from checks import bdd_common as B
from common import proof_coverage, rng_for
from theorems import get

MODULES, THEOREMS = get('C17')


def depends(tt, names, v):
    k = names.index(v)
    n = len(names)
    rows = list(itertools.product([False, True], repeat=n))
    idx = {r: i for i, r in enumerate(rows)}
    for r in rows:
        if not r[k]:
            r2 = r[:k] + (True,) + r[k + 1:]
            if tt[idx[r]] != tt[idx[r2]]:
                return True
    return False


def run(res):
    from pyModelChecking.BDD import OBDD
    rng = rng_for('C17')
    quick = res.tier == 'quick'
    orders = list(itertools.permutations(B.VARS))
    hs = []
    direct = 0
    for k in range(300 if quick else 4000):
        nv = rng.choice([2, 3, 4, 4])
        names = B.VARS[:nv]
        ordering = [v for v in rng.choice(orders) if v in names]
        h = B.History(ordering)
        e1 = B.rand_exp(rng, rng.choice([1, 2, 2, 3]), names)
        e2 = B.rand_exp(rng, rng.choice([1, 2, 2, 3]), names)
        h.new(e1)
        h.new(e2)
        exps = {0: e1, 1: e2}
        for op in ('and', 'or', 'xor'):
            h.binop(op, 0, 1)
        h.inv(0)
        for v in names:
            for b in (False, True):
                h.restrict(0, v, b)
        for i in h.live_indices():
            h.support(i)
        # independent oracle: truth tables
        f1 = lambda env: B.eval_exp(e1, env)
        f2 = lambda env: B.eval_exp(e2, env)
        expect = [f1, f2, lambda env: f1(env) and f2(env), lambda env: f1(env) or f2(env),
                  lambda env: f1(env) != f2(env), lambda env: not f1(env)]
        for v in names:
            for b in (False, True):
                expect.append(lambda env, v=v, b=b: f1(dict(env, **{v: b})))
        for i, f in enumerate(expect):
            o = h.pool[i]
            direct += 1
            if o is None:
                h.notes.append('operation %d failed: %s' % (i, h.impl[i]))
                continue
            tt = B.truth_table(lambda env: B.impl_eval(o.root, env), ordering)
            if tt != B.truth_table(f, ordering):
                h.notes.append('operation %s denotes the wrong function' % (h.ops[i],))
            if not B.ordered_reduced(o.root, ordering):
                h.notes.append('result of %s is not ordered/reduced' % (h.ops[i],))
            dep = set(v for v in ordering if depends(tt, ordering, v))
            if set(o.variables()) != dep:
                h.notes.append('variables() of %s = %s, support = %s' % (h.ops[i], sorted(o.variables()), sorted(dep)))
        # guards
        if nv >= 2:
            other = list(reversed(ordering))
            a = h.pool[0]
            b = B.attempt(lambda: OBDD(B.render(e2), other))
            if not isinstance(b, tuple) and other != ordering:
                r = B.attempt(lambda: a & b)
                if not (isinstance(r, tuple) and r[1] == 'RuntimeError'):
                    h.notes.append('combining OBDDs with different orderings did not raise RuntimeError: %r' % (r,))
            r = B.attempt(lambda: OBDD('zz & ' + ordering[0], list(ordering)))
            if not (isinstance(r, tuple) and r[1] == 'RuntimeError'):
                h.notes.append('a variable outside the ordering did not raise RuntimeError: %r' % (r,))
        # an ordering object of a ListOrdering SUBCLASS that overrides nothing is the same ordering
        if k % 10 == 0:
            from pyModelChecking.BDD.ordering import ListOrdering

            class MyOrdering(ListOrdering):
                pass
            a = h.pool[0]
            bsub = B.attempt(lambda: OBDD(B.render(e2), MyOrdering(list(ordering))))
            if isinstance(bsub, tuple):
                h.notes.append('OBDD(expr, <ListOrdering subclass instance>) raised %s' % bsub[1])
            elif a is not None and h.pool[1] is not None:
                for opn, op in (('&', lambda x, y: x & y), ('|', lambda x, y: x | y), ('^', lambda x, y: x ^ y)):
                    r1, r2 = B.attempt(lambda: op(a, bsub)), B.attempt(lambda: op(a, h.pool[1]))
                    if isinstance(r1, tuple) or isinstance(r2, tuple) or not (r1 == r2) or r1.root is not r2.root:
                        h.notes.append('f %s g with g over an instance of a ListOrdering subclass (same list) gives %r, over the '
                                       'plain list %r' % (opn, r1 if isinstance(r1, tuple) else 'a diagram', r2 if isinstance(r2, tuple) else 'a diagram'))
                if not (bsub == h.pool[1]) or not (h.pool[1] == bsub):
                    h.notes.append('the same expression over a ListOrdering subclass instance and over the plain list are not ==')
        h.close()
        hs.append(h)
    # scale: operands with thousands of nodes (14-22 variables); the result is compared with the expressions evaluated
    # in Python on random assignments, and walked for ordering / distinct children
    big = 0
    for rounds in range(2 if quick else 10):
        k = rng.choice([8, 10, 11])
        xs = ['x%d' % i for i in range(k)]
        ys = ['y%d' % i for i in range(k)]
        order = xs + ys if rounds % 2 == 0 else [v for p in zip(xs, ys) for v in p]
        fam = {
            'pairs': ' | '.join('(%s & %s)' % (x, y) for x, y in zip(xs, ys)),
            'xor': None,
            'maj': ' | '.join('(%s & %s & %s)' % (xs[i], ys[i], xs[(i + 1) % k]) for i in range(k)),
        }
        f = OBDD(fam['pairs'], list(order))
        g = OBDD(xs[0], list(order))
        for x in xs[1:]:
            g = g ^ OBDD(x, list(order))
        h = OBDD(fam['maj'], list(order))
        evalf = lambda env: any(env[x] and env[y] for x, y in zip(xs, ys))
        evalg = lambda env: sum(env[x] for x in xs) % 2 == 1
        evalh = lambda env: any(env[xs[i]] and env[ys[i]] and env[xs[(i + 1) % k]] for i in range(k))
        trials = [('f & g', lambda: f & g, lambda e: evalf(e) and evalg(e)), ('g & f', lambda: g & f, lambda e: evalf(e) and evalg(e)),
                  ('f | h', lambda: f | h, lambda e: evalf(e) or evalh(e)), ('f ^ h', lambda: f ^ h, lambda e: evalf(e) != evalh(e)),
                  ('~f', lambda: ~f, lambda e: not evalf(e)), ('f ^ f', lambda: f ^ f, lambda e: False),
                  ('f.restrict(%s,1)' % xs[0], lambda: f.restrict(xs[0], True), lambda e: evalf(dict(e, **{xs[0]: True}))),
                  ('h.restrict(%s,0)' % ys[1], lambda: h.restrict(ys[1], False), lambda e: evalh(dict(e, **{ys[1]: False})))]
        for name, build, ev in trials:
            big += 1
            r = B.attempt(build)
            if isinstance(r, tuple):
                res.violation('C17 at scale (%d variables): %s raised %s' % (2 * k, name, r[1]),
                              {'ordering': order, 'f': fam['pairs'], 'g': 'xor of ' + ' '.join(xs), 'h': fam['maj'], 'operation': name})
                continue
            wrong = None
            for _ in range(300):
                env = {v: rng.random() < 0.5 for v in order}
                if B.impl_eval(r.root, env) != bool(ev(env)):
                    wrong = env
                    break
            if wrong is not None:
                res.violation('C17 at scale (%d variables): %s denotes the wrong function' % (2 * k, name),
                              {'ordering': order, 'operation': name, 'assignment': {k_: int(v) for k_, v in wrong.items()}})
            elif not B.ordered_reduced(r.root, order):
                res.violation('C17 at scale: the result of %s is not ordered/reduced' % name, {'ordering': order, 'operation': name})
    # concurrency: restrict / & / | / ~ on shared diagrams from four threads at once (tiny switch interval); every result
    # must be the very node obtained sequentially
    import sys as _sys
    import threading
    k = 7
    xs = ['x%d' % i for i in range(k)]
    ys = ['y%d' % i for i in range(k)]
    order_c = [v for p_ in zip(xs, ys) for v in p_]
    fc = OBDD(' | '.join('(%s & %s)' % (x, y) for x, y in zip(xs, ys)), list(order_c))
    gc_ = OBDD(' | '.join('(%s & %s & %s)' % (xs[i], ys[i], xs[(i + 1) % k]) for i in range(k)), list(order_c))
    jobs_c = [('restrict', v, b) for v in order_c for b in (False, True)] + [('and',), ('or',), ('xor',), ('inv',)]

    def do(job):
        try:
            if job[0] == 'restrict':
                return (fc.restrict(job[1], job[2]).root, gc_.restrict(job[1], job[2]).root)
            if job[0] == 'and':
                return ((fc & gc_).root,)
            if job[0] == 'or':
                return ((fc | gc_).root,)
            if job[0] == 'xor':
                return ((fc ^ gc_).root,)
            return ((~fc).root, (~gc_).root)
        except Exception as e:
            return 'ERR ' + type(e).__name__
    seq_c = {j: do(j) for j in jobs_c}
    bad_c = {}

    def worker_c(share):
        for j in share:
            r = do(j)
            # compared as trees, not by identity: whether the unique table itself is thread-safe is not claimed
            if isinstance(r, str) or isinstance(seq_c[j], str) or \
                    any(B.impl_tree(a, order_c) != B.impl_tree(b, order_c) for a, b in zip(r, seq_c[j])):
                bad_c[j] = r
    order_jobs = list(jobs_c) * (4 if quick else 12)
    rng.shuffle(order_jobs)
    old_si = _sys.getswitchinterval()
    _sys.setswitchinterval(1e-6)
    try:
        ths = [threading.Thread(target=worker_c, args=(order_jobs[i::4],)) for i in range(4)]
        for th in ths:
            th.start()
        for th in ths:
            th.join()
    finally:
        _sys.setswitchinterval(old_si)
    for j in sorted(bad_c, key=str)[:2]:
        r = bad_c[j]
        res.violation('from 4 threads at once, %s on shared diagrams gives %s; alone it gives another diagram' % (j, r if isinstance(r, str) else 'a different root'),
                      {'ordering': order_c, 'f': str(fc)[:200], 'g': str(gc_)[:200], 'operation': [str(x) for x in j],
                       'history': '4 threads share f and g'})
    st = B.run_histories(res, hs, 'C17')
    res.coverage['threaded_operations'] = len(order_jobs)
    res.coverage['threaded_disagreements'] = len(bad_c)
    # the API around the operations (orderings, respect_ordering, node/OBDD constructors, ==, restrict guards, ...)
    from checks import bdd_api
    api = bdd_api.run_api(res, rng_for('C17/api'), quick, store=False)
    res.coverage['api'] = api
    problems = proof_coverage(res, THEOREMS, MODULES)
    for p in problems:
        res.violation('proof obligation no longer checks: ' + p, {'theorem_or_module': p}, no_input=True)
    res.coverage.update(st)
    res.coverage.update({
        'evaluations': st['operations'], 'distinct_nontrivial': len(set(h.line() for h in hs)),
        'rule': 'random expression pairs (depth<=3) over <=4 variables under an ordering drawn from all 24; per pair: '
                '&, |, ^, ~, restrict for every (v,b), variables(); truth tables on all assignments compared with the '
                'expressions evaluated in Python; distinct_nontrivial = distinct (ordering, pair) histories',
        'truth_tables_compared': direct, 'large_operand_operations': big,
        'traces_validated_against_impl': len(hs),
    })
