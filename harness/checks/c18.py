"""C18 — expression and lambda notation build the same OBDD; printing round-trips.

Tie: expressions are generated as ASTs (incl. `and`/`or`/`not` synonyms, constants, a missing variable, non-Boolean
syntax), rendered to Python source for the implementation and sent as ASTs to the Lean model; compared: the built
tree or the error class, lambda form vs (expression, ordering) form, str(o.root) character by character, the `ast`
tree of str(o.root) vs the model's printExp, and both round trips OBDD(str(o.root), ordering) == o, OBDD(str(o)) == o.
"""
import itertools

from checks import bdd_common as B
from common import proof_coverage, rng_for
from theorems import get

MODULES, THEOREMS = get('C18')


def run(res):
    from pyModelChecking.BDD import OBDD
    rng = rng_for('C18')
    quick = res.tier == 'quick'
    orders = list(itertools.permutations(B.VARS))
    hs = []
    status = {}
    for k in range(1200 if quick else 15000):
        nv = rng.choice([1, 2, 3, 4, 4])
        if k % 5 == 4:
            # odd-looking variable names (renaming of a, b, c, d)
            ren = dict(zip(B.VARS, rng.choice(B.ODD_VARSETS)))
        else:
            ren = None
        names = B.VARS[:nv]
        ordering = [v for v in rng.choice(orders) if v in names]
        if ren:
            names = [ren[v] for v in names]
            ordering = [ren[v] for v in ordering]
        h = B.History(ordering)
        malformed = rng.random() < 0.25
        e = B.rand_exp(rng, rng.choice([1, 2, 3, 4]), names, p_bad=0.15 if malformed else 0.0,
                       p_missing=0.15 if malformed else 0.0)
        want = B.exp_status(e, ordering)
        status[want] = status.get(want, 0) + 1
        h.new(e)
        h.new(e, lam=True)
        for i in (0, 1):
            got = h.impl[i]
            if want == 'ok' and got.startswith('ERR'):
                h.notes.append('well-formed expression %s rejected: %s' % (B.render(e), got))
            if want != 'ok' and got != 'ERR ' + want:
                h.notes.append('expression %s: expected %s, got %s' % (B.render(e), want, got))
        if h.pool[0] is not None and h.pool[1] is not None:
            h.eq(0, 1)
            if h.impl[-1] != 'true':
                h.notes.append('lambda notation and expression notation differ for %s' % B.render(e))
            o = h.pool[0]
            h.str_(0)
            h.exp(0)
            rt1 = B.attempt(lambda: OBDD(str(o.root), list(ordering)) == o)
            rt2 = B.attempt(lambda: OBDD(str(o)) == o)
            if rt1 is not True:
                h.notes.append('OBDD(str(o.root), o.ordering) == o is %r for %s (printed %r)' % (rt1, B.render(e), str(o.root)))
            if rt2 is not True:
                h.notes.append('OBDD(str(o)) == o is %r for %s (printed %r)' % (rt2, B.render(e), str(o)))
            # the OBDD owns its ordering: the caller's list may change afterwards (history), the printed form and both
            # round trips must not
            mine = list(ordering)
            o2 = B.attempt(lambda: OBDD(B.render(e), mine))
            if not isinstance(o2, tuple):
                before = (str(o2), str(o2.root))
                how = rng.choice(['append', 'reverse', 'clear', 'pop', 'rename'])
                if how == 'append':
                    mine.append('zz9')
                elif how == 'reverse':
                    mine.reverse()
                    mine.append('zz9')
                elif how == 'clear':
                    del mine[:]
                elif how == 'pop':
                    mine.pop()
                else:
                    mine[0] = 'zz9'
                after = B.attempt(lambda: (str(o2), str(o2.root)))
                if after != before:
                    h.notes.append('after the caller changed (%s) the list it had passed as ordering %s, str(o) went from '
                                   '%r to %r' % (how, ordering, before, after))
                else:
                    rt3 = B.attempt(lambda: (OBDD(str(o2)) == o2, o2 == o))
                    if rt3 != (True, True):
                        h.notes.append('after the caller changed (%s) the list it had passed as ordering %s: '
                                       '(OBDD(str(o)) == o, o == twin) is %r' % (how, ordering, rt3))
            # synonyms: & / and, | / or, ~ / not
            def syn(x):
                if x[0] == 'not':
                    return ('not', syn(x[1]), 'not' if x[2] == '~' else '~')
                if x[0] == 'band':
                    return ('and', syn(x[1]), syn(x[2]))
                if x[0] == 'bor':
                    return ('or', syn(x[1]), syn(x[2]))
                if x[0] in ('and', 'or'):
                    y = syn(x[1])
                    for z in x[2:]:
                        y = ('band' if x[0] == 'and' else 'bor', y, syn(z))
                    return y
                return x
            h.new(syn(e))
            if h.pool[-1] is None or not (h.pool[-1] == o):
                h.notes.append('synonym form of %s builds a different OBDD' % B.render(e))
        # the same text under another ordering while the first results are still referenced
        if nv >= 2:
            other = list(reversed(ordering)) if rng.random() < 0.5 else rng.sample(ordering, len(ordering))
            h2 = B.History(other)
            h2.new(e)
            if h2.pool[0] is not None:
                if not B.ordered_reduced(h2.pool[0].root, other):
                    h2.notes.append('OBDD(%s, %s) does not respect its own ordering' % (B.render(e), other))
                h2.str_(0)
            h2.close()
            hs.append(h2)
        h.close()
        hs.append(h)
    # no variable at all: closed expressions with the empty ordering / an empty argument list
    closed = 0
    for src, val in (('1', True), ('0', False), ('0 | 1', True), ('1 & 0', False), ('~0', True), ('not 1', False),
                     ('1 and (0 or 1)', True), ('True', True), ('False', False)):
        closed += 1
        forms = [('OBDD(%r, [])' % src, lambda: OBDD(src, [])), ('OBDD(%r, ordering=[])' % src, lambda: OBDD(src, ordering=[])),
                 ('OBDD(%r)' % ('lambda: ' + src), lambda: OBDD('lambda: ' + src))]
        got = [B.attempt(f) for _, f in forms]
        for (name, _), o in zip(forms, got):
            if isinstance(o, tuple):
                res.violation('%s raised %s (a closed expression over no variable)' % (name, o[1]), {'expression': src, 'call': name})
            elif B.impl_eval(o.root, {}) != val:
                res.violation('%s denotes %s, expected %s' % (name, not val, val), {'expression': src, 'call': name})
        if not any(isinstance(o, tuple) for o in got):
            a, b, c = got
            rt = B.attempt(lambda: (a == b, a == c, OBDD(str(a.root), []) == a, OBDD(str(a)) == a))
            if rt != (True, True, True, True):
                res.violation('closed expression %r: (expr form == keyword form, == lambda form, OBDD(str(o.root), []) == o, '
                              'OBDD(str(o)) == o) is %r' % (src, rt), {'expression': src})
    st = B.run_histories(res, hs, 'C18')
    problems = proof_coverage(res, THEOREMS, MODULES)
    for p in problems:
        res.violation('proof obligation no longer checks: ' + p, {'theorem_or_module': p}, no_input=True)
    res.coverage.update(st)
    res.coverage.update({
        'evaluations': st['operations'], 'distinct_nontrivial': len(set(h.line() for h in hs)),
        'rule': 'random expression ASTs to depth 4 over <=4 variables, every ordering drawn from all permutations; 25% '
                'malformed stream (missing variable / non-Boolean syntax at a random position); '
                'distinct_nontrivial = distinct histories',
        'expected_status_histogram': status,
        'closed_expressions_over_no_variable': closed,
        'traces_validated_against_impl': len(hs),
    })
