"""C19 — every well-formed query returns a fresh set of the structure's own states.

Tie: structures whose states are strings / tuples / floats / frozensets / mixed, whose labels contain ints, tuples,
None, operator-looking and bracketed names, formulas whose atoms do not occur in K; the result must be a `set`, contain
only states of K, equal the Lean model's answer (states mapped to numbers, non-string labels dropped: they can never
equal an atom name), and be owned by the caller: it is mutated and the call repeated.
"""
import contextlib
import io

from common import KS, lang, lean_batch, proof_coverage, random_structure, rng_for, sexpr, to_obj, tree_str, enc_graph, enc_labels
from checks import mc_common
from gen import formulas as F
from theorems import get

MODULES, THEOREMS = get('C19')

STATE_POOLS = [
    lambda i: 's%d' % i, lambda i: (i, 'x'), lambda i: float(i) + 0.5, lambda i: frozenset([i, -1]),
    lambda i: [7, 'str', (1, 2), 2.5, frozenset([1]), -3][i % 6],
    # one state that is not equal to itself (found by identity in dicts and sets), and Python-equal-looking neighbours
    lambda i: [float('nan'), 'nan', (float('inf'),), -0.0, 10 ** 20][i % 5],
    # states that are plain objects: hashable and comparable by identity only (a copy is NOT the same state)
    lambda i: Token(i),
]


class Token(object):
    def __init__(self, i):
        self.i = i

    def __repr__(self):
        return 'Token(%d)' % self.i
ODD_LABELS = [3, (1, 2), None, 'not', 'or', 'A', 'E', 'X', 'U', 'true', '[E(p)]', '[A(X(p))]', '[E(X(p))]', 'fair',
              'fair0', 'p q', '', '(', '[E((p U q))]', 'AX', 'not p']
ATOMS = ('p', 'q', 'zzz', '[E(p)]', 'fair')


def eval_labels(reprs):
    """the string labels among a list of repr()s"""
    import ast
    out = []
    for r in reprs:
        try:
            v = ast.literal_eval(r)
        except Exception:
            continue
        if isinstance(v, str):
            out.append(v)
    return out


def run(res):
    rng = rng_for('C19')
    quick = res.tier == 'quick'
    n = 1500 if quick else 15000
    lines, impl, ctxs = [], [], []
    direct = []
    kinds = {}
    for i in range(n):
        K0 = random_structure(rng, 5)
        mk = rng.choice(STATE_POOLS)
        names = [mk(s) for s in range(K0.n)]
        if len(set(map(repr, names))) < K0.n:
            names = ['u%d' % s for s in range(K0.n)]
        labs = []
        for s in range(K0.n):
            l = [a for a in ATOMS if rng.random() < 0.3]
            l += [rng.choice(ODD_LABELS) for _ in range(rng.choice([0, 0, 1, 2]))]
            labs.append(l)
        from pyModelChecking.kripke import Kripke
        R = [(names[s], names[d]) for s in range(K0.n) for d in K0.succ[s]]
        K = Kripke(S=list(names), R=R, L={names[s]: set(labs[s]) for s in range(K0.n)})
        logic = rng.choice(['CTL', 'LTL', 'CTLS'])
        atoms = tuple(rng.sample(ATOMS, 2))
        if logic == 'CTL':
            t = F.rand_ctl(rng, 3, atoms=atoms)
        elif logic == 'LTL':
            t = ('A', F.rand_ltl_path(rng, 3, atoms=atoms, max_temporal=3))
        else:
            t = F.rand_ctls_state(rng, 4, atoms=atoms, max_temporal=3)
        kinds[logic] = kinds.get(logic, 0) + 1
        L = lang(logic)
        ctx = {'logic': logic, 'states': [repr(x) for x in names], 'succ': K0.succ, 'labels': [[repr(x) for x in l] for l in labs],
               'formula': tree_str(t)}
        try:
            with contextlib.redirect_stdout(io.StringIO()):
                r = L.modelcheck(K, to_obj(t, L))
        except Exception as e:
            direct.append(('a well-formed query raised %s: %s' % (type(e).__name__, str(e)[:100]), ctx))
            continue
        if type(r) is not set:
            direct.append(('the result is a %s, not a set' % type(r).__name__, ctx))
            continue
        if not all(any(x is y or x == y for y in names) for x in r):
            direct.append(('the result contains something that is not a state of K', ctx))
            continue
        internal = [K._next, K._labels, K.S0] + list(K._next.values()) + list(K._labels.values())
        if any(r is x for x in internal):
            direct.append(('the result is an internal container of the structure', ctx))
        first = set(r)
        r.clear()
        r.add('garbage')
        try:
            with contextlib.redirect_stdout(io.StringIO()):
                r2 = L.modelcheck(K, to_obj(t, L))
        except Exception as e:
            direct.append(('the repeated call raised %s' % type(e).__name__, ctx))
            continue
        if r2 != first:
            direct.append(('mutating the returned set changed the answer of the next call: %r then %r' % (sorted(map(repr, first)), sorted(map(repr, r2))), ctx))
        # other ways of making the same call: keyword arguments, explicit defaults, text + an explicit parser object,
        # a deep copy of the structure
        if i % 6 == 0:
            import copy
            txt = None
            try:
                txt = str(to_obj(t, lang('CTLS') if logic == 'CTL' else L))
            except Exception:
                pass
            variants = [('keyword arguments', lambda: L.modelcheck(kripke=K, formula=to_obj(t, L))),
                        ('explicit defaults parser=None, F=None', lambda: L.modelcheck(K, to_obj(t, L), None, None)),
                        ('a deep copy of the structure', lambda: L.modelcheck(copy.deepcopy(K), to_obj(t, L)))]
            Fl = [set(x for x in names if rng.random() < 0.5)]
            def outcome(call):
                try:
                    with contextlib.redirect_stdout(io.StringIO()):
                        return sorted(map(repr, call()))
                except Exception as e:
                    return 'raised ' + type(e).__name__
            kw, pos = outcome(lambda: L.modelcheck(K, to_obj(t, L), F=Fl)), outcome(lambda: L.modelcheck(K, to_obj(t, L), None, Fl))
            # F in other container types (the constraints themselves must stay set-like: the code intersects them)
            for how, Fx in (('a tuple of frozensets', tuple(frozenset(P) for P in Fl)), ('a generator of sets', (set(P) for P in Fl)),
                            ('a list with the same set object twice', [Fl[0], Fl[0]])):
                alt = outcome(lambda: L.modelcheck(K, to_obj(t, L), F=Fx))
                if alt != kw and how != 'a generator of sets':
                    direct.append(('modelcheck(K, f, F=%s) gives %r, with a list of sets %r' % (how, alt, kw),
                                   dict(ctx, F=[sorted(map(repr, P)) for P in Fl])))
            # a structure that is an instance of a subclass overriding nothing
            class MyKripke(Kripke):
                pass
            K3 = MyKripke(S=list(names), R=list(R), L={names[s]: set(labs[s]) for s in range(K0.n)})
            sub = outcome(lambda: L.modelcheck(K3, to_obj(t, L)))
            if sub != sorted(map(repr, first)):
                direct.append(('on an instance of a Kripke subclass that overrides nothing the answer is %r instead of %r'
                               % (sub, sorted(map(repr, first))), ctx))
            if kw != pos:
                direct.append(('modelcheck(K, f, None, F) (documented order kripke, formula, parser, F) gives %r, modelcheck(K, f, F=F) %r'
                               % (pos, kw), dict(ctx, F=[sorted(map(repr, P)) for P in Fl])))
            if txt is not None and all(isinstance(a_, str) and a_.isidentifier() for a_ in atoms):
                variants.append(('the printed text and an explicit parser object', lambda: L.modelcheck(K, txt, parser=L.Parser())))
                variants.append(('the printed text and an explicit parser object as third positional argument', lambda: L.modelcheck(K, txt, L.Parser())))
                variants.append(('the printed text and the default parser', lambda: L.modelcheck(K, txt)))
            for how, call in variants:
                try:
                    with contextlib.redirect_stdout(io.StringIO()):
                        rv = call()
                except Exception as e:
                    rv = 'raised ' + type(e).__name__
                if how.startswith('a deep copy') and isinstance(rv, set):
                    rv = set(x for x in names if any(x is y or repr(x) == repr(y) for y in rv))
                    same = sorted(map(repr, rv)) == sorted(map(repr, first))
                else:
                    same = (rv == first)
                if not same:
                    direct.append(('the same query made with %s answers %r instead of %r' % (how, rv if isinstance(rv, str) else sorted(map(repr, rv)), sorted(map(repr, first))), ctx))
        idx = {repr(nm): s for s, nm in enumerate(names)}
        a = 'OK ' + ' '.join(map(str, sorted(idx[repr(x)] for x in first)))
        strlabs = [[l for l in ls if isinstance(l, str)] for ls in labs]
        # the model sees the same structure with string labels only, duplicates removed
        Kenc = enc_graph([(s, K0.succ[s]) for s in range(K0.n)]) + '|' + enc_labels([(s, sorted(set(strlabs[s]))) for s in range(K0.n)])
        lines.append('%s|%s|%s' % (logic, Kenc, sexpr(t)))
        impl.append(a)
        ctxs.append(ctx)
    # import order: fresh interpreters that import the sub-packages in every order (or only `from pyModelChecking import *`)
    import itertools
    import json
    import os
    import subprocess
    import sys
    here = os.path.dirname(os.path.dirname(os.path.abspath(__file__)))
    prog = ('import sys, json, importlib\n'
            'order = sys.argv[1].split(",")\n'
            'if order == ["star"]:\n'
            '    ns = {}; exec("from pyModelChecking import *", ns)\n'
            'else:\n'
            '    for m in order: importlib.import_module("pyModelChecking." + m)\n'
            'import pyModelChecking.CTL as CTL, pyModelChecking.LTL as LTL, pyModelChecking.CTLS as CTLS\n'
            'from pyModelChecking.kripke import Kripke\n'
            'K = Kripke(R=[(0,1),(1,2),(2,0),(2,2)], L={0:{"p"},2:{"q"}})\n'
            'out = [sorted(CTL.modelcheck(K, "A G (p --> A F q)")), sorted(LTL.modelcheck(K, "A (p U X q)")),\n'
            '       sorted(CTLS.modelcheck(K, "A F G (q or E X p)")), str(CTL.Parser()("E (p U q)")), str(LTL.A(LTL.X("p") & "q"))]\n'
            'print(json.dumps(out))\n')
    answers = {}
    orders = [','.join(o) for o in itertools.permutations(['CTL', 'LTL', 'CTLS'])] + ['LTL', 'CTLS,PL', 'BDD,LTL,CTL', 'star']
    for o in (orders if not quick else orders[:3] + orders[-3:]):
        pr = subprocess.run([sys.executable, '-c', prog, o], stdout=subprocess.PIPE, stderr=subprocess.PIPE, text=True,
                            env=dict(os.environ, PYTHONPATH=os.pathsep.join(x for x in sys.path if x)))
        answers[o] = pr.stdout.strip().splitlines()[-1] if pr.returncode == 0 and pr.stdout.strip() else 'crashed: ' + pr.stderr[-200:]
    if len(set(answers.values())) != 1 or any(v.startswith('crashed') for v in answers.values()):
        direct.append(('the answers depend on the order in which the sub-packages are imported: %r' % answers, {'orders': answers}))
    model = [mc_common.norm(x) for x in lean_batch(lines)]
    # CTL*: the decidable hypothesis of ctls_exact_partial (naming discipline) on these adversarial labels, and where it
    # holds the answer is exact by that theorem; where it fails the answer is additionally compared with the
    # independent reference semantics and the wrong ones are counted (they are instances of C03's KF-C03-names)
    ci = [i for i, l in enumerate(lines) if l.startswith('CTLS|')]
    names_ok = [x.strip() for x in lean_batch(['CTLSNAMES|' + lines[i].split('|', 1)[1] for i in ci])]
    names = {'true': 0, 'false': 0}
    clash_wrong = 0
    for i, ok in zip(ci, names_ok):
        names[ok] = names.get(ok, 0) + 1
        if ok != 'true':
            import reference
            from common import parse_sexpr
            g, l, f = lines[i].split('|')[1:4]
            succ = {int(x.split(':')[0]): [int(y) for y in x.split(':')[1].split()] for x in g.split(';')}
            ctx = ctxs[i]
            labs = {s: set(x for x in eval_labels(ctx['labels'][s])) for s in succ}
            RK = (sorted(succ), {s: set(succ[s]) for s in succ}, labs)
            try:
                truth = 'OK ' + ' '.join(map(str, sorted(reference.sat(RK, mc_common.ref_tree(parse_sexpr(f))))))
            except Exception:
                continue
            if mc_common.norm(impl[i]) != mc_common.norm(truth):
                # exactness is C03's business (known finding KF-C03-names: an atom spelled like a generated name); here
                # the answer is still a set of K's states and equals the model, which follows the code: counted only
                clash_wrong += 1
    bad = 0
    nontrivial = 0
    for a, m, ctx in zip(impl, model, ctxs):
        if 0 < len(a.split()) - 1 < len(ctx['states']):
            nontrivial += 1
        if mc_common.norm(a) != m:
            bad += 1
            if bad <= 3:
                res.violation('%s.modelcheck(%s) = %s, the model (proved exact) gives %s' % (ctx['logic'], ctx['formula'], a, m),
                              dict(ctx, impl=a, model=m))
    for what, ctx in direct[:3]:
        res.violation(what, ctx)
    problems = proof_coverage(res, THEOREMS, MODULES)
    for p in problems:
        res.violation('proof obligation no longer checks: ' + p, {'theorem_or_module': p}, no_input=True)
    res.coverage.update({
        'evaluations': n, 'distinct_nontrivial': nontrivial,
        'rule': 'random total structures (<=5 states) whose states are strings / tuples / floats / frozensets / mixed, '
                'labels drawn from {p, q, zzz, [E(p)], fair} plus ints, tuples, None, operator-looking, bracketed and '
                'empty names; formulas of a random logic over two of those atoms; the result is type-checked, mutated, '
                'and the call repeated; distinct_nontrivial = cases with a non-constant answer',
        'logic_histogram': kinds, 'direct_oracle_violations': len(direct), 'model_disagreements': bad,
        'ctls_cases_by_namesOK': names, 'ctls_name_clash_wrong_answers_KF_C03_names': clash_wrong,
        'samples': ctxs[:2],
        'traces_validated_against_impl': len(lines),
    })
    res.assumptions = ['RecursionError on formulas nested deeper than the interpreter recursion limit is a run-time '
                       'resource bound outside the model']
    if not THEOREMS:
        res.level = 'exploration'
