"""C08 / C11 stream FAPI — the rest of the public formula API against PMC/Model/FormulaApi.lean (driver command FAPI).

Run on the real code and on the model, same inputs:
  * `a & b`, `a | b` for every ordered pair of depth<=1 objects of the four modules (all cross-module pairs); `a & x`,
    `x & a`, `a | x`, `x | a` for x a str / bool / int / None / list, `a & B`, `a | B` for B an object of the base module
    pyModelChecking.language; `~a`;
  * the ten CTL shortcuts on every depth<=1 object of every module, on str / bool / other operands (the four binary ones
    on all ordered pairs, sampled in the quick tier);
  * constructor calls `M.Class(x)` / `M.Class(x, y)` with at least one operand that is not a formula object (the
    object x object calls are the MIXED stream of c08.py), every class name of the union alphabet in every module;
  * `clone()` of every object handed in (depth <= 2) — result tree, `==` both ways, `hash`, node-disjointness;
  * `subformula(i)` for i in -n-2 .. n+2 (n = number of operands, incl. three-operand And/Or) and `subformulas()`.
Outcome per case: `OK <tree>` (every node of the result must be an object of the module the call builds in) or
`ERR <exception class>`.  A disagreement with the model is a broken correspondence (`no_input=True`); a result whose tree
is NOT a formula of the module it was built in (driver INLOGIC) is a failing input of C08 itself.
Observed only (no model): `subformulas()` returns the internal list object; non-`int` indices of `subformula`.
"""
import common
from common import lean_batch, sexpr, tree_str, enc_name
import validate_classes as V

UN_CLASSES = ('Not', 'X', 'F', 'G', 'A', 'E')
BIN_CLASSES = ('And', 'Or', 'Imply', 'U', 'R')
SHORT1 = ('AX', 'EX', 'AF', 'EF', 'AG', 'EG')
SHORT2 = ('AU', 'EU', 'AR', 'ER')


def _canon(fn, module):
    """('OK <sexpr>' | 'ERR <class>' | 'WRONG …', tree, object) of a call that should build a formula in `module`"""
    import pyModelChecking.language as BL
    r, o = V.py_result(fn)
    if r != 'OK':
        return 'ERR ' + r, None, None
    if not isinstance(o, BL.Formula):
        return 'WRONG-TYPE %s' % type(o).__name__, None, o
    t = common.from_obj(o)
    mods = sorted(set(common.obj_module(x) for x in V.walk(o)))
    if mods != [module]:
        return 'WRONG-MODULE %s %s' % (','.join(mods), sexpr(t)), t, o
    return 'OK ' + sexpr(t), t, o


def run_stream(res, rng, quick, mods, small, built):
    import pyModelChecking.language as BL
    # operands: (driver encoding, python value, description)
    pool = [('%s %s' % (m, sexpr(t)), o, '%s:%s' % (m, tree_str(t)), m, t) for m in V.LOGICS for t, o in small[m]]
    nonf = [('s r', 'r', "'r'"), ('s p', 'p', "'p'"), ('b 1', True, 'True'), ('b 0', False, 'False'),
            ('o', 3, '3'), ('o', None, 'None'), ('o', [1], '[1]')]
    base = [('B', BL.Bool(True), 'language.Bool(True)'), ('B', BL.Not(BL.Bool(False)), 'language.Not(Bool(False))')]
    lines, expect, what, results = [], [], [], []
    kinds = {}

    def add(kind, line, fn, module, desc):
        a, t, o = _canon(fn, module)
        lines.append(line)
        expect.append(a)
        what.append((kind, desc))
        results.append((module, t, o))
        d = kinds.setdefault(kind, {'OK': 0, 'ERR': 0})
        d['OK' if a.startswith('OK') else 'ERR'] += 1

    # ---- operators
    for enc_a, a, da, m, ta in pool:
        sa = sexpr(ta)
        for enc_b, b, db, _, _ in pool:
            add('and', 'FAPI|%s|and|%s|%s' % (m, sa, enc_b), lambda: a & b, m, '%s & %s' % (da, db))
            add('or', 'FAPI|%s|or|%s|%s' % (m, sa, enc_b), lambda: a | b, m, '%s | %s' % (da, db))
        for enc_b, b, db in nonf:
            add('and', 'FAPI|%s|and|%s|%s' % (m, sa, enc_b), lambda: a & b, m, '%s & %s' % (da, db))
            add('rand', 'FAPI|%s|rand|%s|%s' % (m, sa, enc_b), lambda: b & a, m, '%s & %s' % (db, da))
            add('or', 'FAPI|%s|or|%s|%s' % (m, sa, enc_b), lambda: a | b, m, '%s | %s' % (da, db))
            add('ror', 'FAPI|%s|ror|%s|%s' % (m, sa, enc_b), lambda: b | a, m, '%s | %s' % (db, da))
        for enc_b, b, db in base:       # `B & a` runs the base object's own method: a base-module And, outside the model
            add('and', 'FAPI|%s|and|%s|%s' % (m, sa, enc_b), lambda: a & b, m, '%s & %s' % (da, db))
            add('or', 'FAPI|%s|or|%s|%s' % (m, sa, enc_b), lambda: a | b, m, '%s | %s' % (da, db))
        add('invert', 'FAPI|%s|not|%s' % (m, sa), lambda: ~a, m, '~%s' % da)
    # ---- shortcuts
    C = mods['CTL']
    operands = [(e, v, d) for e, v, d, _, _ in pool] + nonf + base
    for enc_a, a, da in operands:
        for sc in SHORT1:
            add('shortcut', 'FAPI|CTL|%s|%s' % (sc, enc_a), lambda: getattr(C, sc)(a), 'CTL', 'CTL.%s(%s)' % (sc, da))
    pairs = [(x, y) for x in operands for y in operands]
    if quick:
        pairs = rng.sample(pairs, min(len(pairs), 3000))
    for (enc_a, a, da), (enc_b, b, db) in pairs:
        for sc in SHORT2:
            add('shortcut', 'FAPI|CTL|%s|%s|%s' % (sc, enc_a, enc_b), lambda: getattr(C, sc)(a, b), 'CTL',
                'CTL.%s(%s, %s)' % (sc, da, db))
    # ---- constructor calls with operands that are not formula objects
    some_objs = [(e, v, d) for e, v, d, _, _ in (pool if not quick else rng.sample(pool, min(len(pool), 30)))]
    others = nonf + base
    for m in V.LOGICS:
        L = mods[m]
        for cls in UN_CLASSES:
            for enc_a, a, da in others:
                add('new', 'FAPI|%s|new %s|%s' % (m, cls, enc_a), lambda: getattr(L, cls)(a), m, '%s.%s(%s)' % (m, cls, da))
        for cls in BIN_CLASSES:
            for enc_a, a, da in others:
                for enc_b, b, db in others + some_objs:
                    add('new', 'FAPI|%s|new %s|%s|%s' % (m, cls, enc_a, enc_b), lambda: getattr(L, cls)(a, b), m,
                        '%s.%s(%s, %s)' % (m, cls, da, db))
                    if (enc_b, b, db) not in others:
                        add('new', 'FAPI|%s|new %s|%s|%s' % (m, cls, enc_b, enc_a), lambda: getattr(L, cls)(b, a), m,
                            '%s.%s(%s, %s)' % (m, cls, db, da))
    # ---- clone
    clone_bad = []
    for m in V.LOGICS:
        objs = built[m] if not quick else built[m][:: max(1, len(built[m]) // 800)]
        for t, o in objs:
            holder = [None]

            def do_clone():
                holder[0] = o.clone()
                return holder[0]
            add('clone', 'FAPI|%s|clone|%s' % (m, sexpr(t)), do_clone, m, '%s:%s.clone()' % (m, tree_str(t)))
            c = holder[0]
            if c is not None:
                ids = set(id(x) for x in V.walk(o))
                if not (c == o and o == c and hash(c) == hash(o) and type(c) is type(o)) or any(id(x) in ids for x in V.walk(c)):
                    clone_bad.append((m, t))
    # ---- subformula / subformulas
    sub_objs = []
    for m in V.LOGICS:
        sub_objs += [(m, t, o) for t, o in small[m]]
        sub_objs += [(m, t, o) for t, o in built[m][len(small[m])::max(1, len(built[m]) // 60)]]
        for op in ('and', 'or'):
            t3 = (op, ('ap', 'p'), 'tt', ('ap', 'q'))
            sub_objs.append((m, t3, common.to_obj(t3, mods[m])))
    alias = 0
    odd_index = {}
    for m, t, o in sub_objs:
        n = len(t) - 1 if isinstance(t, tuple) and t[0] != 'ap' else 0
        for i in range(-n - 2, n + 3):
            add('subformula', 'FAPI|%s|sub %d|%s' % (m, i, sexpr(t)), lambda: o.subformula(i), m,
                '%s:%s.subformula(%d)' % (m, tree_str(t), i))
        r, lst = V.py_result(lambda: o.subformulas())
        lines.append('FAPI|%s|subs|%s' % (m, sexpr(t)))
        expect.append(('OK ' + ' ; '.join(sexpr(common.from_obj(x)) for x in lst)) if r == 'OK' else 'ERR ' + r)
        what.append(('subformulas', '%s:%s.subformulas()' % (m, tree_str(t))))
        results.append((m, None, None))
        if r == 'OK' and hasattr(o, '_subformula') and lst is o._subformula:
            alias += 1
        for probe, pd in ((True, 'True'), ('a', "'a'"), (1.0, '1.0'), (slice(0, 1), 'slice(0,1)')):
            rr, v = V.py_result(lambda: o.subformula(probe))
            key = '%s -> %s' % (pd, rr if rr != 'OK' else ('a formula' if isinstance(v, BL.Formula) else type(v).__name__))
            odd_index[key] = odd_index.get(key, 0) + 1
    # ---- compare
    got = lean_batch(lines)
    bad = 0
    for w, e, g in zip(what, expect, got):
        if e.strip() != g.strip():
            bad += 1
            if bad <= 3:
                res.violation('formula API, %s: the implementation gives %s, the model (PMC/Model/FormulaApi.lean, extracted '
                              'class table) %s — the correspondence FormulaApi vs language.py no longer checks'
                              % (w[1], e, g), {'operation': w[0], 'call': w[1], 'impl': e, 'model': g,
                                               'correspondence': 'PMC.FormulaApi (driver command FAPI) vs pyModelChecking/*/language.py'},
                              no_input=True)
    # ---- direct oracle on the implementation: whatever was built is a formula of the module it was built in
    q = [(i, m, t) for i, (m, t, o) in enumerate(results) if t is not None]
    outside = 0
    for (i, m, t), a in zip(q, lean_batch(['INLOGIC|%s|%s' % (m, sexpr(t)) for _, m, t in q])):
        wrong_module = expect[i].startswith('WRONG')
        if a.strip() != 'true' or wrong_module:
            outside += 1
            if outside <= 2:
                res.violation('%s returns %s: %s' % (what[i][1], tree_str(t),
                                                     'nodes of another module' if wrong_module else
                                                     'not a formula of %s by the documented syntax' % m),
                              {'call': what[i][1], 'module': m, 'tree': sexpr(t), 'impl': expect[i]})
    for m, t in clone_bad[:2]:
        res.violation('%s: clone() of %s is not an equal, equally hashed, node-disjoint object of the same class' % (m, tree_str(t)),
                      {'module': m, 'tree': sexpr(t), 'history': ['o = <the formula>', 'c = o.clone()', 'c == o, o == c, hash, id of every node']})
    return {
        'cases': len(lines), 'mismatches': bad, 'results_outside_the_logic': outside, 'clone_defects': len(clone_bad),
        'by_kind': kinds, 'operand_pool': len(pool),
        'observed_subformulas_returns_the_internal_list': alias,
        'observed_subformula_with_a_non_int_index': odd_index,
        'samples': [{'op': lines[i], 'impl': expect[i], 'model': got[i]} for i in (0, len(lines) // 3, len(lines) - 1)],
    }
