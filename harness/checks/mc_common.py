"""Shared correspondence driver for the three model checkers."""
import os
from concurrent.futures import ProcessPoolExecutor

import common
from common import KS, lang, lean_batch, sexpr, to_obj, tree_depth, tree_ops, tree_str
from gen.formulas import well_formed


def ref_tree(t):
    if t == 'tt':
        return ('tt',)
    if t == 'ff':
        return ('ff',)
    if t[0] == 'ap':
        return t
    return (t[0],) + tuple(ref_tree(c) for c in t[1:])


def ref_answer(K, t):
    import reference
    RK = (list(range(K.n)), {s: set(K.succ[s]) for s in range(K.n)}, {s: set(K.labs[s]) for s in range(K.n)})
    return sorted(reference.sat(RK, ref_tree(t)))


# a call of the implementation that does not come back: the unchanged LTL tableau needs up to a few seconds on the
# deepest formulas of the scale streams; a call that needs more than CALL_TIMEOUT seconds is reported as `ERR Timeout`
# (which no model answers) and after MAX_TIMEOUTS of them a worker process answers the rest of its share at once
# (quick tier: 240 s, thorough: 1200 s — an order of magnitude above the slowest call of the unchanged code, also on a loaded machine)
CALL_TIMEOUT = int(os.environ.get('VERIF_CALL_TIMEOUT') or (1200 if os.environ.get('VERIF_TIER_RUNNING') == 'thorough' else 240))
MAX_TIMEOUTS = 2
_timeouts = [0]


class _CallTimeout(BaseException):
    pass


def _alarm(signum, frame):
    raise _CallTimeout()


def impl_one(args):
    import signal
    import threading
    if threading.current_thread() is not threading.main_thread():
        return _impl_one(args)
    if _timeouts[0] >= MAX_TIMEOUTS:
        return 'ERR Timeout (not attempted: this worker already met %d calls that did not return)' % MAX_TIMEOUTS
    old = signal.signal(signal.SIGALRM, _alarm)
    signal.setitimer(signal.ITIMER_REAL, CALL_TIMEOUT)
    try:
        return _impl_one(args)
    except _CallTimeout:
        _timeouts[0] += 1
        return 'ERR Timeout (no answer within %d s)' % CALL_TIMEOUT
    finally:
        signal.setitimer(signal.ITIMER_REAL, 0)
        signal.signal(signal.SIGALRM, old)


def _impl_one(args):
    logic, succ, labs, tree, entry = args
    L = lang(logic)
    K = KS(succ, labs).to_impl()
    try:
        if entry == 'text':
            # CTL objects print in CTL notation (`AX p`), which no parser reads; text entry uses the CTL* notation
            f = str(to_obj(tree, lang('CTLS') if logic == 'CTL' else L))
        elif entry == 'short':
            # the same tree built with shorthand operands (str for atoms, bool for constants)
            from checks.c11 import to_obj_short
            f = to_obj_short(tree, L)
        elif entry == 'dag':
            # equal subtrees are ONE shared object (x = X(p); And(x, x)): formulas are DAGs in ordinary Python use
            memo = {}

            def build(t):
                if t not in memo:
                    memo[t] = to_obj(t, L) if (t in ('tt', 'ff') or t[0] == 'ap') else \
                        getattr(L, common.CLASSNAME[t[0]])(*[build(c) for c in t[1:]])
                return memo[t]
            f = build(tree)
        elif entry.startswith('obj@'):
            # an object built with the classes of ANOTHER language module
            f = to_obj(tree, lang(entry[4:]))
        else:
            f = to_obj(tree, L)
        r = L.modelcheck(K, f)
        if not isinstance(r, set):
            return 'BADTYPE %s' % type(r).__name__
        return 'OK ' + ' '.join(map(str, sorted(r)))
    except Exception as e:  # noqa
        return 'ERR ' + type(e).__name__


def impl_chunk(chunk):
    import io
    import contextlib
    out = []
    with contextlib.redirect_stdout(io.StringIO()):
        for a in chunk:
            out.append(impl_one(a))
    return out


def impl_batch(jobs):
    if len(jobs) < 400:
        return impl_chunk(jobs)
    k = max(1, len(jobs) // (common.NPROC * 4))
    chunks = [jobs[i:i + k] for i in range(0, len(jobs), k)]
    with ProcessPoolExecutor(common.NPROC) as ex:
        res = list(ex.map(impl_chunk, chunks))
    return [x for r in res for x in r]


def _opt_child():
    """child interpreter (started with -O): evaluates the jobs given on stdin, prints the answers as JSON"""
    import json
    import sys
    jobs = [tuple(j) for j in json.load(sys.stdin)]
    jobs = [(lg, succ, labs, _tup(tree), entry) for lg, succ, labs, tree, entry in jobs]
    print(json.dumps(impl_chunk(jobs)))


def _tup(t):
    return tuple(_tup(x) for x in t) if isinstance(t, list) else t


def optimized_interpreter_answers(jobs):
    """the same jobs in a fresh interpreter run with -O (assert statements and __debug__ blocks are stripped)"""
    import json
    import subprocess
    import sys
    here = os.path.dirname(os.path.dirname(os.path.abspath(__file__)))
    p = subprocess.run([sys.executable, '-O', '-c',
                        'import sys; sys.path.insert(0, %r); from checks import mc_common; mc_common._opt_child()' % here],
                       input=json.dumps(jobs), stdout=subprocess.PIPE, stderr=subprocess.PIPE, text=True,
                       env=dict(os.environ, PYTHONPATH=os.pathsep.join(x for x in sys.path if x)))
    if p.returncode != 0:
        return None, p.stderr[-400:]
    return json.loads(p.stdout.strip().splitlines()[-1]), ''


def norm(ans):
    ans = ans.strip()
    if ans.startswith('OK'):
        return 'OK ' + ' '.join(ans.split()[1:])
    return ans


def shrink(logic, K, tree, entry, differs):
    """greedy structural shrinking of (K, tree) keeping `differs(K, tree)` true"""
    budget = [80]           # at most this many re-evaluations; large structures are not shrunk edge by edge

    def differs_b(K2, t2, _d=differs):
        if budget[0] <= 0:
            return False
        budget[0] -= 1
        return _d(K2, t2)
    differs = differs_b
    changed = True
    while changed and budget[0] > 0:
        changed = False
        # formula: replace by a child / a constant
        def subs(t):
            if t in ('tt', 'ff') or t[0] == 'ap':
                return
            for i, c in enumerate(t[1:], 1):
                yield c
                for c2 in subs(c):
                    yield t[:i] + (c2,) + t[i + 1:]
        for cand in subs(tree):
            try:
                if well_formed(logic, cand) and differs(K, cand):
                    tree = cand
                    changed = True
                    break
            except Exception:
                pass
        if changed:
            continue
        # structure: drop an edge / a label
        for s in (range(K.n) if K.n <= 12 else []):
            for d in list(K.succ[s]):
                if len(K.succ[s]) > 1:
                    K2 = KS([[x for x in ss if not (i == s and x == d)] for i, ss in enumerate(K.succ)], K.labs)
                    if differs(K2, tree):
                        K = K2
                        changed = True
                        break
            if changed:
                break
            for l in list(K.labs[s]):
                K2 = KS(K.succ, [[x for x in ls if not (i == s and x == l)] for i, ls in enumerate(K.labs)])
                if differs(K2, tree):
                    K = K2
                    changed = True
                    break
            if changed:
                break
    return K, tree


def _subs(t, acc):
    if t in ('tt', 'ff') or t[0] == 'ap':
        return
    acc.append(t)
    for c in t[1:]:
        _subs(c, acc)


def _rename(t, m):
    if t in ('tt', 'ff'):
        return t
    if t[0] == 'ap':
        return ('ap', m.get(t[1], t[1]))
    return (t[0],) + tuple(_rename(c, m) for c in t[1:])


ADVERSARIAL_WITNESS = {
    # (succ, labels, formula tree, expected answer) — replayed on the real code on every run
    'CTL': ([[0], [1]], [['p', 'not p'], []], ('or', ('ap', 'not p'), ('not', ('ap', 'p'))), [0, 1]),
    'LTL': ([[0]], [['p', 'not p']], ('A', ('and', ('ap', 'p'), ('ap', 'not p'))), [0]),
    'CTLS': ([[1], [0]], [['p'], []], ('and', ('E', ('X', ('ap', 'p'))), ('not', ('ap', '[E(X(p))]'))), [1]),
}


def adversarial_names_stream(res, logic, gen_tree, rng, quick, pid):
    """Atoms whose NAME reads like a formula (the printed form of a subformula, a generated `[...]` name, `not p`).
    The instance is isomorphic to one with identifier atoms, so the truth is the model's answer on the clean instance
    (inside the exactness theorem).  The library identifies formulas by their printed text (memo table, ==/hash inside
    the LTL tableau, fresh CTL* atoms), so wrong answers here are the recorded finding KF-<pid>-names; for CTL the
    as-implemented memo model (CTLM) must reproduce the wrong answer, otherwise it is a new violation."""
    cases = []
    long_cases = []
    for _ in range(200 if quick else 2000):
        K = common.random_structure(rng, 4)
        t = gen_tree()
        acc = []
        _subs(t[1] if logic == 'LTL' else t, acc)
        if not acc:
            continue
        try:
            txt = str(to_obj(rng.choice(acc), lang(logic)))
        except Exception:
            continue
        style = rng.choice(['print', 'bracket', 'not', 'long'])
        if style == 'long':
            # identifier-style names of 250-400 characters sharing a long prefix: inside every theorem, no excuse
            m = {'p': 'p' + 'x' * rng.choice([250, 300, 400]), 'q': 'p' + 'x' * 250 + 'q', 'r': 'p' + 'x' * 249 + 'r'}
            long_cases.append((K, t, KS(K.succ, [[m.get(l, l) for l in ls] for ls in K.labs]), _rename(t, m)))
            continue
        name = txt if style == 'print' else ('[' + txt + ']' if style == 'bracket' else 'not p')
        m = {rng.choice(['p', 'q']): name}
        cases.append((K, t, KS(K.succ, [[m.get(l, l) for l in ls] for ls in K.labs]), _rename(t, m)))
    # hand-made: two quantified subformulas with a long common printed prefix, the first one unsatisfiable
    LONG = 'p' + 'y' * 300
    for K in ([] if logic == 'LTL' else [common.KS([[1], [1]], [[LONG], ['q']]), common.KS([[1], [0]], [['p'], [LONG, 'q']])]):
        for op in ('and', 'or'):
            long_cases.append((K, (op, ('E', ('U', ('ap', 'p'), ('ap', 'r'))), ('E', ('U', ('ap', 'p'), ('ap', 'q')))),
                               K, (op, ('E', ('U', ('ap', LONG), ('ap', 'r'))), ('E', ('U', ('ap', LONG), ('ap', 'q'))))))
    if long_cases:
        li = [norm(x) for x in impl_batch([(logic, K2.succ, K2.labs, t2, 'obj') for _, _, K2, t2 in long_cases])]
        lm = [norm(x) for x in lean_batch(['%s|%s|%s' % (logic, K2.enc(), sexpr(t2)) for _, _, K2, t2 in long_cases])]
        nl = 0
        for (K, t, K2, t2), a, m_ in zip(long_cases, li, lm):
            if a != m_:
                nl += 1
                if nl <= 2:
                    res.violation('%s.modelcheck on a formula whose atoms are identifier names of 250-400 characters = %s, the model '
                                  '(proved exact) gives %s' % (logic, a, m_),
                                  {'logic': logic, 'structure': K2.describe(), 'formula_sexpr': sexpr(t2), 'impl': a, 'model': m_})
    impl = [norm(x) for x in impl_batch([(logic, K2.succ, K2.labs, t2, 'obj') for _, _, K2, t2 in cases])]
    truth = [norm(x) for x in lean_batch(['%s|%s|%s' % (logic, K.enc(), sexpr(t)) for K, t, _, _ in cases])]
    cmd = 'CTLM' if logic == 'CTL' else logic
    asimpl = [norm(x) for x in lean_batch(['%s|%s|%s' % (cmd, K2.enc(), sexpr(t2)) for _, _, K2, t2 in cases])]
    # the recorded finding excuses a wrong answer only while it is open AND its witness still fails, only for an answer
    # that is a set (never an exception), only when the library answers the isomorphic clean instance correctly (so the
    # deviation is due to the name), and for CTL only when the as-implemented memo model reproduces it
    succ, labs, wt, want = ADVERSARIAL_WITNESS[logic]
    w = norm(impl_one((logic, succ, labs, wt, 'obj')))
    live = (w != 'OK ' + ' '.join(map(str, want))) and any(k['id'].endswith('-names') for k in common.known_findings(pid))
    clean = [norm(x) for x in impl_batch([(logic, K.succ, K.labs, t, 'obj') for K, t, _, _ in cases])]
    known_hits = new = infidel = 0
    for (K, t, K2, t2), a, tr, m, cl in zip(cases, impl, truth, asimpl, clean):
        if a != tr:
            if live and a.startswith('OK') and cl == tr and (logic != 'CTL' or a == m):
                known_hits += 1
            else:
                new += 1
                if new <= 2:
                    res.violation('%s.modelcheck(%s) = %s; the isomorphic instance with identifier atoms has answer %s and the '
                                  'as-implemented model gives %s: a wrong answer that the recorded finding does not explain '
                                  '(finding open and witness failing: %s; clean instance answered %s)'
                                  % (logic, tree_str(t2), a, tr, m, live, cl),
                                  {'logic': logic, 'structure': K2.describe(), 'formula_sexpr': sexpr(t2), 'impl': a, 'truth': tr, 'memo_model': m})
        elif logic == 'CTL' and a != m:
            infidel += 1
            if infidel <= 2:
                res.violation('CTL.modelcheck(%s) = %s (correct) but the memo model CTLM gives %s: correspondence CTL.checkM vs '
                              '_checkStateFormula\'s memo table no longer checks' % (tree_str(t2), a, m),
                              {'logic': logic, 'structure': K2.describe(), 'formula_sexpr': sexpr(t2), 'impl': a, 'model': m,
                               'correspondence': 'PMC.CTL.checkM (PMC/Model/CTLMemo.lean) vs CTL._checkStateFormula'}, no_input=True)
    if live:
        for k in common.known_findings(pid):
            if k['id'].endswith('-names'):
                res.known.append('%s: %s' % (k['id'], k['what']))
    return {'adversarial_name_cases': len(cases), 'long_identifier_cases': len(long_cases),
            'adversarial_name_known_finding_instances': known_hits,
            'adversarial_name_unexplained_wrong_answers': new, 'adversarial_name_memo_model_deviations': infidel,
            'adversarial_name_witness_still_fails': live}


def run_cases(res, logic, cases, what, known=None):
    """cases: list of (KS, tree, entry).  Compares implementation and Lean model; records violations.

    Returns stats dict."""
    jobs = [(logic, K.succ, K.labs, t, e) for (K, t, e) in cases]
    impl = impl_batch(jobs)
    lines = ['%s|%s|%s' % (logic, K.enc(), sexpr(t)) for (K, t, e) in cases]
    model = [norm(x) for x in lean_batch(lines)]
    nonconst = 0
    distinct = set()
    ops = {}
    depths = {}
    sizes = {}
    errs = {}
    bad = []
    for (K, t, e), a, m in zip(cases, impl, model):
        a = norm(a)
        if a.startswith('ERR') or a.startswith('BAD'):
            errs[a] = errs.get(a, 0) + 1
        if a != m:
            bad.append((K, t, e, a, m))
            continue
        if a.startswith('OK'):
            k = len(a.split()) - 1
            if 0 < k < K.n:
                nonconst += 1
                distinct.add((K.key(), t))
        tree_ops(t, ops)
        d = tree_depth(t)
        depths[d] = depths.get(d, 0) + 1
        sizes[K.n] = sizes.get(K.n, 0) + 1
    # environment: the same calls in an interpreter started with -O must give the same answers
    step = max(1, len(jobs) // 60)
    opairs = list(zip(jobs[::step], impl[::step]))[:80]
    ojobs = [j for j, _ in opairs]
    oans, oerr = optimized_interpreter_answers(ojobs)
    opt_diff = 0
    if oans is None:
        common.helper_crash(res, '%s: the calls could not be repeated under python -O' % what, oerr, {'stderr': oerr})
    else:
        for (j, a0), a1 in zip(opairs, oans):
            if norm(a0) != norm(a1):
                opt_diff += 1
                if opt_diff <= 2:
                    res.violation('%s: %s.modelcheck(%s) = %s, but %s when the interpreter runs with -O (python -O / '
                                  'PYTHONOPTIMIZE=1)' % (what, logic, tree_str(j[3]), norm(a0), norm(a1)),
                                  {'logic': logic, 'structure': KS(j[1], j[2]).describe(), 'formula': tree_str(j[3]),
                                   'formula_sexpr': sexpr(j[3]), 'entry': j[4], 'impl': norm(a0), 'impl_under_O': norm(a1),
                                   'history': 'run the same call with python -O'})
    for (K, t, e, a, m) in bad[:3]:
        def differs(K2, t2, _e=e):
            a2 = norm(impl_one((logic, K2.succ, K2.labs, t2, _e)))
            m2 = norm(lean_batch(['%s|%s|%s' % (logic, K2.enc(), sexpr(t2))])[0])
            return a2 != m2
        try:
            K, t = shrink(logic, K, t, e, differs)
            a = norm(impl_one((logic, K.succ, K.labs, t, e)))
            m = norm(lean_batch(['%s|%s|%s' % (logic, K.enc(), sexpr(t))])[0])
        except Exception:
            pass
        try:
            ref = 'OK ' + ' '.join(map(str, ref_answer(K, t)))
        except Exception as ex:
            ref = 'n/a (%s)' % type(ex).__name__
        res.violation('%s: %s.modelcheck(%s) = %s but the model (proved exact) gives %s; independent reference: %s'
                      % (what, logic, tree_str(t), a, m, ref),
                      {'logic': logic, 'structure': K.describe(), 'formula': tree_str(t), 'formula_sexpr': sexpr(t),
                       'entry': e, 'impl': a, 'model': m, 'reference': ref})
    return {'evaluations': len(cases), 'nonconstant_answers': nonconst, 'distinct_nontrivial': len(distinct),
            'operators': ops, 'depths': depths, 'sizes': sizes, 'error_kinds': errs, 'disagreements': len(bad),
            'repeated_under_python_O': len(ojobs), 'answers_changed_under_python_O': opt_diff,
            'samples': [{'structure': K.describe(), 'formula': tree_str(t), 'entry': e, 'impl': a, 'model': m}
                        for (K, t, e), a, m in list(zip(cases, impl, model))[:: max(1, len(cases) // 3)][:4]]}
