"""Shared machinery of the correspondence harness.

* builds the Lean project (file lock, regenerates PMC/Generated first) and locates the compiled driver
* sends batches of operation lines to the driver and returns its answers
* encodings shared with Driver.lean (graphs, structures, formulas as S-expressions, names)
* evidence files, replay files, VIOLATION / KNOWN-FINDING lines, axiom audit
"""
import fcntl
import hashlib
import json
import os
import random
import subprocess
import sys
import time

ROOT = os.path.dirname(os.path.dirname(os.path.abspath(__file__)))
REPO = os.environ.get('REPO', '/repo')
LEAN = os.path.join(ROOT, 'lean')
DRIVER = os.path.join(LEAN, '.lake', 'build', 'bin', 'pmcdrv')
SEED = int(os.environ.get('VERIF_SEED', '0') or 0)
NPROC = int(os.environ.get('VERIF_NPROC', '0') or 0) or min(16, os.cpu_count() or 4)

if REPO not in sys.path:
    sys.path.insert(0, REPO)

ALLOWED_AXIOMS = {'propext', 'Classical.choice', 'Quot.sound'}
TRUSTED_BASE = [
    "Lean 4.33.0 kernel and elaborator (thorough tier: leanchecker re-checks the .olean files)",
    "axioms: propext, Classical.choice, Quot.sound only (checked per theorem on this run); no sorry/admit/native_decide/bv_decide/own axioms",
    "PMC/Spec/*.lean says what the documentation and the property say",
    "the Python correspondence harness and extractors (generators, adapters, canonicalisation)",
    "CPython dict/set/weakref semantics, Lark's grammar compilation, ast.parse (modelled, validated by running)",
]


class HarnessError(Exception):
    """Something in the machinery itself broke (exit 2, never a verdict)."""


# ----------------------------------------------------------------------------------------------- build

def run(cmd, cwd=None, timeout=3600, env=None):
    p = subprocess.run(cmd, cwd=cwd, stdout=subprocess.PIPE, stderr=subprocess.STDOUT, text=True,
                       timeout=timeout, env=env)
    return p.returncode, p.stdout


_built = None


def ensure_built(generate=True):
    """Regenerate PMC/Generated from /repo, then `lake build` (no-op when nothing changed).

    Returns (ok, log).  ok=False means some proof obligation or generated obligation no longer builds; the caller
    decides what that means for its property (it is never by itself a violation)."""
    global _built
    if _built is not None:
        return _built
    lock = open(os.path.join(ROOT, '.lock'), 'w')
    fcntl.flock(lock, fcntl.LOCK_EX)
    try:
        gen_log = ''
        if generate:
            try:
                from extract import generate_all
                gen_log = generate_all.main()
            except Exception as e:  # extraction itself failing is reported by the properties that depend on it
                gen_log = 'EXTRACT-FAILED: %r' % (e,)
        # the driver depends only on the import-free model and the generated tables: it must build
        rc1, out1 = run(['lake', 'build', 'pmcdrv'], cwd=LEAN, timeout=7200)
        if rc1 != 0 or not os.path.exists(DRIVER):
            raise HarnessError('cannot build the Lean driver:\n' + out1[-3000:])
        # the library (proofs, property theorems, generated obligations) may fail: the caller decides what that means
        rc, out = run(['lake', 'build', 'PMC'], cwd=LEAN, timeout=7200)
        _built = (rc == 0, gen_log + '\n' + out1[-2000:] + '\n' + out)
    finally:
        fcntl.flock(lock, fcntl.LOCK_UN)
        lock.close()
    return _built


def build_failures(log):
    """module names lake reported as failing"""
    bad = []
    for line in log.splitlines():
        line = line.strip()
        if line.startswith('- ') and ('PMC.' in line or 'Driver' in line):
            bad.append(line[2:].strip())
        if line.startswith('error:') and '.lean' in line:
            bad.append(line.split(':')[1].strip())
    return sorted(set(bad))


# ----------------------------------------------------------------------------------------------- driver

def _lean_chunk(lines):
    data = '\n'.join(lines) + '\n'
    p = subprocess.run([DRIVER], input=data, stdout=subprocess.PIPE, stderr=subprocess.PIPE, text=True)
    if p.returncode != 0:
        raise HarnessError('driver crashed: ' + p.stderr[-2000:])
    out = p.stdout.split('\n')
    if out and out[-1] == '':
        out.pop()
    if len(out) != len(lines):
        raise HarnessError('driver answered %d lines for %d operations' % (len(out), len(lines)))
    return out


def lean_batch(lines, shards=None):
    """answers of the Lean model for a list of operation lines (order preserved)"""
    lines = list(lines)
    for l in lines:
        if '\n' in l:
            raise HarnessError('newline in operation line')
    if not lines:
        return []
    ensure_built()
    shards = shards or NPROC
    if len(lines) < 200 or shards <= 1:
        return _lean_chunk(lines)
    from concurrent.futures import ThreadPoolExecutor
    k = max(1, (len(lines) + shards - 1) // shards)
    chunks = [lines[i:i + k] for i in range(0, len(lines), k)]
    with ThreadPoolExecutor(len(chunks)) as ex:
        res = list(ex.map(_lean_chunk, chunks))
    return [x for r in res for x in r]


# ----------------------------------------------------------------------------------------------- encodings

def enc_name(s):
    if s and all((c.isascii() and c.isalnum()) or c == '_' for c in s):
        return s
    return '~' + '.'.join(str(ord(c)) for c in s)


def enc_graph(adj):
    """adj: list of (node:int, [succ:int]) in dict order"""
    return ';'.join('%d:%s' % (v, ' '.join(map(str, ss))) for v, ss in adj)


def enc_labels(labs):
    """labs: list of (node:int, [label:str])"""
    return ';'.join('%d:%s' % (v, ' '.join(enc_name(l) for l in ls)) for v, ls in labs)


def enc_set(xs):
    return ' '.join(map(str, sorted(set(xs))))


def enc_pairs(ps):
    return ' '.join('%d-%d' % (a, b) for a, b in ps)


UNARY = ('not', 'X', 'F', 'G', 'A', 'E')
BINARY = ('imp', 'U', 'R')
NARY = ('or', 'and')
CLASSNAME = {'not': 'Not', 'or': 'Or', 'and': 'And', 'imp': 'Imply', 'X': 'X', 'F': 'F', 'G': 'G', 'U': 'U',
             'R': 'R', 'A': 'A', 'E': 'E'}
OPNAME = {v: k for k, v in CLASSNAME.items()}


def sexpr(t):
    """tree -> S-expression understood by Driver.lean; trees are 'tt' | 'ff' | ('ap', name) | (op, *children)"""
    if t == 'tt' or t == 'ff':
        return t
    if t[0] == 'ap':
        return '( ap %s )' % enc_name(t[1])
    return '( %s %s )' % (t[0], ' '.join(sexpr(c) for c in t[1:]))


def parse_sexpr(s):
    toks = s.split()
    pos = [0]

    def dec_name(n):
        if n.startswith('~'):
            return ''.join(chr(int(x)) for x in n[1:].split('.') if x)
        return n

    def go():
        t = toks[pos[0]]
        pos[0] += 1
        if t in ('tt', 'ff'):
            return t
        assert t == '(', s
        op = toks[pos[0]]
        pos[0] += 1
        if op == 'ap':
            n = toks[pos[0]]
            pos[0] += 2
            return ('ap', dec_name(n))
        kids = []
        while toks[pos[0]] != ')':
            kids.append(go())
        pos[0] += 1
        return (op,) + tuple(kids)
    r = go()
    assert pos[0] == len(toks), s
    return r


def lang(name):
    import importlib
    return importlib.import_module('pyModelChecking.' + name)


def to_obj(t, L):
    """build the formula object of language module L for tree t (raises whatever the constructors raise)"""
    if t == 'tt':
        return L.Bool(True)
    if t == 'ff':
        return L.Bool(False)
    if t[0] == 'ap':
        return L.AtomicProposition(t[1])
    cls = getattr(L, CLASSNAME[t[0]])
    return cls(*[to_obj(c, L) for c in t[1:]])


def from_obj(o):
    """tree of a formula object (by class name and attributes, never by ==)"""
    import pyModelChecking.language as BL
    if isinstance(o, BL.Bool):
        return 'tt' if o._value else 'ff'
    name = type(o).__name__
    if name == 'AtomicProposition':
        return ('ap', o.name)
    return (OPNAME[name],) + tuple(from_obj(c) for c in o._subformula)


def obj_module(o):
    return type(o).__module__.split('.')[1] if type(o).__module__.count('.') >= 1 else type(o).__module__


def tree_str(t):
    """compact human-readable form for samples"""
    if t in ('tt', 'ff'):
        return 'true' if t == 'tt' else 'false'
    if t[0] == 'ap':
        return t[1]
    if t[0] in UNARY:
        return '%s(%s)' % (t[0], tree_str(t[1]))
    return '(' + (' %s ' % t[0]).join(tree_str(c) for c in t[1:]) + ')'


def tree_depth(t):
    if t in ('tt', 'ff') or t[0] == 'ap':
        return 0
    return 1 + max(tree_depth(c) for c in t[1:])


def tree_ops(t, acc=None):
    acc = {} if acc is None else acc
    if t in ('tt', 'ff'):
        acc[t] = acc.get(t, 0) + 1
    elif t[0] == 'ap':
        acc['ap'] = acc.get('ap', 0) + 1
    else:
        acc[t[0]] = acc.get(t[0], 0) + 1
        for c in t[1:]:
            tree_ops(c, acc)
    return acc


# ----------------------------------------------------------------------------------------------- Kripke helpers

class KS(object):
    """A structure in harness form: n states 0..n-1, succ lists, label lists (strings)."""

    def __init__(self, succ, labs):
        self.n = len(succ)
        self.succ = [list(s) for s in succ]
        self.labs = [list(l) for l in labs]

    def key(self):
        return (tuple(tuple(sorted(s)) for s in self.succ), tuple(tuple(sorted(l)) for l in self.labs))

    def to_impl(self, order=None):
        from pyModelChecking.kripke import Kripke
        R = [(s, d) for s in range(self.n) for d in self.succ[s]]
        L = {s: set(self.labs[s]) for s in range(self.n)}
        return Kripke(S=list(range(self.n)), R=R, L=L)

    def enc(self):
        return enc_graph([(s, self.succ[s]) for s in range(self.n)]) + '|' + \
            enc_labels([(s, self.labs[s]) for s in range(self.n)])

    def describe(self):
        return {'succ': self.succ, 'labels': self.labs}

    def nontrivial_sccs(self):
        # count of states on some cycle, for the evidence histogram
        reach = [set(self.succ[s]) for s in range(self.n)]
        for _ in range(self.n):
            for s in range(self.n):
                for d in list(reach[s]):
                    reach[s] |= reach[d]
        return sum(1 for s in range(self.n) if s in reach[s])


def all_structures(n, atoms=('p', 'q')):
    """every total structure on {0..n-1} with labels over `atoms`"""
    import itertools
    succ_choices = [[d for d in range(n) if (m >> d) & 1] for m in range(1, 1 << n)]
    lab_choices = [[a for i, a in enumerate(atoms) if (m >> i) & 1] for m in range(1 << len(atoms))]
    for succ in itertools.product(succ_choices, repeat=n):
        for labs in itertools.product(lab_choices, repeat=n):
            yield KS(succ, labs)


def big_structure(rng, nmin=7, nmax=14, atoms=('p', 'q')):
    """larger structures: chains into cycles, several SCCs, a few high-degree states"""
    n = rng.randint(nmin, nmax)
    succ = []
    for s in range(n):
        k = rng.choice([1, 1, 2, 2, 3, 5])
        near = [max(0, min(n - 1, s + rng.choice([-2, -1, 0, 1, 1, 2]))) for _ in range(k)]
        far = [rng.randrange(n)] if rng.random() < 0.3 else []
        succ.append(sorted(set(near + far)))
    labs = [[a for a in atoms if rng.random() < 0.5] for _ in range(n)]
    return KS(succ, labs)


def random_structure(rng, nmax=6, atoms=('p', 'q')):
    n = rng.choice([1] + list(range(2, nmax + 1)) * 3 + [nmax] * 2)
    succ = []
    for s in range(n):
        k = rng.choice([1, 1, 1, 2, 2, 3])
        succ.append(sorted(set(rng.randrange(n) for _ in range(k))))
    labs = [[a for a in atoms if rng.random() < 0.5] for _ in range(n)]
    return KS(succ, labs)


# ----------------------------------------------------------------------------------------------- results

# counters of the evidence that must be positive for a run to count (see Result.finish)
NONEMPTY = {
    'C01': ['adversarial_name_cases', 'long_identifier_cases', 'repeated_under_python_O', 'nonconstant_answers'],
    'C02': ['adversarial_name_cases', 'long_identifier_cases', 'repeated_under_python_O', 'nonconstant_answers'],
    'C03': ['adversarial_name_cases', 'long_identifier_cases', 'degenerate_arity_cases', 'cases_inside_hypotheses_of_ctls_exact', 'repeated_under_python_O'],
    'C05': ['same_print_different_tree_triples', 'formulas_with_one_or_no_operand_and_or'],
    'C07': ['calls_with_F_compared_with_model', 'threaded_calls'],
    'C08': ['is_a_state_formula_compared', 'formula_api_cases'],
    'C10': ['language_parameter_cases', 'language_parameter_reverse_order_cases'],
    'C11': ['pickled_across_hash_seeds'],
    'C12': ['odd_named_graphs'],
    'C15': ['non_fair_rewritings_compared', 'fair_labels_compared', 'get_fair_states_cases', 'modelcheck_cases'],
    'C16': ['mixed_name_source_cases', 'histories'],
    'C17': ['threaded_operations', 'truth_tables_compared'],
    'C18': ['closed_expressions_over_no_variable', 'histories'],
}


class Result(object):
    def __init__(self, pid, tier):
        self.pid = pid
        self.tier = tier
        self.t0 = time.time()
        self.violations = []      # (what, replay dict)
        self.known = []
        self.coverage = {}
        self.assumptions = []
        self.level = 'proof'

    def violation(self, what, replay, no_input=False):
        self.violations.append((what, replay, no_input))

    def write_replay(self, what, replay):
        d = os.path.join(ROOT, 'replay')
        os.makedirs(d, exist_ok=True)
        def clean(x):
            if isinstance(x, dict):
                return {(k if isinstance(k, str) else repr(k)): clean(v) for k, v in x.items()}
            if isinstance(x, (list, tuple)):
                return [clean(v) for v in x]
            if isinstance(x, (set, frozenset)):
                return sorted((clean(v) for v in x), key=repr)
            return x
        try:
            blob = json.dumps({'property': self.pid, 'what': what, 'seed': SEED, 'replay': clean(replay),
                               'rerun': './check %s --tier %s' % (self.pid, self.tier)}, indent=1, default=str, sort_keys=True)
        except Exception:
            blob = json.dumps({'property': self.pid, 'what': what, 'seed': SEED, 'replay': repr(replay)[:20000],
                               'rerun': './check %s --tier %s' % (self.pid, self.tier)}, indent=1)
        h = hashlib.sha1(blob.encode()).hexdigest()[:10]
        path = os.path.join(d, '%s-%s.json' % (self.pid, h))
        with open(path, 'w') as f:
            f.write(blob)
        return path

    def finish(self):
        # a stream that silently produced nothing would make the run pass vacuously: every counter named here must be
        # positive (a harness error, never a verdict)
        if not os.environ.get('VERIF_CHILD'):
            empty = [k for k in NONEMPTY.get(self.pid, []) + ['evaluations'] if not self.coverage.get(k)]
            if empty and not self.violations:
                raise HarnessError('stream(s) produced no case: %s' % ', '.join(empty))
        if self.level == 'proof' and not self.coverage.get('obligations'):
            # no property theorem is claimed (yet): the run is an exploration, and says so
            self.level = 'exploration'
            self.coverage.pop('obligations', None)
            self.coverage.pop('discharged', None)
        ev = {
            'property_id': self.pid, 'tier': self.tier, 'seed': SEED, 'level': self.level,
            'coverage': self.coverage, 'assumptions': self.assumptions,
            'wall_s': round(time.time() - self.t0, 2), 'violations': len(self.violations),
        }
        if not os.environ.get('VERIF_CHILD'):       # a repetition under -O reports to its parent, which writes the evidence
            os.makedirs(os.path.join(ROOT, 'evidence'), exist_ok=True)
            with open(os.path.join(ROOT, 'evidence', self.pid + '.json'), 'w') as f:
                json.dump(ev, f, indent=1, default=str, sort_keys=True)
        for k in dict.fromkeys(self.known):
            print('KNOWN-FINDING: property=%s %s' % (self.pid, k))
        if self.violations:
            concrete = [v for v in self.violations if not v[2]]
            shown = concrete if concrete else self.violations
            for what, replay, no_input in shown[:5]:
                path = self.write_replay(what, replay)
                tail = ' no-failing-input-found' if no_input else ''
                print('VIOLATION property=%s replay=%s%s' % (self.pid, path, tail))
                print('  ' + what[:400])
            return 1
        print('OK property=%s tier=%s wall=%.1fs %s' % (
            self.pid, self.tier, time.time() - self.t0,
            json.dumps({k: v for k, v in self.coverage.items()
                        if isinstance(v, (int, float, bool))}, sort_keys=True)))
        return 0


# ----------------------------------------------------------------------------------------------- audit

def audit(theorems, modules, thorough=False):
    """Check that each named theorem exists in the built library and depends only on the allowed axioms.

    Returns (obligations, discharged, problems:list[str])."""
    ok, log = ensure_built()
    problems = []
    name = 'Audit_%d_%s.lean' % (os.getpid(), hashlib.sha1(' '.join(theorems).encode()).hexdigest()[:8])
    path = os.path.join(LEAN, name)
    src = ''.join('import %s\n' % m for m in modules) + ''.join('#print axioms %s\n' % t for t in theorems)
    with open(path, 'w') as f:
        f.write(src)
    try:
        rc, out = run(['lake', 'env', 'lean', name], cwd=LEAN, timeout=1800)
    finally:
        os.unlink(path)
    discharged = 0
    blocks = {}
    cur = None
    for line in out.splitlines():
        if "depends on axioms" in line or 'does not depend on any axioms' in line:
            nm = line.split("'")[1]
            cur = nm
            blocks[cur] = line
        elif cur is not None:
            blocks[cur] += ' ' + line
    for t in theorems:
        b = blocks.get(t)
        if b is None:
            problems.append('theorem %s not found in the built library' % t)
            continue
        axs = set()
        if '[' in b:
            axs = set(a.strip() for a in b[b.index('[') + 1:b.rindex(']')].split(',') if a.strip())
        extra = axs - ALLOWED_AXIOMS
        if extra or 'sorryAx' in b:
            problems.append('theorem %s depends on %s' % (t, sorted(extra)))
        else:
            discharged += 1
    # source scan
    rc, out2 = run(['grep', '-rnE', r'\bsorry\b|\badmit\b|native_decide|bv_decide|implemented_by|^\s*unsafe |^axiom |maxHeartbeats 0',
                    os.path.join(LEAN, 'PMC')])
    for line in out2.splitlines():
        body = line.split(':', 2)[2] if line.count(':') >= 2 else line
        if body.strip().startswith('--') or body.strip().startswith('/-'):
            continue
        problems.append('forbidden construct: ' + line.strip()[:200])
    if thorough:
        rc, out3 = run(['lake', 'env', 'leanchecker'] + modules, cwd=LEAN, timeout=3600)
        if rc != 0:
            problems.append('leanchecker failed: ' + out3[-500:])
    if not ok:
        # the library as a whole does not build: build exactly what this property's modules need (their imports
        # included); stale .olean files of failed dependencies must not let the theorems count as re-checked
        rc_p, out_p = run(['lake', 'build'] + list(modules), cwd=LEAN, timeout=7200)
        if rc_p != 0:
            bad = build_failures(out_p) or build_failures(log)
            problems.append('lake build failed for ' + (', '.join(bad) if bad else 'the modules of this property'))
    return len(theorems), discharged, problems


def proof_coverage(res, theorems, modules, extra_obligations=0, extra_discharged=0):
    """run the audit and put the proof-level keys into the coverage dict; returns problems"""
    if os.environ.get('VERIF_CHILD'):
        return []                                    # the parent run has audited the proofs
    n, d, problems = audit(theorems, modules, thorough=(res.tier == 'thorough'))
    # the translators: a failed extraction leaves the previous tables on disk; the generated obligations would then be
    # discharged for tables that do not come from the tree under test
    ok_, log_ = ensure_built()
    needs = {'larktables': ('C09', 'C10'), 'classes': ('C08',)}
    for line in log_.splitlines():
        if line.startswith('EXTRACT-FAILED'):
            for key, pids in needs.items():
                if (key in line or line.startswith('EXTRACT-FAILED:')) and res.pid in pids:
                    problems.append('translation of the live code into PMC/Generated no longer works (%s): the generated '
                                    'obligations are not re-checked against this tree' % line[:300])
    res.coverage.update({
        'obligations': n + extra_obligations,
        'discharged': d + extra_discharged,
        'checker_cmd': 'cd lean && lake build && lake env lean <Audit: #print axioms of the property theorems>'
                       + (' && lake env leanchecker ' + ' '.join(modules) if res.tier == 'thorough' else ''),
        'trusted_base': TRUSTED_BASE,
        'theorems': theorems,
    })
    return problems


def helper_crash(res, what, stderr, replay):
    """a helper interpreter (fresh process for -O, other hash seeds, other import orders) ended abnormally: a failure of
    the library there is a violation, anything else (import path, memory, a bug of the helper) a harness error"""
    repo = os.path.realpath(REPO)
    if repo + os.sep in (stderr or '') or os.path.join('pyModelChecking', '') in (stderr or ''):
        res.violation('%s: %s' % (what, (stderr or '')[-300:]), replay)
    else:
        raise HarnessError('%s (not a failure inside the package): %s' % (what, (stderr or '')[-600:]))


def quiet():
    """silence third-party warnings around a library call — except in the warnings-as-errors pass, where a warning
    raised inside the library must surface as the exception it becomes"""
    import contextlib
    import warnings
    if os.environ.get('VERIF_WARN_ERROR'):
        return contextlib.nullcontext()
    cm = warnings.catch_warnings()

    class _Q(object):
        def __enter__(self_):
            cm.__enter__()
            warnings.simplefilter('ignore')

        def __exit__(self_, *a):
            return cm.__exit__(*a)
    return _Q()


def rng_for(tag):
    return random.Random('%d/%s' % (SEED, tag))


def known_findings(pid):
    with open(os.path.join(ROOT, 'known_findings.json')) as f:
        data = json.load(f)
    return [k for k in data['findings'] if k['property'] == pid and k['status'] == 'open']
