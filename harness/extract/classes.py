def generate():
    return ''
