"""Extracts the class lattice of the four language modules from the live /repo code (C08).

Nothing here is a hand-written copy of the lattice: every fact is obtained from the imported modules by
introspection (`M.alphabet`, `issubclass`) or by observation (which class a constructor hands to
`wrap_subformulas`, recorded by temporarily wrapping that method while one object of every alphabet class is built).

Output: lean/PMC/Generated/ClassTable.lean, the value `PMC.Classes.generatedTable : ClassTable`
(deterministically sorted; an unchanged /repo gives a byte-identical file).
"""
import importlib
import inspect
import os
import sys

HERE = os.path.dirname(os.path.abspath(__file__))
ROOT = os.path.dirname(os.path.dirname(HERE))
REPO = os.environ.get('REPO', '/repo')
OUT = os.path.join(ROOT, 'lean', 'PMC', 'Generated', 'ClassTable.lean')

LOGICS = ('PL', 'CTL', 'LTL', 'CTLS')           # order of the constructors of `PMC.Logic`
# class names that are "kinds" (looked up in every language module that defines them) ...
KINDS = ('Formula', 'StateFormula', 'PathFormula')
# ... and one further class that a `modelcheck` guard tests with `isinstance` (LTL.modelcheck: `isinstance(f, CTLS.A)`)
EXTRA_KINDS = (('CTLS', 'A'),)


def _lang_module(name):
    if REPO not in sys.path:
        sys.path.insert(0, REPO)
    importlib.import_module('pyModelChecking.' + name)          # the package (fills in cross imports)
    return importlib.import_module('pyModelChecking.%s.language' % name)


def _logic_of(modname):
    """'pyModelChecking.CTL.language' -> 'CTL'; None for anything that is not one of the four language modules"""
    parts = modname.split('.')
    if len(parts) == 3 and parts[0] == 'pyModelChecking' and parts[2] == 'language' and parts[1] in LOGICS:
        return parts[1]
    return None


def observe_operand_classes(mods):
    """(logic, class name) -> (logic, class name) of the FormulaClass argument of wrap_subformulas"""
    import pyModelChecking.language as BL
    import pyModelChecking.PL.language as PLL
    seen = {}
    saved = [(BL.Formula, BL.Formula.__dict__['wrap_subformulas']),
             (PLL.Formula, PLL.Formula.__dict__['wrap_subformulas'])]

    def wrapper(orig):
        def wrap_subformulas(self, subformulas, FormulaClass):
            key = (type(self).__module__, type(self).__name__)
            seen.setdefault(key, set()).add((FormulaClass.__module__, FormulaClass.__name__))
            return orig(self, subformulas, FormulaClass)
        return wrap_subformulas

    try:
        for cls, orig in saved:
            setattr(cls, 'wrap_subformulas', wrapper(orig))
        for name in LOGICS:
            mod = mods[name]
            for cname in sorted(mod.alphabet):
                cls = mod.alphabet[cname]
                for nargs in (1, 2, 3):
                    try:
                        cls(*(['p'] * nargs))
                        break
                    except TypeError:
                        continue
    finally:
        for cls, orig in saved:
            setattr(cls, 'wrap_subformulas', orig)

    table = {}
    for name in LOGICS:
        mod = mods[name]
        for cname in sorted(mod.alphabet):
            cls = mod.alphabet[cname]
            got = seen.get((cls.__module__, cls.__name__))
            if not got:
                continue                       # a leaf: its constructor never reaches wrap_subformulas
            if len(got) != 1:
                raise RuntimeError('constructor of %s.%s used several operand classes: %r' % (name, cname, got))
            (fmod, fname), = got
            flogic = _logic_of(fmod)
            if flogic is None or getattr(mods[flogic], fname, None) is None:
                raise RuntimeError('operand class %s.%s of %s.%s is not in a language module' % (fmod, fname, name, cname))
            if _logic_of(cls.__module__) != name:
                raise RuntimeError('alphabet class %s.%s lives in %s' % (name, cname, cls.__module__))
            table[(name, cname)] = (flogic, fname)
    return table


def subclass_facts(mods):
    """(logic, class) -> sorted list of (logic', kind) with issubclass(logic.class, logic'.kind), kind defined in logic'"""
    kinds = []
    for name, k in [(name, k) for name in LOGICS for k in KINDS] + list(EXTRA_KINDS):
        K = getattr(mods[name], k, None)
        if inspect.isclass(K) and K.__module__ == mods[name].__name__:
            kinds.append((name, k, K))
    facts = {}
    for name in LOGICS:
        for cname in sorted(mods[name].alphabet):
            cls = mods[name].alphabet[cname]
            facts[(name, cname)] = [(m, k) for (m, k, K) in kinds if issubclass(cls, K)]
    return facts


def extract():
    mods = {name: _lang_module(name) for name in LOGICS}
    alphabets = {name: sorted(mods[name].alphabet) for name in LOGICS}
    return alphabets, observe_operand_classes(mods), subclass_facts(mods)


def _lstr(s):
    if not all(c.isascii() and (c.isalnum() or c == '_') for c in s):
        raise RuntimeError('unexpected class name %r' % (s,))
    return '"%s"' % s


def _key(p):
    return (LOGICS.index(p[0]), p[1])


def render(alphabets, operand, facts):
    out = []
    out.append('/- GENERATED by harness/extract/classes.py from the live pyModelChecking code.  DO NOT EDIT. -/')
    out.append('import PMC.Model.Classes')
    out.append('namespace PMC.Classes')
    out.append('')
    out.append('def generatedTable : ClassTable where')
    out.append('  alphabet := [')
    out.append(',\n'.join('    (.%s, [%s])' % (m, ', '.join(_lstr(c) for c in alphabets[m])) for m in LOGICS))
    out.append('  ]')
    out.append('  operand := [')
    out.append(',\n'.join('    ((.%s, %s), (.%s, %s))' % (k[0], _lstr(k[1]), v[0], _lstr(v[1]))
                          for k, v in sorted(operand.items(), key=lambda kv: _key(kv[0]))))
    out.append('  ]')
    out.append('  sub := [')
    out.append(',\n'.join('    ((.%s, %s), [%s])' % (k[0], _lstr(k[1]),
                                                     ', '.join('(.%s, %s)' % (m, _lstr(c)) for m, c in sorted(v, key=_key)))
                          for k, v in sorted(facts.items(), key=lambda kv: _key(kv[0]))))
    out.append('  ]')
    out.append('')
    out.append('end PMC.Classes')
    return '\n'.join(out) + '\n'


def generate():
    from extract.generate_all import write_if_changed
    content = render(*extract())
    changed = write_if_changed(OUT, content)
    return 'classes: %s %s' % (os.path.relpath(OUT, ROOT), 'rewritten' if changed else 'unchanged')


if __name__ == '__main__':
    sys.path.insert(0, os.path.dirname(HERE))
    print(generate())
