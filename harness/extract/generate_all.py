"""Regenerates lean/PMC/Generated/*.lean from the live /repo code (only rewrites a file when its content changed)."""
import os


def write_if_changed(path, content):
    old = None
    if os.path.exists(path):
        with open(path) as f:
            old = f.read()
    if old != content:
        os.makedirs(os.path.dirname(path), exist_ok=True)
        with open(path, 'w') as f:
            f.write(content)
        return True
    return False


def main():
    log = []
    from extract import classes, larktables
    for mod in (classes, larktables):
        try:
            log.append(mod.generate())
        except Exception as e:
            log.append('EXTRACT-FAILED %s: %r' % (mod.__name__, e))
    return '\n'.join(log)
