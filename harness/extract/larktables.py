"""Lark tables -> lean/PMC/Generated/Grammar.lean

For each of the four parsers (`pyModelChecking.{PL,CTL,LTL,CTLS}.Parser()`) the live `Lark` object is read:

* terminals (name, string literal or one of the three known regular expressions), in the order in which Lark's
  `TraditionalLexer` tries them (`-priority, -max_width, -len(pattern), name`);
* ignored terminals;
* rules after EBNF expansion (origin, rhs symbols with `is_term` / `filter_out`, callback name = alias or origin,
  inline = origin starts with `_`);
* the LALR action/goto table (state -> symbol -> Shift state | Reduce rule), start and end state.  Lark numbers
  the states by iterating over sets (the numbering depends on the hash seed), so the states are renumbered
  canonically (breadth first from the start state, symbols in sorted order): an unchanged /repo gives a
  byte-identical file.

Everything the Lean model (`PMC/Model/Parser.lean`) takes for granted about Lark's configuration is asserted here
(`check_assumptions`); a violated assumption makes `generate()` raise, which `generate_all` reports as EXTRACT-FAILED.
"""
import os
import sys
import warnings

try:
    from common import REPO, LEAN
except Exception:  # stand-alone use
    REPO = os.environ.get('REPO', '/repo')
    LEAN = os.path.join(os.path.dirname(os.path.dirname(os.path.dirname(os.path.abspath(__file__)))), 'lean')
if REPO not in sys.path:
    sys.path.insert(0, REPO)

LOGICS = ('PL', 'CTL', 'LTL', 'CTLS')
OUT = os.path.join(LEAN, 'PMC', 'Generated', 'Grammar.lean')

# the three regular expressions the Lean lexer has hand-written matchers for
REGEXES = {
    r'[a-zA-Z_][a-zA-Z_0-9]*': '.ident',
    r'".*?(?<!\\)(\\\\)*?"': '.escapedString',
    '(?:[ \t\x0c\r\n])+': '.ws',
}

# Transformer methods modelled by `PMC.Parser.callback`
CALLBACKS = {
    'true', 'false', 'string', 'e_string',
    'a_prop', 'b_formula', 's_formula', 'u_formula', 'p_formula', 'formula',
    'not_formula', 'or_formula', 'and_formula', 'imply_formula',
    'forall_formula', 'exists_formula', 'next_formula', 'eventually_formula', 'globally_formula',
    'until_formula', 'release_formula',
}

END = '$END'


class ExtractError(Exception):
    pass


def need(cond, msg):
    if not cond:
        raise ExtractError(msg)


def extract(logic):
    """the tables of one parser as plain Python data (also used by harness/validate_parser.py)"""
    import importlib
    from lark.lexer import PatternStr, PatternRE
    from lark.parsers.lalr_analysis import Shift, Reduce
    with warnings.catch_warnings():
        warnings.simplefilter('ignore')
        M = importlib.import_module('pyModelChecking.' + logic)
        P = M.Parser()
    L = P._parser
    opts = L.options
    need(opts.parser == 'lalr' and opts.lexer == 'contextual', '%s: not LALR + contextual lexer' % logic)
    need(not opts.keep_all_tokens and not opts.maybe_placeholders and opts.postlex is None
         and not opts.lexer_callbacks and opts.g_regex_flags == 0 and not opts.use_bytes
         and not opts.propagate_positions and opts.edit_terminals is None,
         '%s: unexpected Lark options' % logic)
    need(list(opts.start) == ['formula'], '%s: start symbol' % logic)
    transformer = opts.transformer
    need(transformer is not None, '%s: no inline transformer' % logic)

    # ---- terminals, in the lexer's order
    terms = sorted(L.terminals, key=lambda t: (-t.priority, -t.pattern.max_width, -len(t.pattern.value), t.name))
    terminals = []
    for t in terms:
        need(t.priority == 1 and not t.pattern.flags, '%s: terminal %s has a priority or flags' % (logic, t.name))
        if isinstance(t.pattern, PatternStr):
            need(len(t.pattern.value) > 0, '%s: empty literal' % logic)
            terminals.append((t.name, 'lit', t.pattern.value))
        else:
            need(isinstance(t.pattern, PatternRE) and t.pattern.value in REGEXES,
                 '%s: terminal %s is an unknown regular expression %r' % (logic, t.name, t.pattern.value))
            terminals.append((t.name, 're', t.pattern.value))
    names = [t[0] for t in terminals]
    need(len(set(names)) == len(names) and END not in names, '%s: terminal names' % logic)
    ignore = sorted(L.ignore_tokens)
    need(set(ignore) <= set(names), '%s: ignored terminals' % logic)

    # ---- rules
    rules = []
    for r in L.rules:
        o = r.options
        need(not o.keep_all_tokens and not o.expand1 and o.template_source is None, '%s: rule options of %s' % (logic, r))
        need(len(r.expansion) > 0, '%s: empty rule %s' % (logic, r))
        origin = r.origin.name
        inline = origin.startswith('_')
        cb = r.alias or origin
        if inline:
            need(r.alias is None and not hasattr(transformer, cb), '%s: inline rule %s has a callback' % (logic, origin))
        else:
            need(cb in CALLBACKS, '%s: callback %s is not modelled' % (logic, cb))
            need(callable(getattr(transformer, cb, None)), '%s: the transformer has no method %s' % (logic, cb))
        rhs = []
        for s in r.expansion:
            need(s.is_term == (s.name in names), '%s: symbol %s' % (logic, s.name))
            rhs.append((s.name, bool(s.is_term), bool(getattr(s, 'filter_out', False))))
        rules.append(dict(origin=origin, rhs=rhs, callback=cb, inline=inline))
    nonterms = sorted(set(r['origin'] for r in rules))
    need(not (set(nonterms) & set(names)), '%s: terminal / nonterminal name clash' % logic)

    def rkey(r):
        return (r.origin.name, tuple(s.name for s in r.expansion), r.alias)
    rmap = {}
    for i, r in enumerate(L.rules):
        need(rkey(r) not in rmap, '%s: duplicate rule' % logic)
        rmap[rkey(r)] = i

    # ---- LALR table
    pt = L.parser.parser._parse_table
    need(list(pt.start_states) == ['formula'], '%s: start states' % logic)
    start = pt.start_states['formula']
    end = pt.end_states['formula']
    raw = {}
    for st, acts in pt.states.items():
        row = {}
        for sym, (a, arg) in acts.items():
            need(sym == END or sym in names or sym in nonterms, '%s: unknown symbol %s in the table' % (logic, sym))
            if a is Shift:
                row[sym] = ('s', arg)
            else:
                need(a is Reduce, '%s: unknown action' % logic)
                row[sym] = ('r', rmap[rkey(arg)])
        raw[st] = row
    # canonical numbering
    order = [start]
    seen = {start}
    i = 0
    while i < len(order):
        row = raw[order[i]]
        for sym in sorted(row):
            k, arg = row[sym]
            if k == 's' and arg not in seen:
                seen.add(arg)
                order.append(arg)
        i += 1
    need(len(order) == len(raw), '%s: unreachable LALR states' % logic)
    num = {old: new for new, old in enumerate(order)}
    table = []
    for old in order:
        row = []
        for sym in sorted(raw[old]):
            k, arg = raw[old][sym]
            row.append((sym, k, num[arg] if k == 's' else arg))
        table.append(row)
    # the contextual lexer's accept sets are the terminal keys of the rows: check against the live lexer
    lexers = getattr(getattr(L.parser, 'lexer', None), 'lexers', None)
    need(lexers is not None, '%s: cannot reach the contextual lexer' % logic)
    for old in order:
        acc = set(s for s in raw[old] if s in names) | set(ignore)
        live = set(t.name for t in lexers[old].terminals)
        need(acc == live, '%s: accept set of state %d differs from the live lexer' % (logic, old))
    root = [t.name for t in L.parser.lexer.root_lexer.terminals]
    need(root == names, '%s: order of the terminals differs from the live root lexer' % logic)
    return dict(logic=logic, terminals=terminals, ignore=ignore, rules=rules, table=table,
                start=num[start], accept=num[end], parser=P)


# ------------------------------------------------------------------------------------------------ Lean output

def lstr(s):
    out = ['"']
    for c in s:
        if c == '"':
            out.append('\\"')
        elif c == '\\':
            out.append('\\\\')
        elif c == '\n':
            out.append('\\n')
        elif c == '\t':
            out.append('\\t')
        elif c == '\r':
            out.append('\\r')
        elif 32 <= ord(c) < 127:
            out.append(c)
        else:
            out.append('\\u{%x}' % ord(c))
    out.append('"')
    return ''.join(out)


def lbool(b):
    return 'true' if b else 'false'


def lean_of(T):
    n = T['logic']
    o = []
    o.append('/-- terminals of the %s parser, in the order in which Lark\'s lexer tries them -/' % n)
    o.append('def terminals%s : List Terminal := [' % n)
    items = []
    for name, kind, val in T['terminals']:
        if kind == 'lit':
            items.append('  ⟨%s, .lit %s⟩' % (lstr(name), lstr(val)))
        else:
            items.append('  ⟨%s, %s⟩  /- %s -/' % (lstr(name), REGEXES[val], repr(val).replace('-/', '- /')))
    o.append(',\n'.join(items) + ']')
    o.append('')
    o.append('/-- rules of the %s grammar after EBNF expansion: origin, rhs (name, isTerm, filterOut), callback, inline -/' % n)
    o.append('def rules%s : List Rule := [' % n)
    items = []
    for i, r in enumerate(T['rules']):
        rhs = ', '.join('⟨%s, %s, %s⟩' % (lstr(s), lbool(t), lbool(f)) for s, t, f in r['rhs'])
        items.append('  /- %2d -/ ⟨%s, [%s], %s, %s⟩' % (i, lstr(r['origin']), rhs, lstr(r['callback']), lbool(r['inline'])))
    o.append(',\n'.join(items) + ']')
    o.append('')
    o.append('/-- LALR(1) action / goto table of the %s parser (row = state, canonical numbering) -/' % n)
    o.append('def table%s : List (List (String × Action)) := [' % n)
    items = []
    for i, row in enumerate(T['table']):
        cells = ', '.join('(%s, %s %d)' % (lstr(s), '.shift' if k == 's' else '.reduce', a) for s, k, a in row)
        items.append('  /- %2d -/ [%s]' % (i, cells))
    o.append(',\n'.join(items) + ']')
    o.append('')
    o.append('def tables%s : Tables :=' % n)
    o.append('  { terminals := terminals%s, ignore := [%s], rules := rules%s, table := table%s, start := %d, accept := %d }'
             % (n, ', '.join(lstr(s) for s in T['ignore']), n, n, T['start'], T['accept']))
    o.append('')
    return '\n'.join(o)


def render(tables):
    head = ('/-\n'
            '  GENERATED by harness/extract/larktables.py from the live Lark objects of pyModelChecking — do not edit.\n'
            '  One `Tables` value per parser: terminals, rules, LALR(1) action/goto table.\n'
            '-/\n'
            'import PMC.Model.Parser\n\n'
            'namespace PMC\nnamespace Parser\n\n')
    return head + '\n'.join(lean_of(T) for T in tables) + '\nend Parser\nend PMC\n'


def generate():
    from extract.generate_all import write_if_changed
    tables = [extract(n) for n in LOGICS]
    changed = write_if_changed(OUT, render(tables))
    return 'larktables: %s (%s)' % (
        'rewritten' if changed else 'unchanged',
        ', '.join('%s %d terminals %d rules %d states' % (T['logic'], len(T['terminals']), len(T['rules']), len(T['table']))
                  for T in tables))


if __name__ == '__main__':
    sys.path.insert(0, os.path.dirname(os.path.dirname(os.path.abspath(__file__))))
    print(generate())
