"""Formula generators (trees: 'tt' | 'ff' | ('ap', name) | (op, *children)).

Type-directed: each generator only builds trees of its target logic.  A separate malformed stream lives in the
checks that need it (C08, C10).
"""
import itertools

ATOMS = ('p', 'q')
TEMP1 = ('X', 'F', 'G')
TEMP2 = ('U', 'R')


def leaves(atoms=ATOMS, consts=True):
    ls = [('ap', a) for a in atoms]
    if consts:
        ls += ['tt', 'ff']
    return ls


# ------------------------------------------------------------------------------------------ exhaustive, by depth

def ctl_state(depth, atoms=ATOMS, consts=True):
    """all CTL state formulas of depth <= depth, where a quantifier+temporal pair counts as one level; binary and/or"""
    cur = leaves(atoms, consts)
    for _ in range(depth):
        prev = cur
        nxt = list(prev)
        for f in prev:
            nxt.append(('not', f))
            for q in 'AE':
                for t in TEMP1:
                    nxt.append((q, (t, f)))
        for f, g in itertools.product(prev, repeat=2):
            nxt.append(('and', f, g))
            nxt.append(('or', f, g))
            nxt.append(('imp', f, g))
            for q in 'AE':
                for t in TEMP2:
                    nxt.append((q, (t, f, g)))
        cur = dedup(nxt)
    return cur


def ltl_path(depth, atoms=ATOMS, consts=True):
    cur = leaves(atoms, consts)
    for _ in range(depth):
        prev = cur
        nxt = list(prev)
        for f in prev:
            nxt.append(('not', f))
            for t in TEMP1:
                nxt.append((t, f))
        for f, g in itertools.product(prev, repeat=2):
            nxt.append(('and', f, g))
            nxt.append(('or', f, g))
            nxt.append(('imp', f, g))
            for t in TEMP2:
                nxt.append((t, f, g))
        cur = dedup(nxt)
    return cur


def pl(depth, atoms=ATOMS, consts=True):
    cur = leaves(atoms, consts)
    for _ in range(depth):
        prev = cur
        nxt = list(prev)
        for f in prev:
            nxt.append(('not', f))
        for f, g in itertools.product(prev, repeat=2):
            nxt.append(('and', f, g))
            nxt.append(('or', f, g))
            nxt.append(('imp', f, g))
        cur = dedup(nxt)
    return cur


def dedup(xs):
    seen = set()
    out = []
    for x in xs:
        if x not in seen:
            seen.add(x)
            out.append(x)
    return out


def temporal_count(t):
    if t in ('tt', 'ff') or t[0] == 'ap':
        return 0
    return (1 if t[0] in TEMP1 + TEMP2 else 0) + sum(temporal_count(c) for c in t[1:])


# ------------------------------------------------------------------------------------------ random

def rand_leaf(rng, atoms):
    return rng.choice(leaves(atoms) + [('ap', a) for a in atoms] * 7)


def rand_pl(rng, depth, atoms=ATOMS, nary=True):
    if depth <= 0 or rng.random() < 0.15:
        return rand_leaf(rng, atoms)
    op = rng.choice(['not', 'and', 'or', 'imp'])
    if op == 'not':
        return ('not', rand_pl(rng, depth - 1, atoms, nary))
    if op == 'imp':
        return ('imp', rand_pl(rng, depth - 1, atoms, nary), rand_pl(rng, depth - 1, atoms, nary))
    k = rng.choice([2, 2, 2, 3, 4]) if nary else 2
    return (op,) + tuple(rand_pl(rng, depth - 1, atoms, nary) for _ in range(k))


def rand_ctl(rng, depth, atoms=ATOMS, nary=True):
    if depth <= 0 or rng.random() < 0.12:
        return rand_leaf(rng, atoms)
    op = rng.choice(['not', 'not', 'and', 'and', 'or', 'imp', 'Q1', 'Q1', 'Q1', 'Q1', 'Q2', 'Q2', 'Q2', 'Q2'])
    sub = lambda: rand_ctl(rng, depth - 1, atoms, nary)
    if op == 'not':
        return ('not', sub())
    if op == 'imp':
        return ('imp', sub(), sub())
    if op in ('and', 'or'):
        k = rng.choice([2, 2, 2, 3, 4]) if nary else 2
        return (op,) + tuple(sub() for _ in range(k))
    q = rng.choice('AE')
    if op == 'Q1':
        return (q, (rng.choice(TEMP1), sub()))
    return (q, (rng.choice(TEMP2), sub(), sub()))


def rand_ltl_path(rng, depth, atoms=ATOMS, nary=True, max_temporal=4):
    budget = [max_temporal]

    def go(d):
        if d <= 0 or rng.random() < 0.12:
            return rand_leaf(rng, atoms)
        ops = ['not', 'and', 'or', 'imp']
        if budget[0] > 0:
            ops += ['T1', 'T1', 'T1', 'T2', 'T2', 'T2']
        op = rng.choice(ops)
        if op == 'not':
            return ('not', go(d - 1))
        if op == 'imp':
            return ('imp', go(d - 1), go(d - 1))
        if op in ('and', 'or'):
            k = rng.choice([2, 2, 2, 3]) if nary else 2
            return (op,) + tuple(go(d - 1) for _ in range(k))
        budget[0] -= 1
        if op == 'T1':
            return (rng.choice(TEMP1), go(d - 1))
        return (rng.choice(TEMP2), go(d - 1), go(d - 1))
    return go(depth)


def rand_ctls_state(rng, depth, atoms=ATOMS, nary=True, max_temporal=3, qdepth=2):
    """CTL* state formula: Boolean combination of atoms and quantified path formulas; path formulas may contain
    nested state formulas (quantifier nesting <= qdepth)"""
    def state(d, qd):
        if d <= 0 or rng.random() < 0.1:
            return rand_leaf(rng, atoms)
        ops = ['not', 'and', 'or', 'imp']
        if qd > 0:
            ops += ['Q'] * 6
        op = rng.choice(ops)
        if op == 'not':
            return ('not', state(d - 1, qd))
        if op == 'imp':
            return ('imp', state(d - 1, qd), state(d - 1, qd))
        if op in ('and', 'or'):
            k = rng.choice([2, 2, 3]) if nary else 2
            return (op,) + tuple(state(d - 1, qd) for _ in range(k))
        budget = [max_temporal]
        return (rng.choice('AE'), path(d - 1, qd - 1, budget))

    def path(d, qd, budget):
        if d <= 0 or rng.random() < 0.1:
            return rand_leaf(rng, atoms)
        ops = ['not', 'and', 'or', 'imp']
        if budget[0] > 0:
            ops += ['T1', 'T1', 'T1', 'T2', 'T2', 'T2']
        if qd > 0:
            ops += ['S', 'S']
        op = rng.choice(ops)
        if op == 'not':
            return ('not', path(d - 1, qd, budget))
        if op == 'imp':
            return ('imp', path(d - 1, qd, budget), path(d - 1, qd, budget))
        if op in ('and', 'or'):
            k = rng.choice([2, 2, 3]) if nary else 2
            return (op,) + tuple(path(d - 1, qd, budget) for _ in range(k))
        if op == 'S':
            b2 = [max_temporal]
            return (rng.choice('AE'), path(d - 1, qd - 1, b2))
        budget[0] -= 1
        if op == 'T1':
            return (rng.choice(TEMP1), path(d - 1, qd, budget))
        return (rng.choice(TEMP2), path(d - 1, qd, budget), path(d - 1, qd, budget))
    return state(depth, qdepth)


# ------------------------------------------------------------------------------------------ syntactic classes

def is_pl(t):
    if t in ('tt', 'ff') or t[0] == 'ap':
        return True
    return t[0] in ('not', 'and', 'or', 'imp') and all(is_pl(c) for c in t[1:])


def is_ctl_state(t):
    if t in ('tt', 'ff') or t[0] == 'ap':
        return True
    if t[0] in ('not', 'and', 'or', 'imp'):
        return all(is_ctl_state(c) for c in t[1:])
    if t[0] in 'AE' and len(t) == 2 and isinstance(t[1], tuple) and t[1][0] in TEMP1 + TEMP2:
        return all(is_ctl_state(c) for c in t[1][1:])
    return False


def is_ltl_path(t):
    if t in ('tt', 'ff') or t[0] == 'ap':
        return True
    return t[0] in ('not', 'and', 'or', 'imp') + TEMP1 + TEMP2 and all(is_ltl_path(c) for c in t[1:])


def is_ctls_state(t):
    if t in ('tt', 'ff') or t[0] == 'ap':
        return True
    if t[0] in ('not', 'and', 'or', 'imp'):
        return all(is_ctls_state(c) for c in t[1:])
    return t[0] in 'AE'


def well_formed(logic, t):
    """t is a formula the logic's modelcheck accepts"""
    if logic == 'CTL':
        return is_ctl_state(t)
    if logic == 'LTL':
        return isinstance(t, tuple) and t[0] == 'A' and is_ltl_path(t[1])
    if logic == 'CTLS':
        return is_ctls_state(t)
    return is_pl(t)
