"""Digraph generators: exhaustive small scope and seeded random."""
import itertools


def all_digraphs(n):
    """every labelled digraph on {0..n-1} (self-loops allowed): adjacency as list of successor lists"""
    pairs = [(a, b) for a in range(n) for b in range(n)]
    for mask in range(1 << len(pairs)):
        adj = [[] for _ in range(n)]
        for i, (a, b) in enumerate(pairs):
            if (mask >> i) & 1:
                adj[a].append(b)
        yield adj


def random_digraph(rng, nmax=12):
    n = rng.randint(1, nmax)
    p = rng.choice([0.05, 0.1, 0.15, 0.25, 0.4])
    return [[b for b in range(n) if rng.random() < p] for a in range(n)]


def impl_graph(adj, order=None, names=None):
    """DiGraph built in a given node insertion order; names maps int -> python object"""
    from pyModelChecking.graph import DiGraph
    n = len(adj)
    order = list(range(n)) if order is None else order
    nm = (lambda x: x) if names is None else (lambda x: names[x])
    return DiGraph(V=[nm(v) for v in order], E=[(nm(a), nm(b)) for a in order for b in adj[a]])


def observed_adj(G, inv=None):
    """(node, successors) in the implementation's own iteration order, mapped back to ints"""
    f = (lambda x: x) if inv is None else (lambda x: inv[x])
    return [(f(v), [f(w) for w in G._next[v]]) for v in G._next]
