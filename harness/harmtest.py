"""False-alarm test: run every registered quick check against behaviour-preserving rewrites of /repo.

/verif/harmless/<name>/patch.diff is a refactoring under which every property still holds (written by sub-agents that
saw only /repo).  For each one a scratch worktree of /repo is created under /tmp, the patch applied, the pinned suite
run, then ALL registered checks run with REPO pointing at the scratch tree.  Expected: exit 0 everywhere.  A check that
exits 1 with a line ending `no-failing-input-found` is a broken fidelity correspondence (the model no longer mirrors an
internal detail of the code); by the rules of the task that is still reported, so it is recorded as `fidelity`, while
an exit 1 with a concrete failing input on such a patch is a false alarm of the machinery and must be repaired.

usage: /venv/bin/python harness/harmtest.py [name ...] [--tier quick|thorough] [--jobs N]
"""
import json
import os
import shutil
import subprocess
import sys
import tempfile
from concurrent.futures import ThreadPoolExecutor

ROOT = os.path.dirname(os.path.dirname(os.path.abspath(__file__)))
HARM = os.path.join(ROOT, 'harmless')


def sh(cmd, cwd=None, env=None, timeout=7200):
    p = subprocess.run(cmd, cwd=cwd, env=env, stdout=subprocess.PIPE, stderr=subprocess.STDOUT, text=True, timeout=timeout)
    return p.returncode, p.stdout


def claimed():
    with open(os.path.join(ROOT, 'MANIFEST.json')) as f:
        return [c['property_id'] for c in json.load(f)['checks']]


def main():
    args = [a for a in sys.argv[1:] if not a.startswith('--')]
    tier = 'quick'
    jobs = 4
    if '--tier' in sys.argv:
        tier = sys.argv[sys.argv.index('--tier') + 1]
        args.remove(tier)
    if '--jobs' in sys.argv:
        j = sys.argv[sys.argv.index('--jobs') + 1]
        jobs = int(j)
        args.remove(j)
    names = args or sorted(d for d in os.listdir(HARM) if os.path.isdir(os.path.join(HARM, d)))
    results = {}
    for name in names:
        d = os.path.join(HARM, name)
        wt = tempfile.mkdtemp(prefix='harm_', dir='/tmp')
        os.rmdir(wt)
        sh(['git', '-C', '/repo', 'worktree', 'add', '-q', '--detach', wt, 'HEAD'])
        try:
            rc, out = sh(['git', 'apply', os.path.join(d, 'patch.diff')], cwd=wt)
            if rc != 0:
                results[name] = {'error': 'patch does not apply: ' + out[-300:]}
                print(name, results[name])
                continue
            env = dict(os.environ, PYTHONPATH=wt, REPO=wt)
            rc, out = sh(['/venv/bin/python', '-m', 'pytest', '-q', '-p', 'no:cacheprovider', '-x'], cwd=wt, env=env)
            tests_ok = (rc == 0)
            # build once, then the checks of one patch may run side by side (same REPO, same generated files)
            sh(['/venv/bin/python', '-c', 'import sys; sys.path.insert(0, "harness"); import common; common.ensure_built()'],
               cwd=ROOT, env=dict(os.environ, REPO=wt))

            def one(pid):
                rc, out = sh([os.path.join(ROOT, 'check'), pid, '--tier', tier], cwd=ROOT, env=dict(os.environ, REPO=wt))
                lines = out.splitlines()
                viol = [l for l in lines if l.startswith('VIOLATION')]
                kind = 'ok' if rc == 0 else ('error' if rc != 1 else
                                             ('fidelity' if viol and all(l.rstrip().endswith('no-failing-input-found') for l in viol)
                                              else 'FALSE-ALARM'))
                first = ''
                if viol:
                    i = lines.index(viol[0])
                    first = (lines[i + 1].strip() if i + 1 < len(lines) else '')[:300]
                return pid, {'exit': rc, 'kind': kind, 'first': first, 'tail': '' if rc in (0, 1) else out[-400:]}

            with ThreadPoolExecutor(jobs) as ex:
                det = dict(ex.map(one, claimed()))
            results[name] = {'tests_pass': tests_ok,
                             'ok': sorted(p for p, r in det.items() if r['kind'] == 'ok'),
                             'fidelity': {p: r['first'] for p, r in det.items() if r['kind'] == 'fidelity'},
                             'false_alarm': {p: r['first'] for p, r in det.items() if r['kind'] == 'FALSE-ALARM'},
                             'error': {p: r['tail'] for p, r in det.items() if r['kind'] == 'error'}}
        finally:
            sh(['git', '-C', '/repo', 'worktree', 'remove', '--force', wt])
            shutil.rmtree(wt, ignore_errors=True)
        print(name, json.dumps(results[name], sort_keys=True))
        sys.stdout.flush()
    sh(['git', 'checkout', '--', 'evidence'], cwd=ROOT)
    sh(['/venv/bin/python', '-c', 'import sys; sys.path.insert(0, "harness"); import common; common.ensure_built()'], cwd=ROOT)
    path = os.path.join(HARM, 'results.json')
    allres = json.load(open(path)) if os.path.exists(path) else {}
    allres.update(results)
    with open(path, 'w') as f:
        json.dump(allres, f, indent=1, sort_keys=True)
    bad = [n for n, r in results.items() if r.get('false_alarm') or r.get('error')]
    print('harmless changes: %d; with a false alarm or error: %s' % (len(results), bad))


if __name__ == '__main__':
    main()
