"""Copy a seeded change produced by a sub-agent (patch.diff, demo.py, notes.md) into /verif/seeded/<name>/ with a
meta.json skeleton.  usage: import_seed.py <src-dir> <name> <property> [<needs>]"""
import json
import os
import shutil
import sys

src, name, prop = sys.argv[1:4]
needs = sys.argv[4] if len(sys.argv) > 4 else ''
dst = os.path.join(os.path.dirname(os.path.dirname(os.path.abspath(__file__))), 'seeded', name)
os.makedirs(dst, exist_ok=True)
for f in ('patch.diff', 'demo.py', 'notes.md'):
    shutil.copy(os.path.join(src, f), os.path.join(dst, f))
meta = {'property': prop, 'needs_to_manifest': needs, 'run_checks': [prop],
        'confirmed': 'harness/seedtest.py: scratch worktree of /repo, patch applied, pinned suite passes (65), demo.py '
                     'fails with the patch (and passes without), then the quick check(s) run with REPO=<worktree>'}
json.dump(meta, open(os.path.join(dst, 'meta.json'), 'w'), indent=1)
print(dst)
