"""Writes /verif/MANIFEST.json from the table below (run after changing what is claimed)."""
import json
import os

ROOT = os.path.dirname(os.path.dirname(os.path.abspath(__file__)))

TB = ("Trusted: Lean 4.33 kernel (+ leanchecker in the thorough tier); axioms propext, Classical.choice, Quot.sound only "
      "(audited per theorem on every run, no sorry/native_decide/own axioms); the spec files PMC/Spec/*; the Python "
      "correspondence harness; CPython/Lark run-time behaviour named in DESIGN.md section 3. ")

CHECKS = {
    'C01': dict(
        cat='proof', ref='5/C01',
        technique='Lean 4 theorem ctl_exact (induction over formulas; EX/EU/EG fixed-point cores, work-list and SCC '
                  'correctness) about a function-by-function model of _checkStateFormula + differential correspondence '
                  'model vs CTL.modelcheck',
        text='Theorems PMC.C01.ctl_exact (+ ctl_exact_memo for the memoised algorithm): for every Kripke.WF structure and every CTL state formula the model CTL.check '
             'returns exactly the satisfying states (all sizes, all depths). The model follows _checkStateFormula/'
             '_checkEU/_checkEG/_checkEX case by case; it is tied to the code on every run by running both on all '
             'structures with <=2 states x all depth<=1 formulas, sampled 3-state structures and random ones (<=6 '
             'states, depth<=4): any disagreement is a failing input because the model is proved exact.',
        note=TB + 'The memo table keyed by printed formula is modelled separately (CTL.checkM) and proved transparent for '
             'formulas over identifier atoms (ctl_exact_memo, via printCTL_injective); a kernel-checked example shows the '
             'stale-entry answer for an atom named "not p", reproduced on the real code = known finding KF-C01-names '
             '(atoms whose name reads like a formula; the adversarial stream checks that the code\'s wrong answers are '
             'exactly those the memo model predicts). A sample of every run is repeated under python -O.'),
    'C02': dict(
        cat='proof', ref='5/C02',
        technique='Lean 4 theorems ltl_exact and ltl_excluded_iff_lasso (tableau truth lemma, soundness with periodic '
                  'unrolling, completeness by infinite pigeonhole, verified SCC and reachability) + differential '
                  'correspondence model vs LTL.modelcheck',
        text='Theorems PMC.C02.ltl_exact / ltl_excluded_iff_lasso: the executable tableau model returns exactly the '
             'states all of whose paths satisfy g, and a state is excluded iff an ultimately periodic path from it '
             'satisfies not g — for every WF structure and every LTL formula. Correspondence: exhaustive small scope + '
             'random, model vs LTL.modelcheck.',
        note=TB + 'ltl_exact is proved for the declarative textbook atom set; C02Atoms.lean models _get_closure / '
             '_build_atoms / _Tableu statement by statement (modelcheckBuilt) and proves modelcheckBuilt = modelcheck '
             '(built_eq_declarative, ltl_exact_built) for formulas without double negations, which is all the entry '
             'points produce (restrict_noNN); the built atoms, closure and tableau of the model are compared with the '
             'implementation\'s internal objects on every run (validate_ltlatoms.py). A latent wrong answer of '
             '_checkE_path_formula on double negations, unreachable through modelcheck, is kernel-checked '
             '(double_negation_counterexample) and documented. Known finding KF-C02-names: ==/hash by printed text '
             'inside the closure make an atom named like a formula collide with it (adversarial stream).'),
    'C03': dict(
        cat='proof', ref='5/C03',
        technique='Lean 4 theorem ctls_exact (replacement of quantified subformulas by fresh atoms on top of the CTL and '
                  'LTL exactness theorems; the naming discipline is proved by an invariant along the run + print '
                  'injectivity over identifier and generated bracket names) + differential correspondence model vs '
                  'CTLS.modelcheck',
        text='Theorem PMC.C03.ctls_exact: the model of CTLS.modelcheck returns exactly the satisfying states for every '
             'WF structure and every CTL* state formula whose atoms and labels are identifier-style names and whose '
             'and/or have >=2 operands (what the parser builds) - all sizes, any quantifier nesting. '
             'ctls_exact_partial: the same for ANY names under the decidable hypothesis namesOK. Correspondence: '
             'corpus x all structures <=2 states, sampled 3-state, random nested CTL* formulas (every case is counted '
             'as inside the hypotheses of ctls_exact), plus a stream of operand-free/one-operand and/or where the '
             'model must still follow the code.',
        note=TB + 'The arity hypothesis is necessary: kernel-checked counterexample And(A X Or(), A X And()) '
             '(C03Full.lean), reproduced on the real code = known finding KF-C03-a. Names that are not identifier-style: '
             'ctls_exact_partial + C19\'s correspondence (namesOK evaluated per case); an atom spelled like a generated '
             'name or like a printed formula is answered wrongly = known finding KF-C03-names (adversarial stream).'),
    'C04': dict(
        cat='proof', ref='5/C04',
        technique='Lean 4 corollaries of the exactness theorems and of semantic laws (expansion laws, dualities, '
                  'CTL/LTL agreement) + metamorphic run of every law on the implementation\'s own answers',
        text='Theorems PMC.C04.*: not/and/or/imply as set operations, A g = not E not g, the fixed-point expansion laws '
             'and R/F/G dualities, CTL = LTL on the shared fragment — for the models, all structures and formulas. The '
             'same laws are evaluated on the implementation\'s answers (text and object entry, all three checkers).',
        note=TB + 'C04Ctls.lean: the same laws and the agreement of the three checkers (three_checkers_agree, ctls_eq_ctl, '
             'ctls_eq_ltl) at CTL*-checker level, under the hypotheses of ctls_exact (identifier names, arity >= 2).'),
    'C05': dict(
        cat='proof', ref='5/C05',
        technique='Lean 4 theorems restrict_equiv / restrictCTL_equiv / lnot_equiv (+ alphabet theorems) about a '
                  'clause-by-clause model of get_equivalent_restricted_formula and LNot + exact tree comparison with '
                  'the implementation',
        text='Theorems PMC.C05.*: the rewritings land in the documented restricted alphabets and preserve meaning on '
             'every structure, path and position (no finiteness or totality needed); LNot never yields a double '
             'negation. Tie: the implementation\'s output tree equals the model\'s output tree on every formula of '
             'depth<=1 per logic, sampled depth 2, random to depth 6; the alphabet predicate is also evaluated on the '
             'implementation\'s own output.',
        note=TB + 'Known finding KF-C05-a: LTL.A(g).get_equivalent_restricted_formula() raises AttributeError. C05Alphabet.lean: per-logic alphabets (restrict_alphabet_ltl: no quantifier for LTL path formulas; restrictCTL_alphabet_path).'),
    'C12': dict(
        cat='proof', ref='5/C12',
        technique='Lean 4 theorem sccs_correct (20-field invariant over the DFS of the Nuutila variant) + differential '
                  'correspondence, ordered output compared',
        text='Theorems PMC.C12.scc_partition / scc_nodes / scc_exact: the model of compute_SCCs outputs every node '
             'exactly once and components are exactly the mutual-reachability classes, for every digraph and every '
             'iteration order. Tie: compute_SCCs vs the model on all digraphs with <=3 nodes (all insertion orders), '
             'a slice of n=4 and random graphs to 12 nodes, successor lists sent in the implementation\'s own iteration '
             'order; the partition is also checked against independently computed mutual reachability.',
        note=TB + 'The model is the recursive form of the explicit-stack code; identical *ordered* output on every '
             'case is reported as the fidelity figure.'),
    'C13': dict(
        cat='proof', ref='5/C13',
        technique='Lean 4 theorems about the dict-level DiGraph model (constructor folds, subgraph, reversal, '
                  'work-list reachability invariant) + differential correspondence with before/after snapshots',
        text='Theorems PMC.C13.* (24): DiGraph(V,E) node/edge sets, get_subgraph, get_reversed_graph (incl. reversing '
             'twice), clone, add_node/add_edge error conditions, get_reachable_set_from exact with RuntimeError on a '
             'foreign start node — all graphs, all subsets. Tie: all digraphs <=3 nodes x all subsets (+ slice of n=4, '
             'random to 12), results compared, the graph snapshotted (content and identity of every successor set) '
             'around every call, returned containers checked fresh.',
        note=TB + 'Non-destructiveness is by construction in the (immutable) model and observed on the implementation.'),
    'C14': dict(
        cat='proof', ref='5/C14',
        technique='Lean 4 theorems about the Kripke constructor model (make_ok_iff, make_spec, clone_spec, '
                  'substructure_ok_iff/spec) + differential correspondence incl. id()-level aliasing checks',
        text='Theorems PMC.C14.*: the constructor succeeds iff every state has a successor, otherwise RuntimeError; '
             'labels total, S0 within states, labels/next of a non-state raise; clone and get_substructure return the '
             'same labels / induced transitions, get_substructure fails iff the induced relation is not total. Tie: '
             'all relations on <=2 states, sampled 3 states, with S0 outside S, labels of non-states, non-dict L, '
             'non-iterable label values, all subsets V; label-set identities compared.',
        note=TB + '"No label set shared" is observed through id() on the implementation (values are immutable in the model). C14Labels.lean: clone_shares_no_label_set / substructure_shares_no_label_set / construct_distinct at label-set granularity (heap model LabelStore.lean; a shallow clone has the same value but violates them). C14Api.lean: replace_labelling_function.'),
    'C16': dict(
        cat='proof', ref='5/C16',
        technique='Lean 4 theorems: ROBDD canonicity, unique-table invariant preserved by node creation (find_isomorph '
                  'through the smaller parent set) and by every admissible garbage collection, by induction over '
                  'operation histories + differential histories with gc.collect() and live-node scans',
        text='Theorems PMC.C16.* (C16.lean, C16Ops.lean): history_inv (every store reachable by any sequence of creations and collections '
             'satisfies the unique-table invariant), no_duplicate_triple, id_eq_iff_tree_eq, tree_eq_iff_same_function, '
             'obdd_eq_iff_same_function, gc_preserves. Tie: random build/combine/drop/gc histories over pools of OBDDs '
             '(<=4 variables, all orderings): trees, ==/is, truth tables, duplicate-triple scan of BDDNode.nodes() and '
             'live-node count after gc.collect() vs the model. C16Api.lean: descendents()/ancestors()/BDDNode.nodes() '
             'are exactly reachability in the unique table; tied by sessions of hand-built and library-built diagrams.',
        note=TB + 'CPython weak sets + reference counting are modelled as "a node disappears only when no live node or '
             'root points to it"; the store-level apply/restrict/invert with their per-call caches are modelled in '
             'BDDStoreOps.lean and proved to compute the tree-level results (applyS_spec, cache_transparent, '
             'session_canonical). C16History.lean: history_canonical composes the pieces for any interleaving of new/apply/restrict/invert/drop/gc.'),
    'C17': dict(
        cat='proof', ref='5/C17',
        technique='Lean 4 theorems and_spec/or_spec/xor_spec/invert_spec/restrict_spec/variables_eq_support on reduced '
                  'ordered trees + differential correspondence (trees, truth tables, error classes)',
        text='Theorems PMC.C17.*: &,|,^,~,restrict denote conjunction, disjunction, xor, negation, cofactor on every '
             'assignment; results ordered and reduced; variables() is exactly the set of variables the function depends '
             'on. C17Api.lean (model of the API around the operations: ListOrdering, respect_ordering, BDDNode/OBDD '
             'constructors, ==, restrict and apply guards): foreign_variable_error_classes, '
             'obdd_apply_different_orderings, obdd_apply_error (any error of &,|,^ is RuntimeError and has exactly the two '
             'stated causes), respect_ordering_*. Tie: expression pairs over <=4 variables, all orderings, all (v,b); API '
             'sessions (orderings, hand-built diagrams incl. ill-ordered and foreign-variable ones, fresh interpreters).',
        note=TB + 'API-model disagreements on details the property does not mention (error class of ill-typed calls, '
             'printed text) are reported as a broken correspondence (no-failing-input-found); a guard that the model '
             'proves to be RuntimeError and the library answers differently is a failing input.'),
    'C18': dict(
        cat='proof', ref='5/C18',
        technique='Lean 4 theorems build_spec, build_ok_iff, build_congr, printExp_denote, print_roundtrip + '
                  'differential correspondence on generated ASTs rendered to Python source',
        text='Theorems PMC.C18.*: a successful build denotes the expression and is reduced/ordered; it fails exactly '
             'on a missing variable (RuntimeError) or non-Boolean syntax (SyntaxError) in evaluation order; '
             'equivalent expressions build the identical diagram; printing then parsing gives back the diagram. Tie: '
             'expressions generated as ASTs, rendered to source, both notations, all argument orders; str(o.root) '
             're-parsed with ast and compared with the model\'s printExp.',
        note=TB + 'ast.parse is trusted to produce the tree the harness renders.'),
}

CHECKS.update({
    'C06': dict(
        cat='proof', ref='5/C06',
        technique='Lean 4 theorems: invariance of the semantics under presentation (SameK), state renaming (Iso), atom '
                  'renaming and generated substructures, transported to the CTL/LTL models through exactness + '
                  'differential runs over presentations x PYTHONHASHSEEDs in fresh interpreters',
        text='Theorems PMC.C06.*: the CTL and LTL models give the same answer for any two presentations of one '
             'structure (any order / repetition of states, successors, labels — i.e. any set/dict iteration order), '
             'commute with injective renaming of states and consistent renaming of atoms, and ignore states '
             'unreachable from the structure. Tie: 3 presentations per case (ints/strings/tuples/mixed state names, '
             'shuffled S/R/L, renamed atoms, added unreachable component) under 4 (quick) / 32 (thorough) hash seeds, '
             'each seed in a fresh interpreter; all answers must equal the model\'s canonical answer.',
        note=TB + 'That CPython\'s actual iteration orders are among the modelled ones (all of them) needs no assumption; '
             'the CTL* checker is covered by the correspondence only (its exactness theorem carries namesOK). C06Ctls.lean: the same invariances for the CTL* checker (corollaries of ctls_exact).'),
    'C11': dict(
        cat='proof', ref='5/C11',
        technique='Lean 4 theorems eq_iff_same_tree / eq_hash / hashKey_injective / eq_refl / eq_symm / eq_trans from '
                  'print injectivity (verified decoder of the printed language) + all-pairs differential run',
        text='Theorems PMC.C11.*: for identifier-style non-reserved atoms and arity>=2, the modelled == (equality of '
             'printed forms with the Bool special case) holds exactly for equal trees, equal formulas hash alike, hash '
             'keys are injective, == is an equivalence. Tie: all ordered pairs of a pool per logic: ==, hash, set/dict '
             'behaviour, Bool(b)==b both ways, clone() equal and node-disjoint.',
        note=TB + 'Python\'s reflected-operand dispatch and clone()\'s allocation are run-time facts observed by the harness.'),
})

CHECKS.update({
    'C07': dict(
        cat='proof', ref='5/C07',
        technique='Lean 4 theorems over an explicit object store (clone allocates, labelling mutates one object): frame, '
                  'result = pure function, history independence by induction over call sequences + differential '
                  'histories with deep snapshots',
        text='Theorems PMC.C07.*: in the store-passing model of the three entry points every pre-existing object (in '
             'particular the caller\'s structure) is unchanged after a call (all writes go to the identity allocated by '
             'clone), the answer equals the pure function of the argument\'s value, and for every finite call sequence '
             'the n-th answer is the pure answer on the ORIGINAL values (history). Tie: random interleavings of '
             'modelcheck calls (3 logics, text/object, with and without F) over pools of live structures and formula '
             'objects with a content snapshot around every call; the caller relabels / edits its objects between '
             'calls; every call re-evaluated on freshly built equal arguments; repeated calls must agree with the first '
             'answer and with the model. C07Fair.lean: the same frame/result theorems with F (store-level modelcheckFS '
             'allocate and label the clone). C07Labels.lean: label sets as heap objects - ctls_writes_only_fresh, '
             'ctls_frame_labels, ... hold for every DeepClone (clone_deep) and are refuted for a shallow clone '
             '(shallow_clone_breaks_frame).',
        note=TB + 'The store model represents the label-mutation discipline (clone-before-label) of CTLS.modelcheck; the '
             'fairness branches are covered by the snapshots only. Formula objects are immutable values in the model.'),
    'C09': dict(
        cat='proof', ref='5/C09',
        technique='Lean 4 theorems decode_print / print_injective / printCTL_injective (verified decoder of the printed '
                  'language) + differential: printer char-by-char, real parser round trip, table-driven Lean parser',
        text='Theorems PMC.C09.*: the printed text determines the tree (decoder round trip) and printing is injective in '
             'the CTL* notation and in CTL\'s own notation, over identifier non-reserved atoms and arity>=2. Tie: '
             'str(f) vs the model\'s printer exactly; Parser()(str(f)) has the tree of f and only nodes of that logic; '
             'the table-driven Lean parser (tables regenerated from the live Lark objects) on str(f) returns f — every '
             'formula of the small scope, random to depth 5 incl. atoms named AX, Xp, nota, EG.',
        note=TB + 'That Lark\'s LALR parser decodes printed text like the verified decoder is validated (exhaustive small '
             'scope), not proved.'),
    'C08': dict(
        cat='proof', ref='5/C08',
        technique='translator (live class lattice -> ClassTable.lean) + Lean 4 theorems construct_sound/complete/rejects, '
                  'castTo_*, guard*_eq for the reference lattice + generated obligation table_ok (decide) + exhaustive '
                  'differential run over operator trees',
        text='Theorems PMC.C08.*: over the reference lattice, construction and cast_to succeed exactly on the trees that '
             'are formulas of the target logic (same tree) and otherwise raise TypeError (AttributeError only for an '
             'operator the module lacks); the three modelcheck guards pass exactly on CTL state formulas / A over an LTL '
             'path formula / CTL* state formulas and reject a non-Kripke. table_ok : generatedTable = refTable is '
             're-checked whenever /repo changes the lattice. Tie: all ranked trees to depth 2 + sampled depth 3 x 4 '
             'modules x {construct, cast_to, mixed-module operands, 3 guards}; direct oracle: whatever is built in M is '
             'a formula of M by the documented syntax.',
        note=TB + '__mro__ is extracted, not re-derived; operand counts are not checked by the constructors (outside the '
             'ranked trees of the property); LTL.modelcheck rejects CTL-module objects and CTLS.modelcheck PL-module '
             'objects (rejections, recorded in the guard theorems).'),
    'C10': dict(
        cat='proof', ref='5/C10',
        technique='translator (live Lark tables -> Grammar.lean) + Lean 4 theorems about the table-driven parser model for '
                  'EVERY table (error positions within the input, only the two error kinds besides internal ones, '
                  'acceptance follows a derivation of the extracted rules) + generated obligations grammar_ok_* / '
                  'accept_ok_* (decide) => result is a formula of the logic + differential validation against the real '
                  'parsers + direct oracle',
        text='Theorems PMC.C10.*: unexpectedToken_pos / unexpectedCharacters_pos (p <= |s|, any table), error_kinds, '
             'accept_sound (parse T s = ok f => a derivation of f from the start symbol over tokens that lex s), '
             'typing_table_sound + grammar_ok_PL/CTL/LTL/CTLS (re-checked when the grammars change) => '
             'parse_in_logic_*; corollaries ctl_rejects_AFGq, ltl_never_E, ltl_rejects_E_p. The lexer/LR/callback model interprets the tables extracted from the live Lark objects and must agree '
             'with the real parsers in verdict, tree, exception class and position on: a hand-written corpus, every '
             'string over {",\\,a,newline} up to length 6, special characters in 8 contexts, printed formulas, random '
             'spellings, token and character mutations, random token sequences and noise, all fed to all four parsers. '
             'Independently the implementation\'s outcome is checked against the property itself (only the two '
             'ParserError classes, 0<=pos<=len, result in the logic and of the logic\'s module).',
        note=TB + 'Lark\'s table construction is in the trusted base (the tables are extracted, and the real driver is '
             'validated against the model); that the internal errors (inconsistent table, fuel) never occur is proved in '
             'C10Total.lean from the generated decidable obligations table_ok_* (re-checked on every run); the Lexes relation over-approximates the '
             'contextual lexer.'),
    'C19': dict(
        cat='proof', ref='5/C19',
        technique='Lean 4 theorems ctl_ok / ltl_ok / ctls_ok (always a set of K\'s states, no hypothesis on atoms or '
                  'labels, polymorphic in the state type) and verification conditions for every partial operation + '
                  'differential runs on heterogeneous states/labels with result mutation',
        text='Theorems PMC.C19.*: for every WF structure and formula of the logic each model returns .ok R with R within '
             'the states (CTL* without the naming hypothesis); get_reachable_set_from cannot raise in _checkEU/_checkEG, '
             'every SCC is non-empty, every state has a tableau atom. Tie: structures with string/tuple/float/frozenset/'
             'mixed states, labels with ints, tuples, None, operator-looking and bracketed names, atoms absent from K: '
             'result is a set of states equal to the model\'s, is mutated, and the call repeated.',
        note=TB + 'RecursionError on very deep formulas is a run-time resource bound outside the model; freshness of the '
             'returned set is observed, not modelled.'),
})

CHECKS.update({
    'C15': dict(
        cat='other', ref='5/C15',
        technique='Lean 4: specification of fair paths / CGP fair semantics, theorem fairStatesSpec_exact for the corrected '
                  'computation, machine-checked refutations of the property for the implemented behaviour (KF_a, KF_b by '
                  'decide on witnesses, KF_c, KF_d universally quantified) + differential run against an AS-IMPLEMENTED '
                  'Lean model + direct checks of the clauses that do hold; known findings KF-C15-a..d',
        text='The property does not hold on this tree (four recorded defects of the fairness pipeline; repairing them '
             'is incompatible with the pinned suite, DESIGN.md 1.1). Proved: the corrected fair-state computation is '
             'exact w.r.t. the fair-path specification; F=[] coincides with the unconstrained semantics in the spec; the '
             'implemented get_fair_states / fair EG / LTL+F / CTL E R+F deviate (witnesses, two of them for every input). '
             'The check requires the implementation to equal the as-implemented model (get_fair_states under every '
             'insertion order; three modelcheck entry points with F), reports any deviation that does not land on the '
             'specification as a new violation, checks directly that K is never modified, F=None equals no F and only '
             'TypeError is raised, and prints one KNOWN-FINDING line per finding whose witness still fails.',
        note=TB + 'Level other: refutation + behavioural pinning, not a proof that the property holds.'),
})

NOT_YET = {
    'C07': 'check under construction in this session',
    'C08': 'check under construction in this session (class-table translator)',
    'C09': 'check under construction in this session (print injectivity proved; parser tie pending)',
    'C10': 'check under construction in this session (table-driven LR model)',
    'C11': 'check under construction in this session',
    'C15': 'check under construction in this session (as-implemented fairness model, known findings)',
    'C19': 'check under construction in this session',
}


def main():
    built = sorted(f[:-3].upper() for f in os.listdir(os.path.join(ROOT, 'harness', 'checks'))
                   if f.startswith('c') and f.endswith('.py') and f[1:3].isdigit())
    checks = []
    for pid in sorted(CHECKS):
        if pid not in built:
            continue
        c = CHECKS[pid]
        checks.append({
            'property_id': pid,
            'quick_cmd': './check %s --tier quick' % pid,
            'thorough_cmd': './check %s --tier thorough' % pid,
            'evidence_file': 'evidence/%s.json' % pid,
            'replay_cmd_template': './check %s --replay {path}' % pid,
            'engine': 'pmc-lean',
            'level_claimed': {'category': c['cat'], 'text': c['text'], 'design_ref': 'DESIGN.md section ' + c['ref']},
            'level_note': c['note'],
            'technique': c['technique'],
        })
    claimed = set(c['property_id'] for c in checks)
    na = [{'property_id': p, 'reason': r} for p, r in sorted(NOT_YET.items()) if p not in claimed]
    for pid in sorted(CHECKS):
        if pid not in claimed:
            na.append({'property_id': pid, 'reason': 'check under construction in this session'})
    m = {
        'version': 1,
        'setup_cmd': '/venv/bin/python harness/setup.py',
        'hooks': {
            'guard': 'PYMODELCHECKING_VERIF',
            'enable': 'no source hooks: everything is observed from outside (return values, exceptions, snapshots, id(), '
                      '__mro__, Lark public attributes)',
            'baseline_off_cmd': 'cd /repo && /venv/bin/python -m pytest -ra -q -p no:cacheprovider --timeout=900 '
                                '--continue-on-collection-errors',
            'source_commits': [],
            'add_only': True,
        },
        'engines': [{
            'name': 'pmc-lean', 'path': 'lean/',
            'serves_properties': sorted(claimed),
            'kind_free_text': 'Lean 4 library PMC (spec, executable model, proofs, property theorems) + compiled '
                              'line-protocol driver pmcdrv + Python correspondence harness (harness/)',
        }],
        'checks': checks,
        'not_applicable': sorted(na, key=lambda x: x['property_id']),
        'notes': 'Every check: regenerate PMC/Generated from /repo, lake build, audit (#print axioms of the property '
                 'theorems + source scan), then the correspondence (corpus, exhaustive small scope, seeded random). '
                 'The cheap checks are then repeated in full under python -O and with warnings as errors; model-checking '
                 'calls have a per-call timeout and every check a watchdog (VERIF_BUDGET); every named stream must be '
                 'non-empty. Exit 0 / 1 (VIOLATION line) / 2 (harness error). Known findings: known_findings.json. '
                 'Companion documents: DESIGN.md, COVERAGE.md, SPEC_REVIEW.md, HARNESS_REVIEW.md; seeded/ (86 breaking '
                 'changes, all caught), harmless/ (15 rewrites, no alarm), mutants/results.json (mutation sweep).',
    }
    with open(os.path.join(ROOT, 'MANIFEST.json'), 'w') as f:
        json.dump(m, f, indent=1)
    print('MANIFEST.json: %d checks, %d not_applicable' % (len(checks), len(na)))


if __name__ == '__main__':
    main()
