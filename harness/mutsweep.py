"""Systematic mutation sweep: small syntactic mutants of the package, kept only when the 65 pinned tests still pass,
each run against the quick checks of the properties anchored in the mutated file.

usage: /venv/bin/python harness/mutsweep.py [--max N] [--seed S] [--files a.py,b.py]
Results: mutants/results.json (one record per surviving mutant: file, line, operator, before -> after, checks run,
caught_by) and a summary line.  Survivors that no check catches must be triaged by hand (equivalent mutant, dead code,
error-message text, or a real blind spot); the triage is recorded in DESIGN.md.
Nothing is ever applied to /repo: one scratch worktree under /tmp is reused and restored with `git -C <wt> checkout`.
"""
import ast
import copy
import json
import os
import random
import subprocess
import sys

ROOT = os.path.dirname(os.path.dirname(os.path.abspath(__file__)))
WT = '/tmp/mutsweep_wt'

CHECKS_FOR = {
    'pyModelChecking/graph.py': ['C12', 'C13', 'C01'],
    'pyModelChecking/kripke.py': ['C14', 'C15', 'C07'],
    'pyModelChecking/CTL/model_checking.py': ['C01', 'C04', 'C08'],
    'pyModelChecking/LTL/model_checking.py': ['C02', 'C08', 'C04'],
    'pyModelChecking/CTLS/model_checking.py': ['C03', 'C08', 'C04', 'C19'],
    'pyModelChecking/language.py': ['C11', 'C08', 'C05'],
    'pyModelChecking/PL/language.py': ['C08', 'C11'],
    'pyModelChecking/CTLS/language.py': ['C05', 'C08', 'C15'],
    'pyModelChecking/CTL/language.py': ['C05', 'C08', 'C15'],
    'pyModelChecking/LTL/language.py': ['C08', 'C05'],
    'pyModelChecking/parser.py': ['C10', 'C09'],
    'pyModelChecking/PL/parser.py': ['C10', 'C09'],
    'pyModelChecking/CTL/parser.py': ['C10', 'C09'],
    'pyModelChecking/LTL/parser.py': ['C10', 'C09'],
    'pyModelChecking/CTLS/parser.py': ['C10', 'C09'],
    'pyModelChecking/BDD/BDD.py': ['C17', 'C16', 'C18'],
    'pyModelChecking/BDD/OBDD.py': ['C18', 'C17'],
    'pyModelChecking/BDD/ordering.py': ['C17', 'C18'],
}


def sh(cmd, cwd=None, env=None, timeout=1800):
    try:
        p = subprocess.run(cmd, cwd=cwd, env=env, stdout=subprocess.PIPE, stderr=subprocess.STDOUT, text=True, timeout=timeout)
        return p.returncode, p.stdout
    except subprocess.TimeoutExpired:
        return 124, 'timeout'


class Sites(ast.NodeVisitor):
    """enumerate mutation sites: (kind, node id path) -> a function producing the mutated tree"""

    def __init__(self):
        self.sites = []

    def generic_visit(self, node):
        if isinstance(node, ast.Raise):
            return                       # the text of error messages is not behaviour any property speaks about
        if isinstance(node, ast.FunctionDef) and node.name in ('__str__', '__repr__', 'err_msg') and False:
            return
        if isinstance(node, ast.Compare) and len(node.ops) == 1:
            swaps = {ast.Eq: ast.NotEq, ast.NotEq: ast.Eq, ast.Lt: ast.LtE, ast.LtE: ast.Lt, ast.Gt: ast.GtE, ast.GtE: ast.Gt,
                     ast.In: ast.NotIn, ast.NotIn: ast.In, ast.Is: ast.IsNot, ast.IsNot: ast.Is}
            t = type(node.ops[0])
            if t in swaps:
                self.sites.append(('cmp %s->%s' % (t.__name__, swaps[t].__name__), node, lambda n, c=swaps[t]: setattr(n, 'ops', [c()])))
        if isinstance(node, ast.BoolOp):
            new = ast.Or if isinstance(node.op, ast.And) else ast.And
            self.sites.append(('bool %s->%s' % (type(node.op).__name__, new.__name__), node, lambda n, c=new: setattr(n, 'op', c())))
        if isinstance(node, ast.UnaryOp) and isinstance(node.op, ast.Not):
            self.sites.append(('drop not', node, 'replace_with_operand'))
        if isinstance(node, ast.If):
            self.sites.append(('negate if', node, lambda n: setattr(n, 'test', ast.UnaryOp(op=ast.Not(), operand=n.test))))
        if isinstance(node, ast.Constant) and isinstance(node.value, bool):
            self.sites.append(('const %s->%s' % (node.value, not node.value), node, lambda n: setattr(n, 'value', not n.value)))
        if isinstance(node, ast.Constant) and type(node.value) is int and node.value in (0, 1, 2):
            self.sites.append(('const %d->%d' % (node.value, node.value + 1), node, lambda n: setattr(n, 'value', n.value + 1)))
        if isinstance(node, ast.BinOp) and isinstance(node.op, (ast.Add, ast.Sub)):
            new = ast.Sub if isinstance(node.op, ast.Add) else ast.Add
            self.sites.append(('arith %s->%s' % (type(node.op).__name__, new.__name__), node, lambda n, c=new: setattr(n, 'op', c())))
        if isinstance(node, ast.BinOp) and isinstance(node.op, (ast.BitAnd, ast.BitOr)):
            new = ast.BitOr if isinstance(node.op, ast.BitAnd) else ast.BitAnd
            self.sites.append(('set %s->%s' % (type(node.op).__name__, new.__name__), node, lambda n, c=new: setattr(n, 'op', c())))
        if isinstance(node, (ast.Continue, ast.Break)):
            self.sites.append(('%s->pass' % type(node).__name__.lower(), node, 'replace_with_pass'))
        if isinstance(node, ast.Expr) and isinstance(node.value, ast.Call) and isinstance(node.value.func, ast.Attribute) and \
                node.value.func.attr in ('add', 'append', 'update', 'extend', 'discard', 'remove', 'pop'):
            self.sites.append(('drop call .%s()' % node.value.func.attr, node, 'replace_with_pass'))
        super().generic_visit(node)


def mutants_of(path, src):
    tree = ast.parse(src)
    v = Sites()
    v.visit(tree)
    out = []
    for idx, (kind, node, how) in enumerate(v.sites):
        # skip docstrings / error-message-only constructs cheaply: mutations inside `raise` statements
        t2 = copy.deepcopy(tree)
        v2 = Sites()
        v2.visit(t2)
        kind2, node2, how2 = v2.sites[idx]
        if how2 == 'replace_with_pass':
            class R(ast.NodeTransformer):
                def visit(self_, n):
                    if n is node2:
                        return ast.copy_location(ast.Pass(), n)
                    return self_.generic_visit(n)
            t2 = R().visit(t2)
        elif how2 == 'replace_with_operand':
            class R(ast.NodeTransformer):
                def visit(self_, n):
                    if n is node2:
                        return n.operand
                    return self_.generic_visit(n)
            t2 = R().visit(t2)
        else:
            how2(node2)
        ast.fix_missing_locations(t2)
        try:
            new_src = ast.unparse(t2)
        except Exception:
            continue
        out.append({'file': path, 'line': getattr(node, 'lineno', 0), 'operator': kind, 'source': new_src,
                    'before': ast.unparse(node)[:120]})
    return out


def main():
    args = sys.argv[1:]
    mx = int(args[args.index('--max') + 1]) if '--max' in args else 150
    seed = int(args[args.index('--seed') + 1]) if '--seed' in args else 1
    files = args[args.index('--files') + 1].split(',') if '--files' in args else sorted(CHECKS_FOR)
    rng = random.Random(seed)
    sh(['git', '-C', '/repo', 'worktree', 'remove', '--force', WT])
    sh(['git', '-C', '/repo', 'worktree', 'add', '-q', '--detach', WT, 'HEAD'])
    allm = []
    for f in files:
        src = open(os.path.join(WT, f)).read()
        # the unparsed original must itself pass (ast.unparse drops comments/formatting only)
        allm += mutants_of(f, src)
    rng.shuffle(allm)
    os.makedirs(os.path.join(ROOT, 'mutants'), exist_ok=True)
    respath = os.path.join(ROOT, 'mutants', 'results.json')
    results = json.load(open(respath)) if os.path.exists(respath) else {'generated': 0, 'killed_by_tests': 0, 'survivors': []}
    done = set((r['file'], r['line'], r['operator'], r['before']) for r in results['survivors'])
    nsurv = 0
    try:
        for m in allm:
            if nsurv >= mx:
                break
            key = (m['file'], m['line'], m['operator'], m['before'])
            if key in done:
                continue
            sh(['git', '-C', WT, 'checkout', '-q', '--', '.'])
            with open(os.path.join(WT, m['file']), 'w') as fh:
                fh.write(m['source'] + '\n')
            env = dict(os.environ, PYTHONPATH=WT, REPO=WT)
            rc, out = sh(['/venv/bin/python', '-m', 'pytest', '-q', '-x', '-p', 'no:cacheprovider'], cwd=WT, env=env, timeout=120)
            results['generated'] += 1
            if rc != 0:
                results['killed_by_tests'] += 1
                continue
            nsurv += 1
            det = {}
            for pid in CHECKS_FOR[m['file']]:
                rc, out = sh([os.path.join(ROOT, 'check'), pid, '--tier', 'quick'], cwd=ROOT, env=dict(os.environ, REPO=WT), timeout=1500)
                lines = out.splitlines()
                first = ''
                for i, l in enumerate(lines):
                    if l.startswith('VIOLATION'):
                        first = (lines[i + 1].strip() if i + 1 < len(lines) else '')[:200]
                        break
                det[pid] = {'exit': rc, 'first': first}
                if rc == 1:
                    break                      # caught: no need to run the other checks
            rec = {k: m[k] for k in ('file', 'line', 'operator', 'before')}
            rec['checks'] = det
            rec['caught_by'] = sorted(p for p, r in det.items() if r['exit'] == 1)
            rec['harness_error'] = sorted(p for p, r in det.items() if r['exit'] not in (0, 1))
            results['survivors'].append(rec)
            print(json.dumps(rec)[:400])
            sys.stdout.flush()
            with open(respath, 'w') as fh:
                json.dump(results, fh, indent=1)
    finally:
        sh(['git', '-C', '/repo', 'worktree', 'remove', '--force', WT])
        sh(['git', 'checkout', '--', 'evidence'], cwd=ROOT)
        sh(['/venv/bin/python', '-c', 'import sys; sys.path.insert(0, "harness"); import common; common.ensure_built()'], cwd=ROOT)
    s = results['survivors']
    print('mutants tried %d, killed by the pinned tests %d, survivors %d, caught by the checks %d, not caught %d, harness errors %d'
          % (results['generated'], results['killed_by_tests'], len(s), sum(1 for r in s if r['caught_by']),
             sum(1 for r in s if not r['caught_by'] and not r['harness_error']), sum(1 for r in s if r['harness_error'])))


if __name__ == '__main__':
    main()
