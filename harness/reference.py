"""Independent reference semantics (declarative-atom tableau + lasso evaluator).

Used ONLY to classify a disagreement between implementation and Lean model (third opinion), to drive the
failing-input search when a proof obligation or the correspondence no longer checks, and to shrink; it never
stands in for a theorem.
Formulas are tuples: ('tt',) ('ff',) ('ap',n) ('not',f) ('or',f,g..) ('and',..) ('imp',f,g)
('X',f) ('F',f) ('G',f) ('U',f,g) ('R',f,g) ('A',f) ('E',f)
Kripke: (states list, succ dict s->set, labels dict s->set)
"""
import itertools

def sccs(nodes, succ):
    # simple: mutual reachability
    reach = {v: reachset(v, succ) for v in nodes}
    seen=set(); out=[]
    for v in nodes:
        if v in seen: continue
        c = {w for w in nodes if w in reach[v] and v in reach[w]}
        seen |= c; out.append(c)
    return out

def reachset(v, succ):
    R={v}; st=[v]
    while st:
        x=st.pop()
        for y in succ.get(x,()):
            if y not in R: R.add(y); st.append(y)
    return R

def core(f):
    """rewrite path formula (no quantifiers) into not/or/X/U/tt/ap"""
    t=f[0]
    if t=='tt': return f
    if t=='ff': return ('not',('tt',))
    if t=='ap': return f
    if t=='not': return ('not',core(f[1]))
    if t=='or': return ('or',)+tuple(core(x) for x in f[1:])
    if t=='and': return ('not',('or',)+tuple(('not',core(x)) for x in f[1:]))
    if t=='imp': return ('or',('not',core(f[1])),core(f[2]))
    if t=='X': return ('X',core(f[1]))
    if t=='F': return ('U',('tt',),core(f[1]))
    if t=='G': return ('not',('U',('tt',),('not',core(f[1]))))
    if t=='U': return ('U',core(f[1]),core(f[2]))
    if t=='R': return ('not',('U',('not',core(f[1])),('not',core(f[2]))))
    raise ValueError(f)

def subs(f, acc):
    if f in acc: return
    for x in f[1:]:
        if isinstance(x, tuple): subs(x, acc)
    acc.append(f)

def E_path(K, g, fair=None):
    """states s such that some (fair) path from s satisfies path formula g (no quantifiers).
    fair: list of sets of states or None"""
    S, succ, lab = K
    g = core(g)
    sf=[]; subs(g, sf)
    # elementary: X-formulas in sf, plus X(U) for each U
    elem=[]
    for h in sf:
        if h[0]=='X' and h not in elem: elem.append(h)
        if h[0]=='U':
            xh=('X',h)
            if xh not in elem: elem.append(xh)
    def val(s, xs):
        v={}
        for h in sf:
            t=h[0]
            if t=='tt': v[h]=True
            elif t=='ap': v[h]= h[1] in lab[s]
            elif t=='not': v[h]= not v[h[1]]
            elif t=='or': v[h]= any(v[x] for x in h[1:])
            elif t=='X': v[h]= h in xs
            elif t=='U': v[h]= v[h[2]] or (v[h[1]] and (('X',h) in xs))
        return v
    atoms=[]
    for s in S:
        for k in range(len(elem)+1):
            for xs in itertools.combinations(elem,k):
                xs=frozenset(xs)
                atoms.append((s,xs,val(s,xs)))
    n=len(atoms)
    asucc={i:set() for i in range(n)}
    for i,(s,xs,v) in enumerate(atoms):
        for j,(d,ys,w) in enumerate(atoms):
            if d in succ[s]:
                if all((x in xs)==w[x[1]] if x[1] in w else True for x in elem):
                    # x[1] always in w since subformula (X h: h in sf; X(U): U in sf)
                    asucc[i].add(j)
    good=set()
    us=[h for h in sf if h[0]=='U']
    for C in sccs(list(range(n)), asucc):
        i=next(iter(C))
        if len(C)>1 or i in asucc[i]:
            ok=True
            for u in us:
                if any(atoms[j][2][u] for j in C) and not any(atoms[j][2][u[2]] for j in C):
                    ok=False
            if fair is not None:
                for P in fair:
                    if not any(atoms[j][0] in P for j in C): ok=False
            if ok: good|=C
    # backward reach
    pred={i:set() for i in range(n)}
    for i in asucc:
        for j in asucc[i]: pred[j].add(i)
    R=set(good); st=list(good)
    while st:
        x=st.pop()
        for y in pred[x]:
            if y not in R: R.add(y); st.append(y)
    return {atoms[i][0] for i in R if atoms[i][2][g]}

_fresh=[0]
def sat(K, f, fair=None):
    """set of states satisfying CTL* state formula f (fair semantics if fair given, CGP)"""
    S, succ, lab = K
    lab={s:set(l) for s,l in lab.items()}
    K2=(S,succ,lab)
    def elim(h):
        # replace maximal quantified subformulas in path formula h by fresh atoms
        t=h[0]
        if t in('tt','ff'): return h
        if t=='ap':
            return h
        if t in('A','E'):
            sset=state(h)
            _fresh[0]+=1
            nm='#%d'%_fresh[0]
            for s in sset: lab[s].add(nm)
            return ('ap',nm)
        return (t,)+tuple(elim(x) for x in h[1:])
    fairstates = E_path(K2, ('tt',), fair) if fair is not None else None
    def state(h):
        t=h[0]
        if t=='tt': return set(S)
        if t=='ff': return set()
        if t=='ap':
            r={s for s in S if h[1] in lab[s]}
            if fair is not None and not h[1].startswith('#'): r&=fairstates
            return r
        if t=='not': return set(S)-state(h[1])
        if t=='or': return set().union(*[state(x) for x in h[1:]])
        if t=='and':
            r=set(S)
            for x in h[1:]: r&=state(x)
            return r
        if t=='imp': return (set(S)-state(h[1]))|state(h[2])
        if t=='E':
            g=elim(h[1]); return E_path(K2,g,fair)
        if t=='A':
            g=elim(h[1]); return set(S)-E_path(K2,('not',g),fair)
        raise ValueError('not a state formula: %r'%(h,))
    return state(f)

# lasso evaluator for certification
def eval_lasso(lab, pre, loop, f):
    """truth of path formula f (no quantifiers) at position 0 of pre.loop^omega"""
    seq=list(pre)+list(loop); n=len(seq); p=len(pre)
    nxt=lambda i: i+1 if i+1<n else p
    memo={}
    def ev(h):
        if h in memo: return memo[h]
        t=h[0]
        if t=='tt': r=[True]*n
        elif t=='ff': r=[False]*n
        elif t=='ap': r=[h[1] in lab[s] for s in seq]
        elif t=='not': r=[not x for x in ev(h[1])]
        elif t=='or': 
            rs=[ev(x) for x in h[1:]]; r=[any(c[i] for c in rs) for i in range(n)]
        elif t=='and':
            rs=[ev(x) for x in h[1:]]; r=[all(c[i] for c in rs) for i in range(n)]
        elif t=='imp':
            a=ev(h[1]); b=ev(h[2]); r=[(not a[i]) or b[i] for i in range(n)]
        elif t=='X':
            a=ev(h[1]); r=[a[nxt(i)] for i in range(n)]
        elif t=='F': return ev(('U',('tt',),h[1]))
        elif t=='G': return ev(('not',('U',('tt',),('not',h[1]))))
        elif t=='R': return ev(('not',('U',('not',h[1]),('not',h[2]))))
        elif t=='U':
            a=ev(h[1]); b=ev(h[2]); r=[False]*n
            # least fixpoint
            ch=True
            while ch:
                ch=False
                for i in range(n-1,-1,-1):
                    v=b[i] or (a[i] and r[nxt(i)])
                    if v and not r[i]: r[i]=True; ch=True
        memo[h]=r; return r
    return ev(f)[0]
