"""./check <property> [--tier quick|thorough] [--replay file]"""
import importlib
import json
import os
import sys
import traceback

sys.path.insert(0, os.path.dirname(os.path.abspath(__file__)))
import common  # noqa: E402
import faulthandler
import signal
faulthandler.register(signal.SIGUSR1, all_threads=True)


def generic_replay(pid, mod, res, data):
    """Re-execute a recorded failing input.  Model-checking replays (logic / structure / formula / entry) are re-run
    on implementation and model directly; any other replay re-runs the whole check with the recorded seed (the
    recorded input is part of what the check enumerates or draws from that seed)."""
    rp = data.get('replay', {})
    print('replaying %s: %s' % (data.get('property'), data.get('what', '')[:300]))
    # the shortcut applies to plain "implementation vs exact model" records only; records of the special streams (truth on
    # an isomorphic / normalised instance, answers under -O, memo model, histories) re-run the whole check with its seed
    if isinstance(rp, dict) and {'logic', 'structure', 'formula_sexpr', 'impl', 'model'} <= set(rp) and \
            not ({'truth', 'impl_under_O', 'memo_model', 'history', 'F', 'step'} & set(rp)):
        from checks import mc_common
        K = common.KS(rp['structure']['succ'], rp['structure']['labels'])
        t = common.parse_sexpr(rp['formula_sexpr'])
        a = mc_common.norm(mc_common.impl_one((rp['logic'], K.succ, K.labs, t, rp.get('entry', 'obj'))))
        m = mc_common.norm(common.lean_batch(['%s|%s|%s' % (rp['logic'], K.enc(), common.sexpr(t))])[0])
        print('implementation: %s\nmodel:          %s' % (a, m))
        if a != m:
            print('VIOLATION property=%s replay=%s' % (pid, sys.argv[sys.argv.index('--replay') + 1]))
            return 1
        print('OK the recorded input no longer fails')
        return 0
    os.environ['VERIF_SEED'] = str(data.get('seed', 0))
    common.SEED = int(data.get('seed', 0))
    mod.run(res)
    return res.finish()


# checks cheap enough to be repeated in full in an interpreter started with -O (assert statements and `if __debug__`
# blocks stripped): a side effect hidden in an assert changes behaviour only there.  The model checkers (C01-C04)
# repeat a sample of their calls under -O themselves (mc_common.run_cases).
OPT_PASS = {'C05', 'C08', 'C09', 'C10', 'C11', 'C12', 'C13', 'C14', 'C16', 'C17', 'C18'}


# ... and with warnings turned into errors once the library and its dependencies are imported
# (`warnings.simplefilter('error')`, pytest's `filterwarnings = error`): a warning issued inside a try/except of the
# library, or by a deprecated spelling, then becomes an exception of another class.
WARN_PASS = {'C05', 'C08', 'C09', 'C10', 'C11', 'C12', 'C13', 'C14', 'C16', 'C17', 'C18'}


def child_pass(pid, tier, res, key, what, argv_extra, env_extra):
    import subprocess
    import time
    t0 = time.time()
    p = subprocess.run([sys.executable] + argv_extra + [os.path.abspath(__file__), pid, '--tier', tier],
                       env=dict(os.environ, VERIF_CHILD='1', **env_extra), stdout=subprocess.PIPE, stderr=subprocess.STDOUT, text=True)
    lines = p.stdout.splitlines()
    n = 0
    for i, l in enumerate(lines):
        if l.startswith('KNOWN-FINDING: property=%s ' % pid):
            res.known.append(l.split(' ', 2)[2])
        if l.startswith('VIOLATION'):
            n += 1
            w = lines[i + 1].strip() if i + 1 < len(lines) else ''
            path = l.split('replay=')[1].split()[0]
            res.violation('%s: %s' % (what, w), {'replay_of_that_run': path, 'history': what},
                          no_input=l.rstrip().endswith('no-failing-input-found'))
    if p.returncode not in (0, 1) or (p.returncode == 1 and n == 0) or \
            (p.returncode == 0 and not any(l.startswith('OK property=') for l in lines)):
        raise common.HarnessError('the repetition (%s) ended with exit %d and no verdict line: %s' % (what, p.returncode, p.stdout[-600:]))
    res.coverage['repeated_in_full_' + key] = True
    res.coverage['violations_only_' + key] = n
    res.coverage['wall_s_' + key] = round(time.time() - t0, 1)


def optimized_pass(pid, tier, res):
    child_pass(pid, tier, res, 'under_python_O', 'when the interpreter runs with -O (python -O / PYTHONOPTIMIZE=1)', ['-O'], {})


def warnings_pass(pid, tier, res):
    child_pass(pid, tier, res, 'with_warnings_as_errors',
               "when warnings are errors (warnings.simplefilter('error') after importing the package)", [], {'VERIF_WARN_ERROR': '1'})


def main():
    args = sys.argv[1:]
    if not args:
        print('usage: check <property-id> [--tier quick|thorough] [--replay file]')
        sys.exit(2)
    pid = args[0].upper()
    tier = os.environ.get('VERIF_TIER') or 'quick'
    replay = None
    i = 1
    while i < len(args):
        if args[i] == '--tier':
            tier = args[i + 1]
            i += 2
        elif args[i] == '--replay':
            replay = args[i + 1]
            i += 2
        else:
            i += 1
    if tier not in ('quick', 'thorough'):
        print('HARNESS-ERROR property=%s unknown tier %r (quick | thorough)' % (pid, tier))
        sys.exit(2)
    os.environ['VERIF_TIER_RUNNING'] = tier
    res = common.Result(pid, tier)
    # watchdog: a library call that never returns (a loop that no longer terminates) must not hang the check for ever.
    # When the budget is spent the main thread is interrupted; if it is then executing code of the package under test the
    # interruption is reported like any exception raised there (a violation with the call site and the harness locals).
    import _thread
    import threading
    budget = float(os.environ.get('VERIF_BUDGET', '2400' if tier == 'quick' else '28800'))
    fired = []

    def fire():
        fired.append(True)
        _thread.interrupt_main()
    dog = threading.Timer(budget, fire)
    dog.daemon = True
    if not os.environ.get('VERIF_CHILD'):
        dog.start()
    try:
        mod = importlib.import_module('checks.' + pid.lower())
        if os.environ.get('VERIF_WARN_ERROR'):
            # build and extraction first (they may warn), import the library and what it depends on, then: errors
            import warnings
            common.ensure_built()
            import lark  # noqa: F401
            import ast  # noqa: F401
            for m in ('', '.PL', '.CTL', '.LTL', '.CTLS', '.BDD', '.kripke', '.graph', '.parser'):
                importlib.import_module('pyModelChecking' + m)
            warnings.simplefilter('error')
        if replay:
            with open(replay) as f:
                data = json.load(f)
            rc = generic_replay(pid, mod, res, data)
            sys.exit(rc)
        mod.run(res)
        if pid in OPT_PASS and sys.flags.optimize == 0 and not os.environ.get('VERIF_CHILD'):
            optimized_pass(pid, tier, res)
        if pid in WARN_PASS and not os.environ.get('VERIF_CHILD'):
            warnings_pass(pid, tier, res)
        rc = res.finish()
    except common.HarnessError as e:
        print('HARNESS-ERROR property=%s %s' % (pid, e))
        rc = 2
    except Exception as e:
        traceback.print_exc()
        rc = escaped_exception(pid, res, e)
    except KeyboardInterrupt as e:
        if not fired:
            raise
        traceback.print_exc()
        print('the check did not finish within its budget of %d s' % budget)
        rc = escaped_exception(pid, res, e)
    finally:
        dog.cancel()
    sys.exit(rc)


def escaped_exception(pid, res, e):
    """An exception escaped the check.  If it was raised INSIDE the package under test (innermost frame under $REPO) by a
    call the check makes unguarded, that is the library failing on an input of the run: a violation whose replay is the
    call site, its local variables and the seed.  Violations recorded before the crash are never lost.  Anything else is
    a harness error."""
    tb = traceback.extract_tb(e.__traceback__)
    repo = os.path.realpath(common.REPO)
    inner_in_repo = bool(tb) and os.path.realpath(tb[-1].filename).startswith(repo + os.sep)
    if inner_in_repo:
        caller, t = None, e.__traceback__
        while t is not None:
            fn = os.path.realpath(t.tb_frame.f_code.co_filename)
            if not fn.startswith(repo + os.sep):
                caller = t
            t = t.tb_next
        loc = {}
        if caller is not None:
            for k, v in list(caller.tb_frame.f_locals.items())[:40]:
                try:
                    loc[k] = repr(v)[:300]
                except Exception:
                    loc[k] = '<unrepresentable>'
        res.violation(('the library did not return within the budget of the check; interrupted at %s:%d in %s'
                       % (os.path.basename(tb[-1].filename), tb[-1].lineno, tb[-1].name)) if isinstance(e, KeyboardInterrupt) else
                      'the library raised %s: %s in a call the check makes on its generated inputs (%s:%d in %s)'
                      % (type(e).__name__, str(e)[:200], os.path.basename(tb[-1].filename), tb[-1].lineno, tb[-1].name),
                      {'exception': type(e).__name__, 'message': str(e)[:500],
                       'traceback': [(os.path.relpath(f.filename, repo) if os.path.realpath(f.filename).startswith(repo) else f.filename,
                                      f.lineno, f.name) for f in tb[-8:]],
                       'locals_at_the_calling_harness_frame': loc})
    if res.violations:
        try:
            return res.finish()
        except Exception:
            traceback.print_exc()
    print('HARNESS-ERROR property=%s (exception above)' % pid)
    return 2


if __name__ == '__main__':
    main()
