"""./check <property> [--tier quick|thorough] [--replay file]"""
import importlib
import json
import os
import sys
import traceback

sys.path.insert(0, os.path.dirname(os.path.abspath(__file__)))
import common  # noqa: E402
import faulthandler
import signal
faulthandler.register(signal.SIGUSR1, all_threads=True)


def generic_replay(pid, mod, res, data):
    """Re-execute a recorded failing input.  Model-checking replays (logic / structure / formula / entry) are re-run
    on implementation and model directly; any other replay re-runs the whole check with the recorded seed (the
    recorded input is part of what the check enumerates or draws from that seed)."""
    rp = data.get('replay', {})
    print('replaying %s: %s' % (data.get('property'), data.get('what', '')[:300]))
    if isinstance(rp, dict) and {'logic', 'structure', 'formula_sexpr'} <= set(rp):
        from checks import mc_common
        K = common.KS(rp['structure']['succ'], rp['structure']['labels'])
        t = common.parse_sexpr(rp['formula_sexpr'])
        a = mc_common.norm(mc_common.impl_one((rp['logic'], K.succ, K.labs, t, rp.get('entry', 'obj'))))
        m = mc_common.norm(common.lean_batch(['%s|%s|%s' % (rp['logic'], K.enc(), common.sexpr(t))])[0])
        print('implementation: %s\nmodel:          %s' % (a, m))
        if a != m:
            print('VIOLATION property=%s replay=%s' % (pid, sys.argv[sys.argv.index('--replay') + 1]))
            return 1
        print('OK the recorded input no longer fails')
        return 0
    os.environ['VERIF_SEED'] = str(data.get('seed', 0))
    common.SEED = int(data.get('seed', 0))
    mod.run(res)
    return res.finish()


def main():
    args = sys.argv[1:]
    if not args:
        print('usage: check <property-id> [--tier quick|thorough] [--replay file]')
        sys.exit(2)
    pid = args[0].upper()
    tier = os.environ.get('VERIF_TIER') or 'quick'
    replay = None
    i = 1
    while i < len(args):
        if args[i] == '--tier':
            tier = args[i + 1]
            i += 2
        elif args[i] == '--replay':
            replay = args[i + 1]
            i += 2
        else:
            i += 1
    if tier not in ('quick', 'thorough'):
        tier = 'quick'
    res = common.Result(pid, tier)
    try:
        mod = importlib.import_module('checks.' + pid.lower())
        if replay:
            with open(replay) as f:
                data = json.load(f)
            rc = generic_replay(pid, mod, res, data)
            sys.exit(rc)
        mod.run(res)
        rc = res.finish()
    except common.HarnessError as e:
        print('HARNESS-ERROR property=%s %s' % (pid, e))
        rc = 2
    except Exception:
        traceback.print_exc()
        print('HARNESS-ERROR property=%s (exception above)' % pid)
        rc = 2
    sys.exit(rc)


if __name__ == '__main__':
    main()
