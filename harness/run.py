"""./check <property> [--tier quick|thorough] [--replay file]"""
import importlib
import json
import os
import sys
import traceback

sys.path.insert(0, os.path.dirname(os.path.abspath(__file__)))
import common  # noqa: E402


def main():
    args = sys.argv[1:]
    if not args:
        print('usage: check <property-id> [--tier quick|thorough] [--replay file]')
        sys.exit(2)
    pid = args[0].upper()
    tier = os.environ.get('VERIF_TIER') or 'quick'
    replay = None
    i = 1
    while i < len(args):
        if args[i] == '--tier':
            tier = args[i + 1]
            i += 2
        elif args[i] == '--replay':
            replay = args[i + 1]
            i += 2
        else:
            i += 1
    if tier not in ('quick', 'thorough'):
        tier = 'quick'
    res = common.Result(pid, tier)
    try:
        mod = importlib.import_module('checks.' + pid.lower())
        if replay:
            with open(replay) as f:
                data = json.load(f)
            rc = mod.replay(res, data) if hasattr(mod, 'replay') else 2
            sys.exit(rc)
        mod.run(res)
        rc = res.finish()
    except common.HarnessError as e:
        print('HARNESS-ERROR property=%s %s' % (pid, e))
        rc = 2
    except Exception:
        traceback.print_exc()
        print('HARNESS-ERROR property=%s (exception above)' % pid)
        rc = 2
    sys.exit(rc)


if __name__ == '__main__':
    main()
