"""Regenerates the table of seeded changes in DESIGN.md (between the SEEDS markers) from seeded/*/meta.json and
seeded/results.json."""
import json
import os

ROOT = os.path.dirname(os.path.dirname(os.path.abspath(__file__)))
S = os.path.join(ROOT, 'seeded')
res = json.load(open(os.path.join(S, 'results.json')))
rows = ['| seeded change | property | needs, to manifest | pinned suite | caught by (quick tier) |', '|---|---|---|---|---|']
for name in sorted(d for d in os.listdir(S) if os.path.isdir(os.path.join(S, d))):
    meta = json.load(open(os.path.join(S, name, 'meta.json')))
    r = res.get(name, {})
    caught = ', '.join(r.get('caught_by', [])) or '**missed**'
    note = meta.get('note', '')
    rows.append('| `%s` | %s | %s | %s | %s%s |' % (name, meta['property'], meta.get('needs_to_manifest', ''),
                                                   'passes' if r.get('tests_pass') else '?', caught,
                                                   (' — ' + note) if note else ''))
table = '\n'.join(rows)
p = os.path.join(ROOT, 'DESIGN.md')
s = open(p).read()
a, b = '<!-- SEEDS:BEGIN -->', '<!-- SEEDS:END -->'
if a in s:
    s = s[:s.index(a) + len(a)] + '\n' + table + '\n' + s[s.index(b):]
else:
    s += '\n\n## Appendix — seeded changes and the checks that catch them\n\n' + a + '\n' + table + '\n' + b + '\n'
open(p, 'w').write(s)
print('%d seeded changes' % (len(rows) - 2))
