"""Run the registered checks against the seeded changes kept under /verif/seeded/<name>/.

For each seeded change: a scratch worktree of /repo is created under /tmp, the patch applied, the pinned test suite
and the demonstration run (the suite must pass, the demonstration must fail), then the quick check(s) of the property
it targets (or all, with --all-checks) are run with REPO pointing at the scratch tree; the worktree is removed again.
Evidence files are restored from git afterwards (evidence must only ever come from runs against /repo itself).

usage: /venv/bin/python harness/seedtest.py [name ...] [--all-checks] [--tier quick|thorough]
"""
import json
import os
import shutil
import subprocess
import sys
import tempfile

ROOT = os.path.dirname(os.path.dirname(os.path.abspath(__file__)))
SEEDED = os.path.join(ROOT, 'seeded')


def sh(cmd, cwd=None, env=None, timeout=3600):
    p = subprocess.run(cmd, cwd=cwd, env=env, stdout=subprocess.PIPE, stderr=subprocess.STDOUT, text=True, timeout=timeout)
    return p.returncode, p.stdout


def claimed():
    with open(os.path.join(ROOT, 'MANIFEST.json')) as f:
        return [c['property_id'] for c in json.load(f)['checks']]


def main():
    args = [a for a in sys.argv[1:] if not a.startswith('--')]
    all_checks = '--all-checks' in sys.argv
    tier = 'quick'
    if '--tier' in sys.argv:
        tier = sys.argv[sys.argv.index('--tier') + 1]
    names = args or sorted(d for d in os.listdir(SEEDED) if os.path.isdir(os.path.join(SEEDED, d)))
    results = {}
    for name in names:
        d = os.path.join(SEEDED, name)
        if not os.path.exists(os.path.join(d, 'meta.json')):
            print(name, 'no such seeded change')
            continue
        meta = json.load(open(os.path.join(d, 'meta.json')))
        wt = tempfile.mkdtemp(prefix='seed_', dir='/tmp')
        os.rmdir(wt)
        rc, out = sh(['git', '-C', '/repo', 'worktree', 'add', '-q', '--detach', wt, 'HEAD'])
        try:
            rc, out = sh(['git', 'apply', os.path.join(d, 'patch.diff')], cwd=wt)
            if rc != 0:
                results[name] = {'error': 'patch does not apply: ' + out[-300:]}
                continue
            env = dict(os.environ, PYTHONPATH=wt, REPO=wt)
            rc, out = sh(['/venv/bin/python', '-m', 'pytest', '-q', '-p', 'no:cacheprovider', '-x'], cwd=wt, env=env)
            tests_ok = (rc == 0)
            rc, out = sh(['/venv/bin/python', os.path.join(d, 'demo.py')], cwd=wt, env=env, timeout=600)
            demo_fails = (rc != 0)
            checks = claimed() if all_checks else [p for p in meta.get('run_checks', [meta['property']]) if p in claimed()]
            det = {}
            for pid in checks:
                rc, out = sh([os.path.join(ROOT, 'check'), pid, '--tier', tier], cwd=ROOT, env=dict(os.environ, REPO=wt))
                viol = [l for l in out.splitlines() if l.startswith('VIOLATION')]
                det[pid] = {'exit': rc, 'violation_lines': len(viol),
                            'first': (out.splitlines()[out.splitlines().index(viol[0]) + 1].strip()[:300]
                                      if viol and out.splitlines().index(viol[0]) + 1 < len(out.splitlines()) else '')}
            results[name] = {'property': meta['property'], 'tests_pass': tests_ok, 'demo_fails': demo_fails, 'checks': det,
                             'caught_by': sorted(p for p, r in det.items() if r['exit'] == 1)}
        finally:
            sh(['git', '-C', '/repo', 'worktree', 'remove', '--force', wt])
            shutil.rmtree(wt, ignore_errors=True)
        print(name, json.dumps(results[name], sort_keys=True))
    # evidence must come from /repo itself
    sh(['git', 'checkout', '--', 'evidence'], cwd=ROOT)
    # generated Lean files were regenerated from the scratch trees: regenerate from /repo
    sh(['/venv/bin/python', '-c', 'import sys; sys.path.insert(0, "harness"); import common; common.ensure_built()'], cwd=ROOT)
    # cumulative record (one entry per seeded change, overwritten by its latest run)
    path = os.path.join(SEEDED, 'results.json')
    allres = json.load(open(path)) if os.path.exists(path) else {}
    allres.update(results)
    with open(path, 'w') as f:
        json.dump(allres, f, indent=1, sort_keys=True)
    missed = [n for n, r in results.items() if not r.get('caught_by')]
    print('caught %d / %d; missed: %s' % (len(results) - len(missed), len(results), missed))


if __name__ == '__main__':
    main()
