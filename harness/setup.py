"""MANIFEST.setup_cmd: regenerate PMC/Generated from /repo and build the Lean project (library + driver) from the
files on disk.  Offline; exits non-zero if the build fails."""
import os
import sys

sys.path.insert(0, os.path.dirname(os.path.abspath(__file__)))
import common  # noqa: E402

ok, log = common.ensure_built()
print(log[-1500:])
print('setup: build %s' % ('ok' if ok else 'FAILED'))
sys.exit(0 if ok else 1)
