#!/bin/bash
# usage: harness/sweep.sh <tier> <seed> [<seed> ...] — runs every claimed check under each seed; prints one line per run
cd "$(dirname "$0")/.."
tier=$1; shift
/venv/bin/python harness/setup.py > /dev/null 2>&1 || { echo "SETUP FAILED"; exit 2; }
for seed in "$@"; do
  for c in $(/venv/bin/python -c "import json; print(' '.join(x['property_id'] for x in json.load(open('MANIFEST.json'))['checks']))"); do
    start=$(date +%s)
    out=$(VERIF_SEED=$seed ./check $c --tier $tier 2>&1); rc=$?
    echo "seed=$seed $c rc=$rc $(( $(date +%s) - start ))s $(echo "$out" | grep -E '^(VIOLATION|KNOWN-FINDING|HARNESS-ERROR)' | head -3 | tr '\n' ' ')"
  done
done
