"""Property theorems per property: every `theorem` declared in lean/PMC/Properties/<id>.lean (namespace PMC.<id>).

The audit (common.audit) checks on every run that each of them exists in the built library and depends on no axiom
beyond propext / Classical.choice / Quot.sound.  MIN guards against a theorem silently disappearing from a file.
"""
import os
import re

LEAN = os.path.join(os.path.dirname(os.path.dirname(os.path.abspath(__file__))), 'lean')

MIN = {'C01': 10, 'C02': 18, 'C03': 10, 'C04': 40, 'C05': 16, 'C06': 17, 'C07': 97, 'C08': 87, 'C09': 4, 'C10': 51, 'C11': 14, 'C12': 3,
       'C13': 24, 'C14': 65, 'C15': 36, 'C16': 36, 'C17': 63, 'C18': 5, 'C19': 15}

# the headline theorems: each must be present by name (and is audited like the others)
HEADLINE = {
    'C01': ['PMC.C01.ctl_exact', 'PMC.C01.ctl_exact_memo'], 'C02': ['PMC.C02.ltl_exact', 'PMC.C02.ltl_excluded_iff_lasso'],
    'C03': ['PMC.C03.ctls_exact', 'PMC.C03.ctls_exact_partial', 'PMC.C03.namesOK_of_wf'],
    'C04': ['PMC.C04.three_checkers_agree', 'PMC.C04.ctls_eq_ctl'], 'C06': ['PMC.C06.ctls_presentation', 'PMC.C06.ctls_rename_states'],
    'C07': ['PMC.C07.ctls_frame_labels', 'PMC.C07.ctlsF_frame', 'PMC.C07.shallow_clone_breaks_frame'],
    'C14': ['PMC.C14.clone_shares_no_label_set', 'PMC.C14.construct_distinct'],
    'C15': ['PMC.C15.fairStatesSpec_exact', 'PMC.C15.spec_all_paths_fair'], 'C16': ['PMC.C16.history_canonical'],
}

EXTRA_MODULES = {}


def get(pid):
    """(modules, theorem names) of every file PMC/Properties/<pid>*.lean (e.g. C01.lean and C01Memo.lean)"""
    d = os.path.join(LEAN, 'PMC', 'Properties')
    files = sorted(f for f in os.listdir(d) if f.endswith('.lean') and re.fullmatch(pid + r'[A-Za-z]*\.lean', f))
    mods, ths = [], []
    for fn in files:
        src = open(os.path.join(d, fn)).read()
        src = re.sub(r'/-.*?-/', '', src, flags=re.S)
        ns = re.search(r'^namespace\s+(\S+)', src, flags=re.M)
        ns = ns.group(1) if ns else 'PMC.' + pid
        names = re.findall(r'^theorem\s+([A-Za-z_][A-Za-z0-9_\'.]*)', src, flags=re.M)
        ths += ['%s.%s' % (ns, n) for n in names]
        mods.append('PMC.Properties.' + fn[:-5])
    if len(ths) < MIN.get(pid, 0):
        raise RuntimeError('%s: expected at least %d property theorems, found %d' % (pid, MIN.get(pid, 0), len(ths)))
    for h in HEADLINE.get(pid, []):
        if h not in ths:
            raise RuntimeError('%s: headline theorem %s is missing' % (pid, h))
    return (mods + EXTRA_MODULES.get(pid, []), ths)
