"""Property theorems that exist in the built library, per property (audited on every run: existence + axioms).

Only names listed here are claimed; a name is added when its proof is committed."""

THEOREMS = {
    'C12': (['PMC.Properties.C12'], ['PMC.C12.scc_partition', 'PMC.C12.scc_nodes', 'PMC.C12.scc_exact']),
    'C13': (['PMC.Properties.C13'], ['PMC.C13.' + t for t in (
        'mk_wf mk_nodes mk_edges mem_next_iff_edge edge_nodes hasNode_iff addNodeRaw_wf addNodeRaw_nodes '
        'addNodeRaw_edges addEdgeIgnore_wf addEdgeIgnore_nodes addEdgeIgnore_edges addEdge_error_iff addNode_error_iff '
        'subgraph_wf subgraph_nodes subgraph_edges reversed_wf reversed_nodes reversed_edges reversed_reversed '
        'clone_eq reach_exact reach_error').split()]),
}


def get(pid):
    return THEOREMS.get(pid, ([], []))
