"""Property theorems that exist in the built library, per property (audited on every run: existence + axioms).

Only names listed here are claimed; a name is added when its proof is committed."""

THEOREMS = {
    'C12': (['PMC.Properties.C12'], ['PMC.C12.scc_partition', 'PMC.C12.scc_nodes', 'PMC.C12.scc_exact']),
}


def get(pid):
    return THEOREMS.get(pid, ([], []))
