"""Validation of the Lean model of the OBDD API (lean/PMC/Model/BDDApi.lean) against the real library.

    /venv/bin/python harness/validate_bddapi.py [seed[,seed…]] [quick|full]

Builds the Lean project, runs `checks.bdd_api.run_api` once per seed (orderings, respect_ordering, API sessions over
values of every kind, the unique table) and prints the counters and the number of mismatches.  Exit status 1 if there
is any mismatch.
"""
import json
import os
import random
import sys
import time

sys.path.insert(0, os.path.dirname(os.path.abspath(__file__)))
import common  # noqa: E402
from checks import bdd_api  # noqa: E402


class Collector(object):
    tier = 'thorough'

    def __init__(self):
        self.violations = []

    def violation(self, what, replay, no_input=False):
        self.violations.append((what, replay))


def main():
    seeds = [int(x) for x in (sys.argv[1] if len(sys.argv) > 1 else '0').split(',')]
    quick = (sys.argv[2] if len(sys.argv) > 2 else 'full') == 'quick'
    ok, log = common.ensure_built(generate=False)
    if not ok:
        print('WARNING: lake build PMC failed (the driver was built):\n' + log[-1500:])
    total = 0
    for seed in seeds:
        t0 = time.time()
        res = Collector()
        st = bdd_api.run_api(res, random.Random('%d/bddapi' % seed), quick)
        total += max(len(res.violations), st['api_total_mismatches'])
        print('seed %d: %.1fs' % (seed, time.time() - t0))
        print(json.dumps(st, indent=1, sort_keys=True))
        for what, replay in res.violations[:12]:
            print('MISMATCH: ' + what)
            print('   ' + json.dumps(replay, default=str)[:1500])
    fs = bdd_api.guard_findings()
    print('findings (the model follows the library on these): %d' % len(fs))
    for f in fs:
        print('  %(call)s\n      expected %(expected)s, observed %(observed)s' % f)
    print('mismatches: %d' % total)
    return 1 if total else 0


if __name__ == '__main__':
    sys.exit(main())
