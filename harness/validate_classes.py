#!/venv/bin/python
"""Validation of the class-lattice model (C08) against the live /repo code.

Regenerates lean/PMC/Generated/ClassTable.lean, builds, then compares, for all operator trees over the union alphabet
to depth 2 (exhaustive) and a seeded sample of depth 3, in each of the four language modules:

  CONSTRUCT  getattr(M, ClassName)(*children) bottom-up            vs  Classes.construct generatedTable
  CAST       obj.cast_to(M') for every built obj, M' != M          vs  Classes.castTo
  MIXED      M.Class(obj1, obj2, ..) with operands from any module vs  Classes.constructMixed
  GUARD      CTL/LTL/CTLS.modelcheck(K, obj), K Kripke or not      vs  Classes.guardCTL / guardLTL / guardCTLS

Python side: "OK" or the exception class name.  Also reports every tree on which "can be built in M" and the
documented syntax (`Fm.inLogic M`, driver command INLOGIC) disagree (that would be a finding, not a mismatch).

usage: /venv/bin/python harness/validate_classes.py [--sample N] [--seed S]
"""
import argparse
import contextlib
import io
import itertools
import os
import random
import sys
import time

HERE = os.path.dirname(os.path.abspath(__file__))
sys.path.insert(0, HERE)
import common  # noqa: E402

LOGICS = ('PL', 'CTL', 'LTL', 'CTLS')
UN = ('not', 'X', 'F', 'G', 'A', 'E')
BIN = ('imp', 'U', 'R', 'and', 'or')
LEAVES = (('ap', 'p'), 'tt')


def trees_upto(d):
    """all trees of depth <= d, as a list; level[i] = trees of depth exactly i"""
    level = [list(LEAVES)]
    allt = list(LEAVES)
    for _ in range(d):
        prev_all = list(allt)
        prev_set = set(level[-1])
        new = []
        for op in UN:
            for c in level[-1]:
                new.append((op, c))
        for op in BIN:
            for a in prev_all:
                for b in prev_all:
                    if a in prev_set or b in prev_set:
                        new.append((op, a, b))
        level.append(new)
        allt.extend(new)
    return allt, level


def sample_depth3(rng, all2, level2, n):
    out = set()
    while len(out) < n:
        op = rng.choice(UN + BIN)
        if op in UN:
            t = (op, rng.choice(level2))
        else:
            a, b = rng.choice(level2), rng.choice(all2)
            t = (op, a, b) if rng.random() < 0.5 else (op, b, a)
        out.add(t)
    return sorted(out, key=repr)


def py_result(fn):
    try:
        with contextlib.redirect_stdout(io.StringIO()):
            r = fn()
        return 'OK', r
    except Exception as e:  # noqa
        return type(e).__name__, None


def ans(res):
    return 'OK' if res == 'OK' else 'ERR ' + res


def main():
    ap = argparse.ArgumentParser()
    ap.add_argument('--sample', type=int, default=3000, help='number of depth-3 trees')
    ap.add_argument('--seed', type=int, default=common.SEED)
    ap.add_argument('--mixed', type=int, default=300, help='random operand tuples per (module, binary operator)')
    args = ap.parse_args()
    t0 = time.time()
    rng = random.Random('classes/%d' % args.seed)

    ok, log = common.ensure_built()
    print(log.strip().splitlines()[0] if log.strip() else '')
    if not ok:
        # the driver only needs the import-free model + the generated table; a failing library build means some
        # obligation (typically PMC.C08.table_ok: the lattice of the code is no longer the reference lattice) failed
        print('LIBRARY BUILD FAILED (driver present, continuing): ' + ', '.join(common.build_failures(log)))

    mods = {m: common.lang(m) for m in LOGICS}
    from pyModelChecking.kripke import Kripke
    K = Kripke(S=[0, 1], R=[(0, 1), (1, 0), (1, 1)], L={0: set(['p']), 1: set()})
    NOTK = {'S': [0, 1]}

    all2, level = trees_upto(2)
    d3 = sample_depth3(rng, all2, level[2], args.sample)
    trees = all2 + d3
    print('trees: depth<=2 exhaustive %d, depth-3 sample %d' % (len(all2), len(d3)))

    lines, expect, what = [], [], []
    stats = {}

    def add(kind, line, res, desc):
        lines.append(line)
        expect.append(ans(res))
        what.append(desc)
        d = stats.setdefault(kind, {})
        d[res] = d.get(res, 0) + 1

    # ---------------------------------------------------------------- construct
    built = {m: [] for m in LOGICS}     # (tree, obj)
    inlogic_q = []
    for m in LOGICS:
        for t in trees:
            res, obj = py_result(lambda: common.to_obj(t, mods[m]))
            s = common.sexpr(t)
            add('construct', 'CONSTRUCT|%s|%s' % (m, s), res, 'construct %s %s' % (m, common.tree_str(t)))
            inlogic_q.append((m, t, res))
            if res == 'OK':
                assert common.from_obj(obj) == t and all(
                    common.obj_module(o) == m for o in walk(obj)), (m, t)
                built[m].append((t, obj))
    print('built objects: ' + ', '.join('%s %d' % (m, len(built[m])) for m in LOGICS))

    # ---------------------------------------------------------------- cast
    for m in LOGICS:
        for t, obj in built[m]:
            for m2 in LOGICS:
                if m2 == m:
                    continue
                res, o2 = py_result(lambda: obj.cast_to(mods[m2]))
                if res == 'OK':
                    # "returns a formula with the same structure in the target logic"
                    if common.from_obj(o2) != t or not all(common.obj_module(o) == m2 for o in walk(o2)):
                        res = 'WRONG-STRUCTURE'
                add('cast', 'CAST|%s|%s|%s' % (m, m2, common.sexpr(t)), res,
                    'cast %s->%s %s' % (m, m2, common.tree_str(t)))

    # ---------------------------------------------------------------- mixed operands (one level)
    small = {m: [(t, o) for t, o in built[m] if common.tree_depth(t) <= 1] for m in LOGICS}
    pool = [(m, t, o) for m in LOGICS for t, o in small[m]]
    for m in LOGICS:
        for op in UN:
            for (mi, t, o) in pool:
                res, _ = py_result(lambda: getattr(mods[m], common.CLASSNAME[op])(o))
                add('mixed', 'MIXED|%s|%s|%s %s' % (m, common.CLASSNAME[op], mi, common.sexpr(t)), res,
                    'mixed %s.%s(%s:%s)' % (m, common.CLASSNAME[op], mi, common.tree_str(t)))
        for op in BIN:
            for _ in range(args.mixed):
                k = 2 if op in ('imp', 'U', 'R') else rng.choice([2, 2, 3])
                kids = [rng.choice(pool) for _ in range(k)]
                res, _ = py_result(lambda: getattr(mods[m], common.CLASSNAME[op])(*[o for _, _, o in kids]))
                add('mixed', 'MIXED|%s|%s|%s' % (m, common.CLASSNAME[op],
                                                  ' ; '.join('%s %s' % (mi, common.sexpr(t)) for mi, t, _ in kids)),
                    res, 'mixed %s.%s(%s)' % (m, common.CLASSNAME[op],
                                              ', '.join('%s:%s' % (mi, common.tree_str(t)) for mi, t, _ in kids)))

    # ---------------------------------------------------------------- guards
    checkers = {'CTL': mods['CTL'].modelcheck, 'LTL': mods['LTL'].modelcheck, 'CTLS': mods['CTLS'].modelcheck}
    for m in LOGICS:
        for t, obj in built[m]:
            for chk, fn in checkers.items():
                for flag, k in (('1', K), ('0', NOTK)):
                    res, r = py_result(lambda: fn(k.clone() if flag == '1' else k, obj))
                    if res == 'OK' and not isinstance(r, (set, frozenset, list)):
                        res = 'NOT-A-SET'
                    add('guard-' + chk, 'GUARD|%s|%s|%s|%s' % (chk, m, common.sexpr(t), flag), res,
                        'guard %s.modelcheck(%s, %s:%s)' % (chk, 'K' if flag == '1' else 'non-Kripke', m,
                                                            common.tree_str(t)))

    # ---------------------------------------------------------------- compare
    got = common.lean_batch(lines)
    mism = [(w, e, g) for w, e, g in zip(what, expect, got) if e != g]

    # documented syntax vs constructibility
    inl = common.lean_batch(['INLOGIC|%s|%s' % (m, common.sexpr(t)) for m, t, _ in inlogic_q])
    gaps = [(m, t, res, a) for (m, t, res), a in zip(inlogic_q, inl) if (res == 'OK') != (a == 'true')]

    print('operations compared: %d' % len(lines))
    for kind in sorted(stats):
        print('  %-11s %7d   %s' % (kind, sum(stats[kind].values()),
                                    ', '.join('%s %d' % kv for kv in sorted(stats[kind].items()))))
    print('documented-syntax gaps (built in M but not inLogic M, or inLogic M but not built): %d' % len(gaps))
    for m, t, res, a in gaps[:10]:
        print('  GAP %s %s: python %s, inLogic %s' % (m, common.tree_str(t), res, a))
    # informational: operand counts (outside the ranked trees the model speaks about)
    rank = {'not': (1,), 'X': (1,), 'F': (1,), 'G': (1,), 'A': (1,), 'E': (1,), 'imp': (2,), 'U': (2,), 'R': (2,)}
    loose = []
    for m in LOGICS:
        for op in UN + ('imp', 'U', 'R'):
            cls = getattr(mods[m], common.CLASSNAME[op], None)
            if cls is None:
                continue
            acc = [n for n in range(0, 4) if py_result(lambda: cls(*(['p'] * n)))[0] == 'OK']
            if tuple(acc) != rank[op]:
                loose.append('%s.%s:%s' % (m, common.CLASSNAME[op], ''.join(map(str, acc))))
    print('INFO operand counts accepted by unary/binary classes (tried 0..3; expected 1 resp. 2): %s'
          % (' '.join(loose) if loose else 'all as ranked'))
    print('mismatches: %d   (%.1fs)' % (len(mism), time.time() - t0))
    for w, e, g in mism[:25]:
        print('  MISMATCH %s: python %r, lean %r' % (w, e, g))
    return 1 if mism else 0


def walk(o):
    yield o
    for c in (o.subformulas() if hasattr(o, '_subformula') else []):
        for x in walk(c):
            yield x


if __name__ == '__main__':
    sys.exit(main())
