"""Validation of the AS-IMPLEMENTED fairness model (lean/PMC/Model/Fair.lean) against pyModelChecking.

    /venv/bin/python harness/validate_fair.py [--tier quick|thorough]

For every total structure with <= 3 states (quick: n <= 2 complete, a seeded sample of n = 3), every list F of at most
two subsets of the states (including [], [set()], [all states]) and formulas of each logic:

  * `K.get_fair_states(F)`                 vs  `FAIRSTATES|…`  (field `impl:`; the field `spec:` is the corrected
                                               computation, proved exact in PMC/Properties/C15.lean — we count how
                                               often the two differ: that is KF-C15-a)
  * `CTL/LTL/CTLS.modelcheck(K, f, F=F)`   vs  `CTLF|…`, `LTLF|…`, `CTLSF|…`  (result set or exception class)

The implementation and the model must agree on every case (0 mismatches).  The structure is built on the real side;
the model receives the adjacency in the implementation's own iteration order (that of `K.clone()`, the object the
entry points label — `observed_adj`), because which node comes first in a component matters for the buggy
`is_a_fair_SCC`.  For the same reason the states are inserted in every order (get_fair_states) / in the identity and
random orders (modelcheck): the real answer does depend on it, and the model follows.  Also checked on every call: the caller's structure is left unchanged, and the only exception class
ever raised is the one the model predicts.

<F> encoding (Driver.lean `decFair`): `none` = F=None, `-` = [], otherwise `;`-separated sets, `e` = empty set.
"""
import contextlib
import io
import itertools
import json
import os
import sys
from concurrent.futures import ProcessPoolExecutor

sys.path.insert(0, os.path.dirname(os.path.abspath(__file__)))
import common  # noqa: E402
from common import KS, all_structures, enc_graph, enc_labels, lang, lean_batch, rng_for, sexpr, to_obj, tree_str  # noqa: E402
from gen import formulas as FG  # noqa: E402
from gen.graphs import observed_adj  # noqa: E402

CMD = {'CTL': 'CTLF', 'LTL': 'LTLF', 'CTLS': 'CTLSF'}


def enc_fair(F):
    if F is None:
        return 'none'
    if not F:
        return '-'
    return ';'.join(' '.join(map(str, sorted(P))) if P else 'e' for P in F)


def fair_lists(n, ordered=True):
    """lists of at most two subsets of {0..n-1}; `ordered`: both orders of a pair (the order in which the constraints
    are tested), otherwise one of them"""
    subsets = [frozenset(c) for k in range(n + 1) for c in itertools.combinations(range(n), k)]
    out = [()]
    out += [(P,) for P in subsets]
    if ordered:
        out += [(P, Q) for P in subsets for Q in subsets]
    else:
        out += list(itertools.combinations_with_replacement(subsets, 2))
    return out


def snapshot(K):
    return (list(K.states()), sorted(K.transitions()), {s: sorted(K.labels(s)) for s in K.states()}, sorted(K.S0))


def enc_struct(K):
    """graph|labels of a real structure, in its own iteration order"""
    adj = observed_adj(K)
    return enc_graph(adj) + '|' + enc_labels([(s, sorted(K.labels(s))) for s, _ in adj])


def build(succ, labs, order):
    """the real structure with states inserted in `order` (dict order = insertion order, so this decides which node
    `compute_SCCs` visits first and hence which node comes first in each component)"""
    from pyModelChecking.kripke import Kripke
    return Kripke(S=list(order), R=[(s, d) for s in order for d in succ[s]],
                  L={s: set(labs[s]) for s in range(len(succ))})


def fs_chunk(chunk):
    """get_fair_states jobs: (succ, F, order)"""
    out = []
    for succ, F, order in chunk:
        K = build(succ, [[] for _ in succ], order)
        before = snapshot(K)
        enc = enc_struct(K)
        try:
            r = K.get_fair_states([set(P) for P in F])
            a = ' '.join(map(str, sorted(r))) if isinstance(r, set) else 'BADTYPE'
        except Exception as e:  # noqa
            a = 'ERR ' + type(e).__name__
        out.append((enc, a, snapshot(K) == before))
    return out


def mc_chunk(chunk):
    """modelcheck jobs: (logic, succ, labs, F or None, tree, order)"""
    out = []
    with contextlib.redirect_stdout(io.StringIO()):
        for logic, succ, labs, F, tree, order in chunk:
            L = lang(logic)
            K = build(succ, labs, order)
            before = snapshot(K)
            Kc = K.clone()
            enc = enc_struct(Kc)
            same_order = (observed_adj(Kc) == observed_adj(K))
            try:
                f = to_obj(tree, L)
                r = L.modelcheck(K, f, F=None if F is None else [set(P) for P in F])
                a = 'OK ' + ' '.join(map(str, sorted(r))) if isinstance(r, set) else 'BADTYPE %s' % type(r).__name__
            except Exception as e:  # noqa
                a = 'ERR ' + type(e).__name__
            try:
                r0 = L.modelcheck(K, to_obj(tree, L))
                a0 = 'OK ' + ' '.join(map(str, sorted(r0)))
            except Exception as e:  # noqa
                a0 = 'ERR ' + type(e).__name__
            out.append((enc, a.strip(), snapshot(K) == before, same_order, a0.strip()))
    return out


def par(fn, jobs):
    if len(jobs) < 400:
        return fn(jobs)
    k = max(1, len(jobs) // (common.NPROC * 4))
    chunks = [jobs[i:i + k] for i in range(0, len(jobs), k)]
    with ProcessPoolExecutor(common.NPROC) as ex:
        res = list(ex.map(fn, chunks))
    return [x for r in res for x in r]


def norm(ans):
    return ' '.join(ans.split())


def main():
    tier = 'quick'
    if '--tier' in sys.argv:
        tier = sys.argv[sys.argv.index('--tier') + 1]
    quick = tier != 'thorough'
    rng = rng_for('validate_fair')
    report = {'tier': tier, 'seed': common.SEED}
    mismatches = []

    # ------------------------------------------------------------------ get_fair_states
    fs_jobs = []
    for n in (1, 2, 3):
        for K in all_structures(n, atoms=()):
            for order in itertools.permutations(range(n)):
                for F in fair_lists(n):
                    fs_jobs.append((K.succ, [sorted(P) for P in F], order))
    fs_impl = par(fs_chunk, fs_jobs)
    fs_model = lean_batch(['FAIRSTATES|%s|%s' % (enc, enc_fair(F)) for (enc, _, _), (_, F, _) in zip(fs_impl, fs_jobs)])
    differ = 0
    differ_examples = []
    modified = 0
    order_dependent = set()
    seen_impl = {}
    for (succ, F, order), (enc, a, unchanged), m in zip(fs_jobs, fs_impl, fs_model):
        key = (tuple(map(tuple, succ)), tuple(map(tuple, F)))
        if seen_impl.setdefault(key, a) != a:
            order_dependent.add(key)
        m = m.strip()
        assert m.startswith('impl:') and ' spec:' in m or 'spec:' in m, m
        mi = norm(m[len('impl:'):m.index('spec:')])
        ms = norm(m[m.index('spec:') + len('spec:'):])
        if not unchanged:
            modified += 1
        if norm(a) != mi:
            mismatches.append({'what': 'get_fair_states', 'succ': succ, 'F': F, 'order': order, 'impl': a, 'model': mi,
                               'sent': enc})
        if mi != ms:
            differ += 1
            if len(differ_examples) < 3:
                differ_examples.append({'succ': succ, 'F': F, 'order': order, 'as_implemented': mi, 'spec': ms})
    report['get_fair_states'] = {
        'cases': len(fs_jobs),
        'scope': 'all total structures with <= 3 states x every insertion order of the states x all lists of <= 2 '
                 'subsets (ordered)',
        'inputs_whose_real_answer_depends_on_the_insertion_order': len(order_dependent),
        'mismatches_impl_vs_model': sum(1 for x in mismatches if x['what'] == 'get_fair_states'),
        'as_implemented_differs_from_spec': differ, 'examples_impl_ne_spec': differ_examples,
        'structure_modified': modified}

    # ------------------------------------------------------------------ modelcheck(..., F=F)
    ctl_fs = FG.ctl_state(1)
    ltl_fs = [('A', t) for t in FG.ltl_path(1)]
    ctls_corpus = [
        ('E', ('G', ('ap', 'p'))), ('A', ('G', ('F', ('ap', 'p')))), ('E', ('G', ('F', ('ap', 'p')))),
        ('E', ('R', ('ap', 'p'), ('ap', 'q'))), ('A', ('ap', 'p')), ('E', ('ap', 'p')), ('ap', 'p'), 'tt', 'ff',
        ('X', ('ap', 'p')), ('A', ('or', ('G', ('ap', 'p')), ('F', ('E', ('X', ('not', ('ap', 'p'))))))),
        ('E', ('and', ('G', ('F', ('ap', 'p'))), ('G', ('F', ('not', ('ap', 'p')))))),
        ('A', ('G', ('E', ('F', ('ap', 'p'))))), ('E', ('not', ('X', ('ap', 'p')))),
        ('not', ('A', ('imp', ('G', ('ap', 'p')), ('F', ('A', ('G', ('ap', 'q'))))))),
        ('A', ('U', ('ap', 'p'), ('E', ('R', ('ap', 'q'), ('ap', 'p'))))),
        ('E', ('F', ('A', ('R', ('ap', 'q'), ('ap', 'p'))))), ('E', ('X', ('E', ('G', 'tt')))),
        ('A', ('F', ('ap', 'fair'))), ('E', ('G', ('not', ('ap', 'fair')))),
    ]
    ctls_rand = [FG.rand_ctls_state(rng, rng.choice([2, 3, 4]), max_temporal=2, qdepth=2) for _ in range(60)]

    small = [K for n in (1, 2) for K in all_structures(n)]
    three = list(all_structures(3))
    fair_label_structs = [KS([[0]], [['fair']]), KS([[0, 1], [0]], [['fair', 'p'], ['fair0']]),
                          KS([[1], [0, 1]], [['fair', 'fair0', 'fair1'], ['q', 'fair2']])]
    jobs = []

    def add(K, F, per_ctl, per_ltl, per_corpus, per_ctls):
        Fl = None if F is None else [sorted(P) for P in F]
        jobs0 = len(jobs)
        for t in (ctl_fs if per_ctl is None else rng.sample(ctl_fs, per_ctl)):
            jobs.append(('CTL', K.succ, K.labs, Fl, t))
        for t in (ltl_fs if per_ltl is None else rng.sample(ltl_fs, per_ltl)):
            jobs.append(('LTL', K.succ, K.labs, Fl, t))
        for t in (ctls_corpus if per_corpus is None else rng.sample(ctls_corpus, per_corpus)):
            jobs.append(('CTLS', K.succ, K.labs, Fl, t))
        for t in (ctls_rand if per_ctls is None else rng.sample(ctls_rand, per_ctls)):
            jobs.append(('CTLS', K.succ, K.labs, Fl, t))
        # insertion order of the states: the identity for every second job, a random permutation for the others
        ident = tuple(range(K.n))
        for i in range(jobs0, len(jobs)):
            order = ident
            if i % 2:
                order = list(ident)
                rng.shuffle(order)
            jobs[i] = jobs[i] + (tuple(order),)

    # the real checkers are the slow side (a few ms per CTL* call): the quick tier samples the formulas per (K, F)
    for K in small + fair_label_structs:
        for F in [None] + fair_lists(K.n, ordered=not quick):
            if quick:
                add(K, F, 8, 2, 6, 3)
            else:
                add(K, F, None, None, None, None)
    sample3 = rng.sample(three, 100 if quick else 1000)
    for K in sample3:
        fl = fair_lists(3)
        for F in [None, (), (frozenset(),), (frozenset(range(3)),)] + rng.sample(fl, 4 if quick else 10):
            add(K, F, 6, 2, 6, 3) if quick else add(K, F, 30, 6, None, 12)
    impl = par(mc_chunk, jobs)
    lines = ['%s|%s|%s|%s' % (CMD[lg], enc, enc_fair(F), sexpr(t)) for (lg, _, _, F, t, _), (enc, _, _, _, _) in zip(jobs, impl)]
    model = [norm(x) for x in lean_batch(lines)]

    per_logic = {}
    for (lg, succ, labs, F, t, order), (enc, a, unchanged, same_order, a0), m in zip(jobs, impl, model):
        st = per_logic.setdefault(lg, {'cases': 0, 'with_F': 0, 'mismatches': 0, 'errors': {}, 'nonconstant': 0,
                                       'structure_modified': 0, 'clone_order_differs': 0,
                                       'F_given_differs_from_unconstrained': 0,
                                       'F_empty_list_differs_from_unconstrained': 0})
        st['cases'] += 1
        if F is not None:
            st['with_F'] += 1
        a = norm(a)
        if a.startswith('ERR') or a.startswith('BAD'):
            st['errors'][a] = st['errors'].get(a, 0) + 1
        elif 0 < len(a.split()) - 1 < len(succ):
            st['nonconstant'] += 1
        if not unchanged:
            st['structure_modified'] += 1
        if not same_order:
            st['clone_order_differs'] += 1
        if F is not None and a != norm(a0):
            st['F_given_differs_from_unconstrained'] += 1
            if not F:
                st['F_empty_list_differs_from_unconstrained'] += 1
        if a != m:
            st['mismatches'] += 1
            mismatches.append({'what': lg + '.modelcheck', 'succ': succ, 'labels': labs, 'F': F, 'order': order,
                               'formula': tree_str(t), 'sexpr': sexpr(t), 'impl': a, 'model': m, 'sent': enc})
    report['modelcheck'] = per_logic
    report['modelcheck_scope'] = (
        'every structure with <= 2 states (+3 with labels fair/fair0/…) x (F=None + every list of <= 2 subsets) x '
        + ('a seeded sample of' if quick else 'all of') +
        ' ctl_state(1) [%d], A ltl_path(1) [%d], a CTL* corpus [%d] and random CTL* state formulas [%d]; '
        '%d sampled 3-state structures' % (len(ctl_fs), len(ltl_fs), len(ctls_corpus), len(ctls_rand), len(sample3)))
    report['mismatches'] = len(mismatches)
    report['first_mismatches'] = mismatches[:5]
    print(json.dumps(report, indent=1, sort_keys=True, default=str))
    total_modified = modified + sum(v['structure_modified'] for v in per_logic.values())
    if mismatches or total_modified:
        print('FAIL: %d mismatches, %d calls modified the structure' % (len(mismatches), total_modified))
        sys.exit(1)
    print('OK validate_fair tier=%s: %d get_fair_states + %d modelcheck cases, 0 mismatches; '
          'get_fair_states as-implemented != spec on %d cases'
          % (tier, len(fs_jobs), len(jobs), differ))


if __name__ == '__main__':
    main()
