"""Internal-level validation of the LTL tableau-atom model (lean/PMC/Model/LTLAtoms.lean) against pyModelChecking.

    /venv/bin/python harness/validate_ltlatoms.py [--tier quick|thorough]

For every total structure with <= 2 states over {p, q} and a seeded sample of the 3-state ones, for unrestricted LTL
path formulas g (the formula reaching the tableau is then `LNot(g).get_equivalent_restricted_formula()`, as in
`LTL.modelcheck`) and for formulas written directly in the restricted syntax {true, false, atoms, not, or, X, U}
(without and — separately counted — with double negations), under several PYTHONHASHSEEDs (fresh interpreter per seed):

  * `_get_closure(r)`                     vs `LTLCLOSURE|…`   same set of formulas, same `.height`-derived sort keys
  * `cl_list` of `_build_atoms`           is admissible for the model (`admissibleB`: duplicate-free, sorted by key, = closure)
  * `_Tableu(K, closure).atoms`           vs `buildAtoms K cl_list` (`LTLATOMS|…`), as multisets of (state, set of formulas)
  * `_checkE_path_formula(K, r)`          vs `checkEBuilt K r cl_list`
  * `LTL.modelcheck(K, A g)`              vs the complement
  * the model only: `checkEBuilt K r cl` = `checkE K r` (the declarative-atom model of PMC/Model/LTL.lean) and
    `atomsInvariantB K cl`, for the implementation's order AND for random other admissible orders (ties shuffled)
    — these two are required only for formulas without double negation; with double negations the differences are
    counted and reported (they are expected: see PMC/Properties/C02Atoms.lean).

`admissibleB` and `noNN` are exactly the hypotheses of `PMC.C02.checkEBuilt_iff_checkE` (PMC/Properties/C02Atoms.lean:
`admissible_of_check`), so on every case without double negation the model-level equalities checked here are instances
of proved theorems; what this script adds is the tie between `buildAtoms` / `closure` / `checkEBuilt` and the code.

Exit status 0 iff 0 mismatches.  Dead atoms (atoms without successor because they contain X c and X LNot(c)) and any
other irregular atom kinds are counted and reported.
"""
import collections
import json
import os
import subprocess
import sys
from concurrent.futures import ThreadPoolExecutor

sys.path.insert(0, os.path.dirname(os.path.abspath(__file__)))
import common  # noqa: E402
from common import all_structures, lean_batch, rng_for, sexpr, tree_str  # noqa: E402
from gen import formulas as FG  # noqa: E402


# ------------------------------------------------------------------------------------------ restricted trees

def t_lnot(t):
    while True:
        if t not in ('tt', 'ff') and t[0] == 'not':
            u = t[1]
            if u not in ('tt', 'ff') and u[0] == 'not':
                t = u[1]
                continue
            return u
        return ('not', t)


def has_nn(t):
    if t in ('tt', 'ff') or t[0] == 'ap':
        return False
    if t[0] == 'not' and t[1] not in ('tt', 'ff') and t[1][0] == 'not':
        return True
    return any(has_nn(c) for c in t[1:])


def rfm_depth(depth, nn):
    """all restricted trees of depth <= depth (or with 1 or 2 operands); `nn`: allow `not not`"""
    cur = FG.leaves()
    for _ in range(depth):
        prev = cur
        nxt = list(prev)
        for f in prev:
            nxt.append(('not', f))
            nxt.append(('X', f))
            nxt.append(('or', f))
        for f in prev:
            for g in prev:
                nxt.append(('or', f, g))
                nxt.append(('U', f, g))
        cur = FG.dedup(nxt)
    return [t for t in cur if nn or not has_nn(t)]


def rand_rfm(rng, depth, nn=False, budget=None):
    budget = budget if budget is not None else [3]

    def go(d, under_not):
        if d <= 0 or rng.random() < 0.12:
            return FG.rand_leaf(rng, FG.ATOMS)
        ops = ['not', 'not', 'or', 'or']
        if budget[0] > 0:
            ops += ['X', 'X', 'U', 'U']
        op = rng.choice(ops)
        if op == 'not':
            if under_not and not nn:
                return go(d, False)
            return ('not', go(d - 1, True))
        if op == 'or':
            k = rng.choice([1, 2, 2, 2, 3])
            return ('or',) + tuple(go(d - 1, False) for _ in range(k))
        budget[0] -= 1
        if op == 'X':
            return ('X', go(d - 1, False))
        return ('U', go(d - 1, False), go(d - 1, False))
    return go(depth, False)


# ------------------------------------------------------------------------------------------ running the two sides

def run_worker(seed, jobs):
    env = dict(os.environ, PYTHONHASHSEED=str(seed), REPO=common.REPO)
    p = subprocess.run([sys.executable, os.path.join(common.ROOT, 'harness', 'workers', 'ltlatoms_worker.py')],
                       input=json.dumps(jobs), stdout=subprocess.PIPE, stderr=subprocess.PIPE, text=True, env=env)
    if p.returncode != 0:
        raise common.HarnessError('worker failed under PYTHONHASHSEED=%s: %s' % (seed, p.stderr[-1500:]))
    return json.loads(p.stdout)


def run_seed(seed, jobs, shards):
    k = max(1, (len(jobs) + shards - 1) // shards)
    chunks = [jobs[i:i + k] for i in range(0, len(jobs), k)]
    with ThreadPoolExecutor(len(chunks)) as ex:
        res = list(ex.map(lambda c: run_worker(seed, c), chunks))
    return [x for r in res for x in r]


def tup(t):
    return tuple(tup(x) for x in t) if isinstance(t, list) else t


def parse_answer(ans):
    """adm=.. inv=.. dead=.. built=<..> decl=<..> atoms=<..>"""
    head, atoms = ans.split(' atoms=', 1)
    head, decl = head.split(' decl=', 1)
    head, built = head.split(' built=', 1)
    kv = dict(x.split('=') for x in head.split())
    A = collections.Counter()
    if atoms.strip():
        for item in atoms.split(';'):
            st, fs = item.split(':', 1)
            A[(int(st), frozenset(x.strip() for x in fs.split(',') if x.strip()))] += 1
    return kv, built.split(), decl.split(), A


def atom_kinds(closure_trees, atom):
    """irregularities of one implementation atom (set of trees)"""
    kinds = []
    S = set(atom)
    cl = set(closure_trees)
    if any(t not in ('tt', 'ff') and t[0] == 'X' and ('X', t_lnot(t[1])) in S for t in S):
        kinds.append('X c and X LNot(c)')
    if any(t_lnot(t) in S for t in S):
        kinds.append('phi and LNot(phi)')
    if any(t not in S and t_lnot(t) not in S for t in cl):
        kinds.append('neither phi nor LNot(phi)')
    if any(t not in cl for t in S):
        kinds.append('formula outside the closure')
    xs = [t for t in cl if t not in ('tt', 'ff') and t[0] == 'X']
    if any(t not in S and ('X', t_lnot(t[1])) not in S for t in xs):
        kinds.append('neither X c nor X LNot(c)')
    return kinds


def main():
    tier = 'quick'
    if '--tier' in sys.argv:
        tier = sys.argv[sys.argv.index('--tier') + 1]
    quick = tier in ('quick', 'smoke')
    smoke = tier == 'smoke'
    rng = rng_for('ltlatoms')
    seeds = [0, 1] if smoke else ([0, 1, 2, 3] if quick else list(range(8)))

    small = [K for n in (1, 2) for K in all_structures(n)]
    three = list(all_structures(3))
    f1 = FG.ltl_path(1)
    f2 = [t for t in FG.ltl_path(2, consts=False) if FG.temporal_count(t) <= 3]
    r1 = rfm_depth(1, nn=False)
    r2 = [t for t in rfm_depth(2, nn=False) if FG.temporal_count(t) <= 2]
    r2nn = [t for t in rfm_depth(2, nn=True) if has_nn(t) and FG.temporal_count(t) <= 2]
    while len(r2nn) < 300:
        t = rand_rfm(rng, 3, nn=True, budget=[2])
        if has_nn(t) and t not in r2nn:
            r2nn.append(t)

    cases = []   # (K, tree, kind, category)
    if smoke:
        small = rng.sample(small, 30)
    for K in small:
        for t in (f1 if not quick else rng.sample(f1, 8 if smoke else 30)):
            cases.append((K, t, 'ltl', 'ltl'))
        for t in (r1 if not quick else rng.sample(r1, 8 if smoke else 30)):
            cases.append((K, t, 'rfm', 'rfm'))
        for t in rng.sample(r2, (4 if smoke else 10) if quick else 40):
            cases.append((K, t, 'rfm', 'rfm'))
        for t in rng.sample(r2nn, 4 if quick else 12):
            cases.append((K, t, 'rfm', 'nn'))
    n_small = len(cases)
    # the documented double-negation example: one state labelled p with a self-loop, `not p or not X not not p`
    cases.append((common.KS([[0]], [['p']]), ('or', ('not', ('ap', 'p')), ('not', ('X', ('not', ('not', ('ap', 'p')))))), 'rfm', 'nn'))
    for K in rng.sample(three, (25 if smoke else 150) if quick else 600):
        for t in rng.sample(f1, 3):
            cases.append((K, t, 'ltl', 'ltl'))
        for t in rng.sample(f2, 3):
            cases.append((K, t, 'ltl', 'ltl'))
        cases.append((K, FG.rand_ltl_path(rng, 3, max_temporal=3), 'ltl', 'ltl'))
        for t in rng.sample(r2, 2):
            cases.append((K, t, 'rfm', 'rfm'))
        t = rand_rfm(rng, 4)
        cases.append((K, t, 'rfm', 'nn' if has_nn(t) else 'rfm'))
        t = rand_rfm(rng, 3, nn=True)
        cases.append((K, t, 'rfm', 'nn' if has_nn(t) else 'rfm'))
    jobs = [{'succ': K.succ, 'labs': K.labs, 'tree': t, 'kind': kind} for (K, t, kind, _) in cases]
    print('cases: %d (%d on structures with <= 2 states), seeds %s' % (len(cases), n_small, seeds))

    mismatches = []
    stats = collections.Counter()
    kinds_seen = collections.Counter()
    nn_diffs = []

    def mismatch(what, ci, seed, **extra):
        K, t, kind, cat = cases[ci]
        mismatches.append(dict(what=what, structure=K.describe(), tree=tree_str(t), kind=kind, category=cat,
                               seed=seed, **extra))

    for seed in seeds:
        obs = run_seed(seed, jobs, common.NPROC)
        lines = []
        owner = []
        for ci, ob in enumerate(obs):
            if 'error' in ob:
                mismatch('implementation raised ' + ob['error'], ci, seed)
                continue
            K = cases[ci][0]
            r = tup(ob['r'])
            cl_list = [tup(x) for x in ob['cl_list']]
            lines.append('LTLCLOSURE|' + sexpr(r))
            owner.append((ci, 'closure'))
            lines.append('LTLATOMS|%s|%s|%s' % (K.enc(), sexpr(r), ';'.join(sexpr(x) for x in cl_list)))
            owner.append((ci, 'impl-order'))
            # another admissible order: shuffle the ties
            keys = {tup(x[0]): x[2] for x in ob['closure']}
            groups = collections.defaultdict(list)
            for x in cl_list:
                groups[keys[x]].append(x)
            alt = []
            for k in sorted(groups):
                g = list(groups[k])
                rng.shuffle(g)
                alt += g
            lines.append('LTLATOMS|%s|%s|%s' % (K.enc(), sexpr(r), ';'.join(sexpr(x) for x in alt)))
            owner.append((ci, 'shuffled-order'))
        answers = lean_batch(lines)
        for (ci, what), line, ans in zip(owner, lines, answers):
            K, t, kind, cat = cases[ci]
            ob = obs[ci]
            if what == 'closure':
                lean_cl = {}
                for item in ans.split(';'):
                    k, sx = item.split(' ', 1)
                    lean_cl[sx.strip()] = int(k)
                impl_cl = {sexpr(tup(x[0])): x[2] for x in ob['closure']}
                stats['closures compared'] += 1
                if lean_cl != impl_cl:
                    mismatch('closure / sort keys differ', ci, seed, model=sorted(lean_cl.items()), impl=sorted(impl_cl.items()))
                for x in ob['closure']:
                    if x[1] != common.tree_depth(tup(x[0])):
                        mismatch('.height is not the structural height', ci, seed, formula=tree_str(tup(x[0])), height=x[1])
                continue
            if ans.startswith('bad-'):
                mismatch('driver answered ' + ans, ci, seed, line=line)
                continue
            kv, built, decl, A = parse_answer(ans)
            impl_atoms = collections.Counter((st, frozenset(sexpr(tup(f)) for f in fs)) for st, fs in ob['atoms'])
            impl_res = [str(s) for s in ob['checkE']]
            stats['atom lists compared (%s)' % what] += 1
            if kv['adm'] != 'true':
                mismatch('order not admissible for the model (%s)' % what, ci, seed)
            # with double negations the atoms depend on the order among ties: compare only under the implementation's order
            same_order = what == 'impl-order' or cat != 'nn'
            if same_order and A != impl_atoms:
                mismatch('atom multisets differ (%s)' % what, ci, seed,
                         only_model=[(s, sorted(f)) for (s, f) in (A - impl_atoms)][:3],
                         only_impl=[(s, sorted(f)) for (s, f) in (impl_atoms - A)][:3])
            if same_order and built != impl_res:
                mismatch('checkEBuilt differs from _checkE_path_formula (%s)' % what, ci, seed, model=built, impl=impl_res)
            if what == 'impl-order':
                stats['atoms'] += sum(impl_atoms.values())
                stats['dead atoms (model isDead)'] += int(kv['dead'])
                if max(impl_atoms.values()) > 1:
                    kinds_seen['duplicate atoms'] += 1
                cl_trees = [tup(x[0]) for x in ob['closure']]
                for st, fs in ob['atoms']:
                    ks = atom_kinds(cl_trees, [tup(f) for f in fs])
                    kinds_seen[(cat == 'nn' and 'nn: ' or '') + (' + '.join(ks) if ks else 'regular')] += 1
                if kind == 'ltl':
                    want = sorted(set(range(K.n)) - set(ob['checkE']))
                    stats['modelcheck answers compared'] += 1
                    if ob['mc'] != want:
                        mismatch('modelcheck is not the complement of _checkE_path_formula', ci, seed)
            if cat == 'nn':
                stats['double-negation cases (%s)' % what] += 1
                if built != decl or kv['inv'] != 'true':
                    stats['double-negation cases where built != declarative or invariant fails'] += 1
                    if built != decl and len(nn_diffs) < 5:
                        nn_diffs.append(dict(structure=K.describe(), formula=tree_str(tup(ob['r'])), built=built, declarative=decl))
            else:
                stats['invariant + built=declarative checks (%s)' % what] += 1
                if built != decl:
                    mismatch('checkEBuilt differs from the declarative checkE (%s)' % what, ci, seed, built=built, decl=decl)
                if kv['inv'] != 'true':
                    mismatch('atomsInvariantB fails (%s)' % what, ci, seed)
        print('seed %d done: %d mismatches so far' % (seed, len(mismatches)))

    print(json.dumps({'stats': stats, 'atom kinds (implementation atoms, implementation order)':
                      {str(k): v for k, v in kinds_seen.items()},
                      'double-negation differences (samples)': nn_diffs}, indent=1, sort_keys=True))
    for m in mismatches[:10]:
        print('MISMATCH ' + json.dumps(m, default=str)[:1500])
    print('mismatches: %d' % len(mismatches))
    return 1 if mismatches else 0


if __name__ == '__main__':
    sys.exit(main())
