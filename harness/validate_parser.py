"""Validation of the table-driven Lean parser model against the four real parsers.

    /venv/bin/python harness/validate_parser.py [seed[,seed…]] [count]

Regenerates lean/PMC/Generated/Grammar.lean from the live Lark objects, builds, generates `count` strings per seed
(plus a fixed exhaustive family around the quoted-string terminal and a few long inputs), feeds every string to
every parser (PL, CTL, LTL, CTLS) and to the Lean driver (`PARSE|logic|code points`) and compares

    verdict, formula tree (class names / atom names / child order), exception class, `pos`.

Streams: printed formulas of every logic (`str(obj)`), token renderings with random spelling / parenthesisation /
separators, token-level mutations (delete / insert / swap / replace), random token sequences, character-level
mutations and random character noise (quotes, backslashes, newlines, tabs, form feeds, non-ASCII).
Exit status 1 if there is any mismatch (or any outcome other than OK / UnexpectedToken / UnexpectedCharacters).
"""
import itertools
import os
import random
import sys
import time
import warnings

sys.path.insert(0, os.path.dirname(os.path.abspath(__file__)))
import common  # noqa: E402
from common import from_obj, lang, sexpr, to_obj  # noqa: E402
from gen import formulas as F  # noqa: E402

LOGICS = ('PL', 'CTL', 'LTL', 'CTLS')

ATOMS = ['p', 'q', 'r', 'Ab', 'x1', '_y', '_', 'AX', 'pU', 'trueish', 'nota', 'Gp', 'a_b_9', '"a b"', '"q\\"r"', '"A"',
         '""', '"\\\\"', '"x\\\\\\"y"', '"é λ"', '"tab\there"']
POOL = ['true', 'false', 'not', '~', 'or', '|', 'and', '&', '-->', 'A', 'E', 'X', 'F', 'G', 'U', 'R', '(', ')',
        'p', 'q', 'Ab', 'x1', '_y', '"a b"', '"q\\"r"', '$', '1', 'AX', 'pU', '-', '->', '"', '\n', '\t', '\\',
        '"A"', 'é', '--', '>', '-->-->', '()', 'EG', 'AF', 'true1', 'Not', 'OR', '\x0c', '\r', '9p', '_', '"\\"']
NOISE = list('pqAEXFGUR()~|&->" \\\n\t\r\x0c_019$.,;\'') + ['é', 'λ', '中', '\u00a0', '\u2028', '\U0001F600', '\x00',
                                                               '\x0b', '\x1c', '\x85', '!', '=', '<']
SPELL = {'not': ['not', '~'], 'or': ['or', '|'], 'and': ['and', '&'], 'imp': ['-->']}


# ------------------------------------------------------------------------------------------------ generators

def rand_tree(rng, logic):
    d = rng.choice([0, 1, 2, 2, 3, 3, 4])
    if logic == 'PL':
        return F.rand_pl(rng, d)
    if logic == 'CTL':
        t = F.rand_ctl(rng, d)
        if rng.random() < 0.2:   # a bare CTL path formula is accepted at top level
            t = (rng.choice(F.TEMP1), t) if rng.random() < 0.5 else (rng.choice(F.TEMP2), t, F.rand_ctl(rng, 1))
        return t
    if logic == 'LTL':
        t = F.rand_ltl_path(rng, d)
        return ('A', t) if rng.random() < 0.4 else t
    t = F.rand_ctls_state(rng, d)
    if rng.random() < 0.3:
        t = F.rand_ltl_path(rng, d)
    return t


def rename(rng, t):
    """replace the generator's atoms p/q by atoms of the pool"""
    if t in ('tt', 'ff'):
        return t
    if t[0] == 'ap':
        return ('ap', rng.choice(ATOMS)) if rng.random() < 0.5 else t
    return (t[0],) + tuple(rename(rng, c) for c in t[1:])


def tokens_of(rng, t, top=True):
    """concrete-syntax tokens of a tree (atom names of ATOMS are already in concrete form)"""
    if t == 'tt':
        return ['true']
    if t == 'ff':
        return ['false']
    op = t[0]
    if op == 'ap':
        return [t[1]]
    paren = (lambda ts: ['('] + ts + [')'])
    if op in ('not', 'X', 'F', 'G', 'A', 'E'):
        sym = rng.choice(SPELL[op]) if op in SPELL else op
        ts = [sym] + tokens_of(rng, t[1], False)
        return paren(ts) if rng.random() < 0.15 else ts
    sym = rng.choice(SPELL[op]) if op in SPELL else op
    ts = []
    for i, c in enumerate(t[1:]):
        if i:
            ts.append(rng.choice(SPELL[op]) if op in SPELL and rng.random() < 0.3 else sym)
        ts += tokens_of(rng, c, False)
    if top and rng.random() < 0.5:
        return ts
    return paren(ts) if rng.random() < 0.9 else ts


def join(rng, toks):
    mode = rng.random()
    if mode < 0.5:
        return ' '.join(toks)
    if mode < 0.7:
        # no blank where it is not needed to separate two words
        out = ''
        for t in toks:
            if out and (out[-1].isalnum() or out[-1] == '_') and (t[0].isalnum() or t[0] == '_'):
                out += ' '
            out += t
        return out
    seps = [' ', ' ', '', '  ', '\t', '\n', ' \r\n', '\x0c']
    return rng.choice(['', ' ', '\n']) + ''.join(t + rng.choice(seps) for t in toks)


def mutate_tokens(rng, toks):
    toks = list(toks)
    for _ in range(rng.choice([1, 1, 1, 2, 3])):
        k = rng.choice(['del', 'ins', 'swap', 'rep'])
        if k == 'del' and toks:
            del toks[rng.randrange(len(toks))]
        elif k == 'ins':
            toks.insert(rng.randint(0, len(toks)), rng.choice(POOL))
        elif k == 'swap' and len(toks) >= 2:
            i = rng.randrange(len(toks) - 1)
            toks[i], toks[i + 1] = toks[i + 1], toks[i]
        elif k == 'rep' and toks:
            toks[rng.randrange(len(toks))] = rng.choice(POOL)
    return toks


def mutate_chars(rng, s):
    s = list(s)
    for _ in range(rng.choice([1, 1, 2, 3])):
        k = rng.choice(['del', 'ins', 'rep'])
        if k == 'del' and s:
            del s[rng.randrange(len(s))]
        elif k == 'ins':
            s.insert(rng.randint(0, len(s)), rng.choice(NOISE))
        elif k == 'rep' and s:
            s[rng.randrange(len(s))] = rng.choice(NOISE)
    return ''.join(s)


def random_strings(rng, count):
    """(stream, string)"""
    out = []
    langs = {}
    with common.quiet():
        for n in LOGICS:
            langs[n] = lang(n)
    while len(out) < count:
        logic = rng.choice(LOGICS)
        t = rand_tree(rng, logic)
        kind = rng.random()
        if kind < 0.12:
            try:
                out.append(('printed', str(to_obj(t, langs[logic]))))
            except Exception:
                pass
            continue
        t = rename(rng, t)
        toks = tokens_of(rng, t)
        if kind < 0.40:
            out.append(('rendered', join(rng, toks)))
        elif kind < 0.62:
            out.append(('token-mutation', join(rng, mutate_tokens(rng, toks))))
        elif kind < 0.78:
            k = rng.randint(0, 9)
            out.append(('token-sequence', join(rng, [rng.choice(POOL) for _ in range(k)])))
        elif kind < 0.90:
            out.append(('char-mutation', mutate_chars(rng, join(rng, toks))))
        else:
            k = rng.randint(0, 12)
            out.append(('char-noise', ''.join(rng.choice(NOISE) for _ in range(k))))
    return out


def fixed_strings():
    out = []
    # everything over { " \ a newline } up to length 6: the quoted-string terminal
    for n in range(0, 7):
        for cs in itertools.product('"\\a\n', repeat=n):
            out.append(('quoted-exhaustive', ''.join(cs)))
    for s in ['"a\\"b"', '"a\\\\"', '"a\\\\\\"b"', '"unterminated', '"a\nb"', '"a" "b"', '"a"b"', 'p or "a\\\\" or q',
              '"\\"', '"\\\\" U "\\\\\\""', '"a\rb"', '"a\tb"', '"', '""', '"""', '""""', '"\\n"', 'A F G', 'A X A',
              '', ' ', '\n', 'p', 'true', 'false', 'truefalse', 'notp', 'not p', '~p', '~~p', 'p-->q', 'p--> q', 'p-- >q',
              'p - q', 'A', 'E', 'AE', 'A E', 'A G E F p', 'AG EF p', 'A(p U q)', 'A p U q', 'E p R q', 'A (p U q) U r',
              'p U q', 'p U q U r', 'X p', 'X X p', 'A X X p', '(((p)))', '((p) or (q))', '(p', 'p)', '()', 'p or', 'or p',
              'p or q and r', 'p or q or r', 'p | q or r', 'p & q and r', 'p and q | r', 'p --> q --> r', 'not not p',
              'not (p)', 'not(p)', 'A(G(p))', 'AG(p)', 'A G p', 'p\x0cq', 'p\x0bq', 'p\xa0q', 'é', 'pé', 'p é', '"é"',
              'true or false', 'True', 'TRUE', 'U', 'p U', 'U p', 'R', 'G', 'F', 'X', 'A A', 'A true', 'E false',
              'A(true U false)', 'A not p', 'A X not p', 'not A X p', 'not X p', 'X not p', '(X p)', '(A X p)', 'A (X p)',
              'A ((X p))', 'A (X (p))', 'p or (X q)', 'A (p or X q)', 'A (p or q) U r', 'E(p and q R r)', '1', 'p1', '1p',
              '_', '__', '_1', 'p$', '$p', 'p q', '"a" p', 'p "a"', 'p\\', '\\', 'A\\', 'p or \\', 'p or $', 'p or "x',
              'p or "x"', 'p "', 'p or "', '( "', 'A "', 'A X "', 'A X $', 'A X )', 'A X', 'A X p )', 'A X p $', 'A X p "']:
        out.append(('hand-written', s))
    # every special character on its own, between atoms, and inside quotes
    for c in NOISE + ['!', '#', '%', '*', '+', '/', '<', '=', '?', '@', '[', ']', '^', '`', '{', '}', '\x7f', 'ß', 'A\u0301']:
        for pat in ('%s', 'p%sq', 'p %s', '%s p', '"%s"', '"a%s', 'A X %s', '( %s )'):
            out.append(('special-chars', pat % c))
    # long inputs: the fuel bound and the stack discipline
    out.append(('long', '(' * 300 + 'p' + ')' * 300))
    out.append(('long', '(' * 300 + 'p' + ')' * 299))
    out.append(('long', ' or '.join(['p'] * 1500)))
    out.append(('long', ' and '.join(['(p | q)'] * 400)))
    out.append(('long', 'not ' * 500 + 'p'))
    out.append(('long', '~' * 500 + 'p'))
    out.append(('long', 'A X ' * 300 + 'p'))
    out.append(('long', 'A G E F ' * 150 + 'p'))
    out.append(('long', ' ' * 2000 + 'p' + '\n' * 2000))
    out.append(('long', ' ' * 2000 + '$'))
    out.append(('long', 'p ' * 1000))
    out.append(('long', '"' + 'a\\"' * 500 + '"'))
    out.append(('long', '"' + 'a\\"' * 500))
    return out


# ------------------------------------------------------------------------------------------------ the two sides

def real_outcome(parser, PP, s):
    try:
        with common.quiet():
            o = parser(s)
    except PP.UnexpectedToken as e:
        return 'ERR UnexpectedToken %d' % e.pos
    except PP.UnexpectedCharacters as e:
        return 'ERR UnexpectedCharacters %d' % e.pos
    except Exception as e:
        return 'OTHER %s %s' % (type(e).__name__, str(e)[:80].replace('\n', ' '))
    try:
        return 'OK ' + sexpr(from_obj(o))
    except RecursionError:
        return 'OK ' + sexpr_iter(o)   # the long inputs: same encoding, without recursion
    except Exception as e:
        return 'OTHER result of %s: %s' % (type(o), e)


def sexpr_iter(o):
    """`sexpr(from_obj(o))` with an explicit stack"""
    import pyModelChecking.language as BL
    out = []
    todo = [o]
    while todo:
        x = todo.pop()
        if isinstance(x, str):
            out.append(x)
        elif isinstance(x, BL.Bool):
            out.append('tt' if x._value else 'ff')
        elif type(x).__name__ == 'AtomicProposition':
            out.append('( ap %s )' % common.enc_name(x.name))
        else:
            out.append('( ' + common.OPNAME[type(x).__name__])
            todo.append(')')
            todo.extend(reversed(x._subformula))
    return ' '.join(out)


def kind_of(outcome):
    if outcome.startswith('OK '):
        return 'OK'
    if outcome.startswith('ERR UnexpectedToken '):
        return 'UnexpectedToken'
    if outcome.startswith('ERR UnexpectedCharacters '):
        return 'UnexpectedCharacters'
    return 'other'


def encode(s):
    return ' '.join(str(ord(c)) for c in s)


def main():
    seeds = [int(x) for x in sys.argv[1].split(',')] if len(sys.argv) > 1 else [1]   # `3` or `1,2,3`
    count = int(sys.argv[2]) if len(sys.argv) > 2 else 10000
    t0 = time.time()
    ok, log = common.ensure_built()
    print(log.splitlines()[0] if log.strip() else '')
    for line in log.splitlines():
        if 'larktables' in line or 'EXTRACT-FAILED' in line:
            print(line)
    if not ok:
        print('lake build failed:\n' + log[-3000:])
        return 2
    from pyModelChecking import parser as PP
    parsers = {}
    with common.quiet():
        for n in LOGICS:
            parsers[n] = lang(n).Parser()

    strings = fixed_strings()
    for seed in seeds:
        strings += random_strings(random.Random('parser/%d' % seed), count)
    # surrogates cannot be sent to the driver (not Unicode scalar values)
    strings = [(k, s) for k, s in strings if not any(0xD800 <= ord(c) <= 0xDFFF for c in s)]
    pairs = [(k, s, n) for k, s in strings for n in LOGICS]
    t1 = time.time()
    real = [real_outcome(parsers[n], PP, s) for k, s, n in pairs]
    t2 = time.time()
    model = common.lean_batch(['PARSE|%s|%s' % (n, encode(s)) for k, s, n in pairs])
    t3 = time.time()

    kinds = {}
    per_stream = {}
    per_logic = {n: {} for n in LOGICS}
    mism = []
    other = []
    for (k, s, n), a, b in zip(pairs, real, model):
        ka = kind_of(a)
        kinds[ka] = kinds.get(ka, 0) + 1
        per_stream.setdefault(k, {}).setdefault(ka, 0)
        per_stream[k][ka] += 1
        per_logic[n][ka] = per_logic[n].get(ka, 0) + 1
        if ka == 'other' or kind_of(b) == 'other':
            other.append((n, s, a, b))
        if a != b:
            what = 'verdict/class' if ka != kind_of(b) else ('tree' if ka == 'OK' else 'position')
            mism.append((what, n, s, a, b))
    print('seeds %s, %d strings (%d distinct), %d (string, parser) pairs' % (
        seeds, len(strings), len(set(s for _, s in strings)), len(pairs)))
    print('outcomes of the real parsers: ' + ', '.join('%s %d' % (k, kinds.get(k, 0)) for k in
                                                         ('OK', 'UnexpectedToken', 'UnexpectedCharacters', 'other')))
    for n in LOGICS:
        print('  %-4s %s' % (n, ', '.join('%s %d' % (k, per_logic[n].get(k, 0)) for k in
                                          ('OK', 'UnexpectedToken', 'UnexpectedCharacters', 'other'))))
    for k in sorted(per_stream):
        print('  %-17s %s' % (k, ', '.join('%s %d' % (x, per_stream[k].get(x, 0)) for x in
                                           ('OK', 'UnexpectedToken', 'UnexpectedCharacters', 'other'))))
    print('time: generate+build %.1fs, real parsers %.1fs, Lean driver %.1fs' % (t1 - t0, t2 - t1, t3 - t2))
    for n, s, a, b in other[:10]:
        print('OTHER %s %r\n   real : %s\n   model: %s' % (n, s[:200], a[:300], b[:300]))
    for what, n, s, a, b in mism[:25]:
        print('MISMATCH (%s) %s %r\n   real : %s\n   model: %s' % (what, n, s[:200], a[:300], b[:300]))
    print('mismatches: %d   other outcomes: %d' % (len(mism), len(other)))
    return 1 if (mism or other) else 0


if __name__ == '__main__':
    sys.exit(main())
