"""Observes the internals of pyModelChecking.LTL.model_checking in a fresh interpreter (so that PYTHONHASHSEED takes
effect).  stdin: JSON list of jobs {succ, labs, tree, kind}; stdout: JSON list of observations.

kind 'ltl'  : tree is an LTL path formula g; the formula handed to `_checkE_path_formula` is the one `modelcheck(K, A g)`
              computes, `LNot(g).get_equivalent_restricted_formula()`
kind 'rfm'  : tree is already in the restricted syntax {tt, ff, ap, not, or, X, U} and is used as it is

Observation: the restricted formula, `_get_closure` of it (with `.height` and the sort key of every member), the
list `cl_list` exactly as `_build_atoms` sorted it (captured by shadowing `sorted` in the module's namespace),
`_Tableu(K, closure=closure).atoms` as (state, [formula trees]), the tableau's edges, the result of
`_checkE_path_formula`, and for kind 'ltl' the result of `modelcheck`.  Formulas are reported as trees by class name
(`from_obj`), never through `==` / `str`.
"""
import contextlib
import io
import json
import os
import sys

sys.path.insert(0, os.environ.get('REPO', '/repo'))
sys.path.insert(0, os.path.dirname(os.path.dirname(os.path.abspath(__file__))))


def tup(t):
    return tuple(tup(x) for x in t) if isinstance(t, list) else t


def main():
    from common import KS, from_obj, to_obj
    from pyModelChecking import LTL
    from pyModelChecking.LTL import model_checking as MC
    from pyModelChecking.language import LNot
    import pyModelChecking.CTLS as CTLS

    captured = []

    def spy_sorted(xs, key=None):
        r = sorted(xs, key=key)
        captured.append((list(r), key))
        return r
    MC.sorted = spy_sorted   # `_build_atoms` looks `sorted` up in its module's globals first

    jobs = json.load(sys.stdin)
    out = []
    for j in jobs:
        try:
            tree = tup(j['tree'])
            with contextlib.redirect_stdout(io.StringIO()):
                K = KS(j['succ'], j['labs']).to_impl()
                if j['kind'] == 'ltl':
                    g = to_obj(tree, LTL)
                    r = LNot(g).get_equivalent_restricted_formula()
                else:
                    r = to_obj(tree, LTL)
                closure = MC._get_closure(r)
                del captured[:]
                T = MC._Tableu(K, closure=closure)
                assert len(captured) == 1
                cl_list, key = captured[0]
                res = MC._checkE_path_formula(K, r)
                ob = {
                    'r': from_obj(r),
                    'closure': [[from_obj(p), p.height, key(p)] for p in closure],
                    'cl_list': [from_obj(p) for p in cl_list],
                    'atoms': [[a.state, [from_obj(p) for p in a]] for a in T.atoms],
                    'nedges': sum(1 for _ in T.edges_iter()),
                    'checkE': sorted(res),
                }
                if j['kind'] == 'ltl':
                    ob['mc'] = sorted(LTL.modelcheck(K, LTL.A(g)))
            out.append(ob)
        except Exception as e:   # noqa
            out.append({'error': type(e).__name__ + ': ' + str(e)[:200]})
    json.dump(out, sys.stdout)


if __name__ == '__main__':
    main()
