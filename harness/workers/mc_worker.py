"""Runs model-checking jobs in a fresh interpreter (so that PYTHONHASHSEED takes effect).  stdin: JSON list of jobs,
stdout: JSON list of answers.  A job: {logic, formula (tree), states, R, L, S0, back, entry}: states are JSON values
(lists stand for tuples), back[i] is the canonical number of states[i] or null for an added state."""
import json
import os
import sys

sys.path.insert(0, os.environ.get('REPO', '/repo'))
sys.path.insert(0, os.path.dirname(os.path.dirname(os.path.abspath(__file__))))


def thaw(x):
    if isinstance(x, list):
        return tuple(thaw(y) for y in x)
    return x


def main():
    import contextlib
    import io
    from common import lang, to_obj
    from pyModelChecking.kripke import Kripke
    jobs = json.load(sys.stdin)
    out = []
    for j in jobs:
        try:
            states = [thaw(s) for s in j['states']]
            R = [(thaw(a), thaw(b)) for a, b in j['R']]
            Ld = {thaw(s): set(ls) for s, ls in j['L']}
            L = lang(j['logic'])
            tree = json.loads(json.dumps(j['formula']), object_hook=None)

            def tup(t):
                return tuple(tup(x) for x in t) if isinstance(t, list) else t
            tree = tup(tree)
            with contextlib.redirect_stdout(io.StringIO()):
                # S may list only part of the states: the others are introduced by R (every state has an outgoing edge)
                K = Kripke(S=[thaw(s) for s in j['states_arg']] if 'states_arg' in j else states, R=R, L=Ld)
                if j.get('entry') == 'text':
                    f = str(to_obj(tree, lang('CTLS') if j['logic'] == 'CTL' else L))
                else:
                    f = to_obj(tree, L)
                r = L.modelcheck(K, f)
            back = {s: b for s, b in zip(states, j['back'])}
            ans = sorted(back[s] for s in r if back[s] is not None)
            extra = sorted(str(s) for s in r if s not in back)
            out.append('OK ' + ' '.join(map(str, ans)) + (' FOREIGN ' + ','.join(extra) if extra else ''))
        except Exception as e:
            out.append('ERR ' + type(e).__name__)
    json.dump(out, sys.stdout)


if __name__ == '__main__':
    main()
