/-
  Line-protocol driver: one operation per line on stdin, one canonical answer per line on stdout.
  Imports only the import-free executable model, so it can be compiled (`lake build pmcdrv`).
-/
import PMC.Model.Graph
import PMC.Model.Syntax
import PMC.Model.Kripke
import PMC.Model.CTL
import PMC.Model.LTL
import PMC.Model.CTLS
import PMC.Model.BDD
import PMC.Model.Parser
import PMC.Generated.Grammar
import PMC.Model.Classes
import PMC.Model.Fair
import PMC.Model.LTLAtoms
import PMC.Generated.ClassTable
open PMC

/-! ### decoding -/

def words (s : String) : List String := (s.splitOn " ").filter (· ≠ "")

def natList (s : String) : List Nat := (words s).filterMap (·.toNat?)

/-- names: plain, or `~c1.c2.…` (code points) for anything outside [A-Za-z0-9_]; `~` alone is the empty name -/
def decName (s : String) : String :=
  if s.startsWith "~" then
    String.ofList (((s.drop 1).toString.splitOn ".").filterMap (fun t => t.toNat?.map Char.ofNat))
  else s

def encName (s : String) : String :=
  if !s.isEmpty && s.toList.all (fun c => c.isAlphanum || c == '_') then s
  else "~" ++ ".".intercalate (s.toList.map (fun c => toString c.toNat))

/-- graph: `v:s1 s2;v:…` in dict order -/
def decGraph (s : String) : Graph Nat :=
  ((s.splitOn ";").filter (· ≠ "")).filterMap (fun item =>
    match item.splitOn ":" with
    | [v, ss] => v.trimAscii.toString.toNat?.map (fun v => (v, natList ss))
    | _ => none)

def decPairs (s : String) : List (Nat × Nat) :=
  (words s).filterMap (fun t => match t.splitOn "-" with
    | [a, b] => match a.toNat?, b.toNat? with
      | some a, some b => some (a, b)
      | _, _ => none
    | _ => none)

/-- labels: `v:l1 l2;…` -/
def decLabels (s : String) : List (Nat × List String) :=
  ((s.splitOn ";").filter (· ≠ "")).filterMap (fun item =>
    match item.splitOn ":" with
    | [v, ls] => v.trimAscii.toString.toNat?.map (fun v => (v, (words ls).map decName))
    | _ => none)

/-- Kripke: `graph|labels` -/
def decKripke (g l : String) : Kripke Nat :=
  let gr := decGraph g
  let lb := decLabels l
  { states := gr.nodes, succ := gr.next, lab := KripkeD.labelOf lb }

/-! formulas as S-expressions, tokens separated by blanks: `( or ( ap p ) tt )` -/

partial def parseFm : List String → Option (Fm × List String)
  | "tt" :: r => some (.tt, r)
  | "ff" :: r => some (.ff, r)
  | "(" :: "ap" :: n :: ")" :: r => some (.ap (decName n), r)
  | "(" :: op :: r =>
    if op == "or" || op == "and" then
      match parseFms r with
      | some (fs, r') => some (if op == "or" then .or fs else .and fs, r')
      | none => none
    else if op == "imp" || op == "U" || op == "R" then
      match parseFm r with
      | some (f, r1) => match parseFm r1 with
        | some (g, ")" :: r2) =>
          some (if op == "imp" then .imp f g else if op == "U" then .U f g else .R f g, r2)
        | _ => none
      | none => none
    else
      match parseFm r with
      | some (f, ")" :: r1) =>
        (match op with
         | "not" => some (.not f, r1) | "X" => some (.X f, r1) | "F" => some (.F f, r1)
         | "G" => some (.G f, r1) | "A" => some (.A f, r1) | "E" => some (.E f, r1)
         | _ => none)
      | _ => none
  | _ => none
where
  parseFms : List String → Option (List Fm × List String)
    | ")" :: r => some ([], r)
    | ts => match parseFm ts with
      | some (f, r) => match parseFms r with
        | some (fs, r') => some (f :: fs, r')
        | none => none
      | none => none

def decFm (s : String) : Option Fm :=
  match parseFm (words s) with
  | some (f, []) => some f
  | _ => none

partial def encFm : Fm → String
  | .tt => "tt" | .ff => "ff"
  | .ap n => "( ap " ++ encName n ++ " )"
  | .not f => "( not " ++ encFm f ++ " )"
  | .or fs => "( or " ++ " ".intercalate (fs.map encFm) ++ " )"
  | .and fs => "( and " ++ " ".intercalate (fs.map encFm) ++ " )"
  | .imp f g => "( imp " ++ encFm f ++ " " ++ encFm g ++ " )"
  | .X f => "( X " ++ encFm f ++ " )" | .F f => "( F " ++ encFm f ++ " )" | .G f => "( G " ++ encFm f ++ " )"
  | .U f g => "( U " ++ encFm f ++ " " ++ encFm g ++ " )"
  | .R f g => "( R " ++ encFm f ++ " " ++ encFm g ++ " )"
  | .A f => "( A " ++ encFm f ++ " )" | .E f => "( E " ++ encFm f ++ " )"

def decLogic : String → Option Logic
  | "PL" => some .PL | "CTL" => some .CTL | "LTL" => some .LTL | "CTLS" => some .CTLS | _ => none

/-! ### encoding of answers -/

def sortNat (l : List Nat) : List Nat := (l.toArray.qsort (· < ·)).toList
def dedupSorted : List Nat → List Nat
  | a :: b :: r => if a = b then dedupSorted (b :: r) else a :: dedupSorted (b :: r)
  | l => l
def encSet (l : List Nat) : String := " ".intercalate ((dedupSorted (sortNat l)).map toString)
def encList (l : List Nat) : String := " ".intercalate (l.map toString)

def encExcept {α : Type} (enc : α → String) : Except Err α → String
  | .ok a => "OK " ++ enc a
  | .error e => "ERR " ++ e.name

def pairLt (a b : Nat × Nat) : Bool := a.1 < b.1 || (a.1 == b.1 && a.2 < b.2)
def encGraphCanon (g : Graph Nat) : String :=
  let es := (g.edges.toArray.qsort pairLt).toList
  encSet g.nodes ++ " / " ++ " ".intercalate (es.map (fun e => s!"{e.1}-{e.2}"))

def encKripkeD (K : KripkeD Nat) : String :=
  let labs := (K.labels.toArray.qsort (fun a b => a.1 < b.1)).toList
  encGraphCanon K.g ++ " / " ++ encSet K.s0 ++ " / " ++
    ";".intercalate (labs.map (fun p =>
      s!"{p.1}:" ++ " ".intercalate ((p.2.map encName).toArray.qsort (· < ·)).toList))


/-! ### BDD histories -/
open PMC.BDD in
partial def parseBExp : List String → Option (BExp × List String)
  | "bad" :: r => some (.bad, r)
  | "(" :: "c" :: b :: ")" :: r => some (.const (b == "1"), r)
  | "(" :: "v" :: i :: ")" :: r => some (.var i.toNat?, r)
  | "(" :: op :: r =>
    if op == "and" || op == "or" then
      match parseBExps r with
      | some (es, r') => some (if op == "and" then .and es else .or es, r')
      | none => none
    else if op == "band" || op == "bor" then
      match parseBExp r with
      | some (a, r1) => match parseBExp r1 with
        | some (b, ")" :: r2) => some (if op == "band" then .band a b else .bor a b, r2)
        | _ => none
      | none => none
    else if op == "not" then
      match parseBExp r with
      | some (a, ")" :: r1) => some (.not a, r1)
      | _ => none
    else none
  | _ => none
where
  parseBExps : List String → Option (List BExp × List String)
    | ")" :: r => some ([], r)
    | ts => match parseBExp ts with
      | some (e, r) => match parseBExps r with
        | some (es, r') => some (e :: es, r')
        | none => none
      | none => none

open PMC.BDD in
def encTree : BDD → String
  | .leaf b => if b then "1" else "0"
  | .node v lo hi => s!"( {v} {encTree lo} {encTree hi} )"

open PMC.BDD in
partial def encBExp : BExp → String
  | .const b => if b then "( c 1 )" else "( c 0 )"
  | .var (some i) => s!"( v {i} )"
  | .var none => "( v - )"
  | .not e => "( not " ++ encBExp e ++ " )"
  | .band a b => "( band " ++ encBExp a ++ " " ++ encBExp b ++ " )"
  | .bor a b => "( bor " ++ encBExp a ++ " " ++ encBExp b ++ " )"
  | .and es => "( and " ++ " ".intercalate (es.map encBExp) ++ " )"
  | .or es => "( or " ++ " ".intercalate (es.map encBExp) ++ " )"
  | .bad => "bad"

open PMC.BDD in
def dedupTrees (l : List BDD) : List BDD := l.foldl (fun acc t => if acc.contains t then acc else t :: acc) []

open PMC.BDD in
/-- run one history; the pool holds `none` for dropped / failed slots -/
def bddHistory (names : Array String) (ops : List String) : List String :=
  let name := fun i => names.getD i "?"
  let get (pool : Array (Option BDD)) (i : String) : Option BDD := (i.toNat?.bind (fun i => pool.getD i none))
  let (_, outs) := ops.foldl (fun (st : Array (Option BDD) × List String) op =>
    let (pool, outs) := st
    let ws := words op
    let push (r : Option BDD) (o : String) := (pool.push r, o :: outs)
    match ws with
    | "new" :: e =>
      (match parseBExp e with
       | some (e, []) => (match build e with
          | .ok t => push (some t) (encTree t)
          | .error .runtimeError => push none "ERR RuntimeError"
          | .error .syntaxError => push none "ERR SyntaxError")
       | _ => push none "bad-exp")
    | [bop, i, j] =>
      (match get pool i, get pool j with
       | some a, some b =>
         if bop == "and" then let t := band a b; push (some t) (encTree t)
         else if bop == "or" then let t := bor a b; push (some t) (encTree t)
         else if bop == "xor" then let t := bxor a b; push (some t) (encTree t)
         else if bop == "eq" then (pool, toString (decide (a = b)) :: outs)
         else (pool, "bad-op" :: outs)
       | _, _ => (pool, "bad-ref" :: outs))
    | ["inv", i] =>
      (match get pool i with
       | some a => let t := invert a; push (some t) (encTree t)
       | none => (pool, "bad-ref" :: outs))
    | ["restrict", i, v, b] =>
      (match get pool i, v.toNat? with
       | some a, some v => let t := restrict v (b == "1") a; push (some t) (encTree t)
       | _, _ => (pool, "bad-ref" :: outs))
    | ["drop", i] =>
      (match i.toNat? with
       | some i => (if i < pool.size then pool.set! i none else pool, "ok" :: outs)
       | none => (pool, "bad-ref" :: outs))
    | ["str", i] =>
      (match get pool i with
       | some a => (pool, printStr name a :: outs)
       | none => (pool, "bad-ref" :: outs))
    | ["exp", i] =>
      (match get pool i with
       | some a => (pool, encBExp (printExp a) :: outs)
       | none => (pool, "bad-ref" :: outs))
    | ["support", i] =>
      (match get pool i with
       | some a => (pool, encSet (support a) :: outs)
       | none => (pool, "bad-ref" :: outs))
    | ["nodes"] =>
      let live := dedupTrees ((pool.toList.filterMap id).flatMap subtrees)
      (pool, toString live.length :: outs)
    | _ => (pool, "bad-op" :: outs)) (#[], [])
  outs.reverse

/-- the generated Lark tables of a logic's parser -/
def tablesOf : Logic → Parser.Tables
  | .PL => Parser.tablesPL | .CTL => Parser.tablesCTL | .LTL => Parser.tablesLTL | .CTLS => Parser.tablesCTLS

/-- `PARSE|<logic>|<text>`: text as space-separated decimal code points (empty = empty string);
    answer `OK <S-expression>` or `ERR UnexpectedToken <pos>` / `ERR UnexpectedCharacters <pos>` -/
def decText (s : String) : List Char := (natList s).map Char.ofNat

/-! ### C08: construction, casts, guards (all with the table extracted from the live code)

  `CONSTRUCT|<M>|<sexpr>`                     build the tree with the classes of module M
  `CAST|<Mfrom>|<Mto>|<sexpr>`                `obj.cast_to(Mto)` for the object built in Mfrom
  `MIXED|<M>|<ClassName>|<M1> <sexpr1> ; <M2> <sexpr2> ; …`
                                              `M.ClassName(obj1, obj2, …)`, object i built in module Mi
                                              (`;`-separated operands, each "module, blank, S-expression")
  `GUARD|<CTL|LTL|CTLS>|<Mobj>|<sexpr>|<1|0>` type guards of `<checker>.modelcheck(K, obj)`, obj built in Mobj;
                                              the flag says whether the first argument is a Kripke structure
  answers: `OK` or `ERR <exception name>` -/

def encUnit : Except Err Unit → String
  | .ok () => "OK"
  | .error e => "ERR " ++ e.name

def decMixedOperand (s : String) : Option (Logic × Fm) :=
  match words s with
  | m :: rest =>
    match decLogic m, parseFm rest with
    | some m, some (f, []) => some (m, f)
    | _, _ => none
  | [] => none

def decMixedOperands (s : String) : Option (List (Logic × Fm)) :=
  ((s.splitOn ";").filter (fun t => !(words t).isEmpty)).mapM decMixedOperand

/-- fairness constraints `<F>`: `none` is `F=None`; `-` is the empty list of constraints `[]`; otherwise a
    `;`-separated list of sets, each a blank-separated list of state numbers, the empty set being written `e`
    (so `e` is `[set()]`, `0 1;e;2` is `[{0,1}, set(), {2}]`). -/
def decFair (s : String) : Option (List (List Nat)) :=
  let t := s.trimAscii.toString
  if t == "none" then none
  else if t == "-" then some []
  else some ((t.splitOn ";").map natList)

/-! ### LTL tableau atoms as the code builds them (PMC/Model/LTLAtoms.lean)

  `LTLCLOSURE|<sexpr>`                         closure of a restricted formula: `key sexpr;key sexpr;…`
  `LTLATOMS|<graph>|<labels>|<sexpr>|<order>`  `<order>` = the processing order `cl_list` as `;`-separated S-expressions
                                               (or `default`); answer
                                               `adm=<bool> inv=<bool> built=<states> decl=<states> atoms=<state>:<sexpr>,<sexpr>…;…`
  `LTLMCB|<graph>|<labels>|<sexpr>`            `modelcheckBuilt defaultOrder` -/

def decRFm (s : String) : Option LTL.RFm := (decFm s).bind LTL.toR

def encRFm (f : LTL.RFm) : String := encFm (LTL.ofR f)

def decOrder (g : LTL.RFm) (s : String) : Option (List LTL.RFm) :=
  if s.trimAscii.toString == "default" then some (LTL.defaultOrder g)
  else ((s.splitOn ";").filter (fun t => !(words t).isEmpty)).mapM decRFm

def encBAtoms (A : List (LTL.BAtom Nat)) : String :=
  ";".intercalate (A.map (fun a => s!"{a.1}:" ++ ",".intercalate (a.2.map encRFm)))

/-! ### dispatch -/

def step (line : String) : String :=
  match (line.trimAscii.toString.splitOn "|") with
  | ["SCC", g] => let g := decGraph g; ";".intercalate (g.sccs.map encList)
  | ["REACH", g, x] => encExcept encSet ((decGraph g).reachFrom (natList x))
  | ["SUB", g, x] => encGraphCanon ((decGraph g).subgraph (natList x))
  | ["REV", g] => encGraphCanon (decGraph g).reversed
  | ["CLONE", g] => encGraphCanon (decGraph g).clone
  | ["MKG", v, e] => encGraphCanon (Graph.mk (natList v) (decPairs e))
  | ["KRIPKE", s, s0, r, l, flags, bad] =>
      encExcept encKripkeD (KripkeD.make (natList s) (natList s0) (decPairs r) (decLabels l)
        (flags != "nodict") (fun v => (natList bad).contains v))
  | ["SUBSTRUCT", s, s0, r, l, v] =>
      encExcept encKripkeD (do
        let K ← KripkeD.make (natList s) (natList s0) (decPairs r) (decLabels l)
        K.substructure (natList v))
  | ["KCLONE", s, s0, r, l] =>
      encExcept encKripkeD (do
        let K ← KripkeD.make (natList s) (natList s0) (decPairs r) (decLabels l)
        K.clone)
  | ["CTL", g, l, f] =>
      (match decFm f with
       | some f => encExcept encSet (CTL.modelcheck (decKripke g l) f)
       | none => "bad-formula")
  | ["LTL", g, l, f] =>
      (match decFm f with
       | some f => encExcept encSet (LTL.modelcheck (decKripke g l) f)
       | none => "bad-formula")
  | ["CTLS", g, l, f] =>
      (match decFm f with
       | some f => encExcept encSet (CTLS.modelcheck (decKripke g l) f)
       | none => "bad-formula")
  | ["CTLSNAMES", g, l, f] =>
      (match decFm f with
       | some f => toString (CTLS.namesOK (decKripke g l) f)
       | none => "bad-formula")
  | ["RESTRICT", m, f] =>
      (match decLogic m, decFm f with
       | some .CTL, some f => encFm f.restrictCTL
       | some _, some f => encFm f.restrict
       | _, _ => "bad-op")
  | ["LNOT", f] => (match decFm f with | some f => encFm f.lnot | none => "bad-formula")
  | ["PRINT", m, f] =>
      (match decLogic m, decFm f with
       | some m, some f => Fm.printIn m f
       | _, _ => "bad-op")
  | ["ISRESTR", m, f] =>
      (match decLogic m, decFm f with
       | some .CTL, some f => toString f.isRestrictedCTL
       | some _, some f => toString f.isRestricted
       | _, _ => "bad-op")
  | ["INLOGIC", m, f] =>
      (match decLogic m, decFm f with
       | some m, some f => toString (Fm.inLogic m f)
       | _, _ => "bad-op")
  | ["EQ", m, f, g] =>
      (match decLogic m, decFm f, decFm g with
       | some m, some f, some g => s!"{Fm.pyEq m f g} {f.beq g}"
       | _, _, _ => "bad-op")
  | ["PARSE", m, text] =>
      (match decLogic m with
       | some m => encExcept encFm (Parser.parse (tablesOf m) (decText text))
       | none => "bad-op")
  | ["CONSTRUCT", m, f] =>
      (match decLogic m, decFm f with
       | some m, some f => encUnit (Classes.construct Classes.generatedTable m f)
       | _, _ => "bad-op")
  | ["CAST", m1, m2, f] =>
      (match decLogic m1, decLogic m2, decFm f with
       | some m1, some m2, some f => encUnit (Classes.castTo Classes.generatedTable m1 m2 f)
       | _, _, _ => "bad-op")
  | ["MIXED", m, op, kids] =>
      (match decLogic m, decMixedOperands kids with
       | some m, some kids => encUnit (Classes.constructMixed Classes.generatedTable m op.trimAscii.toString kids)
       | _, _ => "bad-op")
  | ["GUARD", chk, m, f, k] =>
      (match decLogic m, decFm f with
       | some m, some f =>
         let k := k.trimAscii.toString == "1"
         (match chk with
          | "CTL" => encUnit (Classes.guardCTL Classes.generatedTable m f k)
          | "LTL" => encUnit (Classes.guardLTL Classes.generatedTable m f k)
          | "CTLS" => encUnit (Classes.guardCTLS Classes.generatedTable m f k)
          | _ => "bad-op")
       | _, _ => "bad-op")
  | ["FAIRSTATES", g, l, fc] =>
      (match decFair fc with
       | some F =>
         let K := decKripke g l
         "impl: " ++ encSet (Fair.fairStatesImpl K F) ++ " spec: " ++ encSet (Fair.fairStatesSpec K F)
       | none => "bad-op")
  | ["FAIRLABEL", g, l] => encName (Fair.fairLabel (decKripke g l))
  | ["CTLF", g, l, fc, f] =>
      (match decFm f with
       | some f => encExcept encSet (CTL.modelcheckF (decKripke g l) (decFair fc) f)
       | none => "bad-formula")
  | ["LTLF", g, l, fc, f] =>
      (match decFm f with
       | some f => encExcept encSet (LTL.modelcheckF (decKripke g l) (decFair fc) f)
       | none => "bad-formula")
  | ["CTLSF", g, l, fc, f] =>
      (match decFm f with
       | some f => encExcept encSet (CTLS.modelcheckF (decKripke g l) (decFair fc) f)
       | none => "bad-formula")
  | ["NONFAIR", m, fair, f] =>
      (match decLogic m, decFm f with
       | some .CTL, some f => encExcept encFm (Fair.nonFairCTL (decName fair) f)
       | some _, some f => encFm (Fair.nonFairCTLS (decName fair) f)
       | _, _ => "bad-op")
  | ["LTLCLOSURE", f] =>
      (match decRFm f with
       | some g => ";".intercalate ((LTL.closure g).map (fun φ => s!"{LTL.sortKey φ} " ++ encRFm φ))
       | none => "bad-formula")
  | ["LTLATOMS", g, l, f, ord] =>
      (match decRFm f with
       | some r =>
         (match decOrder r ord with
          | some cl =>
            let K := decKripke g l
            s!"adm={LTL.admissibleB r cl} inv={LTL.atomsInvariantB K cl} dead={((LTL.buildAtoms K cl).filter (LTL.isDead cl)).length} built=" ++ encSet (LTL.checkEBuilt K r cl) ++
              " decl=" ++ encSet (LTL.checkE K r) ++ " atoms=" ++ encBAtoms (LTL.buildAtoms K cl)
          | none => "bad-order")
       | none => "bad-formula")
  | ["LTLMCB", g, l, f] =>
      (match decFm f with
       | some f => encExcept encSet (LTL.modelcheckBuilt LTL.defaultOrder (decKripke g l) f)
       | none => "bad-formula")
  | ["BDD", names, ops] =>
      " ; ".intercalate (bddHistory (words names).toArray ((ops.splitOn ";").map (·.trimAscii.toString)))
  | _ => "bad-op"

partial def loop (h : IO.FS.Stream) (out : IO.FS.Stream) : IO Unit := do
  let line ← h.getLine
  if line.isEmpty then return ()
  out.putStrLn (step line)
  loop h out

def main : IO Unit := do
  let out ← IO.getStdout
  loop (← IO.getStdin) out
  out.flush
