/-
  Line-protocol driver: one operation per line on stdin, one canonical answer per line on stdout.
  Imports only the import-free executable model, so it can be compiled (`lake build pmcdrv`).
-/
import PMC.Model.Graph
import PMC.Model.Syntax
import PMC.Model.Kripke
import PMC.Model.CTL
import PMC.Model.CTLMemo
import PMC.Model.LTL
import PMC.Model.CTLS
import PMC.Model.BDD
import PMC.Model.Parser
import PMC.Generated.Grammar
import PMC.Model.Classes
import PMC.Model.Fair
import PMC.Model.LTLAtoms
import PMC.Model.BDDApi
import PMC.Generated.ClassTable
import PMC.Model.FormulaApi
import PMC.Model.KripkeApi
open PMC

/-! ### decoding -/

def words (s : String) : List String := (s.splitOn " ").filter (· ≠ "")

def natList (s : String) : List Nat := (words s).filterMap (·.toNat?)

/-- names: plain, or `~c1.c2.…` (code points) for anything outside [A-Za-z0-9_]; `~` alone is the empty name -/
def decName (s : String) : String :=
  if s.startsWith "~" then
    String.ofList (((s.drop 1).toString.splitOn ".").filterMap (fun t => t.toNat?.map Char.ofNat))
  else s

def encName (s : String) : String :=
  if !s.isEmpty && s.toList.all (fun c => c.isAlphanum || c == '_') then s
  else "~" ++ ".".intercalate (s.toList.map (fun c => toString c.toNat))

/-- graph: `v:s1 s2;v:…` in dict order -/
def decGraph (s : String) : Graph Nat :=
  ((s.splitOn ";").filter (· ≠ "")).filterMap (fun item =>
    match item.splitOn ":" with
    | [v, ss] => v.trimAscii.toString.toNat?.map (fun v => (v, natList ss))
    | _ => none)

def decPairs (s : String) : List (Nat × Nat) :=
  (words s).filterMap (fun t => match t.splitOn "-" with
    | [a, b] => match a.toNat?, b.toNat? with
      | some a, some b => some (a, b)
      | _, _ => none
    | _ => none)

/-- labels: `v:l1 l2;…` -/
def decLabels (s : String) : List (Nat × List String) :=
  ((s.splitOn ";").filter (· ≠ "")).filterMap (fun item =>
    match item.splitOn ":" with
    | [v, ls] => v.trimAscii.toString.toNat?.map (fun v => (v, (words ls).map decName))
    | _ => none)

/-- Kripke: `graph|labels` -/
def decKripke (g l : String) : Kripke Nat :=
  let gr := decGraph g
  let lb := decLabels l
  { states := gr.nodes, succ := gr.next, lab := KripkeD.labelOf lb }

/-! formulas as S-expressions, tokens separated by blanks: `( or ( ap p ) tt )` -/

partial def parseFm : List String → Option (Fm × List String)
  | "tt" :: r => some (.tt, r)
  | "ff" :: r => some (.ff, r)
  | "(" :: "ap" :: n :: ")" :: r => some (.ap (decName n), r)
  | "(" :: op :: r =>
    if op == "or" || op == "and" then
      match parseFms r with
      | some (fs, r') => some (if op == "or" then .or fs else .and fs, r')
      | none => none
    else if op == "imp" || op == "U" || op == "R" then
      match parseFm r with
      | some (f, r1) => match parseFm r1 with
        | some (g, ")" :: r2) =>
          some (if op == "imp" then .imp f g else if op == "U" then .U f g else .R f g, r2)
        | _ => none
      | none => none
    else
      match parseFm r with
      | some (f, ")" :: r1) =>
        (match op with
         | "not" => some (.not f, r1) | "X" => some (.X f, r1) | "F" => some (.F f, r1)
         | "G" => some (.G f, r1) | "A" => some (.A f, r1) | "E" => some (.E f, r1)
         | _ => none)
      | _ => none
  | _ => none
where
  parseFms : List String → Option (List Fm × List String)
    | ")" :: r => some ([], r)
    | ts => match parseFm ts with
      | some (f, r) => match parseFms r with
        | some (fs, r') => some (f :: fs, r')
        | none => none
      | none => none

def decFm (s : String) : Option Fm :=
  match parseFm (words s) with
  | some (f, []) => some f
  | _ => none

partial def encFm : Fm → String
  | .tt => "tt" | .ff => "ff"
  | .ap n => "( ap " ++ encName n ++ " )"
  | .not f => "( not " ++ encFm f ++ " )"
  | .or fs => "( or " ++ " ".intercalate (fs.map encFm) ++ " )"
  | .and fs => "( and " ++ " ".intercalate (fs.map encFm) ++ " )"
  | .imp f g => "( imp " ++ encFm f ++ " " ++ encFm g ++ " )"
  | .X f => "( X " ++ encFm f ++ " )" | .F f => "( F " ++ encFm f ++ " )" | .G f => "( G " ++ encFm f ++ " )"
  | .U f g => "( U " ++ encFm f ++ " " ++ encFm g ++ " )"
  | .R f g => "( R " ++ encFm f ++ " " ++ encFm g ++ " )"
  | .A f => "( A " ++ encFm f ++ " )" | .E f => "( E " ++ encFm f ++ " )"

def decLogic : String → Option Logic
  | "PL" => some .PL | "CTL" => some .CTL | "LTL" => some .LTL | "CTLS" => some .CTLS | _ => none

/-! ### encoding of answers -/

def sortNat (l : List Nat) : List Nat := (l.toArray.qsort (· < ·)).toList
def dedupSorted : List Nat → List Nat
  | a :: b :: r => if a = b then dedupSorted (b :: r) else a :: dedupSorted (b :: r)
  | l => l
def encSet (l : List Nat) : String := " ".intercalate ((dedupSorted (sortNat l)).map toString)
def encList (l : List Nat) : String := " ".intercalate (l.map toString)

def encExcept {α : Type} (enc : α → String) : Except Err α → String
  | .ok a => "OK " ++ enc a
  | .error e => "ERR " ++ e.name

def pairLt (a b : Nat × Nat) : Bool := a.1 < b.1 || (a.1 == b.1 && a.2 < b.2)
def encGraphCanon (g : Graph Nat) : String :=
  let es := (g.edges.toArray.qsort pairLt).toList
  encSet g.nodes ++ " / " ++ " ".intercalate (es.map (fun e => s!"{e.1}-{e.2}"))

def encKripkeD (K : KripkeD Nat) : String :=
  let labs := (K.labels.toArray.qsort (fun a b => a.1 < b.1)).toList
  encGraphCanon K.g ++ " / " ++ encSet K.s0 ++ " / " ++
    ";".intercalate (labs.map (fun p =>
      s!"{p.1}:" ++ " ".intercalate ((p.2.map encName).toArray.qsort (· < ·)).toList))


/-! ### BDD histories -/
open PMC.BDD in
partial def parseBExp : List String → Option (BExp × List String)
  | "bad" :: r => some (.bad, r)
  | "(" :: "c" :: b :: ")" :: r => some (.const (b == "1"), r)
  | "(" :: "v" :: i :: ")" :: r => some (.var i.toNat?, r)
  | "(" :: op :: r =>
    if op == "and" || op == "or" then
      match parseBExps r with
      | some (es, r') => some (if op == "and" then .and es else .or es, r')
      | none => none
    else if op == "band" || op == "bor" then
      match parseBExp r with
      | some (a, r1) => match parseBExp r1 with
        | some (b, ")" :: r2) => some (if op == "band" then .band a b else .bor a b, r2)
        | _ => none
      | none => none
    else if op == "not" then
      match parseBExp r with
      | some (a, ")" :: r1) => some (.not a, r1)
      | _ => none
    else none
  | _ => none
where
  parseBExps : List String → Option (List BExp × List String)
    | ")" :: r => some ([], r)
    | ts => match parseBExp ts with
      | some (e, r) => match parseBExps r with
        | some (es, r') => some (e :: es, r')
        | none => none
      | none => none

open PMC.BDD in
def encTree : BDD → String
  | .leaf b => if b then "1" else "0"
  | .node v lo hi => s!"( {v} {encTree lo} {encTree hi} )"

open PMC.BDD in
partial def encBExp : BExp → String
  | .const b => if b then "( c 1 )" else "( c 0 )"
  | .var (some i) => s!"( v {i} )"
  | .var none => "( v - )"
  | .not e => "( not " ++ encBExp e ++ " )"
  | .band a b => "( band " ++ encBExp a ++ " " ++ encBExp b ++ " )"
  | .bor a b => "( bor " ++ encBExp a ++ " " ++ encBExp b ++ " )"
  | .and es => "( and " ++ " ".intercalate (es.map encBExp) ++ " )"
  | .or es => "( or " ++ " ".intercalate (es.map encBExp) ++ " )"
  | .bad => "bad"

open PMC.BDD in
def dedupTrees (l : List BDD) : List BDD := l.foldl (fun acc t => if acc.contains t then acc else t :: acc) []

open PMC.BDD in
/-- run one history; the pool holds `none` for dropped / failed slots -/
def bddHistory (names : Array String) (ops : List String) : List String :=
  let name := fun i => names.getD i "?"
  let get (pool : Array (Option BDD)) (i : String) : Option BDD := (i.toNat?.bind (fun i => pool.getD i none))
  let (_, outs) := ops.foldl (fun (st : Array (Option BDD) × List String) op =>
    let (pool, outs) := st
    let ws := words op
    let push (r : Option BDD) (o : String) := (pool.push r, o :: outs)
    match ws with
    | "new" :: e =>
      (match parseBExp e with
       | some (e, []) => (match build e with
          | .ok t => push (some t) (encTree t)
          | .error .runtimeError => push none "ERR RuntimeError"
          | .error .syntaxError => push none "ERR SyntaxError")
       | _ => push none "bad-exp")
    | [bop, i, j] =>
      (match get pool i, get pool j with
       | some a, some b =>
         if bop == "and" then let t := band a b; push (some t) (encTree t)
         else if bop == "or" then let t := bor a b; push (some t) (encTree t)
         else if bop == "xor" then let t := bxor a b; push (some t) (encTree t)
         else if bop == "eq" then (pool, toString (decide (a = b)) :: outs)
         else (pool, "bad-op" :: outs)
       | _, _ => (pool, "bad-ref" :: outs))
    | ["inv", i] =>
      (match get pool i with
       | some a => let t := invert a; push (some t) (encTree t)
       | none => (pool, "bad-ref" :: outs))
    | ["restrict", i, v, b] =>
      (match get pool i, v.toNat? with
       | some a, some v => let t := restrict v (b == "1") a; push (some t) (encTree t)
       | _, _ => (pool, "bad-ref" :: outs))
    | ["drop", i] =>
      (match i.toNat? with
       | some i => (if i < pool.size then pool.set! i none else pool, "ok" :: outs)
       | none => (pool, "bad-ref" :: outs))
    | ["str", i] =>
      (match get pool i with
       | some a => (pool, printStr name a :: outs)
       | none => (pool, "bad-ref" :: outs))
    | ["exp", i] =>
      (match get pool i with
       | some a => (pool, encBExp (printExp a) :: outs)
       | none => (pool, "bad-ref" :: outs))
    | ["support", i] =>
      (match get pool i with
       | some a => (pool, encSet (support a) :: outs)
       | none => (pool, "bad-ref" :: outs))
    | ["nodes"] =>
      let live := dedupTrees ((pool.toList.filterMap id).flatMap subtrees)
      (pool, toString live.length :: outs)
    | _ => (pool, "bad-op" :: outs)) (#[], [])
  outs.reverse

/-- the generated Lark tables of a logic's parser -/
def tablesOf : Logic → Parser.Tables
  | .PL => Parser.tablesPL | .CTL => Parser.tablesCTL | .LTL => Parser.tablesLTL | .CTLS => Parser.tablesCTLS

/-- `PARSE|<logic>|<text>`: text as space-separated decimal code points (empty = empty string);
    answer `OK <S-expression>` or `ERR UnexpectedToken <pos>` / `ERR UnexpectedCharacters <pos>` -/
def decText (s : String) : List Char := (natList s).map Char.ofNat

/-! ### C08: construction, casts, guards (all with the table extracted from the live code)

  `CONSTRUCT|<M>|<sexpr>`                     build the tree with the classes of module M
  `CAST|<Mfrom>|<Mto>|<sexpr>`                `obj.cast_to(Mto)` for the object built in Mfrom
  `MIXED|<M>|<ClassName>|<M1> <sexpr1> ; <M2> <sexpr2> ; …`
                                              `M.ClassName(obj1, obj2, …)`, object i built in module Mi
                                              (`;`-separated operands, each "module, blank, S-expression")
  `GUARD|<CTL|LTL|CTLS>|<Mobj>|<sexpr>|<1|0>` type guards of `<checker>.modelcheck(K, obj)`, obj built in Mobj;
                                              the flag says whether the first argument is a Kripke structure
  answers: `OK` or `ERR <exception name>` -/

def encUnit : Except Err Unit → String
  | .ok () => "OK"
  | .error e => "ERR " ++ e.name

def decMixedOperand (s : String) : Option (Logic × Fm) :=
  match words s with
  | m :: rest =>
    match decLogic m, parseFm rest with
    | some m, some (f, []) => some (m, f)
    | _, _ => none
  | [] => none

def decMixedOperands (s : String) : Option (List (Logic × Fm)) :=
  ((s.splitOn ";").filter (fun t => !(words t).isEmpty)).mapM decMixedOperand

/-- fairness constraints `<F>`: `none` is `F=None`; `-` is the empty list of constraints `[]`; otherwise a
    `;`-separated list of sets, each a blank-separated list of state numbers, the empty set being written `e`
    (so `e` is `[set()]`, `0 1;e;2` is `[{0,1}, set(), {2}]`). -/
def decFair (s : String) : Option (List (List Nat)) :=
  let t := s.trimAscii.toString
  if t == "none" then none
  else if t == "-" then some []
  else some ((t.splitOn ";").map natList)

/-! ### LTL tableau atoms as the code builds them (PMC/Model/LTLAtoms.lean)

  `LTLCLOSURE|<sexpr>`                         closure of a restricted formula: `key sexpr;key sexpr;…`
  `LTLATOMS|<graph>|<labels>|<sexpr>|<order>`  `<order>` = the processing order `cl_list` as `;`-separated S-expressions
                                               (or `default`); answer
                                               `adm=<bool> inv=<bool> built=<states> decl=<states> atoms=<state>:<sexpr>,<sexpr>…;…`
  `LTLMCB|<graph>|<labels>|<sexpr>`            `modelcheckBuilt defaultOrder` -/

def decRFm (s : String) : Option LTL.RFm := (decFm s).bind LTL.toR

def encRFm (f : LTL.RFm) : String := encFm (LTL.ofR f)

def decOrder (g : LTL.RFm) (s : String) : Option (List LTL.RFm) :=
  if s.trimAscii.toString == "default" then some (LTL.defaultOrder g)
  else ((s.splitOn ";").filter (fun t => !(words t).isEmpty)).mapM decRFm

def encBAtoms (A : List (LTL.BAtom Nat)) : String :=
  ";".intercalate (A.map (fun a => s!"{a.1}:" ++ ",".intercalate (a.2.map encRFm)))

/-! ### the rest of the OBDD API (PMC/Model/BDDApi.lean)

  names are encoded as everywhere (`encName`); a string answer (`str`) is its code points joined by `.` (`-` when empty)

  `ORDERING|<names>|<op>;<op>;…`   `ListOrdering([names])`, then the operations on it
        answer: `ERR RuntimeError` (a repeated variable), or `OK ; <answer> ; …` with
        `contains x` -> true/false        `cmp x y` -> `OK <int>` / `ERR RuntimeError`      `inorder x y` -> `OK true|false` / `ERR RuntimeError`
        `list` -> the names of `get_list()`      `str` -> `__str__`      `eq <names>` -> `==` with `ListOrdering([names])`
        `eqother` -> `==` with three things that are not a ListOrdering (an object, None, the list itself)
  `RESPECT|<names>|<named tree>`   `node.respect_ordering(ListOrdering([names]))`; named tree: `0` | `1` | `( name lo hi )`
        answer `OK true|false` / `ERR RuntimeError`
  `OBDDAPI|<stmt>;<stmt>;…|<exp0>|<exp1>|…`   a session over a pool of values; `<expK>` are expression S-expressions
        (as in `BDD|…`, variables as positions in the ordering the expression is parsed under, `-` when missing)
     value tokens: `i<int>` int, `bT`/`bF` bool, `f<int>` the float <int>.0, `h<int>` the float <int>.5, `s<name>` str,
        `N` None, `l<name>,<name>,…` a list of str (`l` = []), `U` a tuple of length ≠ 1, `X` some other object,
        `$k` the k-th pool value
     statements (each pushes its result — or the failure — on the pool unless said otherwise):
        `node a1 … an`  BDDNode(a1, …, an)        `term a`  BDDTerminalNode(a)       `nonterm s<var> lo hi`  BDDNonTerminalNode(…)
        `mkord a`  Ordering(a)  (a ListOrdering for a list, None otherwise)
        `obdd <bfunct> <ordering> <0|1>`  OBDD(bfunct, ordering, check_ordering); bfunct: a value token, `e<K>` (the str
             whose expression is <expK>), or `L<K>:<name>,<name>,…` (the str `lambda names: <expK>`); ordering: a value token
        `restrict $i var value`   `nrestrict $i var value` (BDDNode.restrict)   `and|or|xor $i a`   `inv $i`
        not pushed:  `eq|ne|req $i a` -> true/false   `vars $i` -> names (sorted)   `str $i` -> code points
             `tval $i` -> `.value` of the terminal node `$i` as `<type> <true|false>` (always `bool …`, see `NBDD.value`)
        `fresh` (not pushed, answers ok): from here on no terminal node exists yet (a fresh interpreter); the model
             has no such state (a terminal holds `bool(value)` whatever it is first requested with)
     answers: `node <tree>`, `obdd <N | l<names>> : <tree>`, `ordering l<names>`, `None`, `ERR <exception>`,
        `unmodelled` (a non-str variable), `bad-ref` / `bad-op` (malformed statement)
  `STORE|<op>;<op>;…`   the unique table; refs are `T0`, `T1`, `#<id>`
        `mk <var:nat> <lo> <hi>` -> the ref returned      `gc <id> <id> …` (the ids that stay) -> ok
        `desc <ref>` / `anc <ref>` / `nodes` -> the set of refs (terminals first, then ids ascending) -/

open PMC.BDD in
partial def parseNTree : List String → Option (NBDD × List String)
  | "0" :: r => some (.leaf false, r)
  | "1" :: r => some (.leaf true, r)
  | "(" :: n :: r =>
    match parseNTree r with
    | some (lo, r1) => match parseNTree r1 with
      | some (hi, ")" :: r2) => some (.node (decName n) lo hi, r2)
      | _ => none
    | none => none
  | _ => none

open PMC.BDD in
def encNTree : NBDD → String
  | .leaf b => if b then "1" else "0"
  | .node v lo hi => s!"( {encName v} {encNTree lo} {encNTree hi} )"

def encText (s : String) : String :=
  if s.isEmpty then "-" else ".".intercalate (s.toList.map (fun c => toString c.toNat))

def decNames (s : String) : List String := (words s).map decName

def decNameList (s : String) : List String := ((s.splitOn ",").filter (· ≠ "")).map decName

def encNameList (l : List String) : String := "l" ++ ",".intercalate (l.map encName)

def encErr (e : Err) : String := "ERR " ++ e.name

def sortStr (l : List String) : List String := (l.toArray.qsort (· < ·)).toList
def dedupStr : List String → List String
  | a :: b :: r => if a = b then dedupStr (b :: r) else a :: dedupStr (b :: r)
  | l => l

open PMC.BDD in
def orderingOps (names : List String) (ops : List String) : String :=
  match Ordering.make names with
  | .error e => encErr e
  | .ok O =>
    let one (op : String) : String :=
      match words op with
      | ["contains", x] => toString (Ordering.contains O (decName x))
      | ["cmp", x, y] => encExcept (fun (d : Int) => toString d) (Ordering.cmp O (decName x) (decName y))
      | ["inorder", x, y] => encExcept (fun (b : Bool) => toString b) (Ordering.inOrder O (decName x) (decName y))
      | ["list"] => " ".intercalate ((Ordering.getList O).map encName)
      | ["str"] => encText (Ordering.str O)
      | "eq" :: ns =>
        (match Ordering.make (ns.map decName) with
         | .ok O2 => toString (Ordering.eqv O O2)
         | .error e => encErr e)
      | ["eqother"] => toString (Ordering.eqPy O .other) ++ " " ++ toString (Ordering.eqPy O .none) ++ " " ++
          toString (Ordering.eqPy O (.strList O))
      | _ => "bad-op"
    " ; ".intercalate ("OK" :: ops.map one)

open PMC.BDD in
def decVal (pool : Array (Option PyVal)) (t : String) : Option PyVal :=
  if t == "N" then some .none
  else if t == "X" then some .other
  else if t == "U" then some .tuple
  else if t == "bT" then some (.bool true)
  else if t == "bF" then some (.bool false)
  else if t.startsWith "$" then ((t.drop 1).toString.toNat?).bind (fun i => pool.getD i none)
  else if t.startsWith "i" then ((t.drop 1).toString.toInt?).map PyVal.int
  else if t.startsWith "f" then ((t.drop 1).toString.toInt?).map (fun n => PyVal.float n false)
  else if t.startsWith "h" then ((t.drop 1).toString.toInt?).map (fun n => PyVal.float n true)
  else if t.startsWith "s" then some (.str (decName (t.drop 1).toString))
  else if t.startsWith "l" then some (.strList (decNameList (t.drop 1).toString))
  else none

open PMC.BDD in
def encVal : PyVal → String
  | .node t => "node " ++ encNTree t
  | .obdd o => "obdd " ++ (match o.ordering with | some O => encNameList O | none => "N") ++ " : " ++ encNTree o.root
  | .ordering O => "ordering " ++ encNameList O
  | .none => "None"
  | _ => "value"

open PMC.BDD in
def ordArgOf : PyVal → OrdArg
  | .none => .none
  | .strList l => .list l
  | .ordering O => .ordering O
  | .tuple => .tuple
  | _ => .other

open PMC.BDD in
def apiSession (stmts : List String) (exps : Array String) : List String :=
  let getExp (k : String) : Option BExp :=
    (k.toNat?.bind (fun k => exps[k]?)).bind (fun e => match parseBExp (words e) with | some (e, []) => some e | _ => none)
  let decBf (pool : Array (Option PyVal)) (t : String) : Option Bfunct :=
    if t.startsWith "e" then (getExp (t.drop 1).toString).map Bfunct.expr
    else if t.startsWith "L" then
      match (t.drop 1).toString.splitOn ":" with
      | [k, args] => (getExp k).map (Bfunct.lam (decNameList args))
      | _ => none
    else (decVal pool t).map Bfunct.val
  let (_, outs) := stmts.foldl (fun (st : Array (Option PyVal) × List String) stmt =>
    let (pool, outs) := st
    let pushV (r : Except Err PyVal) := match r with
      | .ok v => (pool.push (some v), encVal v :: outs)
      | .error e => (pool.push none, encErr e :: outs)
    let bad (o : String) := (pool.push none, o :: outs)
    let say (o : String) := (pool, o :: outs)
    let obddAt (t : String) : Option OBDDv := match decVal pool t with | some (.obdd o) => some o | _ => none
    match words stmt with
    | ["fresh"] => say "ok"
    | "node" :: args =>
      (match args.mapM (decVal pool) with
       | some vs => (match BDDNode.new vs with
          | some r => pushV (r.map PyVal.node)
          | none => bad "unmodelled")
       | none => bad "bad-ref")
    | ["term", a] =>
      (match decVal pool a with
       | some v => pushV ((terminal v).map PyVal.node)
       | none => bad "bad-ref")
    | ["nonterm", x, lo, hi] =>
      (match decVal pool x, decVal pool lo, decVal pool hi with
       | some (.str x), some lo, some hi => pushV ((nonTerminal x lo hi).map PyVal.node)
       | some _, some _, some _ => bad "unmodelled"
       | _, _, _ => bad "bad-ref")
    | ["mkord", a] =>
      (match decVal pool a with
       | some (.strList l) => pushV ((Ordering.make l).map PyVal.ordering)
       | some .tuple => pushV (.error .typeError)
       | some _ => pushV (.ok .none)
       | none => bad "bad-ref")
    | ["obdd", bf, o, chk] =>
      (match decBf pool bf, decVal pool o with
       | some bf, some o => pushV ((OBDDv.init bf (ordArgOf o) (chk == "1")).map PyVal.obdd)
       | _, _ => bad "bad-ref")
    | ["restrict", i, x, v] =>
      (match obddAt i, decVal pool x, decVal pool v with
       | some o, some x, some v => pushV ((o.restrict x v).map PyVal.obdd)
       | _, _, _ => bad "bad-ref")
    | ["nrestrict", i, x, v] =>
      (match decVal pool i, decVal pool x, decVal pool v with
       | some (.node t), some x, some v => pushV ((nodeRestrict t x v).map PyVal.node)
       | _, _, _ => bad "bad-ref")
    | ["inv", i] =>
      (match obddAt i with
       | some o => pushV (o.invert.map PyVal.obdd)
       | none => bad "bad-ref")
    | [op, i, a] =>
      (match obddAt i, decVal pool a with
       | some o, some a =>
         if op == "eq" || op == "req" then say (encExcept (fun (b : Bool) => toString b) (o.eq a))
         else if op == "ne" then say (encExcept (fun (b : Bool) => toString (!b)) (o.eq a))
         else if op == "and" then pushV ((OBDDv.apply (· && ·) o a).map PyVal.obdd)
         else if op == "or" then pushV ((OBDDv.apply (· || ·) o a).map PyVal.obdd)
         else if op == "xor" then pushV ((OBDDv.apply (fun x y => x != y) o a).map PyVal.obdd)
         else say "bad-op"
       | _, _ => if op == "eq" || op == "req" || op == "ne" then say "bad-ref" else bad "bad-ref")
    | ["vars", i] =>
      (match decVal pool i with
       | some (.obdd o) => say (" ".intercalate ((dedupStr (sortStr o.variables)).map encName))
       | some (.node t) => say (" ".intercalate ((dedupStr (sortStr t.vars)).map encName))
       | _ => say "bad-ref")
    | ["tval", i] =>
      (match (decVal pool i).bind PyVal.asNode |>.bind NBDD.value with
       | some (.bool b) => say s!"bool {b}"
       | some _ => say "value"
       | none => say "bad-ref")
    | ["str", i] =>
      (match decVal pool i with
       | some (.obdd o) => say (encText o.toStr)
       | some (.node t) => say (encText t.printStr)
       | some (.ordering O) => say (encText (Ordering.str O))
       | _ => say "bad-ref")
    | _ => say "bad-op") (#[], [])
  outs.reverse

open PMC.BDD in
def decRef (t : String) : Option Ref :=
  if t == "T0" then some (.term false) else if t == "T1" then some (.term true)
  else if t.startsWith "#" then ((t.drop 1).toString.toNat?).map Ref.id else none

open PMC.BDD in
def encRef : Ref → String
  | .term b => if b then "T1" else "T0"
  | .id n => s!"#{n}"

open PMC.BDD in
def encRefSet (l : List Ref) : String :=
  let ts := (if l.contains (.term false) then ["T0"] else []) ++ (if l.contains (.term true) then ["T1"] else [])
  let ids := dedupSorted (sortNat (l.filterMap (fun r => match r with | .id n => some n | _ => none)))
  " ".intercalate (ts ++ ids.map (fun n => s!"#{n}"))

open PMC.BDD in
def storeSession (ops : List String) : List String :=
  let (_, outs) := ops.foldl (fun (st : Store × List String) op =>
    let (s, outs) := st
    match words op with
    | ["mk", v, lo, hi] =>
      (match v.toNat?, decRef lo, decRef hi with
       | some v, some lo, some hi => let m := mkNode s v lo hi; (m.2, encRef m.1 :: outs)
       | _, _, _ => (s, "bad-op" :: outs))
    | "gc" :: keep => let k := keep.filterMap (·.toNat?); (gc s (fun n => k.contains n), "ok" :: outs)
    | ["desc", r] => (match decRef r with | some r => (s, encRefSet (descendants s r) :: outs) | none => (s, "bad-op" :: outs))
    | ["anc", r] => (match decRef r with | some r => (s, encRefSet (ancestors s r) :: outs) | none => (s, "bad-op" :: outs))
    | ["nodes"] => (s, encRefSet (nodes s) :: outs)
    | _ => (s, "bad-op" :: outs)) ((⟨[], 0⟩ : Store), [])
  outs.reverse


/-! ### the rest of the formula API (PMC/Model/FormulaApi.lean), with the table extracted from the live code

  `FAPI|<M>|<op>|<arg1>[|<arg2>]`   answer `OK <sexpr>` (for `subs`: `OK <sexpr> ; <sexpr> ; …`) or `ERR <exception name>`
     operand encoding: `<Mi> <sexpr>` a formula object built in module Mi; `s <name>` a str; `b 1` / `b 0` a bool;
        `B` an object of the base module pyModelChecking.language; `o` any other value
     `and` / `or` / `rand` / `ror`   arg1 = S-expression of the formula whose method runs (an object of <M>), arg2 = the
                                     other operand: `f & g`, `f | g`, `g & f`, `g | f`
     `not`                           arg1 = S-expression: `~f`
     `AX` … `EG` (arg1 an operand), `AU` … `ER` (arg1, arg2 operands): the shortcuts of the CTL module (<M> is ignored)
     `new <ClassName>`               `<M>.<ClassName>(arg1[, arg2])` on operands (Not X F G A E: one; And Or Imply U R: two)
     `clone`                         arg1 = S-expression: `obj.clone()` for the object of <M> with that tree
     `sub <int>` / `subs`            arg1 = S-expression: `obj.subformula(i)` / `obj.subformulas()` -/

def decOperand (s : String) : Option FormulaApi.Operand :=
  match words s with
  | ["s", n] => some (.str (decName n))
  | ["s"] => some (.str "")
  | ["b", v] => some (.bool (v == "1"))
  | ["B"] => some .base
  | ["o"] => some .other
  | m :: rest =>
    match decLogic m, parseFm rest with
    | some m, some (f, []) => some (.obj m f)
    | _, _ => none
  | [] => none

def encFmE : Except Err Fm → String := encExcept encFm

open PMC.FormulaApi in
def fapi (m : Logic) (op : String) (args : List String) : String :=
  let T := Classes.generatedTable
  match words op, args with
  | ["and"], [f, g] => (match decFm f, decOperand g with
      | some f, some g => encFmE (andOp T m f g) | _, _ => "bad-op")
  | ["rand"], [f, g] => (match decFm f, decOperand g with
      | some f, some g => encFmE (randOp T m f g) | _, _ => "bad-op")
  | ["or"], [f, g] => (match decFm f, decOperand g with
      | some f, some g => encFmE (orOp T m f g) | _, _ => "bad-op")
  | ["ror"], [f, g] => (match decFm f, decOperand g with
      | some f, some g => encFmE (rorOp T m f g) | _, _ => "bad-op")
  | ["not"], [f] => (match decFm f with | some f => encFmE (invert T m f) | none => "bad-op")
  | ["clone"], [f] => (match decFm f with | some f => encFmE (cloneIn T m f) | none => "bad-op")
  | ["subs"], [f] => (match decFm f with
      | some f => "OK " ++ " ; ".intercalate ((subformulas f).map encFm) | none => "bad-op")
  | ["sub", i], [f] => (match decFm f, i.toInt? with
      | some f, some i => encFmE (subformula f i) | _, _ => "bad-op")
  | [sc], [a] =>
      (match decOperand a with
       | some a =>
         if sc == "AX" then encFmE (AX T a) else if sc == "EX" then encFmE (EX T a)
         else if sc == "AF" then encFmE (AF T a) else if sc == "EF" then encFmE (EF T a)
         else if sc == "AG" then encFmE (AG T a) else if sc == "EG" then encFmE (EG T a)
         else "bad-op"
       | none => "bad-op")
  | [sc], [a, b] =>
      (match decOperand a, decOperand b with
       | some a, some b =>
         if sc == "AU" then encFmE (AU T a b) else if sc == "EU" then encFmE (EU T a b)
         else if sc == "AR" then encFmE (AR T a b) else if sc == "ER" then encFmE (ER T a b)
         else "bad-op"
       | _, _ => "bad-op")
  | ["new", c], [a] =>
      (match decOperand a, [Un.not, .X, .F, .G, .A, .E].find? (fun u => u.name == c) with
       | some a, some u => encFmE (new1 T m u a)
       | _, _ => "bad-op")
  | ["new", c], [a, b] =>
      (match decOperand a, decOperand b, [Bin.and, .or, .imp, .U, .R].find? (fun u => u.name == c) with
       | some a, some b, some u => encFmE (new2 T m u a b)
       | _, _, _ => "bad-op")
  | _, _ => "bad-op"

/-! ### `replace_labelling_function` (PMC/Model/KripkeApi.lean)

  `KRELABEL|<S>|<S0>|<R>|<L>|<L2>|<probes>|<V>`   `K = Kripke(S, S0, R, L)`; `old = K.replace_labelling_function(L2)`; answer
     `<dict after> / <labels()> / <labels(x) for every probe x, ` ; `-separated> / <clone()> / <get_substructure(V)> / <old>`
     (dicts as `key:l1 l2;…` sorted by key, label sets sorted; structures as in KRIPKE) -/

def encLabelDict (L : List (Nat × List String)) : String :=
  let labs := (L.toArray.qsort (fun a b => a.1 < b.1)).toList
  ";".intercalate (labs.map (fun p => s!"{p.1}:" ++ " ".intercalate (dedupStr (sortStr (p.2.map encName)))))

/-! ### dispatch -/

def step (line : String) : String :=
  match (line.trimAscii.toString.splitOn "|") with
  | ["SCC", g] => let g := decGraph g; ";".intercalate (g.sccs.map encList)
  | ["REACH", g, x] => encExcept encSet ((decGraph g).reachFrom (natList x))
  | ["SUB", g, x] => encGraphCanon ((decGraph g).subgraph (natList x))
  | ["REV", g] => encGraphCanon (decGraph g).reversed
  | ["CLONE", g] => encGraphCanon (decGraph g).clone
  | ["MKG", v, e] => encGraphCanon (Graph.mk (natList v) (decPairs e))
  | ["GRAPHOPS", g, ops] =>
      -- a history of `add_node v` (`n v`) / `add_edge u v` (`e u v`) on a graph: one answer per operation, then the graph
      let step (st : Graph Nat × List String) (op : String) : Graph Nat × List String :=
        match (op.splitOn " ").filter (· != "") with
        | ["n", v] =>
          (match v.toNat? with
           | some v => (match st.1.addNode v with
                        | .ok g' => (g', "ok" :: st.2)
                        | .error e => (st.1, ("ERR " ++ e.name) :: st.2))
           | none => (st.1, "bad-op" :: st.2))
        | ["e", u, v] =>
          (match u.toNat?, v.toNat? with
           | some u, some v => (match st.1.addEdge u v with
                                | .ok g' => (g', "ok" :: st.2)
                                | .error e => (st.1, ("ERR " ++ e.name) :: st.2))
           | _, _ => (st.1, "bad-op" :: st.2))
        | _ => (st.1, "bad-op" :: st.2)
      let r := ((ops.splitOn ";").filter (· != "")).foldl step (decGraph g, [])
      " ; ".intercalate r.2.reverse ++ " => " ++ encGraphCanon r.1
  | ["KACCESS", s, s0, r, l, probes] =>
      -- `labels(x)` / `next(x)` of a constructed structure for every probe x (states and non-states)
      (match KripkeD.make (natList s) (natList s0) (decPairs r) (decLabels l) true (fun _ => false) with
       | .error e => "ERR " ++ e.name
       | .ok K =>
         " ; ".intercalate ((natList probes).map (fun x =>
           encExcept (fun ls => " ".intercalate (ls.toArray.qsort (· < ·)).toList) (K.labelsAt x) ++ " / " ++
           encExcept encSet (K.nextAt x))))
  | ["KRIPKE", s, s0, r, l, flags, bad] =>
      encExcept encKripkeD (KripkeD.make (natList s) (natList s0) (decPairs r) (decLabels l)
        (flags != "nodict") (fun v => (natList bad).contains v))
  | ["SUBSTRUCT", s, s0, r, l, v] =>
      encExcept encKripkeD (do
        let K ← KripkeD.make (natList s) (natList s0) (decPairs r) (decLabels l)
        K.substructure (natList v))
  | ["KCLONE", s, s0, r, l] =>
      encExcept encKripkeD (do
        let K ← KripkeD.make (natList s) (natList s0) (decPairs r) (decLabels l)
        K.clone)
  | ["KRELABEL", s, s0, r, l, l2, probes, v] =>
      (match KripkeD.make (natList s) (natList s0) (decPairs r) (decLabels l) with
       | .error e => "ERR " ++ e.name
       | .ok K =>
         let L2 := decLabels l2
         let K' := K.replaceLabelling L2
         " / ".intercalate [
           encLabelDict K'.labellingFunction,
           " ".intercalate (dedupStr (sortStr (K'.allLabelsD.map encName))),
           " ; ".intercalate ((natList probes).map (fun x =>
             encExcept (fun ls => " ".intercalate (dedupStr (sortStr (ls.map encName)))) (K'.labelsAt x))),
           encExcept encKripkeD K'.clone,
           encExcept encKripkeD (K'.substructure (natList v)),
           encLabelDict (K.replaceLabellingResult L2)])
  | "FAPI" :: m :: op :: args =>
      (match decLogic m with
       | some m => fapi m op args
       | none => "bad-op")
  | ["CTL", g, l, f] =>
      (match decFm f with
       | some f => encExcept encSet (CTL.modelcheck (decKripke g l) f)
       | none => "bad-formula")
  | ["CTLM", g, l, f] =>
      -- the CTL checker WITH its memo table keyed by printed formula (PMC/Model/CTLMemo.lean); equals `CTL` on
      -- identifier-style atoms (theorem ctl_exact_memo), follows the code on names that collide with printed formulas
      (match decFm f with
       | some f => if f.isCTLState then "OK " ++ encSet (CTL.modelcheckM (decKripke g l) f) else "ERR TypeError"
       | none => "bad-formula")
  | ["LTL", g, l, f] =>
      (match decFm f with
       | some f => encExcept encSet (LTL.modelcheck (decKripke g l) f)
       | none => "bad-formula")
  | ["CTLS", g, l, f] =>
      (match decFm f with
       | some f => encExcept encSet (CTLS.modelcheck (decKripke g l) f)
       | none => "bad-formula")
  | ["CTLSM", g, l, f] =>
      -- CTL* checker whose FINAL CTL call uses the memo table keyed by printed formula (as the code does): follows the
      -- code on formulas whose subformulas print alike (operand-free Or()/And(), atoms named like formulas)
      (match decFm f with
       | some f =>
         let r := CTLS.removeState (decKripke g l) f
         if r.2.isCTLState then "OK " ++ encSet (CTL.modelcheckM r.1 r.2) else "ERR TypeError"
       | none => "bad-formula")
  | ["CTLSNAMES", g, l, f] =>
      (match decFm f with
       | some f => toString (CTLS.namesOK (decKripke g l) f)
       | none => "bad-formula")
  | ["RESTRICT", m, f] =>
      (match decLogic m, decFm f with
       | some .CTL, some f => encFm f.restrictCTL
       | some _, some f => encFm f.restrict
       | _, _ => "bad-op")
  | ["LNOT", f] => (match decFm f with | some f => encFm f.lnot | none => "bad-formula")
  | ["PRINT", m, f] =>
      (match decLogic m, decFm f with
       | some m, some f => Fm.printIn m f
       | _, _ => "bad-op")
  | ["ISRESTR", m, f] =>
      (match decLogic m, decFm f with
       | some .CTL, some f => toString f.isRestrictedCTL
       | some _, some f => toString f.isRestricted
       | _, _ => "bad-op")
  | ["INLOGIC", m, f] =>
      (match decLogic m, decFm f with
       | some m, some f => toString (Fm.inLogic m f)
       | _, _ => "bad-op")
  | ["ISSTATE", m, f] =>
      -- `is_a_state_formula()` of an object of the CTL* / CTL module
      (match decLogic m, decFm f with
       | some .CTLS, some f => toString (Fm.isCTLSState f)
       | some .CTL, some f => toString (Fm.isCTLState f)
       | _, _ => "bad-op")
  | ["EQ", m, f, g] =>
      (match decLogic m, decFm f, decFm g with
       | some m, some f, some g => s!"{Fm.pyEq m f g} {f.beq g}"
       | _, _, _ => "bad-op")
  | ["PARSE", m, text] =>
      (match decLogic m with
       | some m => encExcept encFm (Parser.parse (tablesOf m) (decText text))
       | none => "bad-op")
  | ["CONSTRUCT", m, f] =>
      (match decLogic m, decFm f with
       | some m, some f => encUnit (Classes.construct Classes.generatedTable m f)
       | _, _ => "bad-op")
  | ["CAST", m1, m2, f] =>
      (match decLogic m1, decLogic m2, decFm f with
       | some m1, some m2, some f => encUnit (Classes.castTo Classes.generatedTable m1 m2 f)
       | _, _, _ => "bad-op")
  | ["MIXED", m, op, kids] =>
      (match decLogic m, decMixedOperands kids with
       | some m, some kids => encUnit (Classes.constructMixed Classes.generatedTable m op.trimAscii.toString kids)
       | _, _ => "bad-op")
  | ["GUARD", chk, m, f, k] =>
      (match decLogic m, decFm f with
       | some m, some f =>
         let k := k.trimAscii.toString == "1"
         (match chk with
          | "CTL" => encUnit (Classes.guardCTL Classes.generatedTable m f k)
          | "LTL" => encUnit (Classes.guardLTL Classes.generatedTable m f k)
          | "CTLS" => encUnit (Classes.guardCTLS Classes.generatedTable m f k)
          | _ => "bad-op")
       | _, _ => "bad-op")
  | ["FAIRSTATES", g, l, fc] =>
      (match decFair fc with
       | some F =>
         let K := decKripke g l
         "impl: " ++ encSet (Fair.fairStatesImpl K F) ++ " spec: " ++ encSet (Fair.fairStatesSpec K F)
       | none => "bad-op")
  | ["FAIRLABEL", g, l] => encName (Fair.fairLabel (decKripke g l))
  | ["CTLF", g, l, fc, f] =>
      (match decFm f with
       | some f => encExcept encSet (CTL.modelcheckF (decKripke g l) (decFair fc) f)
       | none => "bad-formula")
  | ["LTLF", g, l, fc, f] =>
      (match decFm f with
       | some f => encExcept encSet (LTL.modelcheckF (decKripke g l) (decFair fc) f)
       | none => "bad-formula")
  | ["CTLSF", g, l, fc, f] =>
      (match decFm f with
       | some f => encExcept encSet (CTLS.modelcheckF (decKripke g l) (decFair fc) f)
       | none => "bad-formula")
  | ["NONFAIR", m, fair, f] =>
      (match decLogic m, decFm f with
       | some .CTL, some f => encExcept encFm (Fair.nonFairCTL (decName fair) f)
       | some _, some f => encFm (Fair.nonFairCTLS (decName fair) f)
       | _, _ => "bad-op")
  | ["LTLCLOSURE", f] =>
      (match decRFm f with
       | some g => ";".intercalate ((LTL.closure g).map (fun φ => s!"{LTL.sortKey φ} " ++ encRFm φ))
       | none => "bad-formula")
  | ["LTLATOMS", g, l, f, ord] =>
      (match decRFm f with
       | some r =>
         (match decOrder r ord with
          | some cl =>
            let K := decKripke g l
            s!"adm={LTL.admissibleB r cl} inv={LTL.atomsInvariantB K cl} dead={((LTL.buildAtoms K cl).filter (LTL.isDead cl)).length} built=" ++ encSet (LTL.checkEBuilt K r cl) ++
              " decl=" ++ encSet (LTL.checkE K r) ++ " atoms=" ++ encBAtoms (LTL.buildAtoms K cl)
          | none => "bad-order")
       | none => "bad-formula")
  | ["LTLMCB", g, l, f] =>
      (match decFm f with
       | some f => encExcept encSet (LTL.modelcheckBuilt LTL.defaultOrder (decKripke g l) f)
       | none => "bad-formula")
  | ["ORDERING", names, ops] =>
      orderingOps (decNames names) (((ops.splitOn ";").map (·.trimAscii.toString)).filter (· ≠ ""))
  | ["RESPECT", names, tree] =>
      (match parseNTree (words tree) with
       | some (t, []) => encExcept (fun (b : Bool) => toString b) (PMC.BDD.NBDD.respectOrdering (decNames names) t)
       | _ => "bad-op")
  | "OBDDAPI" :: stmts :: exps =>
      " ; ".intercalate (apiSession (((stmts.splitOn ";").map (·.trimAscii.toString)).filter (· ≠ "")) exps.toArray)
  | ["STORE", ops] =>
      " ; ".intercalate (storeSession (((ops.splitOn ";").map (·.trimAscii.toString)).filter (· ≠ "")))
  | ["BDD", names, ops] =>
      " ; ".intercalate (bddHistory (words names).toArray ((ops.splitOn ";").map (·.trimAscii.toString)))
  | _ => "bad-op"

partial def loop (h : IO.FS.Stream) (out : IO.FS.Stream) : IO Unit := do
  let line ← h.getLine
  if line.isEmpty then return ()
  out.putStrLn (step line)
  loop h out

def main : IO Unit := do
  let out ← IO.getStdout
  loop (← IO.getStdin) out
  out.flush
