import PMC.Model.Graph
import PMC.Model.Syntax
import PMC.Model.Kripke
import PMC.Model.CTL
import PMC.Spec.Semantics
import PMC.Model.LTL
import PMC.Model.CTLS
