/-
  Executable model of pyModelChecking/BDD (BDD.py, OBDD.py, ordering.py).  No imports.

  Tree level: a diagram is the tree it unfolds to; variables are positions in the ordering (`ListOrdering`).
  `mk` = `BDDNonTerminalNode.__new__` (the `low is high` shortcut), `apply` = `compute`, `restrict`, `invert`,
  `support` = `variables()`, `printStr` = `__str__`, `BExp`/`build` = the `ast`-based expression parser of OBDD.py.
  Store level: the unique table (ids -> (var, low, high)), `findIso` = `find_isomorph`, `mkNode`, `gc`.
-/
namespace PMC.BDD

inductive BDD where
  | leaf (b : Bool)
  | node (v : Nat) (lo hi : BDD)
  deriving DecidableEq, Repr, Inhabited

open BDD

def denote : BDD → (Nat → Bool) → Bool
  | leaf b, _ => b
  | node v lo hi, ρ => if ρ v then denote hi ρ else denote lo ρ

def size : BDD → Nat
  | leaf _ => 1
  | node _ lo hi => size lo + size hi + 1

/-- `BDDNonTerminalNode.__new__` at tree level: `low is high` shortcut -/
def mk (v : Nat) (lo hi : BDD) : BDD := if lo = hi then lo else node v lo hi

/-- `compute` of BDD.py: three-way Shannon expansion (fuel = size sum) -/
def apply (op : Bool → Bool → Bool) : Nat → BDD → BDD → BDD
  | 0, a, _ => a
  | _+1, leaf a, leaf b => leaf (op a b)
  | n+1, leaf a, node v lo hi => mk v (apply op n (leaf a) lo) (apply op n (leaf a) hi)
  | n+1, node v lo hi, leaf b => mk v (apply op n lo (leaf b)) (apply op n hi (leaf b))
  | n+1, node v1 lo1 hi1, node v2 lo2 hi2 =>
    if v1 < v2 then mk v1 (apply op n lo1 (node v2 lo2 hi2)) (apply op n hi1 (node v2 lo2 hi2))
    else if v1 = v2 then mk v1 (apply op n lo1 lo2) (apply op n hi1 hi2)
    else mk v2 (apply op n (node v1 lo1 hi1) lo2) (apply op n (node v1 lo1 hi1) hi2)

def applyOp (op : Bool → Bool → Bool) (a b : BDD) : BDD := apply op (size a + size b) a b

def band (a b : BDD) : BDD := applyOp (· && ·) a b
def bor (a b : BDD) : BDD := applyOp (· || ·) a b
def bxor (a b : BDD) : BDD := applyOp (fun x y => x != y) a b

/-- `__invert__` -/
def invert : BDD → BDD
  | leaf b => leaf (!b)
  | node v lo hi => mk v (invert lo) (invert hi)

/-- `compute_restrict` -/
def restrict (x : Nat) (val : Bool) : BDD → BDD
  | leaf b => leaf b
  | node v lo hi =>
    if v = x then (if val then restrict x val hi else restrict x val lo)
    else mk v (restrict x val lo) (restrict x val hi)

/-- `variables()`: the variables labelling the reachable non-terminal nodes -/
def support : BDD → List Nat
  | leaf _ => []
  | node v lo hi => v :: (support lo ++ support hi)

/-- the distinct non-terminal subtrees: the nodes a hash-consed store must hold for this diagram -/
def subtrees : BDD → List BDD
  | leaf _ => []
  | node v lo hi => node v lo hi :: (subtrees lo ++ subtrees hi)

/-! ### expressions (`ast` trees accepted by `parse_binary_expr`) -/

inductive BExp where
  | const (b : Bool)
  | var (i : Option Nat)           -- position in the ordering; `none`: a name missing from the ordering
  | not (e : BExp)                 -- `~e` and `not e`
  | band (a b : BExp)              -- `a & b`
  | bor (a b : BExp)               -- `a | b`
  | and (es : List BExp)           -- `a and b and …`
  | or (es : List BExp)            -- `a or b or …`
  | bad                            -- any other syntax
  deriving Repr, Inhabited

inductive BErr where
  | runtimeError | syntaxError
  deriving DecidableEq, Repr

def evalB (ρ : Nat → Bool) : BExp → Bool
  | .const b => b
  | .var (some i) => ρ i
  | .var none => false
  | .not e => !(evalB ρ e)
  | .band a b => evalB ρ a && evalB ρ b
  | .bor a b => evalB ρ a || evalB ρ b
  | .and es => evalAll ρ es
  | .or es => evalAny ρ es
  | .bad => false
where
  evalAll (ρ : Nat → Bool) : List BExp → Bool
    | [] => true
    | e :: es => evalB ρ e && evalAll ρ es
  evalAny (ρ : Nat → Bool) : List BExp → Bool
    | [] => false
    | e :: es => evalB ρ e || evalAny ρ es

/-- `parse_binary_expr`: errors surface in evaluation order (left operand first) -/
def build : BExp → Except BErr BDD
  | .const b => .ok (leaf b)
  | .var (some i) => .ok (node i (leaf false) (leaf true))
  | .var none => .error .runtimeError
  | .not e => (build e).map invert
  | .band a b => do let x ← build a; let y ← build b; pure (band x y)
  | .bor a b => do let x ← build a; let y ← build b; pure (bor x y)
  | .and es => buildAll (leaf true) es
  | .or es => buildAny (leaf false) es
  | .bad => .error .syntaxError
where
  buildAll (acc : BDD) : List BExp → Except BErr BDD
    | [] => .ok acc
    | e :: es => do let x ← build e; buildAll (band acc x) es
  buildAny (acc : BDD) : List BExp → Except BErr BDD
    | [] => .ok acc
    | e :: es => do let x ← build e; buildAny (bor acc x) es

/-! ### printer (`BDDNonTerminalNode.__str__`, with the `fix:` that parenthesises a disjunctive child) -/

def isLeafFalse : BDD → Bool
  | leaf false => true
  | _ => false

/-- the child prints as `(..) | (..)`: neither branch is the terminal 0 -/
def printsAsOr : BDD → Bool
  | leaf _ => false
  | node _ lo hi => !isLeafFalse lo && !isLeafFalse hi

/-- one disjunct of a node's printed form: `neg var`, `neg var & child`, or nothing (child is the terminal 0) -/
def printPart (lit : String) (c : BDD) (cs : String) : Option String :=
  match c with
  | leaf b => if b then some lit else none
  | _ => some (lit ++ " & " ++ (if printsAsOr c then "(" ++ cs ++ ")" else cs))

def printStr (name : Nat → String) : BDD → String
  | leaf b => if b then "1" else "0"
  | node v lo hi =>
    match printPart ("~" ++ name v) lo (printStr name lo), printPart (name v) hi (printStr name hi) with
    | some a, some b => "(" ++ a ++ ") | (" ++ b ++ ")"
    | some a, none => a
    | none, some b => b
    | none, none => ""   -- low = high = 0: not a reduced node (Python: IndexError)

/-- `lit & e` as Python parses the unparenthesised text: `&` associates to the left, so the literal goes to the far
    left of the conjunction chain `e` -/
def prependAnd (lit : BExp) : BExp → BExp
  | .band x y => .band (prependAnd lit x) y
  | e => .band lit e

def expPart (lit : BExp) (c : BDD) (ce : BExp) : Option BExp :=
  match c with
  | leaf b => if b then some lit else none
  | _ => some (if printsAsOr c then .band lit ce else prependAnd lit ce)

/-- the expression the printed string denotes under Python's precedences (`~` > `&` > `|`) -/
def printExp : BDD → BExp
  | leaf b => .const b
  | node v lo hi =>
    match expPart (.not (.var (some v))) lo (printExp lo), expPart (.var (some v)) hi (printExp hi) with
    | some a, some b => .bor a b
    | some a, none => a
    | none, some b => b
    | none, none => .const false

/-! ### the unique table -/

inductive Ref where
  | term (b : Bool)
  | id (n : Nat)
  deriving DecidableEq, Repr

structure Nd where
  var : Nat
  lo : Ref
  hi : Ref
  deriving DecidableEq, Repr

/-- live non-terminal nodes, newest first -/
structure Store where
  live : List (Nat × Nd)
  nextId : Nat

def Store.ids (s : Store) : List Nat := s.live.map Prod.fst

/-- unfold a reference into a tree; children are always older, hence further down the list -/
def treeOf : List (Nat × Nd) → Ref → BDD
  | _, .term b => .leaf b
  | [], .id _ => .leaf false
  | (m, nd) :: rest, .id n =>
    if n = m then .node nd.var (treeOf rest nd.lo) (treeOf rest nd.hi) else treeOf rest (.id n)

/-- parents of `r` through their low (resp. high) edge: the weak sets `f_low`, `f_high` -/
def fLow (l : List (Nat × Nd)) (r : Ref) : List (Nat × Nd) := l.filter (fun p => decide (p.2.lo = r))
def fHigh (l : List (Nat × Nd)) (r : Ref) : List (Nat × Nd) := l.filter (fun p => decide (p.2.hi = r))

/-- `find_isomorph`: search the smaller parent set -/
def findIso (l : List (Nat × Nd)) (v : Nat) (lo hi : Ref) : Option Nat :=
  if (fLow l lo).length < (fHigh l hi).length then
    ((fLow l lo).find? (fun p => decide (p.2.var = v ∧ p.2.hi = hi))).map Prod.fst
  else
    ((fHigh l hi).find? (fun p => decide (p.2.var = v ∧ p.2.lo = lo))).map Prod.fst

/-- `BDDNonTerminalNode.__new__` -/
def mkNode (s : Store) (v : Nat) (lo hi : Ref) : Ref × Store :=
  if lo = hi then (lo, s) else
  match findIso s.live v lo hi with
  | some n => (.id n, s)
  | none => (.id s.nextId, { live := (s.nextId, ⟨v, lo, hi⟩) :: s.live, nextId := s.nextId + 1 })

/-- garbage collection: keep exactly the nodes satisfying `keep` -/
def gc (s : Store) (keep : Nat → Bool) : Store := { s with live := s.live.filter (fun p => keep p.1) }

/-- store-level operations of a history -/
inductive Op where
  | mk (v : Nat) (lo hi : Ref)
  | gc (keep : List Nat)

def stepOp (s : Store) : Op → Store
  | .mk v lo hi => (mkNode s v lo hi).2
  | .gc keep => gc s (fun n => keep.contains n)

/-- build the tree `t` in the store (what parsing / apply / restrict / invert do: a sequence of `mkNode`s) -/
def intern (s : Store) : BDD → Ref × Store
  | leaf b => (.term b, s)
  | node v lo hi =>
    let r1 := intern s lo
    let r2 := intern r1.2 hi
    mkNode r2.2 v r1.1 r2.1

end PMC.BDD
