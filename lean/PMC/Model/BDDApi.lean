/-
  Executable model of the rest of the public API of pyModelChecking/BDD (ordering.py, BDD.py, OBDD.py).
  Imports only the import-free base models (`Err` from Graph.lean, trees / expressions / store from BDD.lean).

  1. `ListOrdering`: an ordering is the list of its variables (`List String`); the dict `var -> index` built by
     `ListOrdering.__init__` is `position`.
  2. `respect_ordering`: on *named* trees `NBDD` (variables are names, so "not in the ordering" is expressible), with
     the exact order of the tests of the implementation, and the `checked` memo set.
  3. `BDDNode(...)`, `BDDTerminalNode(v)`, `BDDNonTerminalNode(var, low, high)`, `OBDD.__init__`, `__eq__`,
     `variables`, `restrict`, `__str__`, `apply` (`&`, `|`, `^`), `~` on Python values `PyVal`, returning `Except Err _`.
  4. `descendents()`, `ancestors()`, `BDDNode.nodes()` on the unique table (`Store`, `Ref`): the stack loops of BDD.py.

  Domain of the model: variables are `str`.  (`BDDNode(5, low, high)` builds a node in the implementation — nothing
  checks `var` — such a call is outside the model: `BDDNode.new` answers `none` for it.)  `repr` of a name assumes
  that code points ≥ 0x100 are printable.  A terminal node always holds a `bool` (`BDDTerminalNode.__new__` stores
  `bool(value)`, see `NBDD.value`): `BDDNode(1.0)`, `BDDNode(1)` and `BDDNode(True)` are the same node holding `True`,
  so the operators of `&`, `|`, `^` never raise on the values of two terminals and there is no process-global state
  besides the unique table.
  Sharing makes node identity (`is`) equality of trees (C16), which is how `low is high`, `self.root is A.root` and
  membership in the `checked` set are modelled.
-/
import PMC.Model.Graph
import PMC.Model.BDD
namespace PMC.BDD

/-! ## 1. `ListOrdering` (ordering.py) -/
namespace Ordering

/-- `self.ordering[x]`: the index given to `x` by the loop of `__init__` (`none`: `x` is not a key) -/
def position : List String → String → Option Nat
  | [], _ => none
  | y :: ys, x => if x = y then some 0 else (position ys x).map (· + 1)

/-- `__contains__` -/
def contains (O : List String) (x : String) : Bool := (position O x).isSome

/-- the loop of `ListOrdering.__init__`; `seen` are the keys inserted so far (in insertion order) -/
def makeLoop (seen : List String) : List String → Except Err (List String)
  | [] => .ok seen
  | x :: xs => if contains seen x then .error .runtimeError else makeLoop (seen ++ [x]) xs

/-- `ListOrdering(l)` (also `Ordering(l)` for a list `l`) -/
def make (l : List String) : Except Err (List String) := makeLoop [] l

/-- `cmp`: `RuntimeError` when `x` or `y` is not a key of the ordering (`x` is looked at first, the class is the
    same), otherwise `self.ordering[x] - self.ordering[y]` -/
def cmp (O : List String) (x y : String) : Except Err Int :=
  match position O x with
  | none => .error .runtimeError
  | some i =>
    match position O y with
    | none => .error .runtimeError
    | some j => .ok ((i : Int) - (j : Int))

/-- `in_order`: `cmp(x, y) < 0` -/
def inOrder (O : List String) (x y : String) : Except Err Bool := (cmp O x y).map (fun d => decide (d < 0))

/-- `__eq__` between two `ListOrdering`s: equality of the two dicts (same number of keys, every key of the left
    one has the same value on the right) -/
def eqv (a b : List String) : Bool := a.length == b.length && a.all (fun x => position a x == position b x)

/-- `K.__lt__` of `cmp_to_key` on keys of the ordering -/
def ltKey (O : List String) (x y : String) : Bool :=
  match cmp O x y with
  | .ok d => decide (d < 0)
  | .error _ => false

/-- `get_list`: `sorted(keys, key=cmp_to_key(cmp))`; a stable sort that only asks `y < x` -/
def getList (O : List String) : List String := O.mergeSort (fun x y => !(ltKey O y x))

/-! `repr` of a `str` (CPython `unicode_repr`).  Assumption: code points ≥ 0x100 are printable (the check only
    generates such characters when `str.isprintable` says so). -/

def hexDigit (n : Nat) : Char := if n < 10 then Char.ofNat (48 + n) else Char.ofNat (87 + n)

def hexN : Nat → Nat → List Char
  | 0, _ => []
  | w+1, n => hexN w (n / 16) ++ [hexDigit (n % 16)]

def printable (c : Char) : Bool :=
  let n := c.toNat
  if n < 32 || n = 127 then false
  else if n < 127 then true
  else if n ≤ 160 || n = 173 then false     -- C1 controls, NBSP, soft hyphen
  else true

def reprChar (q : Char) (c : Char) : List Char :=
  if c = q || c = '\\' then ['\\', c]
  else if c = '\t' then ['\\', 't']
  else if c = '\n' then ['\\', 'n']
  else if c = '\r' then ['\\', 'r']
  else if printable c then [c]
  else if c.toNat < 256 then '\\' :: 'x' :: hexN 2 c.toNat
  else if c.toNat < 65536 then '\\' :: 'u' :: hexN 4 c.toNat
  else '\\' :: 'U' :: hexN 8 c.toNat

def pyRepr (s : String) : String :=
  let cs := s.toList
  let q : Char := if cs.contains '\'' && !cs.contains '"' then '"' else '\''
  String.ofList (q :: (cs.flatMap (reprChar q) ++ [q]))

/-- `__str__`: `'%s' % (self.get_list())` -/
def str (O : List String) : String := "[" ++ ", ".intercalate ((getList O).map pyRepr) ++ "]"

end Ordering

/-! ## 2. named diagrams and `respect_ordering` -/

/-- a diagram whose variables are names -/
inductive NBDD where
  | leaf (b : Bool)
  | node (v : String) (lo hi : NBDD)
  deriving DecidableEq, Repr, Inhabited

namespace NBDD

/-- `BDDNonTerminalNode.__new__` at tree level (`low is high` returns `low`; sharing makes identity = equality) -/
def mk (v : String) (lo hi : NBDD) : NBDD := if lo = hi then lo else node v lo hi

def size : NBDD → Nat
  | leaf _ => 1
  | node _ lo hi => size lo + size hi + 1

/-- `variables()` (as a list; the implementation returns the set) -/
def vars : NBDD → List String
  | leaf _ => []
  | node v lo hi => v :: (vars lo ++ vars hi)

/-- the positional diagram under an ordering (a foreign variable is sent past the end of the ordering) -/
def toPos (O : List String) : NBDD → BDD
  | leaf b => .leaf b
  | node v lo hi => .node ((Ordering.position O v).getD O.length) (toPos O lo) (toPos O hi)

/-- a positional diagram with its variables named by the ordering -/
def ofPos (O : List String) : BDD → NBDD
  | .leaf b => leaf b
  | .node v lo hi => node (O.getD v "?") (ofPos O lo) (ofPos O hi)

/-- `compute_restrict` (the per-call cache is transparent: the function is pure) -/
def restrict (x : String) (val : Bool) : NBDD → NBDD
  | leaf b => leaf b
  | node v lo hi =>
    if v = x then (if val then restrict x val hi else restrict x val lo)
    else mk v (restrict x val lo) (restrict x val hi)

/-- `__invert__` -/
def invert : NBDD → NBDD
  | leaf b => leaf (!b)
  | node v lo hi => mk v (invert lo) (invert hi)

/-- `__str__` of a node: the printer of the base model under the local numbering of the diagram's own variables -/
def printStr (t : NBDD) : String :=
  PMC.BDD.printStr (fun i => (vars t).getD i "?") (toPos (vars t) t)

/-- the test made on one child before the recursion: `isinstance(son, BDDNonTerminalNode) and not
    O.in_order(self.var, son.var)` (a `RuntimeError`, from `cmp`, when `son.var` is not in the ordering) -/
def edgeOk (O : List String) (v : String) : NBDD → Except Err Bool
  | leaf _ => .ok true
  | node w _ _ => Ordering.inOrder O v w

/-- `respect_ordering(O)`: `self.var not in O` first (`RuntimeError`), then the two edges (low, high: `False` for an
    edge that does not go forward, `RuntimeError` for a child variable outside `O`), then the recursion into `high`,
    then into `low` (`and` short-circuits) -/
def respect (O : List String) : NBDD → Except Err Bool
  | leaf _ => .ok true
  | node v lo hi =>
    if !Ordering.contains O v then .error .runtimeError else
    match edgeOk O v lo with
    | .error e => .error e
    | .ok false => .ok false
    | .ok true =>
      match edgeOk O v hi with
      | .error e => .error e
      | .ok false => .ok false
      | .ok true =>
        match respect O hi with
        | .error e => .error e
        | .ok false => .ok false
        | .ok true => respect O lo

/-- the same with the `checked` memo set threaded through (nodes are shared, so membership is by structure) -/
def respectM (O : List String) : NBDD → List NBDD → Except Err (Bool × List NBDD)
  | leaf _, ck => .ok (true, ck)
  | node v lo hi, ck =>
    if ck.contains (node v lo hi) then .ok (true, ck) else
    if !Ordering.contains O v then .error .runtimeError else
    match edgeOk O v lo with
    | .error e => .error e
    | .ok false => .ok (false, ck)
    | .ok true =>
      match edgeOk O v hi with
      | .error e => .error e
      | .ok false => .ok (false, ck)
      | .ok true =>
        match respectM O hi ck with
        | .error e => .error e
        | .ok (false, ck1) => .ok (false, ck1)
        | .ok (true, ck1) =>
          match respectM O lo ck1 with
          | .error e => .error e
          | .ok (false, ck2) => .ok (false, ck2)
          | .ok (true, ck2) => .ok (true, node v lo hi :: ck2)

/-- the public call: `checked=None` -/
def respectOrdering (O : List String) (t : NBDD) : Except Err Bool := (respectM O t []).map Prod.fst

end NBDD

/-! ## 3. Python values and the API of `BDDNode` / `OBDD` -/

/-- an `OBDD` object: `root` and `ordering` (`none`: the attribute holds `None`, see `OBDDv.init`) -/
structure OBDDv where
  root : NBDD
  ordering : Option (List String)
  deriving DecidableEq, Repr

/-- the Python values the API is exercised with -/
inductive PyVal where
  | int (n : Int)
  | bool (b : Bool)
  | float (n : Int) (frac : Bool)       -- the float `n` (`frac = false`) or `n + 0.5` (`frac = true`)
  | str (s : String)
  | none
  | strList (l : List String)           -- a `list` of `str` (unhashable)
  | node (t : NBDD)                     -- a `BDDNode`
  | obdd (o : OBDDv)                    -- an `OBDD` (unhashable: `__eq__` without `__hash__`)
  | ordering (O : List String)          -- a `ListOrdering`
  | tuple                               -- a tuple whose length is not 1 (`'%s' % t` fails for it)
  | other                               -- a hashable object of any other type
  deriving DecidableEq, Repr

/-- `ListOrdering.__eq__(other)`: `False` for anything that is not a `ListOrdering` -/
def Ordering.eqPy (O : List String) : PyVal → Bool
  | .ordering P => Ordering.eqv O P
  | _ => false

namespace PyVal

/-- the member of `{0, 1, False, True}` the value is `==` to (`1.0 == 1`, hashes agree) -/
def asBit : PyVal → Option Bool
  | int n => if n = 0 then some false else if n = 1 then some true else Option.none
  | bool b => some b
  | float n frac => if frac then Option.none else if n = 0 then some false else if n = 1 then some true else Option.none
  | _ => Option.none

/-- `restrict`: an `int` (hence also a `bool`) equal to 1 / 0 becomes `True` / `False`; then `isinstance(value, bool)` -/
def asBoolArg : PyVal → Option Bool
  | int n => if n = 1 then some true else if n = 0 then some false else Option.none
  | bool b => some b
  | _ => Option.none

def asNode : PyVal → Option NBDD
  | node t => some t
  | _ => Option.none

end PyVal

/-- `BDDTerminalNode(value)`: `value in set([0, 1, False, True])` (an unhashable value is a `TypeError` too); the
    accepted value is normalised with `bool(value)` before the lookup in `Tnodes`, so `1`, `True` and `1.0` denote the
    same node, whichever is asked for first -/
def terminal (v : PyVal) : Except Err NBDD :=
  match v.asBit with
  | some b => .ok (.leaf b)
  | Option.none => .error .typeError

/-- `node.value`, the attribute of a terminal node (`none`: a non-terminal node has no such attribute): always a
    `bool`, whatever value the node was requested with -/
def NBDD.value : NBDD → Option PyVal
  | .leaf b => some (.bool b)
  | .node _ _ _ => Option.none

/-- `BDDNonTerminalNode(var, low, high)`: both children must be `BDDNode`s; `low is high` returns `low`; otherwise
    the isomorphic node if there is one (`find_isomorph`), else a new node — at tree level, the tree itself -/
def nonTerminal (var : String) (lo hi : PyVal) : Except Err NBDD :=
  match lo.asNode, hi.asNode with
  | some l, some h => .ok (NBDD.mk var l h)
  | _, _ => .error .typeError

/-- `BDDNode(*data)`: one argument = terminal, three = non-terminal, anything else `RuntimeError`.
    `none`: three arguments whose first is not a `str` (outside the model). -/
def BDDNode.new : List PyVal → Option (Except Err NBDD)
  | [v] => some (terminal v)
  | [.str x, lo, hi] => some (nonTerminal x lo hi)
  | [_, _, _] => Option.none
  | _ => some (.error .runtimeError)

/-- `BDDNode.restrict(var, value)` -/
def nodeRestrict (t : NBDD) (var value : PyVal) : Except Err NBDD :=
  match var, value.asBoolArg with
  | .str x, some b => .ok (t.restrict x b)
  | _, _ => .error .typeError

/-- the `ordering` argument of `OBDD(...)` -/
inductive OrdArg where
  | none                          -- `ordering=None`
  | list (l : List String)        -- a plain list
  | ordering (O : List String)    -- a `ListOrdering`
  | tuple                         -- a tuple whose length is not 1
  | other                         -- anything else
  deriving DecidableEq, Repr

/-- the `bfunct` argument of `OBDD(...)`.  A `str` is given by what `ast.parse` makes of it: a binary expression
    (variables resolved against the ordering in force: `BExp.var none` for a name missing from it) or a lambda. -/
inductive Bfunct where
  | val (v : PyVal)
  | expr (e : BExp)
  | lam (args : List String) (e : BExp)

def bErr : BErr → Err
  | .runtimeError => .runtimeError
  | .syntaxError => .syntaxError

/-- parse a binary expression under the ordering `O` -/
def ofExp (O : List String) (e : BExp) : Except Err OBDDv :=
  match build e with
  | .ok t => .ok ⟨NBDD.ofPos O t, some O⟩
  | .error x => .error (bErr x)

/-- `Ordering(x)` for a non-list `x` *returns `None`* (see `resolveOrd`), so the parser
    runs with `ordering = None`: every leaf calls `OBDD(BDDNode(..), None)`, which takes the lambda branch and ends
    in `ast.parse(<BDDNode>)`, a `TypeError`; a syntax error met earlier in evaluation order wins -/
def noOrderingErr : BExp → Err
  | .const _ => .typeError
  | .var _ => .typeError
  | .not e => noOrderingErr e
  | .band a _ => noOrderingErr a
  | .bor a _ => noOrderingErr a
  | .and _ => .typeError
  | .or _ => .typeError
  | .bad => .syntaxError

/-- `bfunct.respect_ordering(ordering)` where `ordering` may be `None`: a terminal answers `True` without looking,
    a non-terminal evaluates `self.var not in None`, a `TypeError` -/
def respectArg (O : Option (List String)) (t : NBDD) : Except Err Bool :=
  match O with
  | some O => t.respectOrdering O
  | Option.none =>
    match t with
    | .leaf _ => .ok true
    | .node _ _ _ => .error .typeError

/-- what `self.ordering` becomes: `Ordering(x)` for an `x` that is not an `Ordering`.  For a non-list `x` the call
    evaluates `TypeError('unsupported ordering %s' % (x))` and *drops* it, returning `None` — except that for a tuple
    whose length is not 1 the `%` itself raises `TypeError` -/
def resolveOrd : OrdArg → Except Err (Option (List String))
  | .list l => (Ordering.make l).map some
  | .ordering O => .ok (some O)
  | .tuple => .error .typeError
  | _ => .ok Option.none

/-- `OBDD.__init__(bfunct, ordering, check_ordering)` -/
def OBDDv.init (bf : Bfunct) (oa : OrdArg) (check : Bool) : Except Err OBDDv :=
  match oa with
  | .none =>
    -- `BinaryParser.parse_function(bfunct)`
    match bf with
    | .lam args e =>
      match Ordering.make args with
      | .ok O => ofExp O e
      | .error x => .error x
    | .expr _ => .error .syntaxError
    | .val (.str _) => .error .syntaxError
    | .val _ => .error .typeError
  | oa =>
    match resolveOrd oa with
    | .error x => .error x
    | .ok O =>
      match bf with
      | .val (.node t) =>
        if check then
          match respectArg O t with
          | .error x => .error x
          | .ok false => .error .valueError
          | .ok true => .ok ⟨t, O⟩
        else .ok ⟨t, O⟩
      | .val (.str _) => .error .syntaxError
      | .lam _ _ => .error .syntaxError
      | .expr e =>
        match O with
        | some O => ofExp O e
        | Option.none => .error (noOrderingErr e)
      | .val _ => .error .typeError

namespace OBDDv

/-- `self.ordering == A.ordering` (`None == None`; a `ListOrdering` never equals `None`) -/
def ordEq : Option (List String) → Option (List String) → Bool
  | some a, some b => Ordering.eqv a b
  | Option.none, Option.none => true
  | _, _ => false

/-- `self.ordering` passed on as the `ordering` argument -/
def selfArg (self : OBDDv) : OrdArg :=
  match self.ordering with
  | some O => .ordering O
  | Option.none => .none

/-- `self.root is A.root and self.ordering == A.ordering` -/
def same (self B : OBDDv) : Bool := decide (self.root = B.root) && ordEq self.ordering B.ordering

/-- `OBDD.__eq__(A)` (also `__req__`; `!=` is its negation, with the same exceptions) -/
def eq (self : OBDDv) (A : PyVal) : Except Err Bool :=
  match A with
  | .node t =>
    match init (.val (.node t)) (selfArg self) true with
    | .ok B => .ok (same self B)
    | .error x => .error x
  | .obdd B => .ok (same self B)
  | v =>
    match v.asBit with
    | some b =>
      match init (.val (.node (.leaf b))) (selfArg self) true with
      | .ok B => .ok (same self B)
      | .error x => .error x
    | Option.none => .error .typeError

/-- `variables()` -/
def variables (self : OBDDv) : List String := self.root.vars

/-- `OBDD.restrict(var, value)`: `OBDD(self.root.restrict(var, value), self.ordering)` -/
def restrict (self : OBDDv) (var value : PyVal) : Except Err OBDDv :=
  match nodeRestrict self.root var value with
  | .ok t => init (.val (.node t)) (selfArg self) true
  | .error x => .error x

/-- `~self`: `OBDD(~self.root, self.ordering)` -/
def invert (self : OBDDv) : Except Err OBDDv := init (.val (.node self.root.invert)) (selfArg self) true

/-- `__str__` -/
def toStr (self : OBDDv) : String :=
  match self.ordering with
  | some O =>
    let l := Ordering.getList O
    (if l.isEmpty then "lambda" else "lambda " ++ ",".intercalate l) ++ ": " ++ self.root.printStr
  | Option.none => self.root.printStr

end OBDDv

/-- `ordering.in_order(x, y)` where `ordering` may be `None` (`AttributeError`) -/
def ordInOrder : Option (List String) → String → String → Except Err Bool
  | some O, x, y => Ordering.inOrder O x y
  | Option.none, _, _ => .error .attributeError

/-- `compute` of BDD.py on named diagrams (fuel = size sum; the cache `r_cache` is transparent).  On two terminals
    `operator(A.value, B.value)` is applied to two `bool`s (`NBDD.value`), on which `and`, `or`, `^` never raise and
    answer a `bool`.  A comparison with a variable outside the ordering is a `RuntimeError` (`Ordering.cmp`).  The last
    branch is `raise RuntimeError('… %s %s' % A, B)`, whose message fails to format: a `TypeError`. -/
def NBDD.apply (op : Bool → Bool → Bool) (O : Option (List String)) : Nat → NBDD → NBDD → Except Err NBDD
  | 0, a, _ => .ok a
  | _+1, .leaf a, .leaf b => .ok (.leaf (op a b))
  | n+1, .leaf a, .node v lo hi =>
    match NBDD.apply op O n (.leaf a) lo with
    | .error x => .error x
    | .ok l =>
      match NBDD.apply op O n (.leaf a) hi with
      | .error x => .error x
      | .ok h => .ok (NBDD.mk v l h)
  | n+1, .node v lo hi, .leaf b =>
    match NBDD.apply op O n lo (.leaf b) with
    | .error x => .error x
    | .ok l =>
      match NBDD.apply op O n hi (.leaf b) with
      | .error x => .error x
      | .ok h => .ok (NBDD.mk v l h)
  | n+1, .node v1 lo1 hi1, .node v2 lo2 hi2 =>
    let sons (v : String) (a0 b0 a1 b1 : NBDD) : Except Err NBDD :=
      match NBDD.apply op O n a0 b0 with
      | .error x => .error x
      | .ok l =>
        match NBDD.apply op O n a1 b1 with
        | .error x => .error x
        | .ok h => .ok (NBDD.mk v l h)
    match ordInOrder O v1 v2 with
    | .error x => .error x
    | .ok true => sons v1 lo1 (.node v2 lo2 hi2) hi1 (.node v2 lo2 hi2)
    | .ok false =>
      if v1 = v2 then sons v1 lo1 lo2 hi1 hi2
      else
        match ordInOrder O v2 v1 with
        | .error x => .error x
        | .ok true => sons v2 (.node v1 lo1 hi1) lo2 (.node v1 lo1 hi1) hi2
        | .ok false => .error .typeError

/-- `OBDD.apply(operator, B)` (`&`, `|`, `^`): `TypeError` unless `B` is an OBDD, `RuntimeError` when the orderings
    differ; the result is wrapped with `check_ordering=False` (with `ordering=None` that is the lambda branch again) -/
def OBDDv.apply (op : Bool → Bool → Bool) (self : OBDDv) (B : PyVal) : Except Err OBDDv :=
  match B with
  | .obdd b =>
    if !(OBDDv.ordEq self.ordering b.ordering) then .error .runtimeError else
    match NBDD.apply op self.ordering (self.root.size + b.root.size) self.root b.root with
    | .error x => .error x
    | .ok t =>
      match self.ordering with
      | some _ => .ok ⟨t, self.ordering⟩
      | Option.none => .error .typeError
  | _ => .error .typeError

/-! ## 4. `descendents()`, `ancestors()`, `BDDNode.nodes()` on the unique table -/

/-- `node.low, node.high` of a live non-terminal node -/
def children (l : List (Nat × Nd)) : Ref → List Ref
  | .term _ => []
  | .id n =>
    match l.lookup n with
    | some nd => [nd.lo, nd.hi]
    | Option.none => []

/-- `node.f_low | node.f_high`: the live nodes having `r` as a child -/
def parents (l : List (Nat × Nd)) (r : Ref) : List Ref := (fLow l r ++ fHigh l r).map (fun p => Ref.id p.1)

/-- the stack loop shared by `descendents` and `ancestors`: pop a node; if it is new, record it and push its
    neighbours.  `b` bounds the number of nodes that can still be recorded (a popped node that is already recorded
    only shrinks the stack). -/
def closure (next : Ref → List Ref) : Nat → List Ref → List Ref → List Ref
  | _, [], vis => vis
  | b, x :: st, vis =>
    if vis.contains x then closure next b st vis
    else
      match b with
      | 0 => vis
      | b+1 => closure next b (next x ++ st) (x :: vis)
termination_by b st => (b, st.length)

/-- `root.descendents()`: the nodes reachable from `root` (itself and the terminals included) -/
def descendants (s : Store) (r : Ref) : List Ref := closure (children s.live) (s.live.length + 3) [r] []

/-- `leaf.ancestors()`: the live nodes from which `leaf` is reachable (itself included) -/
def ancestors (s : Store) (r : Ref) : List Ref := closure (parents s.live) (s.live.length + 1) [r] []

/-- `BDDNode.nodes()`: `BDDNode(0).ancestors() | BDDNode(1).ancestors()` -/
def nodes (s : Store) : List Ref := ancestors s (.term false) ++ ancestors s (.term true)

end PMC.BDD
