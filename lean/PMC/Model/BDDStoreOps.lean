/-
  Store-passing, cache-passing model of the BDD algorithms of pyModelChecking/BDD/BDD.py: `apply`/`compute`
  (`BDDsons_and_BDD`, `BDD_and_BDDsons`, `BDDsons_and_BDDsons`), `cache_restrict`/`compute_restrict`, `__invert__`.
  They run on the shared unique table (`Store`) through `BDDNonTerminalNode(...)` (= `mkNode`) and thread the
  per-call memo cache `r_cache`.  Imports only the base BDD model.

  Variables are positions in the ordering, so `ordering.in_order x y` is `x < y`.  Reading the fields of a node
  (`A.var`, `A.low`, `A.high`) is a lookup in `s.live`.  A dangling reference cannot occur under the unique-table
  invariant; the functions return their argument there.  Recursion is by fuel; fuel `0` returns the argument.
-/
import PMC.Model.BDD
namespace PMC.BDD

/-- `r_cache` of `apply`: `r_cache[A][B]` -/
abbrev Cache2 := List ((Ref × Ref) × Ref)
/-- `r_cache` of `cache_restrict` and `__invert__`: `r_cache[node]` -/
abbrev Cache1 := List (Ref × Ref)

/-- what `isinstance(A, BDDTerminalNode)` / `A.var, A.low, A.high` see -/
inductive View where
  | term (b : Bool)
  | node (v : Nat) (lo hi : Ref)
  | dangling
  deriving DecidableEq, Repr

def view (s : Store) : Ref → View
  | .term b => .term b
  | .id n =>
    match s.live.lookup n with
    | some nd => .node nd.var nd.lo nd.hi
    | none => .dangling

/-- the common shape of `BDDsons_and_BDD`, `BDD_and_BDDsons`, `BDDsons_and_BDDsons`, and of the non-terminal branches
    of `compute_restrict` and `__invert__`: recursive call for the low child, then for the high child (threading
    store and cache), then `BDDNonTerminalNode(v, low, high)` -/
def expandWith {C A : Type} (rec : Store → C → A → Ref × Store × C) (s : Store) (c : C) (v : Nat) (k0 k1 : A) :
    Ref × Store × C :=
  let r1 := rec s c k0
  let r2 := rec r1.2.1 r1.2.2 k1
  let m := mkNode r2.2.1 v r1.1 r2.1
  (m.1, m.2, r2.2.2)

/-- `apply` (cache lookup, else `compute`, then cache store) -/
def applyS (op : Bool → Bool → Bool) : Nat → Store → Cache2 → Ref → Ref → Ref × Store × Cache2
  | 0, s, c, a, _ => (a, s, c)
  | n+1, s, c, a, b =>
    match c.lookup (a, b) with
    | some r => (r, s, c)
    | none =>
      let rec' : Store → Cache2 → Ref × Ref → Ref × Store × Cache2 := fun s c k => applyS op n s c k.1 k.2
      let res : Ref × Store × Cache2 :=
        match view s a, view s b with
        | .term x, .term y => (.term (op x y), s, c)
        -- `BDD_and_BDDsons`
        | .term _, .node v lo hi => expandWith rec' s c v (a, lo) (a, hi)
        -- `B` terminal: `BDDsons_and_BDD`
        | .node v lo hi, .term _ => expandWith rec' s c v (lo, b) (hi, b)
        | .node v1 lo1 hi1, .node v2 lo2 hi2 =>
          if v1 < v2 then expandWith rec' s c v1 (lo1, b) (hi1, b)              -- `BDDsons_and_BDD`
          else if v1 = v2 then expandWith rec' s c v1 (lo1, lo2) (hi1, hi2)     -- `BDDsons_and_BDDsons`
          else expandWith rec' s c v2 (a, lo2) (a, hi2)                         -- `BDD_and_BDDsons`
        | _, _ => (a, s, c)
      (res.1, res.2.1, ((a, b), res.1) :: res.2.2)

/-- `cache_restrict` / `compute_restrict` -/
def restrictS (x : Nat) (val : Bool) : Nat → Store → Cache1 → Ref → Ref × Store × Cache1
  | 0, s, c, a => (a, s, c)
  | n+1, s, c, a =>
    match c.lookup a with
    | some r => (r, s, c)
    | none =>
      let res : Ref × Store × Cache1 :=
        match view s a with
        | .term b => (.term b, s, c)
        | .node v lo hi =>
          if v = x then (if val then restrictS x val n s c hi else restrictS x val n s c lo)
          else expandWith (restrictS x val n) s c v lo hi
        | .dangling => (a, s, c)
      (res.1, res.2.1, (a, res.1) :: res.2.2)

/-- `__invert__` (terminal and non-terminal nodes) -/
def invertS : Nat → Store → Cache1 → Ref → Ref × Store × Cache1
  | 0, s, c, a => (a, s, c)
  | n+1, s, c, a =>
    match c.lookup a with
    | some r => (r, s, c)
    | none =>
      let res : Ref × Store × Cache1 :=
        match view s a with
        | .term b => (.term (!b), s, c)
        | .node v lo hi => expandWith (invertS n) s c v lo hi
        | .dangling => (a, s, c)
      (res.1, res.2.1, (a, res.1) :: res.2.2)

/-! ### top-level calls (`OBDD.__and__` … / `restrict` / `~`): a fresh cache per call, enough fuel -/

def applyRoot (op : Bool → Bool → Bool) (s : Store) (a b : Ref) : Ref × Store :=
  let r := applyS op (size (treeOf s.live a) + size (treeOf s.live b)) s [] a b
  (r.1, r.2.1)

def restrictRoot (x : Nat) (val : Bool) (s : Store) (a : Ref) : Ref × Store :=
  let r := restrictS x val (size (treeOf s.live a)) s [] a
  (r.1, r.2.1)

def invertRoot (s : Store) (a : Ref) : Ref × Store :=
  let r := invertS (size (treeOf s.live a)) s [] a
  (r.1, r.2.1)

/-- a session: a store together with the roots the program holds (newest first) -/
structure Session where
  store : Store
  roots : List Ref

/-- user-level commands; operands are indices into the list of roots held so far -/
inductive Cmd where
  | const (b : Bool)
  | var (v : Nat)
  | apply (op : Bool → Bool → Bool) (i j : Nat)
  | restrict (x : Nat) (val : Bool) (i : Nat)
  | invert (i : Nat)

def Session.root (σ : Session) (i : Nat) : Ref := σ.roots.getD i (.term false)

def stepCmd (σ : Session) : Cmd → Session
  | .const b => { σ with roots := .term b :: σ.roots }
  | .var v =>
    let m := mkNode σ.store v (.term false) (.term true)
    ⟨m.2, m.1 :: σ.roots⟩
  | .apply op i j =>
    let m := applyRoot op σ.store (σ.root i) (σ.root j)
    ⟨m.2, m.1 :: σ.roots⟩
  | .restrict x val i =>
    let m := restrictRoot x val σ.store (σ.root i)
    ⟨m.2, m.1 :: σ.roots⟩
  | .invert i =>
    let m := invertRoot σ.store (σ.root i)
    ⟨m.2, m.1 :: σ.roots⟩

def runCmds (σ : Session) (cs : List Cmd) : Session := cs.foldl stepCmd σ

end PMC.BDD
