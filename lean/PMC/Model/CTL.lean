/-
  Executable model of pyModelChecking/CTL/model_checking.py.  No Mathlib.

  `check K f` follows `_checkStateFormula` case by case.  The memo table `L` (keyed by printed formula) is not
  represented: it is transparent exactly when printing is injective on the formulas met, which is C09/C11.
-/
import PMC.Model.Syntax
import PMC.Model.Kripke
namespace PMC
namespace CTL
variable {σ : Type} [DecidableEq σ]

/-- `_checkAtomicProposition` -/
def checkAP (K : Kripke σ) (n : String) : List σ := K.states.filter (fun v => decide (n ∈ K.lab v))

/-- `_checkNot` -/
def checkNot (K : Kripke σ) (L : List σ) : List σ := K.states.filter (fun v => decide (v ∉ L))

/-- `_checkEX`: sources of the transitions whose destination satisfies phi -/
def checkEX (K : Kripke σ) (L : List σ) : List σ :=
  (K.graph.edges.filter (fun e => decide (e.2 ∈ L))).map Prod.fst

/-- `_checkEU` -/
def checkEU (K : Kripke σ) (L0 L1 : List σ) : List σ :=
  let sub := (K.graph.subgraph L0).reversed
  let sub := L0.foldl (fun g v =>
      ((K.succ v).filter (fun w => decide (w ∈ L1))).foldl (fun g w => g.addEdgeIgnore w v) g) sub
  let sub := (L1.filter (fun v => !sub.hasNode v)).foldl Graph.addNodeRaw sub
  Graph.reachFromFn sub.next sub.nodes L1

/-- `_checkEG` -/
def checkEG (K : Kripke σ) (L : List σ) : List σ :=
  let sub := (K.graph.subgraph L).reversed
  let T := (sub.sccs.filter (fun scc =>
      match scc with
      | [] => false
      | v :: _ => decide (scc.length > 1) || decide (v ∈ sub.next v))).flatten
  Graph.reachFromFn sub.next sub.nodes T

/-- `_checkStateFormula` on formulas of the restricted CTL alphabet (no fall-through needed) -/
def checkR (K : Kripke σ) : Fm → List σ
  | .tt => K.states
  | .ff => []
  | .ap n => checkAP K n
  | .not f => checkNot K (checkR K f)
  | .or fs => checkRList K fs
  | .E (.G f) => checkEG K (checkR K f)
  | .E (.U f g) => checkEU K (checkR K f) (checkR K g)
  | .E (.X f) => checkEX K (checkR K f)
  | _ => []
where
  checkRList (K : Kripke σ) : List Fm → List σ
    | [] => []
    | f :: fs => checkR K f ++ checkRList K fs

/-- `_checkStateFormula`: the cases handled directly, otherwise rewrite to the restricted syntax and check that -/
def check (K : Kripke σ) : Fm → List σ
  | .tt => K.states
  | .ff => []
  | .ap n => checkAP K n
  | .not f => checkNot K (check K f)
  | .or fs => checkList K fs
  | .E (.G f) => checkEG K (check K f)
  | .E (.U f g) => checkEU K (check K f) (check K g)
  | .E (.X f) => checkEX K (check K f)
  | f => checkR K f.restrictCTL
where
  checkList (K : Kripke σ) : List Fm → List σ
    | [] => []
    | f :: fs => check K f ++ checkList K fs

/-- `CTL.modelcheck(K, f)` for a CTL state formula and `F=None` -/
def modelcheck (K : Kripke σ) (f : Fm) : Except Err (List σ) :=
  if f.isCTLState then .ok (check K f) else .error .typeError

end CTL
end PMC
