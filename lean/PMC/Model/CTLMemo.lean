/-
  The CTL labelling algorithm of pyModelChecking/CTL/model_checking.py WITH its memo table `L`.  No Mathlib.

  `L` is a Python dict keyed by formula objects; `Formula.__hash__` / `Formula.__eq__` go through `str(self)`, which
  for CTL-module objects is the CTL notation `Fm.printCTL`.  So the table is a map from printed forms to state sets:
  `Memo σ`, an association list with first-match lookup and insertion at the front (`L[k] = v` overwrites).

  `checkAPM` … `checkEGM` follow `_checkAtomicProposition` … `_checkEG` line by line; the recursive call
  `_checkStateFormula(kripke, sub, L)` on an operand is passed in as a table transformer (`Memo σ → List σ × Memo σ`)
  so that the dispatcher stays structurally recursive.  `checkRM` is `_checkStateFormula` on the restricted CTL
  alphabet (never falls through), `checkM` is `_checkStateFormula` with the fall-through
  `restr_f = formula.get_equivalent_restricted_formula(); … L[formula] = Lalter_formula`.

  (`Bool.__eq__` compares values rather than printed forms; this differs from the string key only when an atom is
  called `true` / `false`, which the theorems about this model exclude: `Fm.wfAtoms`.)
-/
import PMC.Model.CTL
namespace PMC
namespace CTL

/-- the memo table `L`: printed formula ↦ labelled state set -/
abbrev Memo (σ : Type) := List (String × List σ)

namespace Memo
variable {σ : Type}

/-- `L[k]` / `k in L`: first match -/
def get? : Memo σ → String → Option (List σ)
  | [], _ => none
  | (k', S) :: L, k => if k' = k then some S else get? L k

/-- `L[k] = S` -/
def set (L : Memo σ) (k : String) (S : List σ) : Memo σ := (k, S) :: L

end Memo

variable {σ : Type} [DecidableEq σ]

/-- `_checkAtomicProposition(kripke, formula, L)`; the key of `AtomicProposition(n)` is `n` -/
def checkAPM (K : Kripke σ) (n : String) (L : Memo σ) : List σ × Memo σ :=
  match L.get? n with
  | some S => (S, L)                                  -- `formula in L`: `return L[formula]`
  | none =>
    let Lformula := checkAP K n
    (Lformula, L.set n Lformula)                      -- `L[formula] = Lformula; return L[formula]`

/-- `_checkNot(kripke, formula, L)`; `key = str(formula)`, `sub = _checkStateFormula(kripke, formula.subformula(0), ·)` -/
def checkNotM (K : Kripke σ) (key : String) (sub : Memo σ → List σ × Memo σ) (L : Memo σ) : List σ × Memo σ :=
  match L.get? key with
  | some S => (S, L)
  | none =>
    let (Lphi, L) := sub L
    let Lformula := checkNot K Lphi
    (Lformula, L.set key Lformula)

/-- `_checkEX(kripke, formula, L)` -/
def checkEXM (K : Kripke σ) (key : String) (sub : Memo σ → List σ × Memo σ) (L : Memo σ) : List σ × Memo σ :=
  match L.get? key with
  | some S => (S, L)
  | none =>
    let (Lphi, L) := sub L
    let Lformula := checkEX K Lphi
    (Lformula, L.set key Lformula)

/-- `_checkOr(kripke, formula, L)`; `subs` evaluates the operands left to right, threading the table, and returns
    the union -/
def checkOrM (key : String) (subs : Memo σ → List σ × Memo σ) (L : Memo σ) : List σ × Memo σ :=
  match L.get? key with
  | some S => (S, L)
  | none =>
    let (Lformula, L) := subs L
    (Lformula, L.set key Lformula)

/-- `_checkEU(kripke, formula, L)`: operand 0, then operand 1 -/
def checkEUM (K : Kripke σ) (key : String) (sub0 sub1 : Memo σ → List σ × Memo σ) (L : Memo σ) :
    List σ × Memo σ :=
  match L.get? key with
  | some S => (S, L)
  | none =>
    let (Lphi0, L) := sub0 L
    let (Lphi1, L) := sub1 L
    let Lformula := checkEU K Lphi0 Lphi1
    (Lformula, L.set key Lformula)

/-- `_checkEG(kripke, formula, L)` -/
def checkEGM (K : Kripke σ) (key : String) (sub : Memo σ → List σ × Memo σ) (L : Memo σ) : List σ × Memo σ :=
  match L.get? key with
  | some S => (S, L)
  | none =>
    let (Lphi, L) := sub L
    let Lformula := checkEG K Lphi
    (Lformula, L.set key Lformula)

/-- the `Bool` branch of `_checkStateFormula`: does not consult the table, overwrites the entry -/
def checkBoolM (K : Kripke σ) (b : Bool) (L : Memo σ) : List σ × Memo σ :=
  if b then (K.states, L.set "true" K.states) else ([], L.set "false" [])

/-- `_checkStateFormula` on formulas of the restricted CTL alphabet (no fall-through needed) -/
def checkRM (K : Kripke σ) : Fm → Memo σ → List σ × Memo σ
  | .tt => checkBoolM K true
  | .ff => checkBoolM K false
  | .ap n => checkAPM K n
  | .not f => checkNotM K (Fm.not f).printCTL (checkRM K f)
  | .or fs => checkOrM (Fm.or fs).printCTL (checkRMList K fs)
  | .E (.G f) => checkEGM K (Fm.E (.G f)).printCTL (checkRM K f)
  | .E (.U f g) => checkEUM K (Fm.E (.U f g)).printCTL (checkRM K f) (checkRM K g)
  | .E (.X f) => checkEXM K (Fm.E (.X f)).printCTL (checkRM K f)
  | _ => fun L => ([], L)
where
  /-- the loop of `_checkOr` -/
  checkRMList (K : Kripke σ) : List Fm → Memo σ → List σ × Memo σ
    | [] => fun L => ([], L)
    | f :: fs => fun L =>
      let (S, L) := checkRM K f L
      let (T, L) := checkRMList K fs L
      (S ++ T, L)

/-- `_checkStateFormula(kripke, formula, L)` -/
def checkM (K : Kripke σ) : Fm → Memo σ → List σ × Memo σ
  | .tt => checkBoolM K true
  | .ff => checkBoolM K false
  | .ap n => checkAPM K n
  | .not f => checkNotM K (Fm.not f).printCTL (checkM K f)
  | .or fs => checkOrM (Fm.or fs).printCTL (checkMList K fs)
  | .E (.G f) => checkEGM K (Fm.E (.G f)).printCTL (checkM K f)
  | .E (.U f g) => checkEUM K (Fm.E (.U f g)).printCTL (checkM K f) (checkM K g)
  | .E (.X f) => checkEXM K (Fm.E (.X f)).printCTL (checkM K f)
  | f => fun L =>
    -- `restr_f = formula.get_equivalent_restricted_formula()`
    let (Lalter, L) := checkRM K f.restrictCTL L        -- `_checkStateFormula(kripke, restr_f, L)`
    (Lalter, L.set f.printCTL Lalter)                   -- `L[formula] = Lalter_formula; return Lalter_formula`
where
  checkMList (K : Kripke σ) : List Fm → Memo σ → List σ × Memo σ
    | [] => fun L => ([], L)
    | f :: fs => fun L =>
      let (S, L) := checkM K f L
      let (T, L) := checkMList K fs L
      (S ++ T, L)

/-- `CTL.modelcheck(K, f)` for a CTL state formula and `F=None`: `_checkStateFormula(kripke, formula, L=dict())` -/
def modelcheckM (K : Kripke σ) (f : Fm) : List σ := (checkM K f []).1

end CTL
end PMC
