/-
  Executable model of pyModelChecking/CTLS/model_checking.py.  No Mathlib.

  `removeState` is `_remove_state_subformulas`: innermost quantified subformulas are checked first and replaced by a
  fresh atom that labels exactly the states satisfying them (on the clone of the structure).  `checkQ` is
  `_checkQuantifiedFormula`: CTL when the quantified formula casts to CTL, otherwise LTL (`A`), `E g` through
  `not A not g`.
-/
import PMC.Model.CTL
import PMC.Model.LTL
namespace PMC
namespace CTLS
variable {σ : Type} [DecidableEq σ]

/-- `_get_a_new_atomic_proposition_for` -/
def freshName (K : Kripke σ) (f : Fm) : String :=
  let labs := K.allLabels
  let fstr := "[" ++ f.print ++ "]"
  if fstr ∉ labs then fstr
  else
    match (List.range (labs.length + 1)).find? (fun i => ("[" ++ fstr ++ "(" ++ toString i ++ ")]") ∉ labs) with
    | some i => "[" ++ fstr ++ "(" ++ toString i ++ ")]"
    | none => fstr  -- unreachable: labs.length+1 distinct candidates cannot all be among labs

def ltlStates (K : Kripke σ) (g : Fm) : List σ :=
  match LTL.modelcheck K (.A g) with
  | .ok S => S
  | .error _ => []

/-- the states satisfying `A g` for a quantifier-free `g`: CTL if `A g` is a CTL formula, LTL otherwise -/
def checkA (K : Kripke σ) (g : Fm) : List σ :=
  if (Fm.A g).isCTLState then CTL.check K (.A g) else ltlStates K g

/-- `_checkQuantifiedFormula` after the inner quantifiers of its operand have been removed (`g` quantifier-free);
    returns the (possibly further relabelled) structure and the satisfying states -/
def checkQ (K : Kripke σ) (isA : Bool) (g : Fm) : Kripke σ × List σ :=
  if isA then (K, checkA K g)
  else if (Fm.E g).isCTLState then (K, CTL.check K (.E g))
  else
    -- E g  ~>  LNot(A(LNot g)) = not A(h); `_remove_state_subformulas` names and labels `A h`, then CTL checks `not [A h]`
    let h := g.lnot
    let name := freshName K (.A h)
    let K' := K.addLabel name (checkA K h)
    (K', CTL.check K' (.not (.ap name)))

/-- `_remove_state_subformulas` -/
def removeState (K : Kripke σ) : Fm → Kripke σ × Fm
  | .tt => (K, .tt) | .ff => (K, .ff) | .ap n => (K, .ap n)
  | .A g =>
      let name := freshName K (.A g)
      let r := removeState K g
      let q := checkQ r.1 true r.2
      (q.1.addLabel name q.2, .ap name)
  | .E g =>
      let name := freshName K (.E g)
      let r := removeState K g
      let q := checkQ r.1 false r.2
      (q.1.addLabel name q.2, .ap name)
  | .not f => let r := removeState K f; (r.1, .not r.2)
  | .X f => let r := removeState K f; (r.1, .X r.2)
  | .F f => let r := removeState K f; (r.1, .F r.2)
  | .G f => let r := removeState K f; (r.1, .G r.2)
  | .or fs => let r := removeStateList K fs; (r.1, .or r.2)
  | .and fs => let r := removeStateList K fs; (r.1, .and r.2)
  | .imp f g => let r := removeState K f; let r' := removeState r.1 g; (r'.1, .imp r.2 r'.2)
  | .U f g => let r := removeState K f; let r' := removeState r.1 g; (r'.1, .U r.2 r'.2)
  | .R f g => let r := removeState K f; let r' := removeState r.1 g; (r'.1, .R r.2 r'.2)
where
  removeStateList (K : Kripke σ) : List Fm → Kripke σ × List Fm
    | [] => (K, [])
    | f :: fs => let r := removeState K f; let r' := removeStateList r.1 fs; (r'.1, r.2 :: r'.2)


/-! ### ghost instrumentation: the same computation, additionally returning every (name, set) pair handed to
    `addLabel`, in order.  Used to state (and to check at run time) that the naming discipline worked. -/

def checkQT (K : Kripke σ) (isA : Bool) (g : Fm) : Kripke σ × List σ × List (String × List σ) :=
  if isA then (K, checkA K g, [])
  else if (Fm.E g).isCTLState then (K, CTL.check K (.E g), [])
  else
    let h := g.lnot
    let name := freshName K (.A h)
    let S := checkA K h
    let K' := K.addLabel name S
    (K', CTL.check K' (.not (.ap name)), [(name, S)])

def removeStateT (K : Kripke σ) : Fm → Kripke σ × Fm × List (String × List σ)
  | .tt => (K, .tt, []) | .ff => (K, .ff, []) | .ap n => (K, .ap n, [])
  | .A g =>
      let name := freshName K (.A g)
      let r := removeStateT K g
      let q := checkQT r.1 true r.2.1
      (q.1.addLabel name q.2.1, .ap name, r.2.2 ++ q.2.2 ++ [(name, q.2.1)])
  | .E g =>
      let name := freshName K (.E g)
      let r := removeStateT K g
      let q := checkQT r.1 false r.2.1
      (q.1.addLabel name q.2.1, .ap name, r.2.2 ++ q.2.2 ++ [(name, q.2.1)])
  | .not f => let r := removeStateT K f; (r.1, .not r.2.1, r.2.2)
  | .X f => let r := removeStateT K f; (r.1, .X r.2.1, r.2.2)
  | .F f => let r := removeStateT K f; (r.1, .F r.2.1, r.2.2)
  | .G f => let r := removeStateT K f; (r.1, .G r.2.1, r.2.2)
  | .or fs => let r := removeStateTList K fs; (r.1, .or r.2.1, r.2.2)
  | .and fs => let r := removeStateTList K fs; (r.1, .and r.2.1, r.2.2)
  | .imp f g => let r := removeStateT K f; let r' := removeStateT r.1 g; (r'.1, .imp r.2.1 r'.2.1, r.2.2 ++ r'.2.2)
  | .U f g => let r := removeStateT K f; let r' := removeStateT r.1 g; (r'.1, .U r.2.1 r'.2.1, r.2.2 ++ r'.2.2)
  | .R f g => let r := removeStateT K f; let r' := removeStateT r.1 g; (r'.1, .R r.2.1 r'.2.1, r.2.2 ++ r'.2.2)
where
  removeStateTList (K : Kripke σ) : List Fm → Kripke σ × List Fm × List (String × List σ)
    | [] => (K, [], [])
    | f :: fs =>
      let r := removeStateT K f
      let r' := removeStateTList r.1 fs
      (r'.1, r.2.1 :: r'.2.1, r.2.2 ++ r'.2.2)

/-- the naming discipline worked on this run: no generated name is an atom of the formula or a label of the
    original structure, and a name generated twice was generated for the same set of states -/
def namesOK (K : Kripke σ) (f : Fm) : Bool :=
  let tr := (removeStateT K f).2.2
  tr.all (fun p => !(f.atoms.contains p.1) && !(K.allLabels.contains p.1)) &&
  tr.all (fun p => tr.all (fun q => p.1 != q.1 ||
    (p.2.all (fun s => q.2.contains s) && q.2.all (fun s => p.2.contains s))))

/-- `CTLS.modelcheck(K, f)`, `F=None` -/
def modelcheck (K : Kripke σ) (f : Fm) : Except Err (List σ) :=
  let r := removeState K f
  CTL.modelcheck r.1 r.2

end CTLS
end PMC
