/-
  Model of the class lattice of pyModelChecking/{PL,CTLS,CTL,LTL}/language.py as far as it decides which objects can
  be built (C08).  No Mathlib.

  One Python class per operator per language module; every constructor ends in
  `PL.Formula.wrap_subformulas(self, operands, FormulaClass)`, which (a) casts an operand whose class lives in another
  language module with `cast_to(Lang)` and (b) requires `isinstance(operand, FormulaClass)`, else `TypeError`.
  `FormulaClass` depends on the operator and on the module (through the MRO).  All of that is data: a `ClassTable`
  holds, per module, the alphabet, the operand class every constructor asks for, and the `issubclass` facts.
  `harness/extract/classes.py` extracts the table of the live code (`PMC.Classes.generatedTable`); `refTable` below is
  the lattice as it is supposed to be; `PMC.C08.table_ok` is the generated obligation that they coincide.

  Objects are modelled by their trees (`Fm`) plus the module they were built in: after construction every node of an
  object lives in one module, so the class of a node is `(module, className node)`.
-/
import PMC.Model.Syntax
import PMC.Model.LTL
namespace PMC
namespace Classes

/-- a Python class of a language module: (module, class name) -/
abbrev Cls := Logic × String

structure ClassTable where
  /-- `M.alphabet` (class names) -/
  alphabet : List (Logic × List String)
  /-- `(M, C) ↦ FormulaClass` handed to `wrap_subformulas` by the constructor of `M.C` (no entry for leaves) -/
  operand : List (Cls × Cls)
  /-- `(M, C) ↦` the kinds `(M', K)` with `issubclass(M.C, M'.K)`; kinds are `Formula`, `StateFormula`, `PathFormula`
      of every module that defines them, and `CTLS.A` -/
  sub : List (Cls × List Cls)
  deriving Repr, DecidableEq

namespace ClassTable

def inAlphabet (T : ClassTable) (M : Logic) (c : String) : Bool :=
  match T.alphabet.find? (fun e => e.1 == M) with
  | some e => e.2.contains c
  | none => false

def operandKind (T : ClassTable) (M : Logic) (c : String) : Option Cls :=
  match T.operand.find? (fun e => e.1 == (M, c)) with
  | some e => some e.2
  | none => none

/-- `issubclass(a, b)` -/
def isSub (T : ClassTable) (a b : Cls) : Bool :=
  match T.sub.find? (fun e => e.1 == a) with
  | some e => e.2.contains b
  | none => false

end ClassTable

/-- the class name of the root of a tree -/
def className : Fm → String
  | .tt | .ff => "Bool"
  | .ap _ => "AtomicProposition"
  | .not _ => "Not" | .or _ => "Or" | .and _ => "And" | .imp _ _ => "Imply"
  | .X _ => "X" | .F _ => "F" | .G _ => "G" | .U _ _ => "U" | .R _ _ => "R"
  | .A _ => "A" | .E _ => "E"

def classNames (fs : List Fm) : List String := fs.map className

/-! ### construction -/

/-- the `isinstance(operand, FormulaClass)` tests of one constructor call `M.op(…)` whose operands are objects of module
    `M` with root classes `cs` -/
def node (T : ClassTable) (M : Logic) (op : String) (cs : List String) : Except Err Unit :=
  match T.operandKind M op with
  | none => .error .typeError
  | some k => if cs.all (fun c => T.isSub (M, c) k) then .ok () else .error .typeError

/-- a leaf `M.Bool(b)` / `M.AtomicProposition(name)` (attribute access on the module in `to_obj` and in `cast_to`) -/
def leaf (T : ClassTable) (M : Logic) (c : String) : Except Err Unit :=
  if T.inAlphabet M c then .ok () else .error .attributeError

/-- an inner node: the class is looked up first (`missing` if the module has no such operator), then the operands are
    built (left to right, `kids`), then the constructor runs its tests -/
def inner (T : ClassTable) (M : Logic) (missing : Err) (op : String) (kids : Except Err Unit) (cs : List String) :
    Except Err Unit :=
  if T.inAlphabet M op then
    match kids with
    | .ok () => node T M op cs
    | .error e => .error e
  else .error missing

/-- `build T M missing f`: run the constructors of module `M` over the tree `f`, bottom-up.
    `getattr(M, name)(*[build(c) for c in children])` with `missing = AttributeError`;
    `Formula.cast_to(obj, M)` with `missing = TypeError` (same order: the alphabet test of the node, the operands, then
    the constructor `M.alphabet[name](*operands)`). -/
def build (T : ClassTable) (M : Logic) (missing : Err) : Fm → Except Err Unit
  | .tt => leaf T M "Bool"
  | .ff => leaf T M "Bool"
  | .ap _ => leaf T M "AtomicProposition"
  | .not f => inner T M missing "Not" (build T M missing f) [className f]
  | .or fs => inner T M missing "Or" (buildList fs) (classNames fs)
  | .and fs => inner T M missing "And" (buildList fs) (classNames fs)
  | .imp f g => inner T M missing "Imply" (seq (build T M missing f) (build T M missing g)) [className f, className g]
  | .X f => inner T M missing "X" (build T M missing f) [className f]
  | .F f => inner T M missing "F" (build T M missing f) [className f]
  | .G f => inner T M missing "G" (build T M missing f) [className f]
  | .U f g => inner T M missing "U" (seq (build T M missing f) (build T M missing g)) [className f, className g]
  | .R f g => inner T M missing "R" (seq (build T M missing f) (build T M missing g)) [className f, className g]
  | .A f => inner T M missing "A" (build T M missing f) [className f]
  | .E f => inner T M missing "E" (build T M missing f) [className f]
where
  buildList : List Fm → Except Err Unit
    | [] => .ok ()
    | f :: fs => seq (build T M missing f) (buildList fs)
  seq (a b : Except Err Unit) : Except Err Unit :=
    match a with
    | .ok () => b
    | .error e => .error e

/-- building the tree `f` with the classes of module `M` (`common.to_obj`): `OK`, or the first exception -/
def construct (T : ClassTable) (M : Logic) (f : Fm) : Except Err Unit := build T M .attributeError f

/-- `obj.cast_to(Mto)` for an object `obj` with tree `f` that was built in module `Mfrom`.  The source module plays no
    role: `cast_to` only reads class *names* and operands. -/
def castTo (T : ClassTable) (_Mfrom Mto : Logic) (f : Fm) : Except Err Unit := build T Mto .typeError f

/-- the operand loop of `wrap_subformulas` for `FormulaClass = k`, operands being objects of arbitrary modules -/
def mixedOperands (T : ClassTable) (M : Logic) (k : Cls) : List (Logic × Fm) → Except Err Unit
  | [] => .ok ()
  | (Mi, f) :: rest =>
    match (if Mi == M then .ok () else castTo T Mi M f) with
    | .error e => .error e
    | .ok () => if T.isSub (M, className f) k then mixedOperands T M k rest else .error .typeError

/-- `getattr(M, op)(*children)` where child `i` is an object with tree `fᵢ` built in module `Mᵢ` -/
def constructMixed (T : ClassTable) (M : Logic) (op : String) (children : List (Logic × Fm)) : Except Err Unit :=
  if T.inAlphabet M op then
    match T.operandKind M op with
    | none => .error .typeError
    | some k => mixedOperands T M k children
  else .error .attributeError

/-! ### the type guards of the three `modelcheck` functions

  `… = .ok ()` means "no guard raised" (the checker goes on to compute a set); the object has tree `f` and was built in
  module `Mobj`; `kripke = false` stands for a first argument that is not a `Kripke`. -/

/-- `CTL.modelcheck`: an object that is not a `CTL.Formula` is cast to CTL (any exception becomes `TypeError`); the
    result must be a `CTL.StateFormula`; then the structure is tested. -/
def guardCTL (T : ClassTable) (Mobj : Logic) (f : Fm) (kripke : Bool) : Except Err Unit :=
  match (if T.isSub (Mobj, className f) (.CTL, "Formula") then Except.ok () else castTo T Mobj .CTL f) with
  | .error _ => .error .typeError
  | .ok () =>
    if T.isSub (.CTL, className f) (.CTL, "StateFormula") then
      (if kripke then .ok () else .error .typeError)
    else .error .typeError

/-- `LTL.modelcheck`: an object that is a `CTLS.Formula` but not an `LTL.Formula` (every CTL- and CTLS-module object) is
    first cast to LTL (any exception becomes `TypeError`); from then on it is an LTL-module object.  The (possibly
    cast) object must be an instance of `CTLS.A` (`LTL.A` qualifies; a PL-module object is neither cast nor a `CTLS.A`);
    then the structure is tested; then, inside `try … except TypeError: raise TypeError`, `LNot(operand)` is built *in
    the module of the (cast) object*, rewritten, and `_get_closure` raises `TypeError` on anything that is not in
    {not, or, X, U} over atoms (`LTL.toR`, as in `LTL.modelcheck` of PMC/Model/LTL.lean).
    (The rewriting also builds its result in that module; for LTL-module objects that never fails.) -/
def guardLTL (T : ClassTable) (Mobj : Logic) (f : Fm) (kripke : Bool) : Except Err Unit :=
  let cast := T.isSub (Mobj, className f) (.CTLS, "Formula") && !T.isSub (Mobj, className f) (.LTL, "Formula")
  match (if cast then castTo T Mobj .LTL f else Except.ok ()) with
  | .error _ => .error .typeError
  | .ok () =>
    let M : Logic := if cast then .LTL else Mobj
    if T.isSub (M, className f) (.CTLS, "A") then
      if kripke then
        match f with
        | .A g =>
          match construct T M g.lnot with
          | .error e => .error e
          | .ok () => if (LTL.toR g.lnot.restrict).isSome then .ok () else .error .typeError
        | _ => .error .typeError
      else .error .typeError
    else .error .typeError

/-- what `_remove_state_subformulas` returns, up to the names of the new atoms: every maximal quantified subformula
    replaced by an atom -/
def stripQ : Fm → Fm
  | .tt => .tt | .ff => .ff | .ap n => .ap n
  | .A _ => .ap "[]" | .E _ => .ap "[]"
  | .not f => .not (stripQ f)
  | .or fs => .or (stripQList fs)
  | .and fs => .and (stripQList fs)
  | .imp f g => .imp (stripQ f) (stripQ g)
  | .X f => .X (stripQ f) | .F f => .F (stripQ f) | .G f => .G (stripQ f)
  | .U f g => .U (stripQ f) (stripQ g) | .R f g => .R (stripQ f) (stripQ g)
where
  stripQList : List Fm → List Fm
    | [] => []
    | f :: fs => stripQ f :: stripQList fs

/-- `CTLS.modelcheck`: the structure is tested first; an object that is not a `CTLS.Formula` (every PL-module object:
    `PL.Formula` is a base class of `CTLS.Formula`, not a subclass) is cast to CTL* (any exception becomes `TypeError`);
    from then on it is a CTLS-module object.  `_remove_state_subformulas` raises `TypeError` on an object that is not a
    `CTLS.Formula`; its result — an object of the same module — goes to `CTL.modelcheck`. -/
def guardCTLS (T : ClassTable) (Mobj : Logic) (f : Fm) (kripke : Bool) : Except Err Unit :=
  if kripke then
    let cast := !T.isSub (Mobj, className f) (.CTLS, "Formula")
    match (if cast then castTo T Mobj .CTLS f else Except.ok ()) with
    | .error _ => .error .typeError
    | .ok () =>
      let M : Logic := if cast then .CTLS else Mobj
      if T.isSub (M, className f) (.CTLS, "Formula") then guardCTL T M (stripQ f) true
      else .error .typeError
  else .error .typeError

/-! ### the lattice as it is supposed to be -/

def refAlphabet : Logic → List String
  | .PL => ["And", "AtomicProposition", "Bool", "Imply", "Not", "Or"]
  | .CTL => ["A", "And", "AtomicProposition", "Bool", "E", "F", "G", "Imply", "Not", "Or", "R", "U", "X"]
  | .LTL => ["A", "And", "AtomicProposition", "Bool", "F", "G", "Imply", "Not", "Or", "R", "U", "X"]
  | .CTLS => ["A", "And", "AtomicProposition", "Bool", "E", "F", "G", "Imply", "Not", "Or", "R", "U", "X"]

def isLeafName (c : String) : Bool := c == "Bool" || c == "AtomicProposition"
def isQuantName (c : String) : Bool := c == "A" || c == "E"
def isTemporalName (c : String) : Bool := c == "X" || c == "F" || c == "G" || c == "U" || c == "R"
def isBooleanName (c : String) : Bool := c == "Not" || c == "Or" || c == "And" || c == "Imply"

/-- the operand class of `M.c`: PL — any PL formula; CTL — a path formula under a quantifier, state formulas
    everywhere else; LTL — path formulas everywhere (also under `A`); CTL* — any CTL* formula -/
def refOperand : Logic → String → Cls
  | .PL, _ => (.PL, "Formula")
  | .CTL, c => if isQuantName c then (.CTL, "PathFormula") else (.CTL, "StateFormula")
  | .LTL, _ => (.LTL, "PathFormula")
  | .CTLS, _ => (.CTLS, "Formula")

/-- the kinds of `M.c`.  CTL: the five temporal operators are path formulas, everything else is a state formula.
    LTL: `A` is the only state formula and the only class that is not a path formula.  CTL*: atoms and quantified
    formulas are state (hence path) formulas, temporal operators are path formulas, Boolean operators are neither.
    Everything of CTL and LTL is also the CTL* kind of the same name, except that LTL's atoms are CTL* state formulas. -/
def refSupers : Logic → String → List Cls
  | .PL, _ => [(.PL, "Formula")]
  | .CTL, c =>
      [(.PL, "Formula"), (.CTL, "Formula"), (.CTL, if isTemporalName c then "PathFormula" else "StateFormula")] ++
      (if c == "A" then [(.CTLS, "A")] else []) ++
      [(.CTLS, "Formula"), (.CTLS, "PathFormula")] ++
      (if isTemporalName c then [] else [(.CTLS, "StateFormula")])
  | .LTL, c =>
      [(.PL, "Formula"), (.LTL, "Formula"), (.LTL, if c == "A" then "StateFormula" else "PathFormula")] ++
      (if c == "A" then [(.CTLS, "A")] else []) ++
      [(.CTLS, "Formula"), (.CTLS, "PathFormula")] ++
      (if c == "A" || isLeafName c then [(.CTLS, "StateFormula")] else [])
  | .CTLS, c =>
      [(.PL, "Formula")] ++ (if c == "A" then [(.CTLS, "A")] else []) ++ [(.CTLS, "Formula")] ++
      (if isBooleanName c then [] else [(.CTLS, "PathFormula")]) ++
      (if isQuantName c || isLeafName c then [(.CTLS, "StateFormula")] else [])

def logics : List Logic := [.PL, .CTL, .LTL, .CTLS]

def refTable : ClassTable where
  alphabet := logics.map (fun M => (M, refAlphabet M))
  operand := logics.flatMap (fun M =>
    ((refAlphabet M).filter (fun c => !isLeafName c)).map (fun c => ((M, c), refOperand M c)))
  sub := logics.flatMap (fun M => (refAlphabet M).map (fun c => ((M, c), refSupers M c)))

end Classes
end PMC
