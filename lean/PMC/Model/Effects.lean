/-
  An explicit object store for Kripke structures, and store-passing versions of the three model checkers.  No Mathlib.

  Python passes `Kripke` objects by reference and the label sets of a `Kripke` object are mutable.  The checkers
  mutate label sets in exactly two places (F=None): `CTLS._remove_state_subformulas` executes
  `kripke.labels(s).add(f_atom)` for every state `s` satisfying a quantified subformula (and once more, through the
  recursive call, inside the `E g ~> not A not g` branch of `_checkQuantifiedFormula`).  `CTLS.modelcheck` applies
  `_remove_state_subformulas` to `kripke.clone()`, never to the caller's object.

  `Store σ` maps object identities to the current value of the object.  `removeStateS` / `checkQS` are the recursion of
  `CTLS.removeState` / `CTLS.checkQ` (PMC/Model/CTLS.lean) with Python's parameter passing: the structure is *named*
  by an identity `k`, read through `h.get k`, and every `addLabel` is performed on object `k` of the store.
  `CTL.modelcheckS` / `LTL.modelcheckS` / `CTLS.modelcheckS` are the entry points; each returns the final store and
  the answer.  PMC/Properties/C07.lean proves that they leave every pre-existing object unchanged and that the answer
  is the pure function of the *value* of the argument.
-/
import PMC.Model.CTLS
namespace PMC

/-- object identities ↦ current values; `next` is the next fresh identity -/
structure Store (σ : Type) where
  objs : List (Nat × Kripke σ)
  next : Nat

namespace Store
variable {σ : Type}

def empty : Store σ := ⟨[], 0⟩

/-- the identities of the live objects -/
def ids (h : Store σ) : List Nat := h.objs.map Prod.fst

/-- the allocator discipline: every live identity is below `next` (so `next` is fresh) -/
def WF (h : Store σ) : Prop := ∀ i ∈ h.ids, i < h.next

def wf (h : Store σ) : Bool := h.ids.all (fun i => decide (i < h.next))

def lookup : List (Nat × Kripke σ) → Nat → Option (Kripke σ)
  | [], _ => none
  | p :: l, i => if p.1 = i then some p.2 else lookup l i

/-- the value of object `i`, if it exists -/
def get? (h : Store σ) (i : Nat) : Option (Kripke σ) := lookup h.objs i

/-- the value of object `i` (the empty structure for a dangling identity) -/
def get (h : Store σ) (i : Nat) : Kripke σ := (h.get? i).getD ⟨[], fun _ => [], fun _ => []⟩

def update : List (Nat × Kripke σ) → Nat → Kripke σ → List (Nat × Kripke σ)
  | [], _, _ => []
  | p :: l, i, K => if p.1 = i then (p.1, K) :: l else p :: update l i K

/-- overwrite the value of object `i` (nothing happens on a dangling identity) -/
def set (h : Store σ) (i : Nat) (K : Kripke σ) : Store σ := { h with objs := update h.objs i K }

/-- allocate a new object with value `K`; returns the new store and the fresh identity -/
def alloc (h : Store σ) (K : Kripke σ) : Store σ × Nat :=
  ({ objs := h.objs ++ [(h.next, K)], next := h.next + 1 }, h.next)

/-- `kripke.clone()`: a new object with the same value -/
def clone (h : Store σ) (id : Nat) : Store σ × Nat := h.alloc (h.get id)

/-- `for s in X: kripke.labels(s).add(a)` on object `id` -/
def addLabel [DecidableEq σ] (h : Store σ) (id : Nat) (a : String) (X : List σ) : Store σ :=
  h.set id ((h.get id).addLabel a X)

end Store

namespace CTLS
variable {σ : Type} [DecidableEq σ]

/-- `_checkQuantifiedFormula` on object `k` (operand already quantifier-free): returns the store and the states -/
def checkQS (h : Store σ) (k : Nat) (isA : Bool) (g : Fm) : Store σ × List σ :=
  if isA then (h, checkA (h.get k) g)
  else if (Fm.E g).isCTLState then (h, CTL.check (h.get k) (.E g))
  else
    let f := g.lnot
    let name := freshName (h.get k) (.A f)
    let h' := h.addLabel k name (checkA (h.get k) f)
    (h', CTL.check (h'.get k) (.not (.ap name)))

/-- `_remove_state_subformulas` on object `k` -/
def removeStateS (h : Store σ) (k : Nat) : Fm → Store σ × Fm
  | .tt => (h, .tt) | .ff => (h, .ff) | .ap n => (h, .ap n)
  | .A g =>
      let name := freshName (h.get k) (.A g)
      let r := removeStateS h k g
      let q := checkQS r.1 k true r.2
      (q.1.addLabel k name q.2, .ap name)
  | .E g =>
      let name := freshName (h.get k) (.E g)
      let r := removeStateS h k g
      let q := checkQS r.1 k false r.2
      (q.1.addLabel k name q.2, .ap name)
  | .not f => let r := removeStateS h k f; (r.1, .not r.2)
  | .X f => let r := removeStateS h k f; (r.1, .X r.2)
  | .F f => let r := removeStateS h k f; (r.1, .F r.2)
  | .G f => let r := removeStateS h k f; (r.1, .G r.2)
  | .or fs => let r := removeStateSList h k fs; (r.1, .or r.2)
  | .and fs => let r := removeStateSList h k fs; (r.1, .and r.2)
  | .imp f g => let r := removeStateS h k f; let r' := removeStateS r.1 k g; (r'.1, .imp r.2 r'.2)
  | .U f g => let r := removeStateS h k f; let r' := removeStateS r.1 k g; (r'.1, .U r.2 r'.2)
  | .R f g => let r := removeStateS h k f; let r' := removeStateS r.1 k g; (r'.1, .R r.2 r'.2)
where
  removeStateSList (h : Store σ) (k : Nat) : List Fm → Store σ × List Fm
    | [] => (h, [])
    | f :: fs => let r := removeStateS h k f; let r' := removeStateSList r.1 k fs; (r'.1, r.2 :: r'.2)

end CTLS

/-! ### the entry points: final store and answer -/

/-- `CTL.modelcheck(k, f)`: reads object `k`, writes nothing -/
def CTL.modelcheckS {σ : Type} [DecidableEq σ] (h : Store σ) (k : Nat) (f : Fm) :
    Store σ × Except Err (List σ) :=
  (h, CTL.modelcheck (h.get k) f)

/-- `LTL.modelcheck(k, f)`: reads object `k`, writes nothing -/
def LTL.modelcheckS {σ : Type} [DecidableEq σ] (h : Store σ) (k : Nat) (f : Fm) :
    Store σ × Except Err (List σ) :=
  (h, LTL.modelcheck (h.get k) f)

/-- `CTLS.modelcheck(k, f)`: `kripkeC = kripke.clone()`, then everything happens on `kripkeC` -/
def CTLS.modelcheckS {σ : Type} [DecidableEq σ] (h : Store σ) (k : Nat) (f : Fm) :
    Store σ × Except Err (List σ) :=
  let (h1, c) := h.clone k
  let r := CTLS.removeStateS h1 c f
  (r.1, CTL.modelcheck (r.1.get c) r.2)

/-! ### histories of calls -/

/-- the three modules that export a `modelcheck` (`Logic` of PMC/Model/Syntax.lean also has `PL`, which has none) -/
inductive Checker where
  | ctl | ltl | ctls
  deriving Repr, DecidableEq

/-- one call: which checker, on which object, with which formula -/
abbrev Call := Checker × Nat × Fm

namespace Store
variable {σ : Type} [DecidableEq σ]

/-- execute one call -/
def call (h : Store σ) (c : Call) : Store σ × Except Err (List σ) :=
  match c.1 with
  | .ctl => CTL.modelcheckS h c.2.1 c.2.2
  | .ltl => LTL.modelcheckS h c.2.1 c.2.2
  | .ctls => CTLS.modelcheckS h c.2.1 c.2.2

/-- the pure answer to a call, computed from the value object `c.2.1` has in `h` -/
def pureAnswer (h : Store σ) (c : Call) : Except Err (List σ) :=
  match c.1 with
  | .ctl => CTL.modelcheck (h.get c.2.1) c.2.2
  | .ltl => LTL.modelcheck (h.get c.2.1) c.2.2
  | .ctls => CTLS.modelcheck (h.get c.2.1) c.2.2

/-- execute a sequence of calls, threading the store; returns the final store and the answers in order -/
def run (h : Store σ) : List Call → Store σ × List (Except Err (List σ))
  | [] => (h, [])
  | c :: cs => let r := h.call c; let r' := run r.1 cs; (r'.1, r.2 :: r'.2)

end Store
end PMC
