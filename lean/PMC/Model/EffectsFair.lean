/-
  Store-passing versions of the three model checkers WITH fairness constraints (`modelcheck(kripke, formula, F=F)`),
  on the explicit object store of PMC/Model/Effects.lean.  No Mathlib.

  With `F` given, every entry point executes `kripke = kripke.clone()` (CTL, LTL) / `kripkeC = kripke.clone()` (CTL*)
  and then `fair_label = kripke.label_fair_states(F)`, which mutates label sets
  (`for s in self.get_fair_states(F): self._labels[s].add(f_label)`), on the CLONE.  The CTL* checker then runs
  `_remove_state_subformulas(kripkeC, formula, fair_label)`, which adds further labels to the clone, and which may
  raise `TypeError` half-way (KF-C15-d): the labels added so far stay on the clone.

  Here the structure is named by an identity, the clone is allocated in the store (`Store.clone`) and every label is
  written to the object the code writes it to (`Store.addLabel` on the clone's identity).  The functions return the
  final store — also when the call raises — and the answer.  They are the functions of PMC/Model/Fair.lean
  (`CTL.modelcheckF`, `LTL.modelcheckF`, `CTLS.modelcheckF`, `CTLS.removeStateF`, `CTLS.checkQF`) with Python's
  parameter passing; PMC/Properties/C07Fair.lean proves that they leave every pre-existing object unchanged and that
  the answer is the pure function of the value of the argument.
-/
import PMC.Model.Effects
import PMC.Model.Fair
namespace PMC

namespace Store
variable {σ : Type} [DecidableEq σ]

/-- `fair_label = kripke.label_fair_states(F)` on object `id`: the label is chosen from the labels of the object,
    the fair states are computed on the object, and the label is added to the object's label sets -/
def labelFairS (h : Store σ) (id : Nat) (F : List (List σ)) : Store σ × String :=
  let fair := Fair.fairLabel (h.get id)
  (h.addLabel id fair (Fair.fairStatesImpl (h.get id) F), fair)

/-- sequencing of store-passing computations that may raise: on an exception the rest is skipped and the store is
    the one at the moment of the `raise` -/
def bindS {α β : Type} (x : Store σ × Except Err α) (f : Store σ → α → Store σ × Except Err β) :
    Store σ × Except Err β :=
  match x.2 with
  | .ok a => f x.1 a
  | .error e => (x.1, .error e)

end Store

namespace CTLS
open Store
variable {σ : Type} [DecidableEq σ]

/-- `_checkQuantifiedFormula(kripke, Q g, fair_label)` on object `k` (`CTLS.checkQF`); the `E` branch outside CTL
    calls `_remove_state_subformulas(kripke, …)` (no fair label), which writes to object `k` -/
def checkQFS (fair : String) (h : Store σ) (k : Nat) (isA : Bool) (g : Fm) : Store σ × Except Err (List σ) :=
  let f := if isA then Fm.A g else Fm.E g
  if f.isCTLState then
    match Fair.nonFairCTL fair f with
    | .ok f' => (h, .ok (CTL.check (h.get k) f'))
    | .error _ => (h, .error .typeError)
  else
    let g' := Fair.nonFairCTLS fair g
    if isA then
      (h, LTL.modelcheck (h.get k) (.A (Fm.lnot (.and [Fm.lnot g', .ap fair]))))
    else
      let r := removeStateS h k (Fm.lnot (.A (Fm.lnot (.and [.ap fair, g']))))
      (r.1, CTL.modelcheck (r.1.get k) r.2)

/-- `_remove_state_subformulas(kripke, formula, fair_label)` on object `k` (`CTLS.removeStateF`) -/
def removeStateFS (fair : String) (h : Store σ) (k : Nat) : Fm → Store σ × Except Err Fm
  | .tt => (h, .ok .tt) | .ff => (h, .ok .ff) | .ap n => (h, .ok (.ap n))
  | .A g =>
      let name := freshName (h.get k) (.A g)
      bindS (removeStateFS fair h k g) fun h1 g1 =>
      bindS (checkQFS fair h1 k true g1) fun h2 S =>
      (h2.addLabel k name S, .ok (.ap name))
  | .E g =>
      let name := freshName (h.get k) (.E g)
      bindS (removeStateFS fair h k g) fun h1 g1 =>
      bindS (checkQFS fair h1 k false g1) fun h2 S =>
      (h2.addLabel k name S, .ok (.ap name))
  | .not f => bindS (removeStateFS fair h k f) fun h1 f1 => (h1, .ok (.not f1))
  | .X f => bindS (removeStateFS fair h k f) fun h1 f1 => (h1, .ok (.X f1))
  | .F f => bindS (removeStateFS fair h k f) fun h1 f1 => (h1, .ok (.F f1))
  | .G f => bindS (removeStateFS fair h k f) fun h1 f1 => (h1, .ok (.G f1))
  | .or fs => bindS (removeStateFSList fair h k fs) fun h1 fs1 => (h1, .ok (.or fs1))
  | .and fs => bindS (removeStateFSList fair h k fs) fun h1 fs1 => (h1, .ok (.and fs1))
  | .imp f g =>
      bindS (removeStateFS fair h k f) fun h1 f1 =>
      bindS (removeStateFS fair h1 k g) fun h2 g1 => (h2, .ok (.imp f1 g1))
  | .U f g =>
      bindS (removeStateFS fair h k f) fun h1 f1 =>
      bindS (removeStateFS fair h1 k g) fun h2 g1 => (h2, .ok (.U f1 g1))
  | .R f g =>
      bindS (removeStateFS fair h k f) fun h1 f1 =>
      bindS (removeStateFS fair h1 k g) fun h2 g1 => (h2, .ok (.R f1 g1))
where
  removeStateFSList (fair : String) (h : Store σ) (k : Nat) : List Fm → Store σ × Except Err (List Fm)
    | [] => (h, .ok [])
    | f :: fs =>
      bindS (removeStateFS fair h k f) fun h1 f1 =>
      bindS (removeStateFSList fair h1 k fs) fun h2 fs1 => (h2, .ok (f1 :: fs1))

end CTLS

/-! ### the entry points with `F=`: final store and answer -/

/-- `CTL.modelcheck(k, f, F=F)`: the type checks come first (nothing is allocated when they fail); then
    `kripke = kripke.clone(); fair_label = kripke.label_fair_states(F)`, the rewriting (which may raise, KF-C15-d:
    the labelled clone stays behind) and `_checkStateFormula` on the clone -/
def CTL.modelcheckFS {σ : Type} [DecidableEq σ] (h : Store σ) (k : Nat) (F : Option (List (List σ))) (f : Fm) :
    Store σ × Except Err (List σ) :=
  match F with
  | none => CTL.modelcheckS h k f
  | some F =>
    if f.isCTLState then
      let (h1, c) := h.clone k
      let (h2, fair) := h1.labelFairS c F
      match Fair.nonFairCTL fair f with
      | .ok f' => (h2, .ok (CTL.check (h2.get c) f'))
      | .error e => (h2, .error e)
    else (h, .error .typeError)

/-- `LTL.modelcheck(k, f, F=F)`: a formula that is not `A g` is rejected before anything is allocated; otherwise
    clone, label the fair states on the clone, rewrite, run the tableau on the clone (KF-C15-c: `_get_closure`
    raises) -/
def LTL.modelcheckFS {σ : Type} [DecidableEq σ] (h : Store σ) (k : Nat) (F : Option (List (List σ))) (f : Fm) :
    Store σ × Except Err (List σ) :=
  match F with
  | none => LTL.modelcheckS h k f
  | some F =>
    match f with
    | .A g =>
      let p := (g.lnot).restrict
      let (h1, c) := h.clone k
      let (h2, fair) := h1.labelFairS c F
      let p := Fair.nonFairCTLS fair p
      let p := Fm.and [.ap fair, p]
      match LTL.toR p with
      | some r => (h2, .ok ((h2.get c).states.filter (fun s => decide (s ∉ LTL.checkE (h2.get c) r))))
      | none => (h2, .error .typeError)
    | _ => (h, .error .typeError)

/-- `CTLS.modelcheck(k, f, F=F)`: `kripkeC = kripke.clone()`, `fair_label = kripkeC.label_fair_states(F)`,
    `_remove_state_subformulas(kripkeC, formula, fair_label)` (every label goes to the clone; an exception leaves the
    clone as it is), the rewriting and `CTL.modelcheck(kripkeC, …)` -/
def CTLS.modelcheckFS {σ : Type} [DecidableEq σ] (h : Store σ) (k : Nat) (F : Option (List (List σ))) (f : Fm) :
    Store σ × Except Err (List σ) :=
  match F with
  | none => CTLS.modelcheckS h k f
  | some F =>
    let (h1, c) := h.clone k
    let (h2, fair) := h1.labelFairS c F
    Store.bindS (CTLS.removeStateFS fair h2 c f) fun h3 g =>
      (h3, CTL.modelcheck (h3.get c) (Fair.nonFairCTLS fair g))

/-! ### histories of calls with optional fairness constraints -/

/-- one call: which checker, on which object, with which constraints (`none`: `F=None`), with which formula -/
abbrev CallF (σ : Type) := Checker × Nat × Option (List (List σ)) × Fm

namespace Store
variable {σ : Type} [DecidableEq σ]

def callF (h : Store σ) (c : CallF σ) : Store σ × Except Err (List σ) :=
  match c.1 with
  | .ctl => CTL.modelcheckFS h c.2.1 c.2.2.1 c.2.2.2
  | .ltl => LTL.modelcheckFS h c.2.1 c.2.2.1 c.2.2.2
  | .ctls => CTLS.modelcheckFS h c.2.1 c.2.2.1 c.2.2.2

/-- the pure answer (PMC/Model/Fair.lean), computed from the value object `c.2.1` has in `h` -/
def pureAnswerF (h : Store σ) (c : CallF σ) : Except Err (List σ) :=
  match c.1 with
  | .ctl => CTL.modelcheckF (h.get c.2.1) c.2.2.1 c.2.2.2
  | .ltl => LTL.modelcheckF (h.get c.2.1) c.2.2.1 c.2.2.2
  | .ctls => CTLS.modelcheckF (h.get c.2.1) c.2.2.1 c.2.2.2

def runF (h : Store σ) : List (CallF σ) → Store σ × List (Except Err (List σ))
  | [] => (h, [])
  | c :: cs => let r := h.callF c; let r' := runF r.1 cs; (r'.1, r.2 :: r'.2)

end Store
end PMC
