/-
  Executable model of the fairness pipeline of pyModelChecking AS IMPLEMENTED (recorded defects KF-C15-a..d,
  DESIGN.md §1.1 rows D7–D10 — they are transcribed, not repaired).  No Mathlib.

    * kripke.py            `get_fair_states`, `label_fair_states`
    * CTL/language.py      `A.get_equivalent_non_fair_formula`, `E.get_equivalent_non_fair_formula`
    * CTLS/language.py     `Formula/AtomicProposition/A/E.get_equivalent_non_fair_formula` (inherited by LTL/)
    * CTL/, LTL/, CTLS/model_checking.py   `modelcheck(kripke, formula, F=F)`

  `F : Option (List (List σ))`: `none` is `F=None`, `some F` a container of constraint sets.
  Every entry point first clones the structure (`kripke.clone()`) and works on the clone; the model is purely
  functional, so the caller's `K` is never modified by construction.  The iteration order that matters (which node
  of a strongly connected component `next(iter(scc))` returns) is that of the clone: the `Kripke σ` value handed to
  these functions stands for the clone's iteration order (`states` = dict order, `succ s` = set order); the harness
  sends exactly that (harness/validate_fair.py).
-/
import PMC.Model.CTL
import PMC.Model.LTL
import PMC.Model.CTLS
namespace PMC
variable {σ : Type} [DecidableEq σ]

namespace Fair

/-! ### `Kripke.get_fair_states`, `Kripke.label_fair_states` -/

/-- `for P in F: if not set(scc) & P: return False` … `return True` -/
def meetsAll (F : List (List σ)) (scc : List σ) : Bool :=
  F.all (fun P => scc.any (fun x => decide (x ∈ P)))

/-- `is_a_fair_SCC` AS IMPLEMENTED (KF-C15-a): `v = next(iter(scc))`;
    `if len(scc) == 1 or v not in self.next(v): return False`, then the constraint loop.
    `compute_SCCs` yields each component as a list whose first element is the root of the component. -/
def isFairSCCImpl (K : Kripke σ) (F : List (List σ)) (scc : List σ) : Bool :=
  match scc with
  | [] => false          -- never yielded by `compute_SCCs` (`next(iter([]))` would raise StopIteration)
  | v :: _ =>
    if decide (scc.length = 1) || !(decide (v ∈ K.succ v)) then false
    else meetsAll F scc

/-- the corrected test: the component is non-trivial (more than one node, or its node has a self-loop) and meets
    every constraint -/
def isFairSCCSpec (K : Kripke σ) (F : List (List σ)) (scc : List σ) : Bool :=
  match scc with
  | [] => false
  | v :: _ => (decide (scc.length > 1) || decide (v ∈ K.succ v)) && meetsAll F scc

/-- the body of `get_fair_states` for a given component test:
    `F_set` = union of the accepted components; backward reachability = forward reachability in the reversed graph -/
def fairStatesWith (test : List σ → Bool) (K : Kripke σ) : List σ :=
  let fset := (K.graph.sccs.filter test).flatten
  let rg := K.graph.reversed
  Graph.reachFromFn rg.next rg.nodes fset

/-- `get_fair_states(F)` AS IMPLEMENTED -/
def fairStatesImpl (K : Kripke σ) (F : List (List σ)) : List σ := fairStatesWith (isFairSCCImpl K F) K

/-- `get_fair_states(F)` as it should be (PMC.C15.fairStatesSpec_exact) -/
def fairStatesSpec (K : Kripke σ) (F : List (List σ)) : List σ := fairStatesWith (isFairSCCSpec K F) K

/-- the new label chosen by `label_fair_states`: 'fair', then 'fair0', 'fair1', … — the first that is not a label
    of the structure -/
def fairLabel (K : Kripke σ) : String :=
  let labs := K.allLabels
  if "fair" ∉ labs then "fair"
  else
    match (List.range (labs.length + 1)).find? (fun i => ("fair" ++ toString i) ∉ labs) with
    | some i => "fair" ++ toString i
    | none => "fair"  -- unreachable: labs.length+1 distinct candidates cannot all be among labs

/-- the clone after `label_fair_states(F)` -/
def labelFair (K : Kripke σ) (F : List (List σ)) : Kripke σ :=
  K.addLabel (fairLabel K) (fairStatesImpl K F)

/-! ### `get_equivalent_non_fair_formula` -/

/-- CTL*-module (and LTL-module) version.  `AtomicProposition` (of which `Bool` is a subclass): `And(self, fairAP)`;
    `A`: `A(LNot(And(LNot(sf), fairAP)))`; `E`: `E(And(fairAP, sf))`; every other class: `self.__class__(*fair_sfs)`. -/
def nonFairCTLS (fair : String) : Fm → Fm
  | .tt => .and [.tt, .ap fair]
  | .ff => .and [.ff, .ap fair]
  | .ap n => .and [.ap n, .ap fair]
  | .A g => .A (Fm.lnot (.and [Fm.lnot (nonFairCTLS fair g), .ap fair]))
  | .E g => .E (.and [.ap fair, nonFairCTLS fair g])
  | .not f => .not (nonFairCTLS fair f)
  | .or fs => .or (nonFairCTLSList fair fs)
  | .and fs => .and (nonFairCTLSList fair fs)
  | .imp f g => .imp (nonFairCTLS fair f) (nonFairCTLS fair g)
  | .X f => .X (nonFairCTLS fair f)
  | .F f => .F (nonFairCTLS fair f)
  | .G f => .G (nonFairCTLS fair f)
  | .U f g => .U (nonFairCTLS fair f) (nonFairCTLS fair g)
  | .R f g => .R (nonFairCTLS fair f) (nonFairCTLS fair g)
where
  nonFairCTLSList (fair : String) : List Fm → List Fm
    | [] => []
    | f :: fs => nonFairCTLS fair f :: nonFairCTLSList fair fs

/-- CTL-module version: the `A` / `E` clauses of CTL/language.py, the inherited clauses for the rest.
    `E(f R g)` (KF-C15-d): `sf0`, `sf1` are computed, then `EU(sf1, And(Not(Or(neg_sf0, neg_sf1))), fairAP)` calls the
    two-parameter function `EU` with three arguments: TypeError.
    A quantifier not followed by a temporal operator is not a CTL formula (such an object cannot be built in the CTL
    module; the entry points reject it before getting here): TypeError. -/
def nonFairCTL (fair : String) : Fm → Except Err Fm
  | .tt => .ok (.and [.tt, .ap fair])
  | .ff => .ok (.and [.ff, .ap fair])
  | .ap n => .ok (.and [.ap n, .ap fair])
  | .not f =>
      match nonFairCTL fair f with
      | .ok f' => .ok (.not f')
      | .error e => .error e
  | .or fs =>
      match nonFairCTLList fair fs with
      | .ok fs' => .ok (.or fs')
      | .error e => .error e
  | .and fs =>
      match nonFairCTLList fair fs with
      | .ok fs' => .ok (.and fs')
      | .error e => .error e
  | .imp f g =>
      match nonFairCTL fair f with
      | .error e => .error e
      | .ok f' =>
        match nonFairCTL fair g with
        | .error e => .error e
        | .ok g' => .ok (.imp f' g')
  -- A: `neg_sf0 = LNot(sf0)`
  | .A (.X f) =>       -- Not(EX(And(neg_sf0, fairAP)))
      match nonFairCTL fair f with
      | .error e => .error e
      | .ok sf0 => .ok (.not (.E (.X (.and [Fm.lnot sf0, .ap fair]))))
  | .A (.F f) =>       -- Not(EG(And(neg_sf0, fairAP)))
      match nonFairCTL fair f with
      | .error e => .error e
      | .ok sf0 => .ok (.not (.E (.G (.and [Fm.lnot sf0, .ap fair]))))
  | .A (.G f) =>       -- Not(EU(True, And(neg_sf0, fairAP)))
      match nonFairCTL fair f with
      | .error e => .error e
      | .ok sf0 => .ok (.not (.E (.U .tt (.and [Fm.lnot sf0, .ap fair]))))
  | .A (.U f g) =>     -- Not(Or(EU(neg_sf1, And(Not(Or(sf0, sf1)), fairAP)), EG(And(neg_sf1, fairAP))))
      match nonFairCTL fair f with
      | .error e => .error e
      | .ok sf0 =>
        match nonFairCTL fair g with
        | .error e => .error e
        | .ok sf1 =>
          .ok (.not (.or [.E (.U (Fm.lnot sf1) (.and [.not (.or [sf0, sf1]), .ap fair])),
                          .E (.G (.and [Fm.lnot sf1, .ap fair]))]))
  | .A (.R f g) =>     -- Not(EU(neg_sf0, And(neg_sf1, fairAP)))
      match nonFairCTL fair f with
      | .error e => .error e
      | .ok sf0 =>
        match nonFairCTL fair g with
        | .error e => .error e
        | .ok sf1 => .ok (.not (.E (.U (Fm.lnot sf0) (.and [Fm.lnot sf1, .ap fair]))))
  | .E (.X f) =>       -- EX(And(sf0, fairAP))
      match nonFairCTL fair f with
      | .error e => .error e
      | .ok sf0 => .ok (.E (.X (.and [sf0, .ap fair])))
  | .E (.F f) =>       -- EU(True, And(sf0, fairAP))
      match nonFairCTL fair f with
      | .error e => .error e
      | .ok sf0 => .ok (.E (.U .tt (.and [sf0, .ap fair])))
  | .E (.G f) =>       -- EG(And(sf0, fairAP))
      match nonFairCTL fair f with
      | .error e => .error e
      | .ok sf0 => .ok (.E (.G (.and [sf0, .ap fair])))
  | .E (.U f g) =>     -- EU(sf0, And(sf1, fairAP))
      match nonFairCTL fair f with
      | .error e => .error e
      | .ok sf0 =>
        match nonFairCTL fair g with
        | .error e => .error e
        | .ok sf1 => .ok (.E (.U sf0 (.and [sf1, .ap fair])))
  | .E (.R f g) =>     -- EU(·, ·, fairAP): TypeError, after sf0 and sf1 have been computed
      match nonFairCTL fair f with
      | .error e => .error e
      | .ok _ =>
        match nonFairCTL fair g with
        | .error e => .error e
        | .ok _ => .error .typeError
  -- temporal operators on their own (inherited `self.__class__(*fair_sfs)`)
  | .X f =>
      match nonFairCTL fair f with
      | .ok f' => .ok (.X f')
      | .error e => .error e
  | .F f =>
      match nonFairCTL fair f with
      | .ok f' => .ok (.F f')
      | .error e => .error e
  | .G f =>
      match nonFairCTL fair f with
      | .ok f' => .ok (.G f')
      | .error e => .error e
  | .U f g =>
      match nonFairCTL fair f with
      | .error e => .error e
      | .ok f' =>
        match nonFairCTL fair g with
        | .error e => .error e
        | .ok g' => .ok (.U f' g')
  | .R f g =>
      match nonFairCTL fair f with
      | .error e => .error e
      | .ok f' =>
        match nonFairCTL fair g with
        | .error e => .error e
        | .ok g' => .ok (.R f' g')
  | .A _ => .error .typeError
  | .E _ => .error .typeError
where
  nonFairCTLList (fair : String) : List Fm → Except Err (List Fm)
    | [] => .ok []
    | f :: fs =>
      match nonFairCTL fair f with
      | .error e => .error e
      | .ok f' =>
        match nonFairCTLList fair fs with
        | .error e => .error e
        | .ok fs' => .ok (f' :: fs')

end Fair

/-! ### the three entry points with `F=` -/

namespace CTL

/-- `CTL.modelcheck(kripke, formula, F=F)`:
    ```
    if F is not None:
        kripke = kripke.clone()
        fair_label = kripke.label_fair_states(F)
        formula = formula.get_equivalent_non_fair_formula(fair_label)
    return _checkStateFormula(kripke, formula, L=dict())
    ``` -/
def modelcheckF (K : Kripke σ) (F : Option (List (List σ))) (f : Fm) : Except Err (List σ) :=
  match F with
  | none => modelcheck K f
  | some F =>
    if f.isCTLState then
      let fair := Fair.fairLabel K
      let K' := Fair.labelFair K F
      match Fair.nonFairCTL fair f with
      | .ok f' => .ok (check K' f')
      | .error e => .error e
    else .error .typeError

end CTL

namespace LTL

/-- `LTL.modelcheck(kripke, formula, F=F)` (KF-C15-c):
    ```
    try:
        p_formula = LNot(formula.subformula(0))
        p_formula = p_formula.get_equivalent_restricted_formula()
        if F is not None:
            kripke = kripke.clone()
            fair_label = kripke.label_fair_states(F)
            p_formula = p_formula.get_equivalent_non_fair_formula(fair_label)
            p_formula = And(fair_label, p_formula)
        return set(kripke.states())-_checkE_path_formula(kripke, p_formula)
    except TypeError: raise TypeError(...)
    ```
    `toR` is the membership test of `_get_closure` for the alphabet {not, or, X, U}. -/
def modelcheckF (K : Kripke σ) (F : Option (List (List σ))) (f : Fm) : Except Err (List σ) :=
  match F with
  | none => modelcheck K f
  | some F =>
    match f with
    | .A g =>
      let p := (g.lnot).restrict
      let fair := Fair.fairLabel K
      let K' := Fair.labelFair K F
      let p := Fair.nonFairCTLS fair p
      let p := Fm.and [.ap fair, p]
      match toR p with
      | some r => .ok (K'.states.filter (fun s => decide (s ∉ checkE K' r)))
      | none => .error .typeError
    | _ => .error .typeError

end LTL

namespace CTLS

/-- `_checkQuantifiedFormula(kripke, Q g, fair_label)` once `_remove_state_subformulas` has been applied to its
    operand (`g` quantifier-free):
    ```
    formula = formula.__class__(subformula)
    try:
        formula = formula.cast_to(CTL)                                    # (1)
        formula = formula.get_equivalent_non_fair_formula(fair_label)     # (2)
        return CTL.modelcheck(kripke, formula)
    except TypeError:
        formula = formula.get_equivalent_non_fair_formula(fair_label)     # (3)
        if not isinstance(formula, A):
            if isinstance(formula, E):
                formula = LNot(A(LNot(formula.subformula(0))))
            formula = _remove_state_subformulas(kripke, formula)          # no fair label
            return CTL.modelcheck(kripke, formula)
        return LTL.modelcheck(kripke, formula)                            # F=None
    ```
    (1) succeeds exactly on CTL formulas.  If (2) raises (the `E R` clause), `formula` is already the CTL object, so
    (3) raises the same TypeError again, inside the handler: it propagates to `CTLS.modelcheck`.
    If (1) raised, `formula` is still the CTL* object and (3) is the CTL*-module rewriting. -/
def checkQF (fair : String) (K : Kripke σ) (isA : Bool) (g : Fm) : Except Err (Kripke σ × List σ) :=
  let f := if isA then Fm.A g else Fm.E g
  if f.isCTLState then
    match Fair.nonFairCTL fair f with
    | .ok f' => .ok (K, CTL.check K f')   -- `CTL.modelcheck(kripke, f')`: `f'` is a CTL `StateFormula` object
    | .error _ => .error .typeError
  else
    let g' := Fair.nonFairCTLS fair g
    if isA then
      match LTL.modelcheck K (.A (Fm.lnot (.and [Fm.lnot g', .ap fair]))) with
      | .ok S => .ok (K, S)
      | .error e => .error e
    else
      let r := removeState K (Fm.lnot (.A (Fm.lnot (.and [.ap fair, g']))))
      match CTL.modelcheck r.1 r.2 with
      | .ok S => .ok (r.1, S)
      | .error e => .error e

/-- `_remove_state_subformulas(kripke, formula, fair_label)`; an exception raised while a quantified subformula is
    checked propagates (it is raised outside every `try` of the enclosing calls) -/
def removeStateF (fair : String) (K : Kripke σ) : Fm → Except Err (Kripke σ × Fm)
  | .tt => .ok (K, .tt) | .ff => .ok (K, .ff) | .ap n => .ok (K, .ap n)
  | .A g =>
      let name := freshName K (.A g)
      match removeStateF fair K g with
      | .error e => .error e
      | .ok r =>
        match checkQF fair r.1 true r.2 with
        | .error e => .error e
        | .ok q => .ok (q.1.addLabel name q.2, .ap name)
  | .E g =>
      let name := freshName K (.E g)
      match removeStateF fair K g with
      | .error e => .error e
      | .ok r =>
        match checkQF fair r.1 false r.2 with
        | .error e => .error e
        | .ok q => .ok (q.1.addLabel name q.2, .ap name)
  | .not f =>
      match removeStateF fair K f with
      | .error e => .error e
      | .ok r => .ok (r.1, .not r.2)
  | .X f =>
      match removeStateF fair K f with
      | .error e => .error e
      | .ok r => .ok (r.1, .X r.2)
  | .F f =>
      match removeStateF fair K f with
      | .error e => .error e
      | .ok r => .ok (r.1, .F r.2)
  | .G f =>
      match removeStateF fair K f with
      | .error e => .error e
      | .ok r => .ok (r.1, .G r.2)
  | .or fs =>
      match removeStateFList fair K fs with
      | .error e => .error e
      | .ok r => .ok (r.1, .or r.2)
  | .and fs =>
      match removeStateFList fair K fs with
      | .error e => .error e
      | .ok r => .ok (r.1, .and r.2)
  | .imp f g =>
      match removeStateF fair K f with
      | .error e => .error e
      | .ok r =>
        match removeStateF fair r.1 g with
        | .error e => .error e
        | .ok r' => .ok (r'.1, .imp r.2 r'.2)
  | .U f g =>
      match removeStateF fair K f with
      | .error e => .error e
      | .ok r =>
        match removeStateF fair r.1 g with
        | .error e => .error e
        | .ok r' => .ok (r'.1, .U r.2 r'.2)
  | .R f g =>
      match removeStateF fair K f with
      | .error e => .error e
      | .ok r =>
        match removeStateF fair r.1 g with
        | .error e => .error e
        | .ok r' => .ok (r'.1, .R r.2 r'.2)
where
  removeStateFList (fair : String) (K : Kripke σ) : List Fm → Except Err (Kripke σ × List Fm)
    | [] => .ok (K, [])
    | f :: fs =>
      match removeStateF fair K f with
      | .error e => .error e
      | .ok r =>
        match removeStateFList fair r.1 fs with
        | .error e => .error e
        | .ok r' => .ok (r'.1, r.2 :: r'.2)

/-- `CTLS.modelcheck(kripke, formula, F=F)`:
    ```
    try:
        kripkeC = kripke.clone()
        if F is not None:
            fair_label = kripkeC.label_fair_states(F)
            CTL_frml = _remove_state_subformulas(kripkeC, formula, fair_label)
            CTL_frml = CTL_frml.get_equivalent_non_fair_formula(fair_label)
        else: ...
        return CTL.modelcheck(kripkeC, CTL_frml)
    except TypeError as e: print(e); raise TypeError(...)
    ``` -/
def modelcheckF (K : Kripke σ) (F : Option (List (List σ))) (f : Fm) : Except Err (List σ) :=
  match F with
  | none => modelcheck K f
  | some F =>
    let fair := Fair.fairLabel K
    let K1 := Fair.labelFair K F
    match removeStateF fair K1 f with
    | .error e => .error e
    | .ok r => CTL.modelcheck r.1 (Fair.nonFairCTLS fair r.2)

end CTLS
end PMC
