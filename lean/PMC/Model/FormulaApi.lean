/-
  The rest of the public formula API of pyModelChecking/language.py, PL/language.py and CTL/language.py.  No Mathlib.

  * the operator overloads `f & g`, `g & f` (`__rand__`), `f | g`, `__ror__`, `~f`: each looks up `And` / `Or` / `Not` in
    `sys.modules[f.__module__]` — the language module of the formula operand whose method runs — and calls the constructor;
  * the ten CTL shortcuts `AX … ER` of CTL/language.py: plain functions, `AX(psi) = A(X(psi))` with the classes of the CTL
    module (two constructor calls, the inner one first);
  * `clone()`, `subformula(i)`, `subformulas()`.

  Everything a constructor does with its operands is `PL.Formula.wrap_subformulas` (PL/language.py:34), executed here by
  `wrap1` over the same class table as PMC/Model/Classes.lean.  An operand (`Operand`) is
    - a formula object of one of the four language modules: cast to the constructor's module when it is foreign, then the
      `isinstance(operand, FormulaClass)` test — exactly one step of `Classes.mixedOperands`;
    - a `str` / a `bool`: shorthand for `M.AtomicProposition(s)` / `M.Bool(b)`: the leaf is built in the constructor's
      module and then has to pass the same `isinstance(leaf, FormulaClass)` test as any object (PL/language.py:60-70), so
      `CTL.A('p')` is a `TypeError` like `CTL.A(CTL.AtomicProposition('p'))`.  (Until the `fix:` of PL/language.py the leaf
      was appended WITHOUT the test and `CTL.A('p')`, `CTL.E(True)` built the non-formulas `A p`, `E true` — found while
      this model was written; the first version of `wrap1` followed that code and `PMC.C08.shorthand_leaves_the_logic`
      stated the consequence.)
    - anything else: `raise TypeError(err_msg(phi))` — and `err_msg` evaluates `phi.__desc__`, so an object without that
      attribute (`3`, `None`, …) surfaces as `AttributeError` (`other`), while an object of the base module
      `pyModelChecking.language` (which has `__desc__` but is no `PL.Formula`) is a `TypeError` (`base`).
  Operands are processed left to right; the first failure is the exception of the call.

  Not expressible here: receivers that are objects of the base module `pyModelChecking.language` (`Bool(True) & x` builds
  a base-module `And`: no `Logic`); `subformula(i)` with a non-`int` index (`TypeError` of `list.__getitem__`, a slice
  returns a list); that `subformulas()` hands out the internal list itself (aliasing: observed by the harness).
-/
import PMC.Model.Syntax
import PMC.Model.Classes
namespace PMC
namespace FormulaApi
open Classes

/-- a Python value handed to a constructor, an operator or a shortcut -/
inductive Operand where
  /-- a formula object with tree `f` built in module `M` -/
  | obj (M : Logic) (f : Fm)
  /-- a `str`: shorthand for the atom of that name -/
  | str (n : String)
  /-- a `bool`: shorthand for the Boolean constant -/
  | bool (b : Bool)
  /-- an object of the base module `pyModelChecking.language` (has `__desc__`, is no `PL.Formula`) -/
  | base
  /-- anything else (`3`, `None`, a list, …): no attribute `__desc__` -/
  | other
  deriving Repr, Inhabited

def boolFm (b : Bool) : Fm := if b then .tt else .ff

/-- the tree an operand stands for (`none` for the two kinds that are never accepted) -/
def Operand.tree? : Operand → Option Fm
  | .obj _ f => some f
  | .str n => some (.ap n)
  | .bool b => some (boolFm b)
  | .base => none
  | .other => none

/-- one round of the operand loop of `wrap_subformulas` in module `M` with `FormulaClass = k`: the tree appended to
    `_subformula`, or the exception -/
def wrap1 (T : ClassTable) (M : Logic) (k : Cls) : Operand → Except Err Fm
  | .bool b =>
    match leaf T M "Bool" with
    | .ok () => if T.isSub (M, "Bool") k then .ok (boolFm b) else .error .typeError
    | .error e => .error e
  | .str n =>
    match leaf T M "AtomicProposition" with
    | .ok () => if T.isSub (M, "AtomicProposition") k then .ok (.ap n) else .error .typeError
    | .error e => .error e
  | .obj Mi f =>
    match mixedOperands T M k [(Mi, f)] with
    | .ok () => .ok f
    | .error e => .error e
  | .base => .error .typeError
  | .other => .error .attributeError

/-- `getattr(M, op)` and the operand class its constructor hands to `wrap_subformulas` -/
def header (T : ClassTable) (M : Logic) (op : String) : Except Err Cls :=
  if T.inAlphabet M op then
    match T.operandKind M op with
    | none => .error .typeError
    | some k => .ok k
  else .error .attributeError

/-- `M.op(a)` for a one-operand class; `mk` is the node it builds -/
def build1 (T : ClassTable) (M : Logic) (op : String) (mk : Fm → Fm) (a : Operand) : Except Err Fm :=
  match header T M op with
  | .error e => .error e
  | .ok k =>
    match wrap1 T M k a with
    | .error e => .error e
    | .ok f => .ok (mk f)

/-- `M.op(a, b)` -/
def build2 (T : ClassTable) (M : Logic) (op : String) (mk : Fm → Fm → Fm) (a b : Operand) : Except Err Fm :=
  match header T M op with
  | .error e => .error e
  | .ok k =>
    match wrap1 T M k a with
    | .error e => .error e
    | .ok f =>
      match wrap1 T M k b with
      | .error e => .error e
      | .ok g => .ok (mk f g)

def mkAnd (f g : Fm) : Fm := .and [f, g]
def mkOr (f g : Fm) : Fm := .or [f, g]

/-- the classes that are called with one operand -/
inductive Un where
  | not | X | F | G | A | E
  deriving Repr, DecidableEq

def Un.name : Un → String
  | .not => "Not" | .X => "X" | .F => "F" | .G => "G" | .A => "A" | .E => "E"
def Un.mk : Un → Fm → Fm
  | .not => .not | .X => .X | .F => .F | .G => .G | .A => .A | .E => .E

/-- the classes that are called with two operands (`And` / `Or` take any number; the operators hand them two) -/
inductive Bin where
  | and | or | imp | U | R
  deriving Repr, DecidableEq

def Bin.name : Bin → String
  | .and => "And" | .or => "Or" | .imp => "Imply" | .U => "U" | .R => "R"
def Bin.mk : Bin → Fm → Fm → Fm
  | .and => mkAnd | .or => mkOr | .imp => .imp | .U => .U | .R => .R

/-- `M.<Class>(a)` -/
def new1 (T : ClassTable) (M : Logic) (u : Un) (a : Operand) : Except Err Fm := build1 T M u.name u.mk a
/-- `M.<Class>(a, b)` -/
def new2 (T : ClassTable) (M : Logic) (c : Bin) (a b : Operand) : Except Err Fm := build2 T M c.name c.mk a b

/-! ### operator overloads (language.py:82-105); `M`, `f`: the formula object whose method runs -/

/-- `f & g` = `f.__and__(g)` -/
def andOp (T : ClassTable) (M : Logic) (f : Fm) (g : Operand) : Except Err Fm := build2 T M "And" mkAnd (.obj M f) g
/-- `g & f` when `g` is not a formula = `f.__rand__(g)` -/
def randOp (T : ClassTable) (M : Logic) (f : Fm) (g : Operand) : Except Err Fm := build2 T M "And" mkAnd g (.obj M f)
/-- `f | g` -/
def orOp (T : ClassTable) (M : Logic) (f : Fm) (g : Operand) : Except Err Fm := build2 T M "Or" mkOr (.obj M f) g
/-- `g | f` when `g` is not a formula -/
def rorOp (T : ClassTable) (M : Logic) (f : Fm) (g : Operand) : Except Err Fm := build2 T M "Or" mkOr g (.obj M f)
/-- `~f` -/
def invert (T : ClassTable) (M : Logic) (f : Fm) : Except Err Fm := build1 T M "Not" .not (.obj M f)

/-! ### the CTL shortcuts (CTL/language.py:303-448) -/

inductive Quant where
  | A | E
  deriving Repr, DecidableEq

def Quant.name : Quant → String
  | .A => "A" | .E => "E"
def Quant.mk : Quant → Fm → Fm
  | .A => .A | .E => .E

inductive Temp1 where
  | X | F | G
  deriving Repr, DecidableEq

def Temp1.name : Temp1 → String
  | .X => "X" | .F => "F" | .G => "G"
def Temp1.mk : Temp1 → Fm → Fm
  | .X => .X | .F => .F | .G => .G

inductive Temp2 where
  | U | R
  deriving Repr, DecidableEq

def Temp2.name : Temp2 → String
  | .U => "U" | .R => "R"
def Temp2.mk : Temp2 → Fm → Fm → Fm
  | .U => .U | .R => .R

/-- `Q(T(psi))` with the classes of the CTL module: `AX`, `EX`, `AF`, `EF`, `AG`, `EG` -/
def shortcut1 (T : ClassTable) (q : Quant) (t : Temp1) (psi : Operand) : Except Err Fm :=
  match build1 T .CTL t.name t.mk psi with
  | .error e => .error e
  | .ok x => build1 T .CTL q.name q.mk (.obj .CTL x)

/-- `Q(T(psi, phi))`: `AU`, `EU`, `AR`, `ER` -/
def shortcut2 (T : ClassTable) (q : Quant) (t : Temp2) (psi phi : Operand) : Except Err Fm :=
  match build2 T .CTL t.name t.mk psi phi with
  | .error e => .error e
  | .ok x => build1 T .CTL q.name q.mk (.obj .CTL x)

def AX (T : ClassTable) := shortcut1 T .A .X
def EX (T : ClassTable) := shortcut1 T .E .X
def AF (T : ClassTable) := shortcut1 T .A .F
def EF (T : ClassTable) := shortcut1 T .E .F
def AG (T : ClassTable) := shortcut1 T .A .G
def EG (T : ClassTable) := shortcut1 T .E .G
def AU (T : ClassTable) := shortcut2 T .A .U
def EU (T : ClassTable) := shortcut2 T .E .U
def AR (T : ClassTable) := shortcut2 T .A .R
def ER (T : ClassTable) := shortcut2 T .E .R

/-! ### `clone()` -/

/-- the tree `clone()` rebuilds: `self.__class__(*[sf.clone() for sf in self._subformula])`, leaves from their value -/
def clone : Fm → Fm
  | .tt => .tt | .ff => .ff
  | .ap n => .ap n
  | .not f => .not (clone f)
  | .or fs => .or (cloneList fs)
  | .and fs => .and (cloneList fs)
  | .imp f g => .imp (clone f) (clone g)
  | .X f => .X (clone f) | .F f => .F (clone f) | .G f => .G (clone f)
  | .U f g => .U (clone f) (clone g) | .R f g => .R (clone f) (clone g)
  | .A f => .A (clone f) | .E f => .E (clone f)
where
  cloneList : List Fm → List Fm
    | [] => []
    | f :: fs => clone f :: cloneList fs

/-- `obj.clone()` for an object of module `M` with tree `f`: every node is rebuilt by its own constructor, bottom-up, from
    operands that are all formula objects of `M` — the run of `Classes.construct`. -/
def cloneIn (T : ClassTable) (M : Logic) (f : Fm) : Except Err Fm :=
  match construct T M f with
  | .ok () => .ok (clone f)
  | .error e => .error e

/-! ### `subformula(i)`, `subformulas()` -/

def isLeaf : Fm → Bool
  | .tt | .ff | .ap _ => true
  | _ => false

/-- `_subformula` -/
def kids : Fm → List Fm
  | .tt | .ff | .ap _ => []
  | .not f | .X f | .F f | .G f | .A f | .E f => [f]
  | .or fs | .and fs => fs
  | .imp f g | .U f g | .R f g => [f, g]

/-- `l[i]` for a Python list and an `int` index: negative indices count from the end, `IndexError` outside
    `-len(l) ≤ i < len(l)` -/
def pyIndex {α : Type} (l : List α) (i : Int) : Except Err α :=
  let j : Int := if i < 0 then i + l.length else i
  if j < 0 then .error .indexError
  else
    match l[j.toNat]? with
    | some a => .ok a
    | none => .error .indexError

/-- `f.subformula(i)`: atoms and Boolean constants raise `TypeError` whatever `i` is -/
def subformula (f : Fm) (i : Int) : Except Err Fm :=
  if isLeaf f then .error .typeError else pyIndex (kids f) i

/-- `f.subformulas()` (for a compound formula the internal list itself, for a leaf a new empty list) -/
def subformulas (f : Fm) : List Fm := kids f

end FormulaApi
end PMC
