/-
  Executable model of pyModelChecking/graph.py (class DiGraph).  No imports.

  A `DiGraph` is a Python dict `node -> set of successors`.  The model is an association list with one entry per
  node; the order of the entries and of each successor list stands for the (arbitrary) iteration order of the dict
  and of the sets.  Every theorem about these functions is stated for all orders.
-/
namespace PMC

inductive Err where
  | typeError | runtimeError | keyError | syntaxError | valueError | attributeError | indexError
  | unexpectedToken (pos : Nat) | unexpectedCharacters (pos : Nat)
  deriving Repr, DecidableEq, Inhabited

def Err.name : Err → String
  | .typeError => "TypeError" | .runtimeError => "RuntimeError" | .keyError => "KeyError"
  | .syntaxError => "SyntaxError" | .valueError => "ValueError" | .attributeError => "AttributeError"
  | .indexError => "IndexError"
  | .unexpectedToken p => s!"UnexpectedToken {p}" | .unexpectedCharacters p => s!"UnexpectedCharacters {p}"

abbrev Graph (σ : Type) := List (σ × List σ)

namespace Graph
variable {σ : Type} [DecidableEq σ]

def nodes (g : Graph σ) : List σ := g.map Prod.fst

def hasNode (g : Graph σ) (v : σ) : Bool := g.any (fun p => decide (p.1 = v))

/-- `self._next[v]` (empty for a non-node; callers that can reach a non-node use `next?`) -/
def next (g : Graph σ) (v : σ) : List σ :=
  match g.find? (fun p => decide (p.1 = v)) with
  | some p => p.2
  | none => []

/-- `DiGraph.next(src)`: RuntimeError on a non-node -/
def next? (g : Graph σ) (v : σ) : Except Err (List σ) :=
  if g.hasNode v then .ok (g.next v) else .error .runtimeError

/-- `for v in V: self._next[v] = set()` — one step (a repeated `v` resets nothing: the set is still empty) -/
def addNodeRaw (g : Graph σ) (v : σ) : Graph σ :=
  if g.hasNode v then g else g ++ [(v, [])]

/-- add `d` to the successor set of `s` (which must be a key) -/
def addSucc (g : Graph σ) (s d : σ) : Graph σ :=
  g.map (fun p => if p.1 = s then (p.1, if d ∈ p.2 then p.2 else p.2 ++ [d]) else p)

/-- body of the `for src, dst in E` loop of `DiGraph.__init__` -/
def insEdge (g : Graph σ) (s d : σ) : Graph σ :=
  let g1 := if g.hasNode s then g.addSucc s d else g ++ [(s, [d])]
  if g1.hasNode d then g1 else g1 ++ [(d, [])]

/-- `DiGraph(V, E)` -/
def mk (V : List σ) (E : List (σ × σ)) : Graph σ :=
  E.foldl (fun g e => insEdge g e.1 e.2) (V.foldl addNodeRaw [])

/-- `edges_iter()` -/
def edges (g : Graph σ) : List (σ × σ) :=
  g.flatMap (fun p => p.2.map (fun d => (p.1, d)))

/-- `sources()` -/
def sources (g : Graph σ) : List σ := (g.filter (fun p => !p.2.isEmpty)).map Prod.fst

/-- `add_node(v)`: RuntimeError if present -/
def addNode (g : Graph σ) (v : σ) : Except Err (Graph σ) :=
  if g.hasNode v then .error .runtimeError else .ok (g ++ [(v, [])])

/-- `add_edge(src, dst)`: RuntimeError if the edge is already there (and then nothing has changed, except that
    a fresh `src` key may have been created — which cannot happen together with the error) -/
def addEdge (g : Graph σ) (s d : σ) : Except Err (Graph σ) :=
  if g.hasNode s && decide (d ∈ g.next s) then .error .runtimeError
  else
    let g1 := if g.hasNode s then g else g ++ [(s, [])]
    let g2 := if g1.hasNode d then g1 else g1 ++ [(d, [])]
    .ok (g2.addSucc s d)

/-- `try: add_edge(w, v) except Exception: pass` as used by `_checkEU` -/
def addEdgeIgnore (g : Graph σ) (s d : σ) : Graph σ :=
  match g.addEdge s d with
  | .ok g' => g'
  | .error _ => g

/-- `get_subgraph(nodes)` -/
def subgraph (g : Graph σ) (X : List σ) : Graph σ :=
  mk (g.nodes.filter (fun v => decide (v ∈ X)))
     (g.edges.filter (fun e => decide (e.1 ∈ X) && decide (e.2 ∈ X)))

/-- `get_reversed_graph()` -/
def reversed (g : Graph σ) : Graph σ :=
  mk g.nodes (g.edges.map (fun e => (e.2, e.1)))

/-- `clone()` — the same dict content in fresh containers (freshness is the business of the heap model) -/
def clone (g : Graph σ) : Graph σ := g.map (fun p => (p.1, p.2))

/-! ### `get_reachable_set_from`: LIFO work-list -/

/-- inner `for d in self.next(s)` loop: returns (R, queue) -/
def scan (R q : List σ) : List σ → List σ × List σ
  | [] => (R, q)
  | d :: ds => if d ∈ R then scan R q ds else scan (d :: R) (d :: q) ds

/-- the `while queue` loop; head of `q` is the element `queue.pop()` returns -/
def loop (next : σ → List σ) : Nat → List σ → List σ → List σ
  | 0, _, R => R
  | _+1, [], R => R
  | fuel+1, s :: q, R => let (R', q') := scan R q (next s); loop next fuel q' R'

def reachFromFn (next : σ → List σ) (V X : List σ) : List σ :=
  loop next (2 * V.length + X.length + 1) X.reverse X

/-- `get_reachable_set_from(X)`; popping a non-node raises RuntimeError, and every element of `X` is popped -/
def reachFrom (g : Graph σ) (X : List σ) : Except Err (List σ) :=
  if X.all g.hasNode then .ok (reachFromFn g.next g.nodes X) else .error .runtimeError

end Graph

/-! ### `compute_SCCs` — recursive form of the iterative Nuutila / Soisalon-Soininen variant -/
namespace SCC
variable {σ : Type} [DecidableEq σ]

structure St (σ : Type) where
  disc  : σ → Option Nat
  low   : σ → Nat
  inscc : List σ
  stk   : List σ
  time  : Nat
  out   : List (List σ)

def upd {β : Type} (f : σ → β) (k : σ) (b : β) : σ → β := fun x => if x = k then b else f x

/-- discovery number, 0 if undiscovered -/
def St.D (st : St σ) (x : σ) : Nat := (st.disc x).getD 0

def St.discover (st : St σ) (w : σ) (t : Nat) : St σ :=
  { st with time := t, disc := upd st.disc w (some t), low := upd st.low w t }

/-- the second loop of the StopIteration branch: fold the successors into lowlink[v] -/
def lowFold (st : St σ) (dv : Nat) (ws : List σ) (l0 : Nat) : Nat :=
  ws.foldl (fun l w => if w ∈ st.inscc then l else
      if st.D w > dv then min l (st.low w) else min l (st.D w)) l0

/-- post-order processing of `v` once all its successors are discovered -/
def finish (next : σ → List σ) (v : σ) (st : St σ) : St σ :=
  let dv := st.D v
  let lowv := lowFold st dv (next v) (st.low v)
  if lowv = dv then
    let popped := st.stk.takeWhile (fun k => decide (st.D k > dv))
    { st with low := upd st.low v lowv,
              inscc := (v :: popped) ++ st.inscc,
              stk := st.stk.dropWhile (fun k => decide (st.D k > dv)),
              out := st.out ++ [v :: popped] }
  else
    { st with low := upd st.low v lowv, stk := v :: st.stk }

/-- DFS from an already discovered node `v` -/
def visit (next : σ → List σ) : Nat → σ → St σ → St σ
  | 0, _, st => st
  | fuel+1, v, st =>
    let st1 := (next v).foldl (fun st w =>
      if st.disc w = none then visit next fuel w (st.discover w (st.time+1)) else st) st
    finish next v st1

def init : St σ := ⟨fun _ => none, fun _ => 0, [], [], 0, []⟩

def sccs (nodes : List σ) (next : σ → List σ) : List (List σ) :=
  (nodes.foldl (fun st s =>
    if st.disc s = none then visit next (nodes.length+1) s (st.discover s st.time) else st) init).out

end SCC

/-- `compute_SCCs(G)` -/
def Graph.sccs {σ : Type} [DecidableEq σ] (g : Graph σ) : List (List σ) := SCC.sccs g.nodes g.next

end PMC
