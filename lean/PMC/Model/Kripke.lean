/-
  Kripke structures (pyModelChecking/kripke.py).  No imports beyond the graph model.

  `Kripke σ` is the functional view the checkers and the semantics use; `KripkeD σ` is the dict-level object the
  constructor builds (graph dict, S0, label dict), with `KripkeD.toKripke` the view.
  Labels are strings: a non-string label can never equal an atom name (atoms are always `str`), so the harness
  drops them before talking to the model.
-/
import PMC.Model.Graph
namespace PMC

structure Kripke (σ : Type) where
  states : List σ
  succ : σ → List σ
  lab : σ → List String

namespace Kripke
variable {σ : Type} [DecidableEq σ]

/-- the `DiGraph` part of the structure -/
def graph (K : Kripke σ) : Graph σ := K.states.map (fun s => (s, K.succ s))

/-- what the constructor guarantees: successors are states, every state has one -/
def WF (K : Kripke σ) : Prop :=
  (∀ s ∈ K.states, ∀ t ∈ K.succ s, t ∈ K.states) ∧ (∀ s ∈ K.states, K.succ s ≠ []) ∧ K.states.Nodup

def wf (K : Kripke σ) : Bool :=
  K.states.all (fun s => (K.succ s).all (fun t => decide (t ∈ K.states)) && !(K.succ s).isEmpty)
  && decide K.states.Nodup

/-- `labels()` with no argument: every atom labelling some state -/
def allLabels (K : Kripke σ) : List String := K.states.flatMap K.lab

/-- add label `a` to the states in `X` (`kripke.labels(s).add(a)`) -/
def addLabel (K : Kripke σ) (a : String) (X : List σ) : Kripke σ :=
  { K with lab := fun s => if s ∈ X then a :: K.lab s else K.lab s }

end Kripke

/-- dict-level Kripke object -/
structure KripkeD (σ : Type) where
  g : Graph σ
  s0 : List σ
  labels : List (σ × List String)

namespace KripkeD
variable {σ : Type} [DecidableEq σ]

def labelOf (L : List (σ × List String)) (s : σ) : List String :=
  match L.find? (fun p => decide (p.1 = s)) with
  | some p => p.2
  | none => []

/-- `Kripke(S, S0, R, L)`.  `L = none` models `L=None`; a non-dict `L` or a non-iterable label value are decided by
    the harness-supplied flags `lIsDict`, `badValue s` (the model does not represent Python's dynamic types). -/
def make (S S0 : List σ) (R : List (σ × σ)) (L : List (σ × List String))
    (lIsDict : Bool := true) (badValue : σ → Bool := fun _ => false) : Except Err (KripkeD σ) :=
  let g := Graph.mk S R
  let s0 := g.nodes.filter (fun v => decide (v ∈ S0))
  let pots := g.nodes.filter (fun v => !(g.sources.contains v))
  if !pots.isEmpty then .error .runtimeError
  else if !lIsDict then .error .runtimeError
  else if g.nodes.any (fun s => L.any (fun p => decide (p.1 = s)) && badValue s) then .error .runtimeError
  else .ok { g := g, s0 := s0, labels := g.nodes.map (fun s => (s, (labelOf L s).eraseDups)) }

def toKripke (K : KripkeD σ) : Kripke σ :=
  { states := K.g.nodes, succ := K.g.next, lab := labelOf K.labels }

/-- `labels(state)`: RuntimeError on a non-state -/
def labelsAt (K : KripkeD σ) (s : σ) : Except Err (List String) :=
  if K.g.hasNode s then .ok (labelOf K.labels s) else .error .runtimeError

/-- `next(state)`: RuntimeError on a non-state -/
def nextAt (K : KripkeD σ) (s : σ) : Except Err (List σ) := K.g.next? s

/-- `clone()` -/
def clone (K : KripkeD σ) : Except Err (KripkeD σ) :=
  make K.g.nodes K.s0 K.g.edges K.labels

/-- `get_substructure(V)` (with the `fix:` of kripke.py:194) -/
def substructure (K : KripkeD σ) (V : List σ) : Except Err (KripkeD σ) :=
  make (K.g.nodes.filter (fun v => decide (v ∈ V)))
     (K.s0.filter (fun v => decide (v ∈ V)))
     (K.g.edges.filter (fun e => decide (e.1 ∈ V) && decide (e.2 ∈ V)))
     (K.labels.filter (fun p => decide (p.1 ∈ V)))

end KripkeD
end PMC
