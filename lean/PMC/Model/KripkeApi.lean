/-
  The labelling API of pyModelChecking/kripke.py: `labelling_function()` and `replace_labelling_function(L)`.
  No imports beyond the Kripke model.

  kripke.py:82   def replace_labelling_function(self, L):
                     old_L = self._labels
                     self._labels = L                      # the caller's dict, by reference: no copy, no type check
                     for s in self.states():
                         if s not in self._labels:
                             self._labels[s] = set()       # written INTO the caller's dict
                     return old_L

  So afterwards `self._labels` is the caller's dict `L` completed with an empty set for every state it lacked:
  * every state has an entry (no `KeyError` later: `labels(s)` of a state answers `L[s]`, or `set()` when `L` had no `s`);
  * keys of `L` that are not states stay in the dict.  `labels(s)` still raises `RuntimeError` for them (the state test
    comes first), `clone()` / `get_substructure` drop them (the constructor only reads the states' entries), the
    checkers never see them (they ask `labels(s)` for states only) — but `labels()` without argument takes the union
    over ALL values of the dict and so reports atoms that label no state (`allLabelsD`, `PMC.C14.allLabels_extra_key`);
  * the label values are adopted as they are (the constructor copies each into a new `set`).  A label collection is a
    list of strings here as everywhere in the model, so a value that is no collection of strings cannot be expressed.

  What a purely functional model cannot say: that the dict is adopted BY REFERENCE.  After the call the caller's `L`,
  `K.labelling_function()` and `K._labels` are one object: `L` has grown the missing states, and a later `L[s].add(x)`
  or `L[s] = …` by the caller changes `K.labels(s)`.  Likewise the returned former dict and the dict returned by
  `labelling_function()` are the internal objects themselves.  `completed K L` is the content of that one object right
  after the call; the sharing is observed on the implementation by the harness (checks/c14.py, recorded as an observation:
  neither docstring promises a copy).  A non-dict `L` is not modelled either (`None`: `TypeError` with `_labels` already
  overwritten; a list: accepted when it "contains" every state).
-/
import PMC.Model.Kripke
namespace PMC
namespace KripkeD
variable {σ : Type} [DecidableEq σ]

/-- `s in L` for a dict -/
def hasKey (L : List (σ × List String)) (s : σ) : Bool := L.any (fun p => decide (p.1 = s))

/-- `labelling_function()`: the internal dict -/
def labellingFunction (K : KripkeD σ) : List (σ × List String) := K.labels

/-- the caller's dict after `replace_labelling_function(L)`: its own entries (order, keys and values untouched), then
    `s ↦ set()` for every state it lacks, in the order of `states()` -/
def completed (K : KripkeD σ) (L : List (σ × List String)) : List (σ × List String) :=
  L ++ (K.g.nodes.filter (fun s => !hasKey L s)).map (fun s => (s, []))

/-- the structure after `replace_labelling_function(L)` -/
def replaceLabelling (K : KripkeD σ) (L : List (σ × List String)) : KripkeD σ :=
  { K with labels := completed K L }

/-- what `replace_labelling_function(L)` returns: the former dict -/
def replaceLabellingResult (K : KripkeD σ) (_L : List (σ × List String)) : List (σ × List String) := K.labels

/-- `labels()` without argument, at dict level: the union of all VALUES of `_labels` (the keys are not looked at) -/
def allLabelsD (K : KripkeD σ) : List String := K.labels.flatMap Prod.snd

end KripkeD
end PMC
