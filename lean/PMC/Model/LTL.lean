/-
  Executable model of pyModelChecking/LTL/model_checking.py.  No Mathlib.

  Front end as in `modelcheck`: negate with `LNot`, rewrite to the restricted syntax {not, or, X, U}.
  Tableau: an atom is a state plus a choice of truth values for the elementary formulas (the X-subformulas and
  `X(f U h)` for every U-subformula); every other subformula is evaluated bottom-up (`val`).  This is the textbook
  (Lichtenstein–Pnueli / Clarke–Grumberg–Peled) atom set; the incremental splitting procedure `_build_atoms` that the
  code uses to enumerate it is followed line by line in PMC/Model/LTLAtoms.lean, and PMC/Properties/C02Atoms.lean proves
  that the tableau built that way returns the same states as this one.
  Edges = `_does_respect_Xs`; SCCs by the verified `SCC.sccs`; `_is_non_trivial_self_fulfilling`; backward
  reachability; projection on the states of the atoms that make the formula true; complement.
-/
import PMC.Model.Syntax
import PMC.Model.Kripke
namespace PMC
namespace LTL

inductive RFm where
  | tt | ff
  | ap (n : String)
  | not (f : RFm)
  | or (fs : List RFm)
  | X (f : RFm)
  | U (f g : RFm)
  deriving Repr, Inhabited

def RFm.beq : RFm → RFm → Bool
  | .tt, .tt => true | .ff, .ff => true
  | .ap a, .ap b => a == b
  | .not f, .not g => f.beq g
  | .or fs, .or gs => beqList fs gs
  | .X f, .X g => f.beq g
  | .U f1 g1, .U f2 g2 => f1.beq f2 && g1.beq g2
  | _, _ => false
where beqList : List RFm → List RFm → Bool
  | [], [] => true
  | f :: fs, g :: gs => f.beq g && beqList fs gs
  | _, _ => false

theorem RFm.beq_iff (a b : RFm) : a.beq b = true ↔ a = b := by
  apply RFm.beq.induct
    (motive_1 := fun as bs => RFm.beq.beqList as bs = true ↔ as = bs)
    (motive_2 := fun a b => a.beq b = true ↔ a = b) <;>
  intros <;> simp_all [RFm.beq, RFm.beq.beqList]
  · rename_i t x h1 h2 h3 h4 h5 h6 h7
    intro h; subst h
    cases t <;> simp_all
    exact h7 _ _ _ _ rfl rfl rfl rfl
  · rename_i t x h1 h2
    intro h; subst h
    cases t <;> simp_all
    exact h2 _ _ _ _ rfl rfl rfl rfl

instance : DecidableEq RFm := fun a b => decidable_of_iff _ (RFm.beq_iff a b)

/-- subformulas, including the formula itself -/
def RFm.subs : RFm → List RFm
  | .tt => [.tt] | .ff => [.ff] | .ap n => [.ap n]
  | .not f => .not f :: f.subs
  | .or fs => .or fs :: subsList fs
  | .X f => .X f :: f.subs
  | .U f g => .U f g :: (f.subs ++ g.subs)
where subsList : List RFm → List RFm
  | [] => []
  | f :: fs => f.subs ++ subsList fs

/-- remove duplicates, keeping first occurrences -/
def dedup {α : Type} [DecidableEq α] : List α → List α
  | [] => []
  | a :: l => a :: (dedup l).filter (fun b => decide (b ≠ a))

/-- the X-formulas whose truth an atom chooses freely -/
def elemX (g : RFm) : List RFm :=
  dedup (g.subs.filterMap fun h => match h with
    | .X f => some (.X f)
    | .U f g' => some (.X (.U f g'))
    | _ => none)

def untils (g : RFm) : List (RFm × RFm) :=
  g.subs.filterMap fun h => match h with | .U f h' => some (f, h') | _ => none

/-- truth value of a formula in an atom = (labels of its state, chosen X-formulas) -/
def val (lab : List String) (xs : List RFm) : RFm → Bool
  | .tt => true | .ff => false
  | .ap n => lab.contains n
  | .not f => !(val lab xs f)
  | .or fs => valAny lab xs fs
  | .X f => xs.contains (.X f)
  | .U f g => val lab xs g || (val lab xs f && xs.contains (.X (.U f g)))
where valAny (lab : List String) (xs : List RFm) : List RFm → Bool
  | [] => false
  | f :: fs => val lab xs f || valAny lab xs fs

/-- restricted `Fm` → `RFm`; anything outside {tt, ff, ap, not, or, X, U} is what `_get_closure` rejects with
    `TypeError` -/
def toR : Fm → Option RFm
  | .tt => some .tt | .ff => some .ff | .ap n => some (.ap n)
  | .not f => (toR f).map .not
  | .or fs => (toRList fs).map .or
  | .X f => (toR f).map .X
  | .U f g => match toR f, toR g with
      | some f', some g' => some (.U f' g')
      | _, _ => none
  | _ => none
where toRList : List Fm → Option (List RFm)
  | [] => some []
  | f :: fs => match toR f, toRList fs with
      | some f', some fs' => some (f' :: fs')
      | _, _ => none

def sublists {α : Type} : List α → List (List α)
  | [] => [[]]
  | a :: l => sublists l ++ (sublists l).map (a :: ·)

variable {σ : Type} [DecidableEq σ]

abbrev Atom (σ : Type) := σ × List RFm

def atoms (K : Kripke σ) (g : RFm) : List (Atom σ) :=
  K.states.flatMap (fun s => (sublists (elemX g)).map (fun xs => (s, xs)))

def holdsB (K : Kripke σ) (a : Atom σ) (φ : RFm) : Bool := val (K.lab a.1) a.2 φ

/-- `_does_respect_Xs`, together with the transition test -/
def edgeB (K : Kripke σ) (g : RFm) (a b : Atom σ) : Bool :=
  decide (b.1 ∈ K.succ a.1) &&
  (elemX g).all (fun x => match x with
    | .X f => a.2.contains (.X f) == holdsB K b f
    | _ => true)

def tnext (K : Kripke σ) (g : RFm) (a : Atom σ) : List (Atom σ) := (atoms K g).filter (edgeB K g a)
def tprev (K : Kripke σ) (g : RFm) (a : Atom σ) : List (Atom σ) := (atoms K g).filter (fun b => edgeB K g b a)

/-- `_is_non_trivial_self_fulfilling` -/
def ntsf (K : Kripke σ) (g : RFm) (C : List (Atom σ)) : Bool :=
  match C with
  | [] => false
  | c :: _ =>
    (decide (C.length > 1) || decide (c ∈ tnext K g c)) &&
    (untils g).all (fun fh =>
      !(C.any (fun b => holdsB K b (.U fh.1 fh.2))) || C.any (fun b => holdsB K b fh.2))

/-- `_checkE_path_formula`: the states from which some path satisfies `g` -/
def checkE (K : Kripke σ) (g : RFm) : List σ :=
  let At := atoms K g
  let inNtsf := ((SCC.sccs At (tnext K g)).filter (ntsf K g)).flatten
  let R := Graph.reachFromFn (tprev K g) At inNtsf
  (R.filter (fun a => holdsB K a g)).map Prod.fst

/-- `LTL.modelcheck(K, A g)`, `F=None` -/
def modelcheck (K : Kripke σ) (f : Fm) : Except Err (List σ) :=
  match f with
  | .A g =>
    match toR (g.lnot).restrict with
    | some r => .ok (K.states.filter (fun s => decide (s ∉ checkE K r)))
    | none => .error .typeError
  | _ => .error .typeError

end LTL
end PMC
