/-
  Faithful executable model of the tableau-atom construction of pyModelChecking/LTL/model_checking.py:
  `_get_closure`, the sort of the closure, `_build_atoms`, `_Tableu` / `_does_respect_Xs`,
  `_is_non_trivial_self_fulfilling`, `_checkE_path_formula`, `modelcheck`.  No Mathlib.

  `PMC/Model/LTL.lean` enumerates the textbook atom set declaratively (state × subset of the elementary formulas).
  The code does something else: atoms are *sets of closure formulas*, built by an incremental splitting procedure.
  This file follows that procedure statement by statement, so that the atom list itself (and not only the final
  answer) can be compared with the implementation, and so that `PMC.C02.checkEBuilt_iff_checkE`
  (PMC/Properties/C02Atoms.lean) can relate the two constructions.

  Python sets are modelled by lists used as sets (`BAtom.add` never duplicates).  Formula equality in Python is equality
  of printed forms; here it is structural equality of `RFm` (the two agree on formulas whose atoms have
  identifier-style, non-reserved names — `PMC.print_injective`, C09/C11).
  Iteration order of Python sets is arbitrary: `closure` returns *some* list, and everything downstream is
  parameterised by the processing order `cl` (`cl_list` in `_build_atoms`), which may be any permutation of the
  closure that is sorted by `sortKey` (`sorted` is stable, ties come out in set-iteration, i.e. hash, order).
-/
import PMC.Model.LTL
namespace PMC
namespace LTL

/-! ### `LNot`, `height`, the sort key -/

/-- `LNot` (language.py) on restricted formulas -/
def lnotR : RFm → RFm
  | .not (.not f) => lnotR f
  | .not f => f
  | f => .not f

/-- the attribute `height` set by `wrap_subformulas` (for formulas all of whose operands are formula objects, which is
    what `get_equivalent_restricted_formula`, `LNot` and `_get_closure` build) -/
def RFm.height : RFm → Nat
  | .tt | .ff | .ap _ => 0
  | .not f => f.height + 1
  | .or fs => heightList fs
  | .X f => f.height + 1
  | .U f g => max (f.height + 1) (g.height + 1)
where heightList : List RFm → Nat
  | [] => 0
  | f :: fs => max (f.height + 1) (heightList fs)

/-- the key of `sorted(list(closure), key=…)`: `height`, but `height-1` for `not X f` -/
def sortKey : RFm → Nat
  | .not (.X f) => f.height + 1
  | f => f.height

def RFm.size : RFm → Nat
  | .tt | .ff | .ap _ => 1
  | .not f => f.size + 1
  | .or fs => sizeList fs + 1
  | .X f => f.size + 1
  | .U f g => f.size + g.size + 1
where sizeList : List RFm → Nat
  | [] => 0
  | f :: fs => f.size + sizeList fs

/-! ### `_get_closure`: LIFO work-list -/

/-- the formulas pushed on `T` when `phi` enters the closure, in the order of the `T.append` calls -/
def closurePush (phi : RFm) : List RFm :=
  lnotR phi :: (match phi with
    | .X f => [f]
    | .not (.X sf) => [.X (lnotR sf)]
    | .or fs => fs
    | .U f h => [f, h, .X (.U f h)]
    | _ => [])

/-- the `while len(T) > 0` loop; the head of the list `T` is what `T.pop()` returns.  (`RFm` has no constructor outside
    {true, false, atoms, not, or, X, U}, so the `TypeError` branch is `LTL.toR` returning `none`.) -/
def closureLoop : Nat → List RFm → List RFm → List RFm
  | 0, _, cl => cl
  | _+1, [], cl => cl
  | fuel+1, phi :: T, cl =>
    if phi ∈ cl then closureLoop fuel T cl
    else closureLoop fuel ((closurePush phi).reverse ++ T) (cl ++ [phi])

/-- enough iterations: the closure has at most `12 * size` elements, each pushing at most `size + 3` formulas -/
def closureFuel (g : RFm) : Nat := 12 * g.size * (g.size + 4) + 2

/-- `_get_closure(g)`, in order of insertion (Python returns a set: any order) -/
def closure (g : RFm) : List RFm := closureLoop (closureFuel g) [g] []

/-! ### `_TableuAtom` and `_build_atoms` -/

/-- `_TableuAtom`: a state and a set of formulas -/
abbrev BAtom (σ : Type) := σ × List RFm

variable {σ : Type} [DecidableEq σ]

/-- `atom.add(φ)` -/
def BAtom.add (a : BAtom σ) (φ : RFm) : BAtom σ := if φ ∈ a.2 then a else (a.1, a.2 ++ [φ])

/-- `atom | set(l)`: a new atom -/
def BAtom.union (a : BAtom σ) (l : List RFm) : BAtom σ := l.foldl BAtom.add a

/-- a loop `for atom in A: …` whose body updates the atom in place and may append new atoms to a tail list -/
def mapTail (body : BAtom σ → BAtom σ × List (BAtom σ)) (A : List (BAtom σ)) : List (BAtom σ) × List (BAtom σ) :=
  (A.map (fun a => (body a).1), A.flatMap (fun a => (body a).2))

/-- `isinstance(phi, Bool) or phi == Not(False)`: `atom.add(phi)` -/
def bodyConst (φ : RFm) (a : BAtom σ) : BAtom σ × List (BAtom σ) := (a.add φ, [])

/-- atomic proposition -/
def bodyAP (K : Kripke σ) (n : String) (φ neg : RFm) (a : BAtom σ) : BAtom σ × List (BAtom σ) :=
  (if (K.lab a.1).contains n then a.add φ else a.add neg, [])

/-- `Or`: `sum([f in atom for f in sf]) > 0` -/
def bodyOr (fs : List RFm) (φ neg : RFm) (a : BAtom σ) : BAtom σ × List (BAtom σ) :=
  (if fs.any (fun f => decide (f ∈ a.2)) then a.add φ else a.add neg, [])

/-- `Not(X sf)` -/
def bodyNotX (sf : RFm) (φ : RFm) (a : BAtom σ) : BAtom σ × List (BAtom σ) :=
  if RFm.X sf ∉ a.2 then
    if φ ∉ a.2 then (a.add (.X sf), [a.union [φ, .X (lnotR sf)]])
    else (a.add (.X (lnotR sf)), [])
  else (a, [])

/-- `U` -/
def bodyU (f h : RFm) (φ neg : RFm) (a : BAtom σ) : BAtom σ × List (BAtom σ) :=
  if h ∈ a.2 then (a.add φ, [])
  else if f ∈ a.2 then
    if RFm.X φ ∈ a.2 then (a.add φ, [])
    else if RFm.not (.X φ) ∉ a.2 then ((a.add φ).add (.X φ), [a.union [.not (.X φ), neg]])
    else (a.add neg, [])
  else (a.add neg, [])

/-- the final loop `for atom in A: if phi not in atom and neg_phi not in atom: A.append(atom | {phi}); atom.add(neg_phi)` -/
def bodyGen (φ neg : RFm) (a : BAtom σ) : BAtom σ × List (BAtom σ) :=
  if φ ∉ a.2 ∧ neg ∉ a.2 then (a.add neg, [a.union [φ]]) else (a, [])

/-- the type-directed part of the loop body of `_build_atoms` for one closure formula: (`A` updated, `A_tail`) -/
def stepSpecial (K : Kripke σ) (A : List (BAtom σ)) (φ : RFm) : List (BAtom σ) × List (BAtom σ) :=
  let neg := lnotR φ
  match φ with
  | .tt => mapTail (bodyConst φ) A                 -- `Bool` (`false` never gets here)
  | .not .ff => mapTail (bodyConst φ) A            -- `phi == Not(False)`
  | .ap n => mapTail (bodyAP K n φ neg) A
  | .or fs => mapTail (bodyOr fs φ neg) A
  | .not (.X sf) => mapTail (bodyNotX sf φ) A
  | .U f h => mapTail (bodyU f h φ neg) A
  | _ => (A, [])

/-- one iteration of `for phi in cl_list`.  The final loop iterates over `A` while appending to it, so it also visits
    the atoms it has just appended; these contain `phi`, so the test fails for them (`bodyGen_tail_noop`,
    PMC/Proofs/LTLAtomsInv.lean): the
    model runs the body over the list as it was when the loop started. -/
def stepAtoms (K : Kripke σ) (A : List (BAtom σ)) (φ : RFm) : List (BAtom σ) :=
  if φ = .not .tt ∨ φ = .ff then A
  else
    let (A1, tail) := stepSpecial K A φ
    let A2 := A1 ++ tail                               -- `A.extend(A_tail)`
    let (A3, tail2) := mapTail (bodyGen φ (lnotR φ)) A2
    A3 ++ tail2

/-- `_build_atoms(K, closure)` for the processing order `cl` -/
def buildAtoms (K : Kripke σ) (cl : List RFm) : List (BAtom σ) :=
  cl.foldl (stepAtoms K) (K.states.map (fun s => (s, [])))

/-! ### `_Tableu`, `_is_non_trivial_self_fulfilling`, `_checkE_path_formula` -/

def indexFrom {α : Type} : Nat → List α → List (Nat × α)
  | _, [] => []
  | n, a :: l => (n, a) :: indexFrom (n+1) l

/-- a tableau node: the index of an atom in `self.atoms`, together with the atom -/
abbrev BNode (σ : Type) := Nat × BAtom σ

def isXB : RFm → Bool
  | .X _ => true
  | _ => false

/-- `_does_respect_Xs` -/
def respectsXs (Xs : List RFm) (s d : BAtom σ) : Bool :=
  Xs.all (fun x => match x with
    | .X f => decide (f ∈ d.2) == decide (x ∈ s.2)
    | _ => true)

/-- the edge test of `_Tableu.__init__`: `(s, d)` an edge of `K` and `_does_respect_Xs` -/
def edgeBuilt (K : Kripke σ) (cl : List RFm) (a b : BNode σ) : Bool :=
  decide (b.2.1 ∈ K.succ a.2.1) && respectsXs (cl.filter isXB) a.2 b.2

def bnodes (K : Kripke σ) (cl : List RFm) : List (BNode σ) := indexFrom 0 (buildAtoms K cl)

def bnext (K : Kripke σ) (cl : List RFm) (a : BNode σ) : List (BNode σ) :=
  (bnodes K cl).filter (edgeBuilt K cl a)

def bprev (K : Kripke σ) (cl : List RFm) (a : BNode σ) : List (BNode σ) :=
  (bnodes K cl).filter (fun b => edgeBuilt K cl b a)

/-- `_is_non_trivial_self_fulfilling(T, C, closure)` -/
def ntsfBuilt (K : Kripke σ) (cl : List RFm) (C : List (BNode σ)) : Bool :=
  match C with
  | [] => false
  | c :: _ =>
    (decide (C.length > 1) || decide (c ∈ bnext K cl c)) &&
    cl.all (fun u => match u with
      | .U _ h => C.any (fun b => decide (u ∈ b.2.2)) == C.any (fun b => decide (h ∈ b.2.2))
      | _ => true)

/-- `_checkE_path_formula(K, g)` when the closure is processed in the order `cl` -/
def checkEBuilt (K : Kripke σ) (g : RFm) (cl : List RFm) : List σ :=
  let N := bnodes K cl
  let inNtsf := ((SCC.sccs N (bnext K cl)).filter (ntsfBuilt K cl)).flatten
  let R := Graph.reachFromFn (bprev K cl) N inNtsf
  (R.filter (fun a => decide (g ∈ a.2.2))).map (fun a => a.2.1)

/-! ### processing orders -/

/-- stable insertion sort by `sortKey`: one admissible order -/
def insertByKey (φ : RFm) : List RFm → List RFm
  | [] => [φ]
  | ψ :: l => if sortKey ψ ≤ sortKey φ then ψ :: insertByKey φ l else φ :: ψ :: l

def sortByKey (l : List RFm) : List RFm := l.foldl (fun acc φ => insertByKey φ acc) []

def sortedByKeyB : List RFm → Bool
  | [] => true
  | [_] => true
  | φ :: ψ :: l => decide (sortKey φ ≤ sortKey ψ) && sortedByKeyB (ψ :: l)

def nodupB : List RFm → Bool
  | [] => true
  | φ :: l => !(l.contains φ) && nodupB l

/-- `cl` is a possible value of `cl_list` for the formula `g`: a duplicate-free enumeration of the closure, sorted by
    the key -/
def admissibleB (g : RFm) (cl : List RFm) : Bool :=
  nodupB cl && sortedByKeyB cl && cl.all (fun φ => (closure g).contains φ) && (closure g).all (fun φ => cl.contains φ)

/-- `LTL.modelcheck(K, A g)`, `F=None`, with the code's own atom construction; `ord` chooses the processing order
    of the closure (any function returning an admissible order) -/
def modelcheckBuilt (ord : RFm → List RFm) (K : Kripke σ) (f : Fm) : Except Err (List σ) :=
  match f with
  | .A g =>
    match toR (g.lnot).restrict with
    | some r => .ok (K.states.filter (fun s => decide (s ∉ checkEBuilt K r (ord r))))
    | none => .error .typeError
  | _ => .error .typeError

/-- the default order -/
def defaultOrder (r : RFm) : List RFm := sortByKey (closure r)

/-! ### the invariant of `_build_atoms`, as a Boolean checker (run by `harness/validate_ltlatoms.py`)

  What `buildAtoms K cl` looks like when `cl` is an admissible order of the closure of a formula without double
  negation.  `PMC/Proofs/LTLAtoms*.lean` proves the parts of it the correspondence theorem needs. -/

/-- the X-formulas an atom contains, in the order of `Xs` -/
def xsOf (Xs : List RFm) (a : BAtom σ) : List RFm := Xs.filter (fun x => decide (x ∈ a.2))

/-- for every `X c` of the closure, `T` contains `X c` or `X (LNot c)` -/
def dualComplete (Xs T : List RFm) : Bool :=
  Xs.all (fun x => match x with
    | .X c => T.contains x || T.contains (.X (lnotR c))
    | _ => true)

/-- for every `X c` of the closure, `T` contains exactly one of `X c`, `X (LNot c)`: the atoms that can have successors -/
def dualConsistent (Xs T : List RFm) : Bool :=
  Xs.all (fun x => match x with
    | .X c => T.contains x != T.contains (.X (lnotR c))
    | _ => true)

/-- local truth conditions of one closure formula in one atom -/
def localOK (K : Kripke σ) (a : BAtom σ) (φ : RFm) : Bool :=
  match φ with
  | .tt => decide (φ ∈ a.2)
  | .ff => decide (φ ∉ a.2)
  | .ap n => decide (φ ∈ a.2) == (K.lab a.1).contains n
  | .or fs => decide (φ ∈ a.2) == fs.any (fun f => decide (f ∈ a.2))
  | .U f h => decide (φ ∈ a.2) == (decide (h ∈ a.2) || (decide (f ∈ a.2) && decide (RFm.X φ ∈ a.2)))
  | _ => true

/-- components: states; exactly one of `φ`, `LNot φ`; local truth; only closure formulas; dual-complete X-part;
    one atom per state and dual-complete choice of X-formulas -/
def atomsInvariantParts (K : Kripke σ) (cl : List RFm) : List Bool :=
  let A := buildAtoms K cl
  let Xs := cl.filter isXB
  [ A.all (fun a => decide (a.1 ∈ K.states)),
    A.all (fun a => cl.all (fun φ => decide (φ ∈ a.2) != decide (lnotR φ ∈ a.2))),
    A.all (fun a => cl.all (localOK K a)),
    A.all (fun a => a.2.all (fun φ => cl.contains φ)),
    A.all (fun a => dualComplete Xs (xsOf Xs a)),
    K.states.all (fun s => ((sublists Xs).filter (dualComplete Xs)).all (fun T =>
      (A.filter (fun a => decide (a.1 = s) && decide (xsOf Xs a = T))).length == 1)) ]

def atomsInvariantB (K : Kripke σ) (cl : List RFm) : Bool := (atomsInvariantParts K cl).all id

/-- dead atoms: those containing both `X c` and `X (LNot c)` for some `c` (no successor in the tableau) -/
def isDead (cl : List RFm) (a : BAtom σ) : Bool := !(dualConsistent (cl.filter isXB) (xsOf (cl.filter isXB) a))

/-! ### no double negation: what `get_equivalent_restricted_formula` guarantees, and what `_build_atoms` needs -/

/-- no subformula of the form `not not f` -/
def RFm.noNN : RFm → Bool
  | .tt | .ff | .ap _ => true
  | .not (.not _) => false
  | .not f => f.noNN
  | .or fs => noNNList fs
  | .X f => f.noNN
  | .U f g => f.noNN && g.noNN
where noNNList : List RFm → Bool
  | [] => true
  | f :: fs => f.noNN && noNNList fs

/-- back to the shared syntax (for printing) -/
def ofR : RFm → Fm
  | .tt => .tt | .ff => .ff | .ap n => .ap n
  | .not f => .not (ofR f)
  | .or fs => .or (ofRList fs)
  | .X f => .X (ofR f)
  | .U f g => .U (ofR f) (ofR g)
where ofRList : List RFm → List Fm
  | [] => []
  | f :: fs => ofR f :: ofRList fs

end LTL
end PMC
