/-
  An object store at LABEL-SET granularity, and store-passing versions of the model checkers.  No Mathlib.

  Python passes `Kripke` objects by reference; a `Kripke` object holds a dict `state ↦ label set`, and the label
  sets are mutable objects of their own (`kripke.labels(s)` returns the INTERNAL set, the caller can `.add` to it).
  PMC/Model/Effects.lean maps object identities to whole `Kripke` VALUES, so two `Kripke` objects sharing a label set
  (what a shallow `clone()` would produce) cannot be expressed there.  Here the label sets are the heap objects:

    * `LHeap`    — the allocator mark, the contents of every label set (`LabId → List String`; the live part of
                   the map is the finite set of identities below `mark`) and a ghost log of the identities written
                   by `.add`;
    * `KObj σ`   — a `Kripke` object: states, transitions and, for each state, WHICH heap set it points to;
                   `KObj.value h` reads the object back to the pure `Kripke σ` used by the checkers;
    * `construct`, `clone`, `substructure` follow kripke.py (every label collection is copied into a fresh set);
      `cloneShallow` is the classic bug (the new object points to the SAME sets) and exists only to show that the
      theorems of PMC/Properties/C07Labels.lean and C14Labels.lean tell the two apart;
    * `labelsOf`, `LHeap.addTo`, `KObj.addLabel` are `kripke.labels(s)`, `set.add(a)` and
      `for s in X: kripke.labels(s).add(a)`;
    * `CTLS.checkQL` / `CTLS.removeStateL` (F=None) and `CTLS.checkQFL` / `CTLS.removeStateFL` (F given) are the
      recursions of PMC/Model/CTLS.lean and PMC/Model/Fair.lean with Python's parameter passing: the structure is the
      object `o`, every read goes through `o.value h` and every `addLabel` is a sequence of `.add`s on heap sets;
    * the entry points `CTL/LTL/CTLS.modelcheckL` (F=None) and `CTL/LTL/CTLS.modelcheckFL` return the final heap and
      the answer.  The `…With` versions take the clone operation as a parameter (instantiated with `clone`; with
      `cloneShallow` only in the contrast examples).

  Modelling decisions.
    * Label sets are lists (as everywhere in the model) and `.add(a)` conses `a`, exactly like `Kripke.addLabel`.
    * `for s in X` iterates over a Python set: every distinct element once (`X.eraseDups`).
    * `kripke.labels(s)` raises `RuntimeError` on a non-state.  The checkers only ever label states (proved in
      PMC/Proofs/LabelStore.lean for well-formed structures), so `addLabel` skips non-states instead of raising;
      accordingly `value` gives non-states the empty label set.
    * The constructor is modelled on its success path (`S`, `succ` are the already computed nodes / successors).
    * `clone` keeps the iteration order of the original (as PMC/Model/Fair.lean does).
-/
import PMC.Model.Kripke
import PMC.Model.CTLS
import PMC.Model.Fair
import PMC.Model.Effects
namespace PMC

/-- identities of label-set objects -/
abbrev LabId := Nat

/-- the heap of label sets -/
structure LHeap where
  /-- the allocator: the next fresh identity; the live identities are those below `mark` -/
  mark : Nat
  /-- contents of every label set -/
  cells : LabId → List String
  /-- ghost: the identities `.add` has been applied to, most recent first -/
  log : List LabId

namespace LHeap

def empty : LHeap := ⟨0, fun _ => [], []⟩

/-- contents of set `id` -/
def get (h : LHeap) (id : LabId) : List String := h.cells id

/-- the allocator discipline: nothing is stored at or above the mark -/
def WF (h : LHeap) : Prop := ∀ id, h.mark ≤ id → h.cells id = []

/-- `set(v)`: a new set object with contents `v`; returns the heap and the fresh identity -/
def alloc (h : LHeap) (v : List String) : LHeap × LabId :=
  ({ h with mark := h.mark + 1, cells := fun j => if j = h.mark then v else h.cells j }, h.mark)

/-- allocate one set per element of `vs`, in order: the `i`-th gets identity `h.mark + i` -/
def allocAll (h : LHeap) : List (List String) → LHeap
  | [] => h
  | v :: vs => allocAll (h.alloc v).1 vs

/-- `the_set.add(a)` on set `id` -/
def addTo (h : LHeap) (id : LabId) (a : String) : LHeap :=
  { h with cells := fun j => if j = id then a :: h.cells j else h.cells j, log := id :: h.log }

end LHeap

/-- a `Kripke` object: `lab s` is the identity of the label set of state `s` (meaningless on non-states) -/
structure KObj (σ : Type) where
  states : List σ
  succ : σ → List σ
  lab : σ → LabId

namespace KObj
variable {σ : Type} [DecidableEq σ]

/-- the value of the object in heap `h` -/
def value (o : KObj σ) (h : LHeap) : Kripke σ :=
  { states := o.states, succ := o.succ, lab := fun s => if s ∈ o.states then h.get (o.lab s) else [] }

/-- the label sets of the object are live -/
def Live (o : KObj σ) (h : LHeap) : Prop := ∀ s ∈ o.states, o.lab s < h.mark

/-- every state has a label set of its own -/
def Inj (o : KObj σ) : Prop := ∀ s ∈ o.states, ∀ t ∈ o.states, o.lab s = o.lab t → s = t

/-- `kripke.labels(s)`: the identity of the INTERNAL set — the alias the caller gets (`none`: RuntimeError) -/
def labelsOf (o : KObj σ) (s : σ) : Option LabId := if s ∈ o.states then some (o.lab s) else none

/-- `for s in X: kripke.labels(s).add(a)` -/
def addLabel (o : KObj σ) (h : LHeap) (a : String) (X : List σ) : LHeap :=
  X.eraseDups.foldl (fun h s => match o.labelsOf s with | some id => h.addTo id a | none => h) h

/-- `Kripke(S, S0, R, L)`: `self._labels[state] = set(L[state])`, resp. `set()` for a state missing from `L`.
    `L s` is the identity of the collection the caller's dict holds for `s`, if any. -/
def construct (h : LHeap) (S : List σ) (succ : σ → List σ) (L : σ → Option LabId) : LHeap × KObj σ :=
  (h.allocAll (S.map (fun s => match L s with | some id => h.get id | none => [])),
   { states := S, succ := succ, lab := fun s => h.mark + S.idxOf s })

/-- `{state: set(AP) for state, AP in self._labels.items() if keep state}`: the temporary dict of copies;
    returns the heap and the dict -/
def copyLabels (h : LHeap) (o : KObj σ) (keep : σ → Bool) : LHeap × (σ → Option LabId) :=
  let S := o.states.filter keep
  (h.allocAll (S.map (fun s => h.get (o.lab s))), fun s => if s ∈ S then some (h.mark + S.idxOf s) else none)

/-- `clone()`: `L[state] = set(AP)` for every state, then the constructor (which copies again) -/
def clone (h : LHeap) (o : KObj σ) : LHeap × KObj σ :=
  let c := copyLabels h o (fun _ => true)
  construct c.1 o.states o.succ c.2

/-- the BUG, for contrast: a new `Kripke` object pointing to the SAME label sets -/
def cloneShallow (h : LHeap) (o : KObj σ) : LHeap × KObj σ := (h, { o with })

/-- `get_substructure(V)` -/
def substructure (h : LHeap) (o : KObj σ) (V : List σ) : LHeap × KObj σ :=
  let c := copyLabels h o (fun s => decide (s ∈ V))
  construct c.1 (o.states.filter (fun s => decide (s ∈ V)))
    (fun s => if s ∈ V then (o.succ s).filter (fun t => decide (t ∈ V)) else []) c.2

/-- `label_fair_states(F)` on the object; returns the heap and the new label -/
def labelFair (o : KObj σ) (h : LHeap) (F : List (List σ)) : LHeap × String :=
  let fair := Fair.fairLabel (o.value h)
  (o.addLabel h fair (Fair.fairStatesImpl (o.value h) F), fair)

end KObj

/-! ### `CTLS._remove_state_subformulas` / `_checkQuantifiedFormula` on an object, `F=None` -/
namespace CTLS
variable {σ : Type} [DecidableEq σ]

/-- `CTLS.checkQ` on object `o` -/
def checkQL (h : LHeap) (o : KObj σ) (isA : Bool) (g : Fm) : LHeap × List σ :=
  if isA then (h, checkA (o.value h) g)
  else if (Fm.E g).isCTLState then (h, CTL.check (o.value h) (.E g))
  else
    let f := g.lnot
    let name := freshName (o.value h) (.A f)
    let h' := o.addLabel h name (checkA (o.value h) f)
    (h', CTL.check (o.value h') (.not (.ap name)))

/-- `CTLS.removeState` on object `o` -/
def removeStateL (h : LHeap) (o : KObj σ) : Fm → LHeap × Fm
  | .tt => (h, .tt) | .ff => (h, .ff) | .ap n => (h, .ap n)
  | .A g =>
      let name := freshName (o.value h) (.A g)
      let r := removeStateL h o g
      let q := checkQL r.1 o true r.2
      (o.addLabel q.1 name q.2, .ap name)
  | .E g =>
      let name := freshName (o.value h) (.E g)
      let r := removeStateL h o g
      let q := checkQL r.1 o false r.2
      (o.addLabel q.1 name q.2, .ap name)
  | .not f => let r := removeStateL h o f; (r.1, .not r.2)
  | .X f => let r := removeStateL h o f; (r.1, .X r.2)
  | .F f => let r := removeStateL h o f; (r.1, .F r.2)
  | .G f => let r := removeStateL h o f; (r.1, .G r.2)
  | .or fs => let r := removeStateLList h o fs; (r.1, .or r.2)
  | .and fs => let r := removeStateLList h o fs; (r.1, .and r.2)
  | .imp f g => let r := removeStateL h o f; let r' := removeStateL r.1 o g; (r'.1, .imp r.2 r'.2)
  | .U f g => let r := removeStateL h o f; let r' := removeStateL r.1 o g; (r'.1, .U r.2 r'.2)
  | .R f g => let r := removeStateL h o f; let r' := removeStateL r.1 o g; (r'.1, .R r.2 r'.2)
where
  removeStateLList (h : LHeap) (o : KObj σ) : List Fm → LHeap × List Fm
    | [] => (h, [])
    | f :: fs => let r := removeStateL h o f; let r' := removeStateLList r.1 o fs; (r'.1, r.2 :: r'.2)

/-! ### the same with a fair label (`CTLS.checkQF`, `CTLS.removeStateF`); the heap reached when an exception is
    raised is returned too -/

/-- `CTLS.checkQF` on object `o`.  The inner `CTL.modelcheck` / `LTL.modelcheck` calls are made with `F=None`:
    they write nothing. -/
def checkQFL (fair : String) (h : LHeap) (o : KObj σ) (isA : Bool) (g : Fm) : LHeap × Except Err (List σ) :=
  let f := if isA then Fm.A g else Fm.E g
  if f.isCTLState then
    match Fair.nonFairCTL fair f with
    | .ok f' => (h, .ok (CTL.check (o.value h) f'))
    | .error _ => (h, .error .typeError)
  else
    let g' := Fair.nonFairCTLS fair g
    if isA then
      (h, LTL.modelcheck (o.value h) (.A (Fm.lnot (.and [Fm.lnot g', .ap fair]))))
    else
      let r := removeStateL h o (Fm.lnot (.A (Fm.lnot (.and [.ap fair, g']))))
      (r.1, CTL.modelcheck (o.value r.1) r.2)

/-- `CTLS.removeStateF` on object `o` -/
def removeStateFL (fair : String) (h : LHeap) (o : KObj σ) : Fm → LHeap × Except Err Fm
  | .tt => (h, .ok .tt) | .ff => (h, .ok .ff) | .ap n => (h, .ok (.ap n))
  | .A g =>
      let name := freshName (o.value h) (.A g)
      let r := removeStateFL fair h o g
      match r.2 with
      | .error e => (r.1, .error e)
      | .ok g1 =>
        let q := checkQFL fair r.1 o true g1
        match q.2 with
        | .error e => (q.1, .error e)
        | .ok S => (o.addLabel q.1 name S, .ok (.ap name))
  | .E g =>
      let name := freshName (o.value h) (.E g)
      let r := removeStateFL fair h o g
      match r.2 with
      | .error e => (r.1, .error e)
      | .ok g1 =>
        let q := checkQFL fair r.1 o false g1
        match q.2 with
        | .error e => (q.1, .error e)
        | .ok S => (o.addLabel q.1 name S, .ok (.ap name))
  | .not f =>
      let r := removeStateFL fair h o f
      match r.2 with
      | .error e => (r.1, .error e)
      | .ok f1 => (r.1, .ok (.not f1))
  | .X f =>
      let r := removeStateFL fair h o f
      match r.2 with
      | .error e => (r.1, .error e)
      | .ok f1 => (r.1, .ok (.X f1))
  | .F f =>
      let r := removeStateFL fair h o f
      match r.2 with
      | .error e => (r.1, .error e)
      | .ok f1 => (r.1, .ok (.F f1))
  | .G f =>
      let r := removeStateFL fair h o f
      match r.2 with
      | .error e => (r.1, .error e)
      | .ok f1 => (r.1, .ok (.G f1))
  | .or fs =>
      let r := removeStateFLList fair h o fs
      match r.2 with
      | .error e => (r.1, .error e)
      | .ok fs1 => (r.1, .ok (.or fs1))
  | .and fs =>
      let r := removeStateFLList fair h o fs
      match r.2 with
      | .error e => (r.1, .error e)
      | .ok fs1 => (r.1, .ok (.and fs1))
  | .imp f g =>
      let r := removeStateFL fair h o f
      match r.2 with
      | .error e => (r.1, .error e)
      | .ok f1 =>
        let r' := removeStateFL fair r.1 o g
        match r'.2 with
        | .error e => (r'.1, .error e)
        | .ok g1 => (r'.1, .ok (.imp f1 g1))
  | .U f g =>
      let r := removeStateFL fair h o f
      match r.2 with
      | .error e => (r.1, .error e)
      | .ok f1 =>
        let r' := removeStateFL fair r.1 o g
        match r'.2 with
        | .error e => (r'.1, .error e)
        | .ok g1 => (r'.1, .ok (.U f1 g1))
  | .R f g =>
      let r := removeStateFL fair h o f
      match r.2 with
      | .error e => (r.1, .error e)
      | .ok f1 =>
        let r' := removeStateFL fair r.1 o g
        match r'.2 with
        | .error e => (r'.1, .error e)
        | .ok g1 => (r'.1, .ok (.R f1 g1))
where
  removeStateFLList (fair : String) (h : LHeap) (o : KObj σ) : List Fm → LHeap × Except Err (List Fm)
    | [] => (h, .ok [])
    | f :: fs =>
      let r := removeStateFL fair h o f
      match r.2 with
      | .error e => (r.1, .error e)
      | .ok f1 =>
        let r' := removeStateFLList fair r.1 o fs
        match r'.2 with
        | .error e => (r'.1, .error e)
        | .ok fs1 => (r'.1, .ok (f1 :: fs1))

end CTLS

/-! ### the entry points: final heap and answer.  `cl` is the clone operation. -/
section entry
variable {σ : Type} [DecidableEq σ]

/-- `CTL.modelcheck(o, f)`, `F=None`: reads the object, writes nothing -/
def CTL.modelcheckL (h : LHeap) (o : KObj σ) (f : Fm) : LHeap × Except Err (List σ) :=
  (h, CTL.modelcheck (o.value h) f)

/-- `LTL.modelcheck(o, f)`, `F=None`: reads the object, writes nothing -/
def LTL.modelcheckL (h : LHeap) (o : KObj σ) (f : Fm) : LHeap × Except Err (List σ) :=
  (h, LTL.modelcheck (o.value h) f)

/-- `CTLS.modelcheck(o, f)`, `F=None`: `kripkeC = kripke.clone()`, then everything happens on `kripkeC` -/
def CTLS.modelcheckLWith (cl : LHeap → KObj σ → LHeap × KObj σ) (h : LHeap) (o : KObj σ) (f : Fm) :
    LHeap × Except Err (List σ) :=
  let c := cl h o
  let r := CTLS.removeStateL c.1 c.2 f
  (r.1, CTL.modelcheck (c.2.value r.1) r.2)

def CTLS.modelcheckL (h : LHeap) (o : KObj σ) (f : Fm) : LHeap × Except Err (List σ) :=
  CTLS.modelcheckLWith KObj.clone h o f

/-- `CTL.modelcheck(o, f, F=F)`: the class checks come first; then
    `kripke = kripke.clone(); fair_label = kripke.label_fair_states(F); formula = …non_fair…(fair_label)` -/
def CTL.modelcheckFLWith (cl : LHeap → KObj σ → LHeap × KObj σ) (h : LHeap) (o : KObj σ)
    (F : Option (List (List σ))) (f : Fm) : LHeap × Except Err (List σ) :=
  match F with
  | none => CTL.modelcheckL h o f
  | some F =>
    if f.isCTLState then
      let c := cl h o
      let l := c.2.labelFair c.1 F
      match Fair.nonFairCTL l.2 f with
      | .ok f' => (l.1, .ok (CTL.check (c.2.value l.1) f'))
      | .error e => (l.1, .error e)
    else (h, .error .typeError)

def CTL.modelcheckFL (h : LHeap) (o : KObj σ) (F : Option (List (List σ))) (f : Fm) :
    LHeap × Except Err (List σ) :=
  CTL.modelcheckFLWith KObj.clone h o F f

/-- `LTL.modelcheck(o, f, F=F)` -/
def LTL.modelcheckFLWith (cl : LHeap → KObj σ → LHeap × KObj σ) (h : LHeap) (o : KObj σ)
    (F : Option (List (List σ))) (f : Fm) : LHeap × Except Err (List σ) :=
  match F with
  | none => LTL.modelcheckL h o f
  | some F =>
    match f with
    | .A g =>
      let p := (g.lnot).restrict
      let c := cl h o
      let l := c.2.labelFair c.1 F
      let p := Fair.nonFairCTLS l.2 p
      let p := Fm.and [.ap l.2, p]
      let K' := c.2.value l.1
      match LTL.toR p with
      | some r => (l.1, .ok (K'.states.filter (fun s => decide (s ∉ LTL.checkE K' r))))
      | none => (l.1, .error .typeError)
    | _ => (h, .error .typeError)

def LTL.modelcheckFL (h : LHeap) (o : KObj σ) (F : Option (List (List σ))) (f : Fm) :
    LHeap × Except Err (List σ) :=
  LTL.modelcheckFLWith KObj.clone h o F f

/-- `CTLS.modelcheck(o, f, F=F)`:
    `kripkeC = kripke.clone(); fair_label = kripkeC.label_fair_states(F); _remove_state_subformulas(kripkeC, …)` -/
def CTLS.modelcheckFLWith (cl : LHeap → KObj σ → LHeap × KObj σ) (h : LHeap) (o : KObj σ)
    (F : Option (List (List σ))) (f : Fm) : LHeap × Except Err (List σ) :=
  match F with
  | none => CTLS.modelcheckLWith cl h o f
  | some F =>
    let c := cl h o
    let l := c.2.labelFair c.1 F
    let r := CTLS.removeStateFL l.2 l.1 c.2 f
    match r.2 with
    | .error e => (r.1, .error e)
    | .ok f' => (r.1, CTL.modelcheck (c.2.value r.1) (Fair.nonFairCTLS l.2 f'))

def CTLS.modelcheckFL (h : LHeap) (o : KObj σ) (F : Option (List (List σ))) (f : Fm) :
    LHeap × Except Err (List σ) :=
  CTLS.modelcheckFLWith KObj.clone h o F f

end entry

/-! ### histories of calls (the checker names are those of PMC/Model/Effects.lean) -/

/-- one call: which checker, on which object, with which `F` (`none`: `F=None`) and which formula -/
abbrev LCall (σ : Type) := Checker × KObj σ × Option (List (List σ)) × Fm

namespace LHeap
variable {σ : Type} [DecidableEq σ]

/-- execute one call -/
def call (h : LHeap) (c : LCall σ) : LHeap × Except Err (List σ) :=
  match c.1 with
  | .ctl => CTL.modelcheckFL h c.2.1 c.2.2.1 c.2.2.2
  | .ltl => LTL.modelcheckFL h c.2.1 c.2.2.1 c.2.2.2
  | .ctls => CTLS.modelcheckFL h c.2.1 c.2.2.1 c.2.2.2

/-- the pure answer to a call, computed from the value its object has in `h` -/
def pureAnswer (h : LHeap) (c : LCall σ) : Except Err (List σ) :=
  match c.1 with
  | .ctl => CTL.modelcheckF (c.2.1.value h) c.2.2.1 c.2.2.2
  | .ltl => LTL.modelcheckF (c.2.1.value h) c.2.2.1 c.2.2.2
  | .ctls => CTLS.modelcheckF (c.2.1.value h) c.2.2.1 c.2.2.2

/-- execute a sequence of calls, threading the heap; returns the final heap and the answers in order -/
def run (h : LHeap) : List (LCall σ) → LHeap × List (Except Err (List σ))
  | [] => (h, [])
  | c :: cs => let r := h.call c; let r' := run r.1 cs; (r'.1, r.2 :: r'.2)

end LHeap
end PMC
