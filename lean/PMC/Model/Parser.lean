/-
  Table-driven model of the four formula parsers (`pyModelChecking/parser.py`, `{PL,CTL,LTL,CTLS}/parser.py`):
  Lark 0.12, `parser='lalr'` with the contextual lexer and an inline `Transformer`.

  The tables (`Tables`: terminals, rules, LALR action/goto table) are data, regenerated from the live Lark objects
  into `PMC/Generated/Grammar.lean` by `harness/extract/larktables.py`.  This file is the interpreter:

  * `Pattern.matchAt`   the terminals' patterns at the head of the input: string literals and the three regular
                        expressions used by the grammars (hand-written matchers);
  * `lexAt`, `nextToken` Lark's contextual lexer: in LALR state `st` only the terminals that have an action in `st`
                        (plus the ignored ones) are tried, in Lark's order; keyword literals that the identifier
                        regex matches are not tried on their own but re-type an identifier token with exactly that
                        text (`_create_unless`); if nothing matches, the lexer with all terminals decides between
                        `UnexpectedToken` and `UnexpectedCharacters`;
  * `reduce`, `run`     Lark's LALR driver (`ParserState.feed_token`), with the tree-builder conventions (tokens
                        marked `filter_out` are dropped, rules whose name starts with `_` are spliced into the
                        parent) and the `Transformer` callbacks applied at each reduction;
  * `callback`          the `Transformer` methods of `AST_to_PropositionalLogics` / `AST_to_TemporalLogics`, by name;
  * `parse`             the entry point: `Parser()(s)`.

  Positions are character indices, as in Python.  `Err.runtimeError` is the model's *internal* error (inconsistent
  table, callback applied to children it is not defined on, fuel exhausted): the real parsers never raise it and it
  never occurs with the generated tables (checked on every validation run by `harness/validate_parser.py`).
  No Mathlib, no `partial`.
-/
import PMC.Model.Graph
import PMC.Model.Syntax

namespace PMC
namespace Parser

/-! ## tables -/

/-- pattern of a terminal: a string literal, or one of the three regular expressions of the grammars -/
inductive Pattern where
  /-- `"text"` -/
  | lit (text : String)
  /-- `/[a-zA-Z_][a-zA-Z_0-9]*/` -/
  | ident
  /-- `common.ESCAPED_STRING` = `/".*?(?<!\\)(\\\\)*?"/` -/
  | escapedString
  /-- `common.WS` = `/(?:[ \t\f\r\n])+/` -/
  | ws
  deriving Repr, DecidableEq, Inhabited

structure Terminal where
  name : String
  pat : Pattern
  deriving Repr, Inhabited

/-- a symbol in the right-hand side of a rule; `filterOut`: anonymous literal token, not kept in the tree -/
structure Sym where
  name : String
  isTerm : Bool
  filterOut : Bool
  deriving Repr, Inhabited

structure Rule where
  origin : String
  rhs : List Sym
  /-- name of the `Transformer` method: the alias (`-> name`), else the origin -/
  callback : String
  /-- the origin starts with `_`: no tree node, the children are spliced into the parent -/
  inline : Bool
  deriving Repr, Inhabited

inductive Action where
  | shift (state : Nat)
  | reduce (rule : Nat)
  deriving Repr, DecidableEq, Inhabited

structure Tables where
  /-- all terminals, in the order in which Lark's lexer tries them -/
  terminals : List Terminal
  /-- names of the `%ignore`d terminals -/
  ignore : List String
  rules : List Rule
  /-- action and goto table: row `st` maps terminal names, `$END` and rule origins to actions -/
  table : List (List (String × Action))
  start : Nat
  /-- Lark's `end_state`: reached by the goto on the start symbol -/
  accept : Nat
  deriving Repr, Inhabited

/-- the end-of-input symbol of the action table -/
def endSym : String := "$END"

namespace Tables

def row (T : Tables) (st : Nat) : List (String × Action) := T.table.getD st []

def action (T : Tables) (st : Nat) (sym : String) : Option Action := (T.row st).lookup sym

/-- the contextual lexer of state `st`: terminals with an action in `st`, and the ignored ones (in lexer order) -/
def allowed (T : Tables) (st : Nat) : List Terminal :=
  T.terminals.filter fun t => (T.action st t.name).isSome || T.ignore.contains t.name

end Tables

/-! ## patterns -/

def isWS (c : Char) : Bool := c == ' ' || c == '\t' || c == '\x0c' || c == '\r' || c == '\n'

/-- a literal at the head of the input: the rest of the input -/
def matchLit : List Char → List Char → Option (List Char)
  | [], s => some s
  | _ :: _, [] => none
  | c :: cs, d :: s => if c = d then matchLit cs s else none

/-- the part of `".*?(?<!\\)(\\\\)*?"` after the opening quote: `(body with the closing quote, rest)`.

    The regular expression ends at the first `"` that is preceded by an even number of backslashes (`.*?` takes
    everything up to a character that is not a backslash — or nothing —, `(\\\\)*?` takes pairs of backslashes);
    `.` does not match a newline.  `esc` = an odd number of backslashes immediately precedes the current character. -/
def scanString : Bool → List Char → Option (List Char × List Char)
  | _, [] => none
  | esc, c :: cs =>
    if c = '\n' then none
    else if c = '"' && !esc then some ([c], cs)
    else
      match scanString (if c = '\\' then !esc else false) cs with
      | some (m, r) => some (c :: m, r)
      | none => none

/-- match a pattern at the head of the input: `(matched text, rest)`; the regular expressions are greedy -/
def Pattern.matchAt : Pattern → List Char → Option (List Char × List Char)
  | .lit text, s =>
    match matchLit text.toList s with
    | some r => some (text.toList, r)
    | none => none
  | .ident, s =>
    match s with
    | c :: cs =>
      if Fm.isIdentStart c then
        match cs.span Fm.isIdentChar with
        | (m, r) => some (c :: m, r)
      else none
    | [] => none
  | .escapedString, s =>
    match s with
    | '"' :: cs =>
      match scanString false cs with
      | some (m, r) => some ('"' :: m, r)
      | none => none
    | _ => none
  | .ws, s =>
    match s with
    | c :: cs =>
      if isWS c then
        match cs.span isWS with
        | (m, r) => some (c :: m, r)
      else none
    | [] => none

def Pattern.isRegex : Pattern → Bool
  | .lit _ => false
  | _ => true

/-- the pattern matches exactly the whole of `s` -/
def Pattern.fullMatch (p : Pattern) (s : List Char) : Bool :=
  match p.matchAt s with
  | some (_, []) => true
  | _ => false

/-! ## lexer -/

structure Token where
  type : String
  text : String
  /-- character index of the first character -/
  pos : Nat
  deriving Repr, Inhabited

/-- `t` is a literal which a regular-expression terminal `r` of the same lexer `ts` matches as a whole
    (Lark's `_create_unless`): such a literal is not tried on its own, it re-types the tokens of `r` -/
def absorbedBy (r t : Terminal) : Bool :=
  match t.pat with
  | .lit text => r.pat.isRegex && r.pat.fullMatch text.toList
  | _ => false

def absorbed (ts : List Terminal) (t : Terminal) : Bool := ts.any fun r => absorbedBy r t

/-- first terminal, in order, that matches at the head of the input -/
def firstMatch : List Terminal → List Char → Option (Terminal × List Char × List Char)
  | [], _ => none
  | t :: ts, s =>
    match t.pat.matchAt s with
    | some (m, r) => some (t, m, r)
    | none => firstMatch ts s

/-- One step of a `TraditionalLexer` over the terminals `ts`: `(terminal, matched text, rest)`.
    (With the generated tables the filter is not observable: the regular expressions come first in the order, and
    a literal absorbed by one of them can only match where that regular expression matches too.  It is kept because
    it is what Lark does.) -/
def lexAt (ts : List Terminal) (s : List Char) : Option (Terminal × List Char × List Char) :=
  firstMatch (ts.filter fun t => !absorbed ts t) s

/-- `UnlessCallback`: a token of `t` whose text is a literal of `ts` absorbed by `t` gets that literal's type -/
def tokenType (ts : List Terminal) (t : Terminal) (m : List Char) : String :=
  match ts.find? (fun k => absorbedBy t k && k.pat == .lit (String.ofList m)) with
  | some k => k.name
  | none => t.name

/-- The next token for the parser in state `st` (`ContextualLexer.lex`): `(token, rest, position of rest)`;
    `none` at the end of the input.  `fuel` bounds the number of ignored tokens skipped (each is non-empty). -/
def nextToken (T : Tables) (st : Nat) : Nat → List Char → Nat → Except Err (Option Token × List Char × Nat)
  | 0, _, _ => .error .runtimeError
  | _ + 1, [], pos => .ok (none, [], pos)
  | fuel + 1, s, pos =>
    match lexAt (T.allowed st) s with
    | some (t, m, r) =>
      if T.ignore.contains t.name then nextToken T st fuel r (pos + m.length)
      else .ok (some ⟨tokenType (T.allowed st) t m, String.ofList m, pos⟩, r, pos + m.length)
    | none =>
      -- nothing acceptable here: the root lexer (all terminals) chooses the kind of error
      match lexAt T.terminals s with
      | some _ => .error (.unexpectedToken pos)
      | none => .error (.unexpectedCharacters pos)

/-! ## semantic values and the `Transformer` callbacks -/

/-- a child handed to a callback: a kept token or an already transformed formula -/
inductive Item where
  | tok (type : String) (text : String)
  | fm (f : Fm)
  deriving Inhabited

/-- value of a grammar symbol on the LR stack -/
inductive Val where
  | item (i : Item)
  /-- value of an inline (`_`-prefixed) rule: its children, to be spliced into the parent -/
  | spliced (is : List Item)
  deriving Inhabited

/-- children of a node (`ChildFilter`): filtered-out tokens dropped, inline rules expanded -/
def children : List Sym → List Val → List Item
  | s :: ss, v :: vs =>
    (match v with
     | .spliced is => is
     | .item i => if s.isTerm && s.filterOut then [] else [i]) ++ children ss vs
  | _, _ => []

/-- the formulas among the children, if they all are formulas -/
def formulas : List Item → Option (List Fm)
  | [] => some []
  | .fm f :: is => (formulas is).map (f :: ·)
  | .tok _ _ :: _ => none

def unary (c : Fm → Fm) (kids : List Item) : Except Err Item :=
  match formulas kids with
  | some [f] => .ok (.fm (c f))
  | _ => .error .runtimeError

def binary (c : Fm → Fm → Fm) (kids : List Item) : Except Err Item :=
  match formulas kids with
  | some [f, g] => .ok (.fm (c f g))
  | _ => .error .runtimeError

def nary (c : List Fm → Fm) (kids : List Item) : Except Err Item :=
  match formulas kids with
  | some fs => .ok (.fm (c fs))
  | none => .error .runtimeError

/-- `str(s[0])[1:-1]` -/
def stripQuotes (s : String) : String := String.ofList (s.toList.drop 1).dropLast

/-- The methods of `AST_to_PropositionalLogics` and `AST_to_TemporalLogics`, by name, on the node's children.
    Shapes that the generated grammars cannot produce (wrong number of operands, a token where a formula is
    expected, an unknown name) are the internal error. -/
def callback (name : String) (kids : List Item) : Except Err Item :=
  match name with
  | "true" => .ok (.fm .tt)
  | "false" => .ok (.fm .ff)
  | "string" =>
    match kids with
    | .tok _ text :: _ => .ok (.fm (.ap text))
    | [] => .error .indexError
    | _ => .error .runtimeError
  | "e_string" =>
    match kids with
    | .tok _ text :: _ => .ok (.fm (.ap (stripQuotes text)))
    | [] => .error .indexError
    | _ => .error .runtimeError
  -- `return subformula[0]`
  | "a_prop" | "b_formula" | "s_formula" | "u_formula" | "p_formula" | "formula" =>
    match kids with
    | k :: _ => .ok k
    | [] => .error .indexError
  | "not_formula" => unary .not kids
  | "or_formula" => nary .or kids
  | "and_formula" => nary .and kids
  | "imply_formula" => binary .imp kids
  | "forall_formula" => unary .A kids
  | "exists_formula" => unary .E kids
  | "next_formula" => unary .X kids
  | "eventually_formula" => unary .F kids
  | "globally_formula" => unary .G kids
  | "until_formula" => binary .U kids
  | "release_formula" => binary .R kids
  | _ => .error .runtimeError

/-! ## LALR driver -/

/-- an entry of the LR stack: the state entered, the grammar symbol that led to it and its value -/
structure Entry where
  state : Nat
  sym : String
  val : Val
  deriving Inhabited

/-- the current state: the top of the stack, the start state under everything -/
def topState (T : Tables) : List Entry → Nat
  | [] => T.start
  | e :: _ => e.state

/-- One reduction by rule number `r` (`feed_token`, the `Reduce` branch): pop the right-hand side — checking that
    the symbols on the stack are those of the rule —, build the value, follow the goto on the rule's origin. -/
def reduce (T : Tables) (stack : List Entry) (r : Nat) : Except Err (List Entry) :=
  match T.rules[r]? with
  | none => .error .runtimeError
  | some rule =>
    let k := rule.rhs.length
    let popped := (stack.take k).reverse
    let below := stack.drop k
    if popped.map (·.sym) != rule.rhs.map (·.name) then .error .runtimeError
    else
      let kids := children rule.rhs (popped.map (·.val))
      let value : Except Err Val :=
        if rule.inline then .ok (.spliced kids)
        else match callback rule.callback kids with
          | .ok i => .ok (.item i)
          | .error e => .error e
      match value with
      | .error e => .error e
      | .ok v =>
        match T.action (topState T below) rule.origin with
        | some (.shift st) => .ok (⟨st, rule.origin, v⟩ :: below)
        | _ => .error .runtimeError

/-- configuration of the parser between two steps -/
structure Config where
  /-- LR stack, top first -/
  stack : List Entry
  /-- the lookahead token; `none` = `$END` -/
  look : Option Token
  /-- input after the lookahead, and its character index -/
  rest : List Char
  pos : Nat
  /-- start of the last token shifted (0 if none): the position Lark gives to `$END` -/
  lastPos : Nat

def lookSym : Option Token → String
  | some t => t.type
  | none => endSym

/-- The parser loop (`parse_from_state` / `feed_token`): act on the lookahead in the current state.
    * no action: `UnexpectedToken` at the token (for `$END`: at the last token shifted);
    * shift: push, then lex the next token *in the new state*;
    * reduce: see `reduce`; on `$END`, reaching the accept state ends the parse with the value on top. -/
def run (T : Tables) : Nat → Config → Except Err Fm
  | 0, _ => .error .runtimeError
  | fuel + 1, c =>
    match T.action (topState T c.stack) (lookSym c.look) with
    | none =>
      match c.look with
      | some t => .error (.unexpectedToken t.pos)
      | none => .error (.unexpectedToken c.lastPos)
    | some (.shift st) =>
      match c.look with
      | none => .error .runtimeError   -- Lark: `assert not is_end`
      | some t =>
        match nextToken T st (c.rest.length + 1) c.rest c.pos with
        | .error e => .error e
        | .ok (look, rest, pos) =>
          run T fuel { stack := ⟨st, t.type, .item (.tok t.type t.text)⟩ :: c.stack,
                       look := look, rest := rest, pos := pos, lastPos := t.pos }
    | some (.reduce r) =>
      match reduce T c.stack r with
      | .error e => .error e
      | .ok stack =>
        if c.look.isNone && topState T stack == T.accept then
          match stack with
          | ⟨_, _, .item (.fm f)⟩ :: _ => .ok f
          | _ => .error .runtimeError
        else run T fuel { c with stack := stack }

/-- enough steps for any input of `n` characters: at most `n` shifts, at most `n` reductions that shorten the
    stack, and between two of those at most one chain of unit reductions (shorter than the number of rules) -/
def fuelFor (T : Tables) (n : Nat) : Nat := (2 * n + 2) * (T.rules.length + 2)

/-- `Parser()(s)`: the formula, or `UnexpectedToken pos` / `UnexpectedCharacters pos` -/
def parse (T : Tables) (s : List Char) : Except Err Fm :=
  match nextToken T T.start (s.length + 1) s 0 with
  | .error e => .error e
  | .ok (look, rest, pos) =>
    run T (fuelFor T s.length) { stack := [], look := look, rest := rest, pos := pos, lastPos := 0 }

end Parser
end PMC
