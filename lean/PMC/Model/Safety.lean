/-
  The graphs (and seed lists) that `_checkEU` / `_checkEG` hand to `DiGraph.get_reachable_set_from`, named so that
  the verification conditions of the partial graph operations (`Graph.reachFrom`, which raises `RuntimeError` on a
  start node that is not a node; `next(iter(scc))`, which raises `StopIteration` on an empty component) can be
  stated (PMC/Properties/C19.lean).  No Mathlib.

  The definitions are the `let` chains of `CTL.checkEU` / `CTL.checkEG` (PMC/Model/CTL.lean), cut before the call
  of the reachability routine: `CTL.checkEU K L0 L1 = reachFromFn (euGraph K L0 L1).next (euGraph K L0 L1).nodes L1`
  holds by `rfl`.
-/
import PMC.Model.CTL
import PMC.Model.LTL
namespace PMC
namespace CTL
variable {σ : Type} [DecidableEq σ]

/-- the graph `subgraph` of `_checkEU` at the moment `get_reachable_set_from(L1)` is called -/
def euGraph (K : Kripke σ) (L0 L1 : List σ) : Graph σ :=
  let sub := (K.graph.subgraph L0).reversed
  let sub := L0.foldl (fun g v =>
      ((K.succ v).filter (fun w => decide (w ∈ L1))).foldl (fun g w => g.addEdgeIgnore w v) g) sub
  (L1.filter (fun v => !sub.hasNode v)).foldl Graph.addNodeRaw sub

/-- the graph `subgraph` of `_checkEG` (the reversed `L`-subgraph) -/
def egGraph (K : Kripke σ) (L : List σ) : Graph σ := (K.graph.subgraph L).reversed

/-- the list `T` of `_checkEG`: the nodes of the non-trivial components -/
def egSeeds (K : Kripke σ) (L : List σ) : List σ :=
  ((egGraph K L).sccs.filter (fun scc =>
      match scc with
      | [] => false
      | v :: _ => decide (scc.length > 1) || decide (v ∈ (egGraph K L).next v))).flatten

end CTL

namespace LTL
variable {σ : Type} [DecidableEq σ]

/-- the components of the tableau graph, as computed inside `checkE` -/
def tableauSccs (K : Kripke σ) (g : RFm) : List (List (Atom σ)) := SCC.sccs (atoms K g) (tnext K g)

end LTL
end PMC
