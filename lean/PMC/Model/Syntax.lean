/-
  The shared formula type and the syntactic operations of pyModelChecking/language.py, PL/, CTLS/, CTL/, LTL/language.py:
  `LNot`, `get_equivalent_restricted_formula` (generic CTL* clauses and the CTL-specific A/E clauses), the printers
  (`__str__`) of the two notations, and the syntactic classes (which trees are formulas of which logic).  No imports.
-/
namespace PMC

inductive Fm where
  | tt | ff
  | ap (n : String)
  | not (f : Fm)
  | or (fs : List Fm)
  | and (fs : List Fm)
  | imp (f g : Fm)
  | X (f : Fm) | F (f : Fm) | G (f : Fm)
  | U (f g : Fm) | R (f g : Fm)
  | A (f : Fm) | E (f : Fm)
  deriving Repr, Inhabited

/-- the four language modules -/
inductive Logic where
  | PL | CTL | LTL | CTLS
  deriving Repr, DecidableEq, Inhabited

namespace Fm

/-! ### structural equality (nested inductive: `deriving DecidableEq` is not available) -/

def beq : Fm → Fm → Bool
  | .tt, .tt => true | .ff, .ff => true
  | .ap a, .ap b => a == b
  | .not f, .not g => f.beq g
  | .or fs, .or gs => beqList fs gs
  | .and fs, .and gs => beqList fs gs
  | .imp f1 g1, .imp f2 g2 => f1.beq f2 && g1.beq g2
  | .X f, .X g => f.beq g
  | .F f, .F g => f.beq g
  | .G f, .G g => f.beq g
  | .U f1 g1, .U f2 g2 => f1.beq f2 && g1.beq g2
  | .R f1 g1, .R f2 g2 => f1.beq f2 && g1.beq g2
  | .A f, .A g => f.beq g
  | .E f, .E g => f.beq g
  | _, _ => false
where beqList : List Fm → List Fm → Bool
  | [], [] => true
  | f :: fs, g :: gs => f.beq g && beqList fs gs
  | _, _ => false

/-! ### `LNot` (language.py) -/

def lnot : Fm → Fm
  | .not (.not f) => lnot f
  | .not f => f
  | f => .not f

/-! ### `get_equivalent_restricted_formula`, CTL* / LTL / (PL-free) generic clauses (CTLS/language.py) -/

def restrict : Fm → Fm
  | .tt => .tt | .ff => .ff | .ap n => .ap n
  | .not f => lnot (restrict f)
  | .or fs => .or (restrictList fs)
  | .and fs => .not (.or (restrictNegList fs))
  | .imp f g => .or [lnot (restrict f), restrict g]
  | .X f => .X (restrict f)
  | .F f => .U .tt (restrict f)
  | .G f => .not (.U .tt (lnot (restrict f)))
  | .U f g => .U (restrict f) (restrict g)
  | .R f g => .not (.U (lnot (restrict f)) (lnot (restrict g)))
  | .A f => .not (.E (lnot (restrict f)))
  | .E f => .E (restrict f)
where
  restrictList : List Fm → List Fm
    | [] => []
    | f :: fs => restrict f :: restrictList fs
  restrictNegList : List Fm → List Fm
    | [] => []
    | f :: fs => lnot (restrict f) :: restrictNegList fs

/-- the restricted alphabet of CTL*: not, or, X, U, E, atoms (Boolean constants are atoms) -/
def Restricted : Fm → Prop
  | .tt | .ff | .ap _ => True
  | .not f => Restricted f
  | .or fs => RestrictedList fs
  | .X f => Restricted f
  | .U f g => Restricted f ∧ Restricted g
  | .E f => Restricted f
  | _ => False
where
  RestrictedList : List Fm → Prop
    | [] => True
    | f :: fs => Restricted f ∧ RestrictedList fs

/-- Boolean version of `Restricted` (run by the driver on the implementation's output) -/
def isRestricted : Fm → Bool
  | .tt | .ff | .ap _ => true
  | .not f => isRestricted f
  | .or fs => isRestrictedList fs
  | .X f => isRestricted f
  | .U f g => isRestricted f && isRestricted g
  | .E f => isRestricted f
  | _ => false
where
  isRestrictedList : List Fm → Bool
    | [] => true
    | f :: fs => isRestricted f && isRestrictedList fs

/-! ### CTL: `get_equivalent_restricted_formula` with the A/E clauses of CTL/language.py

  In the CTL module every `A`/`E` wraps exactly one of X, F, G, U, R applied to state formulas; all other classes
  inherit the CTL* clauses.  On trees outside CTL the A/E clause raises `TypeError` in Python; here it returns `ff`
  and every theorem carries the hypothesis `IsCTLState`. -/

def restrictCTL : Fm → Fm
  | .tt => .tt | .ff => .ff | .ap n => .ap n
  | .not f => lnot (restrictCTL f)
  | .or fs => .or (restrictCTLList fs)
  | .and fs => .not (.or (restrictCTLNegList fs))
  | .imp f g => .or [lnot (restrictCTL f), restrictCTL g]
  | .A (.X f) => .not (.E (.X (lnot (restrictCTL f))))
  | .A (.F f) => .not (.E (.G (lnot (restrictCTL f))))
  | .A (.G f) => .not (.E (.U .tt (lnot (restrictCTL f))))
  | .A (.U f g) =>
      .not (.or [.E (.U (lnot (restrictCTL g)) (.not (.or [restrictCTL f, restrictCTL g]))),
                 .E (.G (lnot (restrictCTL g)))])
  | .A (.R f g) => .not (.E (.U (lnot (restrictCTL f)) (lnot (restrictCTL g))))
  | .E (.X f) => .E (.X (restrictCTL f))
  | .E (.F f) => .E (.U .tt (restrictCTL f))
  | .E (.G f) => .E (.G (restrictCTL f))
  | .E (.U f g) => .E (.U (restrictCTL f) (restrictCTL g))
  | .E (.R f g) =>
      .or [.E (.U (restrictCTL g) (.not (.or [lnot (restrictCTL f), lnot (restrictCTL g)]))),
           .E (.G (restrictCTL g))]
  -- path formulas used on their own (`CTL.X('p').get_equivalent_restricted_formula()`): the inherited CTL* clauses
  | .X f => .X (restrictCTL f)
  | .F f => .U .tt (restrictCTL f)
  | .G f => .not (.U .tt (lnot (restrictCTL f)))
  | .U f g => .U (restrictCTL f) (restrictCTL g)
  | .R f g => .not (.U (lnot (restrictCTL f)) (lnot (restrictCTL g)))
  | .A _ => .ff
  | .E _ => .ff
where
  restrictCTLList : List Fm → List Fm
    | [] => []
    | f :: fs => restrictCTL f :: restrictCTLList fs
  restrictCTLNegList : List Fm → List Fm
    | [] => []
    | f :: fs => lnot (restrictCTL f) :: restrictCTLNegList fs

/-- restricted CTL alphabet: not, or, EX, EU, EG, atoms -/
def isRestrictedCTL : Fm → Bool
  | .tt | .ff | .ap _ => true
  | .not f => isRestrictedCTL f
  | .or fs => isRestrictedCTLList fs
  | .E (.X f) => isRestrictedCTL f
  | .E (.G f) => isRestrictedCTL f
  | .E (.U f g) => isRestrictedCTL f && isRestrictedCTL g
  | _ => false
where
  isRestrictedCTLList : List Fm → Bool
    | [] => true
    | f :: fs => isRestrictedCTL f && isRestrictedCTLList fs

/-! ### syntactic classes -/

/-- propositional formulas -/
def isPL : Fm → Bool
  | .tt | .ff | .ap _ => true
  | .not f => isPL f
  | .or fs => isPLList fs
  | .and fs => isPLList fs
  | .imp f g => isPL f && isPL g
  | _ => false
where
  isPLList : List Fm → Bool
    | [] => true
    | f :: fs => isPL f && isPLList fs

/-- LTL path formulas (no quantifier) -/
def isLTLPath : Fm → Bool
  | .tt | .ff | .ap _ => true
  | .not f => isLTLPath f
  | .or fs => isLTLPathList fs
  | .and fs => isLTLPathList fs
  | .imp f g => isLTLPath f && isLTLPath g
  | .X f | .F f | .G f => isLTLPath f
  | .U f g | .R f g => isLTLPath f && isLTLPath g
  | _ => false
where
  isLTLPathList : List Fm → Bool
    | [] => true
    | f :: fs => isLTLPath f && isLTLPathList fs

/-- LTL formulas: a path formula, or `A` applied to one -/
def isLTL : Fm → Bool
  | .A f => isLTLPath f
  | f => isLTLPath f

/-- CTL state formulas -/
def isCTLState : Fm → Bool
  | .tt | .ff | .ap _ => true
  | .not f => isCTLState f
  | .or fs => isCTLStateList fs
  | .and fs => isCTLStateList fs
  | .imp f g => isCTLState f && isCTLState g
  | .A (.X f) | .A (.F f) | .A (.G f) | .E (.X f) | .E (.F f) | .E (.G f) => isCTLState f
  | .A (.U f g) | .A (.R f g) | .E (.U f g) | .E (.R f g) => isCTLState f && isCTLState g
  | _ => false
where
  isCTLStateList : List Fm → Bool
    | [] => true
    | f :: fs => isCTLState f && isCTLStateList fs

/-- CTL formulas: state formulas, or one temporal operator applied to state formulas (a CTL path formula) -/
def isCTL : Fm → Bool
  | .X f | .F f | .G f => isCTLState f
  | .U f g | .R f g => isCTLState f && isCTLState g
  | f => isCTLState f

/-- every tree is a CTL* formula; state formulas are those whose temporal operators are all under a quantifier -/
def isCTLSState : Fm → Bool
  | .tt | .ff | .ap _ => true
  | .not f => isCTLSState f
  | .or fs => isCTLSStateList fs
  | .and fs => isCTLSStateList fs
  | .imp f g => isCTLSState f && isCTLSState g
  | .A _ | .E _ => true
  | _ => false
where
  isCTLSStateList : List Fm → Bool
    | [] => true
    | f :: fs => isCTLSState f && isCTLSStateList fs

def inLogic : Logic → Fm → Bool
  | .PL, f => isPL f
  | .CTL, f => isCTL f
  | .LTL, f => isLTL f
  | .CTLS, _ => true

/-- every n-ary `and`/`or` has at least two operands (what the parsers build; the quantifier of C09) -/
def arityOK : Fm → Bool
  | .tt | .ff | .ap _ => true
  | .not f | .X f | .F f | .G f | .A f | .E f => arityOK f
  | .or fs | .and fs => decide (2 ≤ fs.length) && arityOKList fs
  | .imp f g | .U f g | .R f g => arityOK f && arityOK g
where
  arityOKList : List Fm → Bool
    | [] => true
    | f :: fs => arityOK f && arityOKList fs

/-- atoms of a formula -/
def atoms : Fm → List String
  | .tt | .ff => []
  | .ap n => [n]
  | .not f | .X f | .F f | .G f | .A f | .E f => atoms f
  | .or fs | .and fs => atomsList fs
  | .imp f g | .U f g | .R f g => atoms f ++ atoms g
where
  atomsList : List Fm → List String
    | [] => []
    | f :: fs => atoms f ++ atomsList fs

/-! ### printers (`__str__`) -/

def joinSep (sep : String) : List String → String
  | [] => ""
  | [s] => s
  | s :: ss => s ++ sep ++ joinSep sep ss

/-- `LogicOperator.__str__` for an n-ary operator with symbol `sym` -/
def printNary (sym : String) (ss : List String) : String :=
  match ss with
  | [s] => sym ++ " " ++ s
  | _ => "(" ++ joinSep (" " ++ sym ++ " ") ss ++ ")"

/-- `__str__` of PL / LTL / CTL* objects (CTL* notation) -/
def print : Fm → String
  | .tt => "true" | .ff => "false"
  | .ap n => n
  | .not f => "not " ++ print f
  | .or fs => printNary "or" (printList fs)
  | .and fs => printNary "and" (printList fs)
  | .imp f g => "(" ++ print f ++ " --> " ++ print g ++ ")"
  | .X f => "X(" ++ print f ++ ")"
  | .F f => "F(" ++ print f ++ ")"
  | .G f => "G(" ++ print f ++ ")"
  | .U f g => "(" ++ print f ++ " U " ++ print g ++ ")"
  | .R f g => "(" ++ print f ++ " R " ++ print g ++ ")"
  | .A f => "A(" ++ print f ++ ")"
  | .E f => "E(" ++ print f ++ ")"
where
  printList : List Fm → List String
    | [] => []
    | f :: fs => print f :: printList fs

/-- `__str__` of CTL-module objects (CTL notation: `AX p`, `A(p U q)`, `EG p`) -/
def printCTL : Fm → String
  | .tt => "true" | .ff => "false"
  | .ap n => n
  | .not f => "not " ++ printCTL f
  | .or fs => printNary "or" (printCTLList fs)
  | .and fs => printNary "and" (printCTLList fs)
  | .imp f g => "(" ++ printCTL f ++ " --> " ++ printCTL g ++ ")"
  | .X f => "X " ++ printCTL f
  | .F f => "F " ++ printCTL f
  | .G f => "G " ++ printCTL f
  | .U f g => "(" ++ printCTL f ++ " U " ++ printCTL g ++ ")"
  | .R f g => "(" ++ printCTL f ++ " R " ++ printCTL g ++ ")"
  | .A f => "A" ++ printCTL f
  | .E f => "E" ++ printCTL f
where
  printCTLList : List Fm → List String
    | [] => []
    | f :: fs => printCTL f :: printCTLList fs

def printIn : Logic → Fm → String
  | .CTL, f => printCTL f
  | _, f => print f

/-- `Formula.__eq__` inside one logic: equality of printed forms; `Bool.__eq__` overrides it for constants -/
def pyEq (M : Logic) : Fm → Fm → Bool
  | .tt, g => g.beq .tt
  | .ff, g => g.beq .ff
  | f, g => printIn M f == printIn M g

/-- reserved words of the concrete syntax -/
def reserved : List String :=
  ["true", "false", "not", "or", "and", "A", "E", "X", "F", "G", "U", "R"]

def isIdentStart (c : Char) : Bool := c.isAlpha || c == '_'
def isIdentChar (c : Char) : Bool := c.isAlphanum || c == '_'

/-- identifier-style, non-reserved atom name (the quantifier of C09 / C11) -/
def wfName (n : String) : Bool :=
  match n.toList with
  | [] => false
  | c :: cs => isIdentStart c && cs.all isIdentChar && !(reserved.contains n)

def wfAtoms (f : Fm) : Bool := f.atoms.all wfName

end Fm
end PMC
