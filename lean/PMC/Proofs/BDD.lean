import PMC.Model.BDD
import Mathlib.Tactic

/- Spike: tree-level ROBDD model — canonicity and apply (C16/C17) -/
namespace PMC.BDD
open BDD

/-- every variable is ≥ lb and variables strictly increase along every branch -/
def Ord : Nat → BDD → Prop
  | _, leaf _ => True
  | lb, node v lo hi => lb ≤ v ∧ Ord (v+1) lo ∧ Ord (v+1) hi

def Reduced : BDD → Prop
  | leaf _ => True
  | node _ lo hi => lo ≠ hi ∧ Reduced lo ∧ Reduced hi

theorem Ord.mono {lb lb' : Nat} {t : BDD} (h : Ord lb t) (hle : lb' ≤ lb) : Ord lb' t := by
  cases t with
  | leaf b => trivial
  | node v lo hi => exact ⟨le_trans hle h.1, h.2⟩

/-- a diagram whose variables are all ≥ lb ignores variables below lb -/
theorem denote_update {lb : Nat} {t : BDD} (h : Ord lb t) (ρ : Nat → Bool) (x : Nat) (hx : x < lb) (b : Bool) :
    denote t (Function.update ρ x b) = denote t ρ := by
  induction t generalizing lb with
  | leaf c => rfl
  | node v lo hi ihl ihh =>
    obtain ⟨h1, h2, h3⟩ := h
    have hne : v ≠ x := by omega
    simp only [denote, Function.update_of_ne hne]
    rw [ihl h2 (by omega), ihh h3 (by omega)]

theorem denote_node_false {v : Nat} {lo hi : BDD} (hlo : Ord (v+1) lo) (ρ : Nat → Bool) :
    denote (node v lo hi) (Function.update ρ v false) = denote lo ρ := by
  simp [denote, denote_update hlo ρ v (by omega)]

theorem denote_node_true {v : Nat} {lo hi : BDD} (hhi : Ord (v+1) hi) (ρ : Nat → Bool) :
    denote (node v lo hi) (Function.update ρ v true) = denote hi ρ := by
  simp [denote, denote_update hhi ρ v (by omega)]

/-- **Canonicity**: reduced ordered diagrams denoting the same function are equal. -/
theorem canonical : ∀ (n : Nat) (s t : BDD) (l1 l2 : Nat), size s + size t ≤ n →
    Ord l1 s → Ord l2 t → Reduced s → Reduced t → (∀ ρ, denote s ρ = denote t ρ) → s = t := by
  intro n
  induction n with
  | zero => intro s t _ _ h; cases s <;> simp [size] at h
  | succ n ih =>
    intro s t l1 l2 hn hs ht rs rt heq
    -- a node whose function ignores its own variable cannot be reduced
    have indep : ∀ (v : Nat) (lo hi : BDD) (l : Nat), size lo + size hi ≤ n → Ord l (node v lo hi) →
        Reduced (node v lo hi) →
        (∀ ρ b, denote (node v lo hi) (Function.update ρ v b) = denote (node v lo hi) ρ) → False := by
      intro v lo hi l hsz ho hr hind
      obtain ⟨_, holo, hohi⟩ := ho
      have : lo = hi := ih lo hi _ _ hsz holo hohi hr.2.1 hr.2.2 (by
        intro ρ
        rw [← denote_node_false (hi := hi) holo ρ, ← denote_node_true (lo := lo) hohi ρ, hind, hind])
      exact hr.1 this
    cases s with
    | leaf a =>
      cases t with
      | leaf b => have := heq (fun _ => false); simpa [denote] using this
      | node v lo hi =>
        exfalso
        refine indep v lo hi l2 (by simp [size] at hn; omega) ht rt ?_
        intro ρ b; rw [← heq, ← heq]; rfl
    | node v1 lo1 hi1 =>
      cases t with
      | leaf b =>
        exfalso
        refine indep v1 lo1 hi1 l1 (by simp [size] at hn; omega) hs rs ?_
        intro ρ b'; rw [heq, heq]; rfl
      | node v2 lo2 hi2 =>
        simp only [size] at hn
        rcases lt_trichotomy v1 v2 with hlt | rfl | hgt
        · exfalso
          refine indep v1 lo1 hi1 l1 (by omega) hs rs ?_
          intro ρ b
          rw [heq, heq]
          exact denote_update (lb := v2) (t := node v2 lo2 hi2) ⟨le_rfl, ht.2⟩ ρ v1 hlt b
        · obtain ⟨_, hol1, hoh1⟩ := hs
          obtain ⟨_, hol2, hoh2⟩ := ht
          have e1 : lo1 = lo2 := ih lo1 lo2 _ _ (by omega) hol1 hol2 rs.2.1 rt.2.1 (by
            intro ρ
            rw [← denote_node_false (hi := hi1) hol1 ρ, ← denote_node_false (hi := hi2) hol2 ρ]; exact heq _)
          have e2 : hi1 = hi2 := ih hi1 hi2 _ _ (by omega) hoh1 hoh2 rs.2.2 rt.2.2 (by
            intro ρ
            rw [← denote_node_true (lo := lo1) hoh1 ρ, ← denote_node_true (lo := lo2) hoh2 ρ]; exact heq _)
          rw [e1, e2]
        · exfalso
          refine indep v2 lo2 hi2 l2 (by omega) ht rt ?_
          intro ρ b
          rw [← heq, ← heq]
          exact denote_update (lb := v1) (t := node v1 lo1 hi1) ⟨le_rfl, hs.2⟩ ρ v2 hgt b

/-! ### node constructor and apply -/

theorem denote_mk (v : Nat) (lo hi : BDD) (ρ : Nat → Bool) :
    denote (mk v lo hi) ρ = if ρ v then denote hi ρ else denote lo ρ := by
  unfold mk; split_ifs with h <;> simp_all [denote]

theorem reduced_mk {v : Nat} {lo hi : BDD} (hl : Reduced lo) (hh : Reduced hi) : Reduced (mk v lo hi) := by
  unfold mk; split_ifs with h
  · exact hl
  · exact ⟨h, hl, hh⟩

theorem ord_mk {lb v : Nat} {lo hi : BDD} (hv : lb ≤ v) (hl : Ord (v+1) lo) (hh : Ord (v+1) hi) :
    Ord lb (mk v lo hi) := by
  unfold mk; split_ifs with h
  · exact hl.mono (by omega)
  · exact ⟨hv, hl, hh⟩

theorem apply_spec (op : Bool → Bool → Bool) : ∀ (n : Nat) (a b : BDD) (lb : Nat), size a + size b ≤ n + 1 →
    Ord lb a → Ord lb b → Reduced a → Reduced b →
    (∀ ρ, denote (apply op n a b) ρ = op (denote a ρ) (denote b ρ)) ∧
    Ord lb (apply op n a b) ∧ Reduced (apply op n a b) := by
  intro n
  induction n with
  | zero => intro a b _ h; cases a <;> cases b <;> simp [size] at h <;> omega
  | succ n ih =>
    intro a b lb hn oa ob ra rb
    cases a with
    | leaf x =>
      cases b with
      | leaf y => exact ⟨fun _ => rfl, trivial, trivial⟩
      | node v lo hi =>
        simp only [size] at hn
        obtain ⟨h1, h2, h3⟩ := ob
        obtain ⟨d1, o1, r1⟩ := ih (leaf x) lo (v+1) (by simp [size]; omega) trivial h2 trivial rb.2.1
        obtain ⟨d2, o2, r2⟩ := ih (leaf x) hi (v+1) (by simp [size]; omega) trivial h3 trivial rb.2.2
        refine ⟨?_, ord_mk h1 o1 o2, reduced_mk r1 r2⟩
        intro ρ; simp only [apply, denote_mk, d1, d2, denote]; split_ifs <;> rfl
    | node v1 lo1 hi1 =>
      obtain ⟨ha1, ha2, ha3⟩ := oa
      cases b with
      | leaf y =>
        simp only [size] at hn
        obtain ⟨d1, o1, r1⟩ := ih lo1 (leaf y) (v1+1) (by simp [size]; omega) ha2 trivial ra.2.1 trivial
        obtain ⟨d2, o2, r2⟩ := ih hi1 (leaf y) (v1+1) (by simp [size]; omega) ha3 trivial ra.2.2 trivial
        refine ⟨?_, ord_mk ha1 o1 o2, reduced_mk r1 r2⟩
        intro ρ; simp only [apply, denote_mk, d1, d2, denote]; split_ifs <;> rfl
      | node v2 lo2 hi2 =>
        obtain ⟨hb1, hb2, hb3⟩ := ob
        simp only [size] at hn
        simp only [apply]
        split_ifs with h1 h2
        · have ob' : Ord (v1+1) (node v2 lo2 hi2) := ⟨by omega, hb2, hb3⟩
          obtain ⟨d1, o1, r1⟩ := ih lo1 (node v2 lo2 hi2) (v1+1) (by simp [size]; omega) ha2 ob' ra.2.1 rb
          obtain ⟨d2, o2, r2⟩ := ih hi1 (node v2 lo2 hi2) (v1+1) (by simp [size]; omega) ha3 ob' ra.2.2 rb
          refine ⟨?_, ord_mk ha1 o1 o2, reduced_mk r1 r2⟩
          intro ρ; simp only [denote_mk, d1, d2]; simp only [denote]; split_ifs <;> rfl
        · subst h2
          obtain ⟨d1, o1, r1⟩ := ih lo1 lo2 (v1+1) (by omega) ha2 hb2 ra.2.1 rb.2.1
          obtain ⟨d2, o2, r2⟩ := ih hi1 hi2 (v1+1) (by omega) ha3 hb3 ra.2.2 rb.2.2
          refine ⟨?_, ord_mk ha1 o1 o2, reduced_mk r1 r2⟩
          intro ρ; simp only [denote_mk, d1, d2]; simp only [denote]; split_ifs <;> rfl
        · have oa' : Ord (v2+1) (node v1 lo1 hi1) := ⟨by omega, ha2, ha3⟩
          obtain ⟨d1, o1, r1⟩ := ih (node v1 lo1 hi1) lo2 (v2+1) (by simp [size]; omega) oa' hb2 ra rb.2.1
          obtain ⟨d2, o2, r2⟩ := ih (node v1 lo1 hi1) hi2 (v2+1) (by simp [size]; omega) oa' hb3 ra rb.2.2
          refine ⟨?_, ord_mk hb1 o1 o2, reduced_mk r1 r2⟩
          intro ρ; simp only [denote_mk, d1, d2]; simp only [denote]; split_ifs <;> rfl

#print axioms canonical
#print axioms apply_spec
end PMC.BDD
