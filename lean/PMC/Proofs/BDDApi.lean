/-
  Proofs about the model of the rest of the OBDD API (PMC/Model/BDDApi.lean):
  `ListOrdering`, `respect_ordering`, the constructors / `OBDD.__init__` / `__eq__` / `restrict` error classes,
  and `descendents` / `ancestors` / `nodes` on the unique table.
-/
import PMC.Model.BDDApi
import PMC.Proofs.BDDOps
import Mathlib.Tactic
import Mathlib.Logic.Relation
import Mathlib.Data.List.Basic
namespace PMC.BDD

/-! ## 1. `ListOrdering` -/
namespace Ordering

theorem position_eq_none_iff {O : List String} {x : String} : position O x = none ↔ x ∉ O := by
  induction O with
  | nil => simp [position]
  | cons y ys ih =>
    by_cases h : x = y
    · simp [position, h]
    · simp [position, h, ih]

theorem position_isSome_iff {O : List String} {x : String} : (position O x).isSome = true ↔ x ∈ O := by
  rw [← not_iff_not, Bool.not_eq_true, Option.isSome_eq_false_iff, Option.isNone_iff_eq_none]
  exact position_eq_none_iff

/-- `x in O` -/
theorem contains_iff {O : List String} {x : String} : contains O x = true ↔ x ∈ O := position_isSome_iff

theorem mem_iff_position {O : List String} {x : String} : x ∈ O ↔ ∃ i, position O x = some i := by
  rw [← position_isSome_iff, Option.isSome_iff_exists]

/-- the index stored for `x` is the index of its first occurrence -/
theorem position_spec {O : List String} {x : String} {i : Nat} (h : position O x = some i) :
    O[i]? = some x ∧ ∀ j, j < i → O[j]? ≠ some x := by
  induction O generalizing i with
  | nil => simp [position] at h
  | cons y ys ih =>
    by_cases hxy : x = y
    · simp only [position, hxy, if_true, Option.some.injEq] at h
      subst h; subst hxy
      exact ⟨by simp, fun j hj => by omega⟩
    · simp only [position, hxy, if_false, Option.map_eq_some_iff] at h
      obtain ⟨k, hk, rfl⟩ := h
      obtain ⟨h1, h2⟩ := ih hk
      refine ⟨by simpa using h1, ?_⟩
      intro j hj
      cases j with
      | zero => simp; exact fun e => hxy e.symm
      | succ j => simpa using h2 j (by omega)

theorem position_lt {O : List String} {x : String} {i : Nat} (h : position O x = some i) : i < O.length := by
  have := (position_spec h).1
  exact (List.getElem?_eq_some_iff.mp this).1

/-- different variables have different indices -/
theorem position_inj {O : List String} {x y : String} {i : Nat} (hx : position O x = some i)
    (hy : position O y = some i) : x = y := by
  have h1 := (position_spec hx).1
  have h2 := (position_spec hy).1
  rw [h1] at h2
  exact Option.some.inj h2

/-- in a duplicate-free list the index of the `i`-th variable is `i` -/
theorem position_getElem {O : List String} (hO : O.Nodup) {i : Nat} (hi : i < O.length) :
    position O O[i] = some i := by
  have hmem : O[i] ∈ O := List.getElem_mem hi
  obtain ⟨j, hj⟩ := mem_iff_position.mp hmem
  have hjl := position_lt hj
  have h1 := (position_spec hj).1
  rw [List.getElem?_eq_getElem hjl, Option.some.injEq] at h1
  have := (List.Nodup.getElem_inj_iff hO).mp h1
  rw [hj, this]

/-! ### construction -/

theorem makeLoop_spec (l : List String) : ∀ (seen : List String), seen.Nodup →
    makeLoop seen l = if (seen ++ l).Nodup then .ok (seen ++ l) else .error .runtimeError := by
  induction l with
  | nil => intro seen hs; simp [makeLoop, hs]
  | cons x xs ih =>
    intro seen hs
    unfold makeLoop
    by_cases hx : x ∈ seen
    · have : ¬ (seen ++ x :: xs).Nodup := by
        intro h
        have := List.nodup_append.mp h
        exact this.2.2 x hx x (by simp) rfl
      simp [contains_iff.mpr hx, this]
    · have hc : contains seen x = false := by
        rw [← Bool.not_eq_true, contains_iff]; exact hx
      have hs' : (seen ++ [x]).Nodup := by
        rw [List.nodup_append]
        exact ⟨hs, by simp, by intro a ha b hb; simp at hb; subst hb; exact fun e => hx (e ▸ ha)⟩
      simp only [hc, Bool.false_eq_true, if_false]
      rw [ih _ hs']
      simp [List.append_assoc]

/-- `ListOrdering(l)` succeeds exactly on duplicate-free lists, and then holds the variables of `l` in order -/
theorem make_ok_iff (l l' : List String) : make l = .ok l' ↔ l.Nodup ∧ l' = l := by
  unfold make
  rw [makeLoop_spec l [] List.nodup_nil]
  by_cases h : l.Nodup <;> simp [h, eq_comm]

/-- `ListOrdering(l)` raises `RuntimeError` — and nothing else — exactly when some variable is repeated -/
theorem make_error_iff (l : List String) (e : Err) : make l = .error e ↔ ¬ l.Nodup ∧ e = .runtimeError := by
  unfold make
  rw [makeLoop_spec l [] List.nodup_nil]
  by_cases h : l.Nodup <;> simp [h, eq_comm]

theorem make_of_nodup {l : List String} (h : l.Nodup) : make l = .ok l := (make_ok_iff l l).mpr ⟨h, rfl⟩

/-! ### `cmp`, `in_order` -/

theorem cmp_ok_iff {O : List String} {x y : String} {d : Int} :
    cmp O x y = .ok d ↔ ∃ i j, position O x = some i ∧ position O y = some j ∧ d = (i : Int) - (j : Int) := by
  unfold cmp
  cases hx : position O x with
  | none => simp
  | some i =>
    cases hy : position O y with
    | none => simp
    | some j => simp [eq_comm]

/-- `cmp` / `in_order` raise `RuntimeError` (and nothing else) exactly when one of the variables is not in the ordering -/
theorem cmp_error_iff {O : List String} {x y : String} {e : Err} :
    cmp O x y = .error e ↔ (x ∉ O ∨ y ∉ O) ∧ e = .runtimeError := by
  unfold cmp
  cases hx : position O x with
  | none => simp [position_eq_none_iff.mp hx, eq_comm]
  | some i =>
    have hxm : x ∈ O := mem_iff_position.mpr ⟨i, hx⟩
    cases hy : position O y with
    | none => simp [position_eq_none_iff.mp hy, eq_comm]
    | some j =>
      have hym : y ∈ O := mem_iff_position.mpr ⟨j, hy⟩
      simp [hxm, hym]

/-- `in_order(x, y)` is `position x < position y` -/
theorem inOrder_ok_iff {O : List String} {x y : String} {b : Bool} :
    inOrder O x y = .ok b ↔ ∃ i j, position O x = some i ∧ position O y = some j ∧ b = decide (i < j) := by
  unfold inOrder
  cases h : cmp O x y with
  | error e =>
    obtain ⟨hm, -⟩ := cmp_error_iff.mp h
    simp only [Except.map, reduceCtorEq, false_iff, not_exists, not_and]
    intro i j hi hj
    rcases hm with hm | hm
    · exact absurd (mem_iff_position.mpr ⟨i, hi⟩) hm
    · exact absurd (mem_iff_position.mpr ⟨j, hj⟩) hm
  | ok d =>
    obtain ⟨i, j, hi, hj, rfl⟩ := cmp_ok_iff.mp h
    simp only [Except.map, Except.ok.injEq]
    constructor
    · rintro rfl
      exact ⟨i, j, hi, hj, by simp⟩
    · rintro ⟨i', j', hi', hj', rfl⟩
      rw [hi] at hi'; rw [hj] at hj'
      cases hi'; cases hj'
      simp

theorem inOrder_error_iff {O : List String} {x y : String} {e : Err} :
    inOrder O x y = .error e ↔ (x ∉ O ∨ y ∉ O) ∧ e = .runtimeError := by
  unfold inOrder
  cases h : cmp O x y with
  | error e' => rw [← cmp_error_iff, h]; simp [Except.map]
  | ok d =>
    simp only [Except.map, reduceCtorEq, false_iff]
    intro hh
    have := cmp_error_iff.mpr hh
    rw [h] at this; cases this

theorem inOrder_true_iff {O : List String} {x y : String} :
    inOrder O x y = .ok true ↔ ∃ i j, position O x = some i ∧ position O y = some j ∧ i < j := by
  rw [inOrder_ok_iff]; simp

/-- `in_order` is irreflexive … -/
theorem inOrder_irrefl (O : List String) (x : String) : inOrder O x x ≠ .ok true := by
  rw [Ne, inOrder_true_iff]
  rintro ⟨i, j, hi, hj, hlt⟩
  rw [hi] at hj; cases hj; omega

/-- … transitive … -/
theorem inOrder_trans {O : List String} {x y z : String} (h1 : inOrder O x y = .ok true)
    (h2 : inOrder O y z = .ok true) : inOrder O x z = .ok true := by
  rw [inOrder_true_iff] at *
  obtain ⟨i, j, hi, hj, hij⟩ := h1
  obtain ⟨j', k, hj', hk, hjk⟩ := h2
  rw [hj] at hj'; cases hj'
  exact ⟨i, k, hi, hk, by omega⟩

/-- … and total on the variables of the ordering -/
theorem inOrder_total {O : List String} {x y : String} (hx : x ∈ O) (hy : y ∈ O) (hne : x ≠ y) :
    inOrder O x y = .ok true ∨ inOrder O y x = .ok true := by
  obtain ⟨i, hi⟩ := mem_iff_position.mp hx
  obtain ⟨j, hj⟩ := mem_iff_position.mp hy
  simp only [inOrder_true_iff]
  rcases Nat.lt_trichotomy i j with h | h | h
  · exact Or.inl ⟨i, j, hi, hj, h⟩
  · subst h; exact absurd (position_inj hi hj) hne
  · exact Or.inr ⟨j, i, hj, hi, h⟩

/-- asymmetric -/
theorem inOrder_asymm {O : List String} {x y : String} (h : inOrder O x y = .ok true) : inOrder O y x = .ok false := by
  obtain ⟨i, j, hi, hj, hij⟩ := inOrder_true_iff.mp h
  exact inOrder_ok_iff.mpr ⟨j, i, hj, hi, by simp; omega⟩

/-- `cmp(x, y) == 0` exactly for `x == y` (both in the ordering) -/
theorem cmp_zero_iff {O : List String} {x y : String} : cmp O x y = .ok 0 ↔ x = y ∧ x ∈ O := by
  rw [cmp_ok_iff]
  constructor
  · rintro ⟨i, j, hi, hj, h⟩
    have : i = j := by omega
    subst this
    exact ⟨position_inj hi hj, mem_iff_position.mpr ⟨i, hi⟩⟩
  · rintro ⟨rfl, hx⟩
    obtain ⟨i, hi⟩ := mem_iff_position.mp hx
    exact ⟨i, i, hi, hi, by omega⟩

/-! ### `==` -/

/-- two `ListOrdering`s are equal exactly when they list the same variables in the same order -/
theorem eqv_iff {a b : List String} (ha : a.Nodup) (hb : b.Nodup) : eqv a b = true ↔ a = b := by
  constructor
  · intro h
    simp only [eqv, Bool.and_eq_true, beq_iff_eq, List.all_eq_true] at h
    obtain ⟨hlen, hall⟩ := h
    apply List.ext_getElem hlen
    intro i h1 h2
    have hp := hall a[i] (List.getElem_mem h1)
    rw [position_getElem ha h1] at hp
    have := (position_spec hp.symm).1
    rw [List.getElem?_eq_getElem h2, Option.some.injEq] at this
    exact this.symm
  · rintro rfl
    simp [eqv]

theorem eqv_refl (a : List String) : eqv a a = true := by simp [eqv]

/-! ### `get_list` -/

theorem ltKey_iff {O : List String} {x y : String} :
    ltKey O x y = true ↔ ∃ i j, position O x = some i ∧ position O y = some j ∧ i < j := by
  unfold ltKey
  cases h : cmp O x y with
  | error e =>
    obtain ⟨hm, -⟩ := cmp_error_iff.mp h
    simp only [Bool.false_eq_true, false_iff, not_exists, not_and]
    intro i j hi hj
    rcases hm with hm | hm
    · exact absurd (mem_iff_position.mpr ⟨i, hi⟩) hm
    · exact absurd (mem_iff_position.mpr ⟨j, hj⟩) hm
  | ok d =>
    obtain ⟨i, j, hi, hj, rfl⟩ := cmp_ok_iff.mp h
    simp only [decide_eq_true_eq]
    constructor
    · intro hd; exact ⟨i, j, hi, hj, by omega⟩
    · rintro ⟨i', j', hi', hj', hlt⟩
      rw [hi] at hi'; rw [hj] at hj'; cases hi'; cases hj'; omega

/-- `get_list()` returns the variables in the order they were given -/
theorem getList_eq {l : List String} (h : l.Nodup) : getList l = l := by
  unfold getList
  apply List.mergeSort_of_pairwise
  rw [List.pairwise_iff_getElem]
  intro i j hi hj hij
  simp only [Bool.not_eq_eq_eq_not, Bool.not_true, ← Bool.not_eq_true, ltKey_iff]
  rintro ⟨a, b, ha, hb, hab⟩
  rw [position_getElem h hj] at ha
  rw [position_getElem h hi] at hb
  cases ha; cases hb; omega

/-- `str(ordering)`: the `repr` of the list of the variables, in order -/
theorem str_eq (O : List String) (h : O.Nodup) : str O = "[" ++ ", ".intercalate (O.map pyRepr) ++ "]" := by
  simp [str, getList_eq h]

/-- `ListOrdering(l).get_list() == l` -/
theorem getList_make {l O : List String} (h : make l = .ok O) : getList O = l := by
  obtain ⟨hn, rfl⟩ := (make_ok_iff l O).mp h
  exact getList_eq hn

end Ordering

open PMC.BDD.Ordering

/-! ## 2. `respect_ordering` -/
namespace NBDD

/-- the root variable (if any) is a variable of the ordering -/
def rootIn (O : List String) : NBDD → Prop
  | leaf _ => True
  | node v _ _ => v ∈ O

/-- the edge from a parent at index `i` to the child `c` goes forward in the ordering -/
def edgeFwd (O : List String) (i : Nat) : NBDD → Prop
  | leaf _ => True
  | node w _ _ => ∃ j, position O w = some j ∧ i < j

theorem ord_iff_root (lb : Nat) (t : BDD) :
    Ord lb t ↔ (match t with | .leaf _ => True | .node v _ _ => lb ≤ v) ∧ Ord 0 t := by
  cases t with
  | leaf b => simp [Ord]
  | node v lo hi => simp [Ord]

theorem edgeOk_ok_iff {O : List String} {v : String} {i : Nat} (hv : position O v = some i) (c : NBDD) (b : Bool) :
    edgeOk O v c = .ok b ↔ rootIn O c ∧ (b = true ↔ edgeFwd O i c) := by
  cases c with
  | leaf x => simp [edgeOk, rootIn, edgeFwd]
  | node w lo hi =>
    simp only [edgeOk, rootIn, edgeFwd, inOrder_ok_iff]
    constructor
    · rintro ⟨i', j, hi', hj, rfl⟩
      rw [hv] at hi'; cases hi'
      exact ⟨mem_iff_position.mpr ⟨j, hj⟩, by simp [hj]⟩
    · rintro ⟨hw, hb⟩
      obtain ⟨j, hj⟩ := mem_iff_position.mp hw
      refine ⟨i, j, hv, hj, ?_⟩
      simp only [hj, Option.some.injEq, exists_eq_left'] at hb
      by_cases h : i < j <;> simp_all

theorem edgeOk_error_iff {O : List String} {v : String} (hv : v ∈ O) (c : NBDD) (e : Err) :
    edgeOk O v c = .error e ↔ ¬ rootIn O c ∧ e = .runtimeError := by
  cases c with
  | leaf x => simp [edgeOk, rootIn]
  | node w lo hi => simp [edgeOk, rootIn, inOrder_error_iff, hv]

/-- with the root's children's variables in the ordering, `Ord` of a child under the parent's index -/
theorem ord_child {O : List String} {i : Nat} (c : NBDD) (hc : rootIn O c) :
    Ord (i + 1) (toPos O c) ↔ edgeFwd O i c ∧ Ord 0 (toPos O c) := by
  rw [ord_iff_root]
  cases c with
  | leaf b => simp [toPos, edgeFwd]
  | node w lo hi =>
    obtain ⟨j, hj⟩ := mem_iff_position.mp hc
    simp only [toPos, hj, Option.getD_some, edgeFwd, Option.some.injEq, exists_eq_left']
    constructor
    · rintro ⟨h1, h2⟩; exact ⟨by omega, h2⟩
    · rintro ⟨h1, h2⟩; exact ⟨by omega, h2⟩

/-- the outcome of `respect_ordering` when it does not raise: the root variable is in the ordering -/
theorem respect_ok_rootIn {O : List String} {t : NBDD} {b : Bool} (h : respect O t = .ok b) : rootIn O t := by
  cases t with
  | leaf x => trivial
  | node v lo hi =>
    unfold respect at h
    by_cases hv : contains O v = true
    · exact contains_iff.mp hv
    · simp [hv] at h

/-- **total case**: when every variable of the diagram is in the ordering, `respect_ordering` never raises and
    decides `Ord` of the positional diagram -/
theorem respect_of_vars (O : List String) (t : NBDD) (hvars : ∀ v ∈ t.vars, v ∈ O) :
    ∃ b, respect O t = .ok b ∧ (b = true ↔ Ord 0 (toPos O t)) := by
  induction t with
  | leaf b => exact ⟨true, by simp [respect, toPos, Ord]⟩
  | node v lo hi ihl ihh =>
    have hv : v ∈ O := hvars v (by simp [vars])
    have hlo : ∀ w ∈ lo.vars, w ∈ O := fun w hw => hvars w (by simp [vars, hw])
    have hhi : ∀ w ∈ hi.vars, w ∈ O := fun w hw => hvars w (by simp [vars, hw])
    have rlo : rootIn O lo := by cases lo with
      | leaf _ => trivial
      | node w _ _ => exact hlo w (by simp [vars])
    have rhi : rootIn O hi := by cases hi with
      | leaf _ => trivial
      | node w _ _ => exact hhi w (by simp [vars])
    obtain ⟨i, hi'⟩ := mem_iff_position.mp hv
    have edge : ∀ c, rootIn O c → ∃ b, edgeOk O v c = .ok b ∧ (b = true ↔ edgeFwd O i c) := by
      intro c hc
      by_cases h : edgeFwd O i c
      · exact ⟨true, (edgeOk_ok_iff hi' c _).mpr ⟨hc, by simp [h]⟩, by simp [h]⟩
      · exact ⟨false, (edgeOk_ok_iff hi' c _).mpr ⟨hc, by simp [h]⟩, by simp [h]⟩
    obtain ⟨b1, e1, f1⟩ := edge lo rlo
    obtain ⟨b2, e2, f2⟩ := edge hi rhi
    obtain ⟨b3, e3, f3⟩ := ihh hhi
    obtain ⟨b4, e4, f4⟩ := ihl hlo
    have key : Ord 0 (toPos O (node v lo hi)) ↔
        edgeFwd O i lo ∧ edgeFwd O i hi ∧ Ord 0 (toPos O hi) ∧ Ord 0 (toPos O lo) := by
      simp only [toPos, hi', Option.getD_some, Ord, Nat.zero_le, true_and]
      rw [ord_child lo rlo, ord_child hi rhi]; tauto
    rw [key, ← f1, ← f2, ← f3, ← f4]
    unfold respect
    rw [contains_iff.mpr hv, e1, e2, e3, e4]
    cases b1 <;> cases b2 <;> cases b3 <;> cases b4 <;> simp

/-- `True` is only answered when every variable of the diagram is in the ordering -/
theorem respect_true_vars (O : List String) (t : NBDD) (h : respect O t = .ok true) : ∀ v ∈ t.vars, v ∈ O := by
  induction t with
  | leaf b => simp [vars]
  | node v lo hi ihl ihh =>
    unfold respect at h
    by_cases hv : contains O v = true
    · simp only [hv, Bool.not_true, Bool.false_eq_true, if_false] at h
      cases e1 : edgeOk O v lo with
      | error e => simp [e1] at h
      | ok b1 =>
        cases b1 with
        | false => simp [e1] at h
        | true =>
          cases e2 : edgeOk O v hi with
          | error e => simp [e1, e2] at h
          | ok b2 =>
            cases b2 with
            | false => simp [e1, e2] at h
            | true =>
              cases r1 : respect O hi with
              | error e => simp [e1, e2, r1] at h
              | ok b3 =>
                cases b3 with
                | false => simp [e1, e2, r1] at h
                | true =>
                  simp only [e1, e2, r1] at h
                  intro w hw
                  simp only [vars, List.mem_cons, List.mem_append] at hw
                  rcases hw with rfl | hw | hw
                  · exact contains_iff.mp hv
                  · exact ihl h w hw
                  · exact ihh r1 w hw
    · simp [hv] at h

/-- **`respect_ordering(O)` answers `True` exactly when all the variables of the diagram are in `O` and the
    positional diagram is ordered** -/
theorem respect_true_iff (O : List String) (t : NBDD) :
    respect O t = .ok true ↔ (∀ v ∈ t.vars, v ∈ O) ∧ Ord 0 (toPos O t) := by
  constructor
  · intro h
    have hv := respect_true_vars O t h
    obtain ⟨b, hb, hiff⟩ := respect_of_vars O t hv
    rw [h, Except.ok.injEq] at hb
    exact ⟨hv, hiff.mp hb.symm⟩
  · rintro ⟨hv, ho⟩
    obtain ⟨b, hb, hiff⟩ := respect_of_vars O t hv
    rw [hb, hiff.mpr ho]

/-- `False` is only answered for diagrams that are not ordered (whatever else they mention) -/
theorem respect_false_not_ord (O : List String) (t : NBDD) (h : respect O t = .ok false) : ¬ Ord 0 (toPos O t) := by
  induction t with
  | leaf b => simp [respect] at h
  | node v lo hi ihl ihh =>
    unfold respect at h
    by_cases hv : contains O v = true
    · obtain ⟨i, hi'⟩ := mem_iff_position.mp (contains_iff.mp hv)
      simp only [hv, Bool.not_true, Bool.false_eq_true, if_false] at h
      simp only [toPos, hi', Option.getD_some, Ord, Nat.zero_le, true_and, not_and]
      cases e1 : edgeOk O v lo with
      | error e => simp [e1] at h
      | ok b1 =>
        obtain ⟨rlo, f1⟩ := (edgeOk_ok_iff hi' lo b1).mp e1
        cases b1 with
        | false =>
          intro hl
          exact absurd ((ord_child lo rlo).mp hl).1 (by simpa using f1)
        | true =>
          cases e2 : edgeOk O v hi with
          | error e => simp [e1, e2] at h
          | ok b2 =>
            obtain ⟨rhi, f2⟩ := (edgeOk_ok_iff hi' hi b2).mp e2
            cases b2 with
            | false =>
              intro _ hh
              exact absurd ((ord_child hi rhi).mp hh).1 (by simpa using f2)
            | true =>
              cases r1 : respect O hi with
              | error e => simp [e1, e2, r1] at h
              | ok b3 =>
                cases b3 with
                | false =>
                  intro _ hh
                  exact ihh r1 ((ord_child hi rhi).mp hh).2
                | true =>
                  simp only [e1, e2, r1] at h
                  intro hl _
                  exact ihl h ((ord_child lo rlo).mp hl).2
    · simp [hv] at h

theorem respect_node (O : List String) (v : String) (lo hi : NBDD) :
    respect O (node v lo hi) =
      if !Ordering.contains O v then .error .runtimeError else
      match edgeOk O v lo with
      | .error e => .error e
      | .ok false => .ok false
      | .ok true =>
        match edgeOk O v hi with
        | .error e => .error e
        | .ok false => .ok false
        | .ok true =>
          match respect O hi with
          | .error e => .error e
          | .ok false => .ok false
          | .ok true => respect O lo := by
  conv_lhs => unfold respect
  rfl

/-! ### the outcome of `respect_ordering` is decided by the first defect in traversal order -/

/-- what the traversal can stumble on -/
inductive Defect where
  /-- the variable `w`, which is not in the ordering, is looked at (`self.var not in O`, or `O.cmp(self.var, w)`) -/
  | foreign (w : String)
  /-- the edge from `v` to its child `w`, both in the ordering, does not go forward (`not O.in_order(v, w)`) -/
  | backward (v w : String)
  deriving DecidableEq, Repr

/-- the test on the edge from a node labelled `v` to one child -/
def edgeDefects (O : List String) (v : String) : NBDD → List Defect
  | leaf _ => []
  | node w _ _ =>
    if w ∉ O then [.foreign w] else if v ∈ O ∧ ltKey O v w = false then [.backward v w] else []

/-- ALL the defects of a diagram, in the order in which `respect_ordering` looks for them: the node's own variable,
    the edge to `low`, the edge to `high`, then the subdiagram `high`, then the subdiagram `low` -/
def defects (O : List String) : NBDD → List Defect
  | leaf _ => []
  | node v lo hi =>
    (if v ∈ O then [] else [.foreign v]) ++ (edgeDefects O v lo ++ (edgeDefects O v hi ++ (defects O hi ++ defects O lo)))

/-- what the first defect (if any) makes of the call -/
def Defect.outcome : Option Defect → Except Err Bool
  | none => .ok true
  | some (.foreign _) => .error .runtimeError
  | some (.backward _ _) => .ok false

/-- `a and b` on outcomes -/
def andThen (r k : Except Err Bool) : Except Err Bool :=
  match r with
  | .error e => .error e
  | .ok false => .ok false
  | .ok true => k

theorem respect_node' (O : List String) (v : String) (lo hi : NBDD) :
    respect O (node v lo hi) =
      if !Ordering.contains O v then .error .runtimeError else
      andThen (edgeOk O v lo) (andThen (edgeOk O v hi) (andThen (respect O hi) (respect O lo))) := by
  rw [respect_node]; rfl

theorem outcome_append (l1 l2 : List Defect) :
    Defect.outcome (l1 ++ l2).head? = andThen (Defect.outcome l1.head?) (Defect.outcome l2.head?) := by
  cases l1 with
  | nil => rfl
  | cons d r => cases d <;> rfl

theorem edgeOk_eq_outcome {O : List String} {v : String} (hv : v ∈ O) (c : NBDD) :
    edgeOk O v c = Defect.outcome (edgeDefects O v c).head? := by
  cases c with
  | leaf b => rfl
  | node w lo hi =>
    simp only [edgeOk, edgeDefects]
    by_cases hw : w ∈ O
    · obtain ⟨i, hi'⟩ := mem_iff_position.mp hv
      obtain ⟨j, hj⟩ := mem_iff_position.mp hw
      have h1 : inOrder O v w = .ok (decide (i < j)) := inOrder_ok_iff.mpr ⟨i, j, hi', hj, rfl⟩
      by_cases hlt : i < j
      · have : ltKey O v w = true := ltKey_iff.mpr ⟨i, j, hi', hj, hlt⟩
        simp [h1, hlt, hw, this, Defect.outcome]
      · have : ltKey O v w = false := by
          rw [← Bool.not_eq_true, ltKey_iff]
          rintro ⟨i', j', h2, h3, h4⟩
          rw [hi'] at h2; rw [hj] at h3; cases h2; cases h3; exact hlt h4
        simp [h1, hlt, hw, hv, this, Defect.outcome]
    · have : inOrder O v w = .error .runtimeError := inOrder_error_iff.mpr ⟨Or.inr hw, rfl⟩
      simp [this, hw, Defect.outcome]

/-- **`respect_ordering(O)` in one formula**: `True` when the diagram has no defect; otherwise the FIRST defect in
    traversal order decides: `RuntimeError` when it is a variable outside the ordering, `False` when it is an edge
    that does not go forward -/
theorem respect_eq_outcome (O : List String) (t : NBDD) : respect O t = Defect.outcome (defects O t).head? := by
  induction t with
  | leaf b => rfl
  | node v lo hi ihl ihh =>
    rw [respect_node']
    by_cases hv : v ∈ O
    · have hc := contains_iff.mpr hv
      simp only [hc, Bool.not_true, Bool.false_eq_true, if_false]
      rw [edgeOk_eq_outcome hv lo, edgeOk_eq_outcome hv hi, ihl, ihh]
      simp only [defects, hv, if_true, List.nil_append, outcome_append]
    · have hc : contains O v = false := by rw [← Bool.not_eq_true, contains_iff]; exact hv
      simp [hc, defects, hv, Defect.outcome]

/-- a `foreign` defect is a variable of the diagram that is not in the ordering … -/
theorem foreign_mem_defects {O : List String} {t : NBDD} {w : String} (h : Defect.foreign w ∈ defects O t) :
    w ∈ t.vars ∧ w ∉ O := by
  induction t with
  | leaf b => simp [defects] at h
  | node v lo hi ihl ihh =>
    have edge : ∀ c : NBDD, Defect.foreign w ∈ edgeDefects O v c → w ∈ c.vars ∧ w ∉ O := by
      intro c hc
      cases c with
      | leaf b => simp [edgeDefects] at hc
      | node u l r =>
        simp only [edgeDefects] at hc
        split_ifs at hc with h1 h2
        · simp at hc
        · simp at hc
        · simp only [List.mem_singleton, Defect.foreign.injEq] at hc; subst hc; exact ⟨by simp [vars], h1⟩
    simp only [defects, List.mem_append] at h
    rcases h with h | h | h | h | h
    · split_ifs at h with hv
      · simp at h
      · simp only [List.mem_singleton, Defect.foreign.injEq] at h; subst h; exact ⟨by simp [vars], hv⟩
    · obtain ⟨h1, h2⟩ := edge lo h; exact ⟨by simp [vars, h1], h2⟩
    · obtain ⟨h1, h2⟩ := edge hi h; exact ⟨by simp [vars, h1], h2⟩
    · obtain ⟨h1, h2⟩ := ihh h; exact ⟨by simp [vars, h1], h2⟩
    · obtain ⟨h1, h2⟩ := ihl h; exact ⟨by simp [vars, h1], h2⟩

/-- … and every variable of the diagram that is not in the ordering is one -/
theorem foreign_defect_of_var {O : List String} {t : NBDD} {w : String} (hw : w ∈ t.vars) (hO : w ∉ O) :
    Defect.foreign w ∈ defects O t := by
  induction t with
  | leaf b => simp [vars] at hw
  | node v lo hi ihl ihh =>
    simp only [vars, List.mem_cons, List.mem_append] at hw
    simp only [defects, List.mem_append]
    rcases hw with rfl | hw | hw
    · left; simp [hO]
    · exact Or.inr (Or.inr (Or.inr (Or.inr (ihl hw))))
    · exact Or.inr (Or.inr (Or.inr (Or.inl (ihh hw))))

/-- a `backward` defect is an edge between two variables of the ordering that does not go forward -/
theorem backward_mem_defects {O : List String} {t : NBDD} {v w : String} (h : Defect.backward v w ∈ defects O t) :
    v ∈ t.vars ∧ w ∈ t.vars ∧
      ∃ i j, position O v = some i ∧ position O w = some j ∧ j ≤ i := by
  induction t with
  | leaf b => simp [defects] at h
  | node u lo hi ihl ihh =>
    have edge : ∀ c : NBDD, Defect.backward v w ∈ edgeDefects O u c →
        v = u ∧ w ∈ c.vars ∧ ∃ i j, position O v = some i ∧ position O w = some j ∧ j ≤ i := by
      intro c hc
      cases c with
      | leaf b => simp [edgeDefects] at hc
      | node x l r =>
        simp only [edgeDefects] at hc
        split_ifs at hc with h1 h2
        · simp only [List.mem_singleton, Defect.backward.injEq] at hc
          obtain ⟨rfl, rfl⟩ := hc
          obtain ⟨i, hi'⟩ := mem_iff_position.mp h2.1
          obtain ⟨j, hj⟩ := mem_iff_position.mp h1
          refine ⟨rfl, by simp [vars], i, j, hi', hj, ?_⟩
          by_contra hlt
          have := ltKey_iff.mpr ⟨i, j, hi', hj, by omega⟩
          rw [h2.2] at this; cases this
        · simp at hc
        · simp at hc
    simp only [defects, List.mem_append] at h
    rcases h with h | h | h | h | h
    · split_ifs at h <;> simp at h
    · obtain ⟨rfl, h2, h3⟩ := edge lo h; exact ⟨by simp [vars], by simp [vars, h2], h3⟩
    · obtain ⟨rfl, h2, h3⟩ := edge hi h; exact ⟨by simp [vars], by simp [vars, h2], h3⟩
    · obtain ⟨h1, h2, h3⟩ := ihh h; exact ⟨by simp [vars, h1], by simp [vars, h2], h3⟩
    · obtain ⟨h1, h2, h3⟩ := ihl h; exact ⟨by simp [vars, h1], by simp [vars, h2], h3⟩

theorem outcome_ok_true_iff (d : Option Defect) : Defect.outcome d = .ok true ↔ d = none := by
  cases d with
  | none => simp [Defect.outcome]
  | some x => cases x <;> simp [Defect.outcome]

/-- a diagram has no defect exactly when all its variables are in the ordering and it is ordered -/
theorem defects_eq_nil_iff (O : List String) (t : NBDD) :
    defects O t = [] ↔ (∀ v ∈ t.vars, v ∈ O) ∧ Ord 0 (toPos O t) := by
  rw [← respect_true_iff, respect_eq_outcome, outcome_ok_true_iff, List.head?_eq_none_iff]

/-- **the exceptions of `respect_ordering`**: the only exception class is `RuntimeError`, and it needs a variable of
    the diagram that is not in the ordering -/
theorem respect_error (O : List String) (t : NBDD) (e : Err) (h : respect O t = .error e) :
    e = .runtimeError ∧ ∃ v ∈ t.vars, v ∉ O := by
  rw [respect_eq_outcome] at h
  cases hd : (defects O t).head? with
  | none => rw [hd] at h; cases h
  | some d =>
    rw [hd] at h
    cases d with
    | foreign w =>
      simp only [Defect.outcome, Except.error.injEq] at h
      have := foreign_mem_defects (List.mem_of_mem_head? (Option.mem_def.mpr hd))
      exact ⟨h.symm, w, this⟩
    | backward v w => cases h

/-- **`RuntimeError` exactly when the traversal looks at a variable outside the ordering before it finds an edge that
    does not go forward**, that is when the first defect is a `foreign` one -/
theorem respect_runtimeError_iff (O : List String) (t : NBDD) :
    respect O t = .error .runtimeError ↔ ∃ w, (defects O t).head? = some (.foreign w) := by
  rw [respect_eq_outcome]
  cases (defects O t).head? with
  | none => simp [Defect.outcome]
  | some d => cases d <;> simp [Defect.outcome]

/-- `False` exactly when the first defect is an edge that does not go forward (whatever comes after it) -/
theorem respect_false_iff (O : List String) (t : NBDD) :
    respect O t = .ok false ↔ ∃ v w, (defects O t).head? = some (.backward v w) := by
  rw [respect_eq_outcome]
  cases (defects O t).head? with
  | none => simp [Defect.outcome]
  | some d => cases d <;> simp [Defect.outcome]

/-- a root variable outside the ordering is always the first defect -/
theorem respect_root_runtimeError (O : List String) (t : NBDD) (hn : ¬ rootIn O t) :
    respect O t = .error .runtimeError := by
  cases t with
  | leaf b => exact absurd trivial hn
  | node v lo hi =>
    have : contains O v = false := by rw [← Bool.not_eq_true, contains_iff]; exact hn
    simp [respect, this]

/-- every outcome other than `True` / `False` needs a variable outside the ordering -/
theorem respect_error_iff_exists (O : List String) (t : NBDD) :
    (∃ e, respect O t = .error e) → ∃ v ∈ t.vars, v ∉ O := by
  rintro ⟨e, h⟩
  exact (respect_error O t e h).2

/-- a diagram that mentions a variable outside the ordering is never accepted: `RuntimeError`, or `False` when an
    edge that does not go forward is met first -/
theorem respect_foreign (O : List String) (t : NBDD) (h : ∃ v ∈ t.vars, v ∉ O) :
    respect O t = .error .runtimeError ∨ respect O t = .ok false := by
  obtain ⟨v, hv, hO⟩ := h
  have hm := foreign_defect_of_var hv hO
  rw [respect_eq_outcome]
  cases hd : (defects O t).head? with
  | none => rw [List.head?_eq_none_iff] at hd; rw [hd] at hm; cases hm
  | some d => cases d <;> simp [Defect.outcome]

/-! ### the `checked` memo set is transparent -/

theorem respectM_spec (O : List String) (t : NBDD) : ∀ (ck : List NBDD), (∀ c ∈ ck, respect O c = .ok true) →
    match respectM O t ck with
    | .ok (b, ck') => respect O t = .ok b ∧ ∀ c ∈ ck', respect O c = .ok true
    | .error e => respect O t = .error e := by
  induction t with
  | leaf b => intro ck hck; simp only [respectM, respect, true_and]; exact hck
  | node v lo hi ihl ihh =>
    intro ck hck
    unfold respectM
    by_cases hmem : ck.contains (node v lo hi) = true
    · simp only [hmem, if_true]
      exact ⟨hck _ (by simpa using hmem), hck⟩
    · simp only [hmem, Bool.false_eq_true, if_false]
      rw [respect_node]
      by_cases hv : contains O v = true
      · simp only [hv, Bool.not_true, Bool.false_eq_true, if_false]
        cases e1 : edgeOk O v lo with
        | error e => simp only
        | ok b1 =>
          cases b1 with
          | false => exact ⟨rfl, hck⟩
          | true =>
            cases e2 : edgeOk O v hi with
            | error e => simp only
            | ok b2 =>
              cases b2 with
              | false => exact ⟨rfl, hck⟩
              | true =>
                have h1 := ihh ck hck
                cases r1 : respectM O hi ck with
                | error e => rw [r1] at h1; simp only at h1; simp only [h1]
                | ok p1 =>
                  obtain ⟨b3, ck1⟩ := p1
                  rw [r1] at h1; simp only at h1
                  obtain ⟨h1a, h1b⟩ := h1
                  cases b3 with
                  | false => simp only [h1a]; exact ⟨trivial, h1b⟩
                  | true =>
                    have h2 := ihl ck1 h1b
                    cases r2 : respectM O lo ck1 with
                    | error e => rw [r2] at h2; simp only at h2; simp only [h1a, h2, r2]
                    | ok p2 =>
                      obtain ⟨b4, ck2⟩ := p2
                      rw [r2] at h2; simp only at h2
                      obtain ⟨h2a, h2b⟩ := h2
                      cases b4 with
                      | false => simp only [h1a, h2a, r2]; exact ⟨trivial, h2b⟩
                      | true =>
                        simp only [h1a, h2a, r2, true_and]
                        intro c hc
                        rcases List.mem_cons.mp hc with rfl | hc
                        · rw [respect_node]
                          simp only [hv, Bool.not_true, Bool.false_eq_true, if_false, e1, e2, h1a, h2a]
                        · exact h2b c hc
      · simp only [hv, Bool.not_false, if_true]

/-- `respect_ordering(O)` with its memo set computes `respect` -/
theorem respectOrdering_eq (O : List String) (t : NBDD) : respectOrdering O t = respect O t := by
  have := respectM_spec O t [] (by simp)
  unfold respectOrdering
  cases h : respectM O t [] with
  | error e => rw [h] at this; simp only at this; simp [Except.map, this]
  | ok p => obtain ⟨b, ck⟩ := p; rw [h] at this; simp only at this; simp [Except.map, this.1]

end NBDD

/-! ## 3. constructors, `OBDD.__init__`, `__eq__`, `restrict`, `variables`, `__str__`, `apply` -/

/-! ### `BDDNode(...)` -/

/-- the values accepted for a terminal node: `0`, `1`, `False`, `True`, `0.0`, `1.0` (anything `==` to 0 or 1) -/
theorem asBit_isSome_iff (v : PyVal) :
    v.asBit.isSome = true ↔ v = .int 0 ∨ v = .int 1 ∨ (∃ b, v = .bool b) ∨ v = .float 0 false ∨ v = .float 1 false := by
  cases v with
  | int n => by_cases h0 : n = 0 <;> by_cases h1 : n = 1 <;> simp [PyVal.asBit, h0, h1]
  | bool b => simp [PyVal.asBit]
  | float n frac =>
    cases frac <;> by_cases h0 : n = 0 <;> by_cases h1 : n = 1 <;> simp [PyVal.asBit, h0, h1]
  | _ => simp [PyVal.asBit]

theorem terminal_ok_iff (v : PyVal) (t : NBDD) : terminal v = .ok t ↔ ∃ b, v.asBit = some b ∧ t = .leaf b := by
  unfold terminal
  cases h : v.asBit <;> simp [eq_comm]

/-- `BDDTerminalNode(v)` raises `TypeError` — and nothing else — exactly for the values outside {0, 1, False, True} -/
theorem terminal_error_iff (v : PyVal) (e : Err) : terminal v = .error e ↔ v.asBit = none ∧ e = .typeError := by
  unfold terminal
  cases h : v.asBit <;> simp [eq_comm]

/-- **a terminal node always holds a `bool`**: whatever accepted value it is requested with (`1`, `True`, `1.0`, …),
    `BDDTerminalNode(v)` is the node of `bool(v)` and its `.value` is that `bool` -/
theorem terminal_value_bool (v : PyVal) (t : NBDD) (h : terminal v = .ok t) :
    ∃ b, v.asBit = some b ∧ t = .leaf b ∧ t.value = some (.bool b) := by
  obtain ⟨b, hb, rfl⟩ := (terminal_ok_iff v t).mp h
  exact ⟨b, hb, rfl, rfl⟩

/-- `BDDNode(1.0)` / `BDDNode(0.0)` are accepted and denote the terminals 1 / 0 (holding `True` / `False`) -/
theorem terminal_float :
    terminal (.float 1 false) = .ok (.leaf true) ∧ terminal (.float 0 false) = .ok (.leaf false) ∧
      (NBDD.leaf true).value = some (.bool true) ∧ (NBDD.leaf false).value = some (.bool false) := by
  refine ⟨rfl, rfl, rfl, rfl⟩

/-- only terminal nodes have a `.value` -/
theorem value_isSome_iff (t : NBDD) : t.value.isSome = true ↔ ∃ b, t = .leaf b := by
  cases t <;> simp [NBDD.value]

theorem nonTerminal_ok_iff (x : String) (lo hi : PyVal) (t : NBDD) :
    nonTerminal x lo hi = .ok t ↔ ∃ l h, lo = .node l ∧ hi = .node h ∧ t = NBDD.mk x l h := by
  unfold nonTerminal
  cases lo <;> cases hi <;> simp [PyVal.asNode, eq_comm]

/-- `BDDNonTerminalNode(var, low, high)` raises `TypeError` — and nothing else — exactly when a child is not a `BDDNode` -/
theorem nonTerminal_error_iff (x : String) (lo hi : PyVal) (e : Err) :
    nonTerminal x lo hi = .error e ↔ ((∀ l, lo ≠ .node l) ∨ (∀ h, hi ≠ .node h)) ∧ e = .typeError := by
  unfold nonTerminal
  cases lo <;> cases hi <;> simp [PyVal.asNode, eq_comm]

/-- `low is high`: the node is not created -/
theorem nonTerminal_same (x : String) (t : NBDD) : nonTerminal x (.node t) (.node t) = .ok t := by
  simp [nonTerminal, PyVal.asNode, NBDD.mk]

/-- `BDDNode(*data)` raises `RuntimeError` exactly for the arities other than 1 and 3 -/
theorem bddNode_runtimeError_iff (args : List PyVal) :
    BDDNode.new args = some (.error .runtimeError) ↔ args.length ≠ 1 ∧ args.length ≠ 3 := by
  match args with
  | [] => simp [BDDNode.new]
  | [v] => simp [BDDNode.new, terminal_error_iff]
  | [a, b] => simp [BDDNode.new]
  | [a, lo, hi] =>
    cases a <;> simp [BDDNode.new, nonTerminal_error_iff]
  | a :: b :: c :: d :: r => simp [BDDNode.new]

theorem bddNode_one (v : PyVal) : BDDNode.new [v] = some (terminal v) := rfl
theorem bddNode_three (x : String) (lo hi : PyVal) : BDDNode.new [.str x, lo, hi] = some (nonTerminal x lo hi) := rfl

/-- the only calls outside the model: three arguments, the first not a `str` -/
theorem bddNode_none_iff (args : List PyVal) :
    BDDNode.new args = none ↔ ∃ a lo hi, args = [a, lo, hi] ∧ ∀ x, a ≠ .str x := by
  match args with
  | [] => simp [BDDNode.new]
  | [v] => simp [BDDNode.new]
  | [a, b] => simp [BDDNode.new]
  | [a, lo, hi] => cases a <;> simp [BDDNode.new]
  | a :: b :: c :: d :: r => simp [BDDNode.new]

/-! ### named and positional diagrams -/
namespace NBDD

def Reduced : NBDD → Prop
  | leaf _ => True
  | node _ lo hi => lo ≠ hi ∧ Reduced lo ∧ Reduced hi

/-- under an ordering containing their variables, named diagrams and positional diagrams are in bijection -/
theorem toPos_inj (O : List String) : ∀ (a b : NBDD), (∀ v ∈ a.vars, v ∈ O) → (∀ v ∈ b.vars, v ∈ O) →
    toPos O a = toPos O b → a = b := by
  intro a
  induction a with
  | leaf x => intro b _ _ h; cases b <;> simp_all [toPos]
  | node v lo hi ihl ihh =>
    intro b ha hb h
    cases b with
    | leaf y => simp [toPos] at h
    | node w lo' hi' =>
      simp only [toPos, BDD.node.injEq] at h
      obtain ⟨h1, h2, h3⟩ := h
      obtain ⟨i, hi1⟩ := mem_iff_position.mp (ha v (by simp [vars]))
      obtain ⟨j, hj⟩ := mem_iff_position.mp (hb w (by simp [vars]))
      simp only [hi1, hj, Option.getD_some] at h1
      subst h1
      have := position_inj hi1 hj
      subst this
      rw [ihl lo' (fun u hu => ha u (by simp [vars, hu])) (fun u hu => hb u (by simp [vars, hu])) h2,
          ihh hi' (fun u hu => ha u (by simp [vars, hu])) (fun u hu => hb u (by simp [vars, hu])) h3]

theorem vars_mk_subset (v : String) (lo hi : NBDD) : ∀ u ∈ (mk v lo hi).vars, u ∈ (node v lo hi).vars := by
  intro u hu
  unfold mk at hu
  split_ifs at hu with h
  · simp [vars, hu]
  · exact hu

theorem toPos_mk (O : List String) (v : String) (lo hi : NBDD) (hlo : ∀ u ∈ lo.vars, u ∈ O)
    (hhi : ∀ u ∈ hi.vars, u ∈ O) :
    toPos O (mk v lo hi) = BDD.mk ((position O v).getD O.length) (toPos O lo) (toPos O hi) := by
  unfold mk BDD.mk
  by_cases h : lo = hi
  · subst h; simp
  · have : toPos O lo ≠ toPos O hi := fun e => h (toPos_inj O lo hi hlo hhi e)
    simp [h, this, toPos]

/-- `variables()` of the named diagram are the names of the `support` of the positional one -/
theorem support_toPos (O : List String) (t : NBDD) :
    support (toPos O t) = t.vars.map (fun v => (position O v).getD O.length) := by
  induction t with
  | leaf b => rfl
  | node v lo hi ihl ihh => simp [toPos, support, vars, ihl, ihh]

theorem vars_restrict_subset (x : String) (val : Bool) (t : NBDD) : ∀ u ∈ (t.restrict x val).vars, u ∈ t.vars := by
  induction t with
  | leaf b => simp [restrict]
  | node v lo hi ihl ihh =>
    intro u hu
    unfold restrict at hu
    split_ifs at hu with h1 h2
    · simp [vars, ihh u hu]
    · simp [vars, ihl u hu]
    · have := vars_mk_subset _ _ _ u hu
      simp only [vars, List.mem_cons, List.mem_append] at this ⊢
      rcases this with h | h | h
      · exact Or.inl h
      · exact Or.inr (Or.inl (ihl u h))
      · exact Or.inr (Or.inr (ihh u h))

/-- named `restrict` is positional `restrict` (so `C17.restrict_spec` speaks about it) -/
theorem toPos_restrict (O : List String) (x : String) (i : Nat) (hx : position O x = some i) (val : Bool) (t : NBDD)
    (ht : ∀ v ∈ t.vars, v ∈ O) : toPos O (t.restrict x val) = BDD.restrict i val (toPos O t) := by
  induction t with
  | leaf b => rfl
  | node v lo hi ihl ihh =>
    have hlo : ∀ u ∈ lo.vars, u ∈ O := fun u hu => ht u (by simp [vars, hu])
    have hhi : ∀ u ∈ hi.vars, u ∈ O := fun u hu => ht u (by simp [vars, hu])
    obtain ⟨j, hj⟩ := mem_iff_position.mp (ht v (by simp [vars]))
    simp only [restrict, toPos, BDD.restrict, hj, Option.getD_some]
    by_cases hvx : v = x
    · subst hvx
      rw [hx] at hj; cases hj
      cases val <;> simp [ihl hlo, ihh hhi]
    · have hne : j ≠ i := fun e => hvx (position_inj hj (e ▸ hx))
      simp only [hvx, hne, if_false]
      rw [toPos_mk O v _ _ (fun u hu => hlo u (vars_restrict_subset _ _ _ u hu))
        (fun u hu => hhi u (vars_restrict_subset _ _ _ u hu)), ihl hlo, ihh hhi, hj, Option.getD_some]

/-- restricting a variable the diagram does not mention returns the diagram itself -/
theorem restrict_foreign (x : String) (val : Bool) (t : NBDD) (hx : x ∉ t.vars) (hr : t.Reduced) :
    t.restrict x val = t := by
  induction t with
  | leaf b => rfl
  | node v lo hi ihl ihh =>
    simp only [vars, List.mem_cons, List.mem_append, not_or] at hx
    obtain ⟨h1, h2, h3⟩ := hx
    have : v ≠ x := fun e => h1 e.symm
    simp [restrict, this, ihl h2 hr.2.1, ihh h3 hr.2.2, mk, hr.1]

theorem toPos_invert (O : List String) (t : NBDD) (ht : ∀ v ∈ t.vars, v ∈ O) :
    toPos O t.invert = BDD.invert (toPos O t) ∧ ∀ u ∈ t.invert.vars, u ∈ t.vars := by
  induction t with
  | leaf b => exact ⟨rfl, by simp [invert, vars]⟩
  | node v lo hi ihl ihh =>
    have hlo : ∀ u ∈ lo.vars, u ∈ O := fun u hu => ht u (by simp [vars, hu])
    have hhi : ∀ u ∈ hi.vars, u ∈ O := fun u hu => ht u (by simp [vars, hu])
    obtain ⟨e1, s1⟩ := ihl hlo
    obtain ⟨e2, s2⟩ := ihh hhi
    constructor
    · simp only [invert, toPos, BDD.invert]
      rw [toPos_mk O v _ _ (fun u hu => hlo u (s1 u hu)) (fun u hu => hhi u (s2 u hu)), e1, e2]
    · intro u hu
      have := vars_mk_subset _ _ _ u hu
      simp only [vars, List.mem_cons, List.mem_append] at this ⊢
      rcases this with h | h | h
      · exact Or.inl h
      · exact Or.inr (Or.inl (s1 u h))
      · exact Or.inr (Or.inr (s2 u h))

/-- a diagram that respects the ordering still does after `restrict` -/
theorem respect_restrict (O : List String) (x : String) (val : Bool) (t : NBDD) (h : respect O t = .ok true) :
    respect O (t.restrict x val) = .ok true := by
  obtain ⟨hv, ho⟩ := (respect_true_iff O t).mp h
  have hv' : ∀ u ∈ (t.restrict x val).vars, u ∈ O := fun u hu => hv u (vars_restrict_subset _ _ _ u hu)
  refine (respect_true_iff O _).mpr ⟨hv', ?_⟩
  by_cases hx : x ∈ O
  · obtain ⟨i, hi⟩ := mem_iff_position.mp hx
    rw [toPos_restrict O x i hi val t hv]
    -- ordering is preserved by the positional restrict
    have : ∀ (a : BDD) (lb : Nat), Ord lb a → Ord lb (BDD.restrict i val a) := by
      intro a
      induction a with
      | leaf b => intro lb _; trivial
      | node w lo hi ihl ihh =>
        intro lb ⟨h1, h2, h3⟩
        simp only [BDD.restrict]
        split_ifs
        · exact (ihh _ h3).mono (by omega)
        · exact (ihl _ h2).mono (by omega)
        · exact ord_mk h1 (ihl _ h2) (ihh _ h3)
    exact this _ 0 ho
  · -- a foreign variable: no node is labelled with it, only `mk` is applied
    have : ∀ (a : NBDD) (lb : Nat), (∀ u ∈ a.vars, u ∈ O) → Ord lb (toPos O a) → Ord lb (toPos O (a.restrict x val)) := by
      intro a
      induction a with
      | leaf b => intro lb _ _; trivial
      | node w lo hi ihl ihh =>
        intro lb ha ⟨h1, h2, h3⟩
        have hlo : ∀ u ∈ lo.vars, u ∈ O := fun u hu => ha u (by simp [vars, hu])
        have hhi : ∀ u ∈ hi.vars, u ∈ O := fun u hu => ha u (by simp [vars, hu])
        have hw : w ≠ x := fun e => hx (e ▸ ha w (by simp [vars]))
        simp only [restrict, hw, if_false]
        rw [toPos_mk O w _ _ (fun u hu => hlo u (vars_restrict_subset _ _ _ u hu))
          (fun u hu => hhi u (vars_restrict_subset _ _ _ u hu))]
        exact ord_mk h1 (ihl _ hlo h2) (ihh _ hhi h3)
    exact this t 0 hv ho

end NBDD

/-! ### `OBDD.__init__` -/

theorem respectArg_some (O : List String) (t : NBDD) : respectArg (some O) t = NBDD.respect O t :=
  NBDD.respectOrdering_eq O t

/-- `OBDD(node, [list])` in one formula: the list is converted first (`RuntimeError` on a repetition), then the
    diagram is checked (`ValueError` when `respect_ordering` says `False`; its own exceptions pass through) -/
theorem init_node_list (t : NBDD) (l : List String) (check : Bool) :
    OBDDv.init (.val (.node t)) (.list l) check =
      if l.Nodup then
        (if check then
          match NBDD.respect l t with
          | .ok true => .ok ⟨t, some l⟩
          | .ok false => .error .valueError
          | .error e => .error e
         else .ok ⟨t, some l⟩)
      else .error .runtimeError := by
  unfold OBDDv.init
  by_cases h : l.Nodup
  · simp only [resolveOrd, make_of_nodup h, Except.map, h, if_true, respectArg_some]
    cases check
    · simp
    · simp only [if_true]
      cases NBDD.respect l t with
      | error e => rfl
      | ok b => cases b <;> rfl
  · have : make l = .error .runtimeError := (make_error_iff l _).mpr ⟨h, rfl⟩
    simp [resolveOrd, this, Except.map, h]

/-- the same with a `ListOrdering` object -/
theorem init_node_ordering (t : NBDD) (O : List String) (check : Bool) :
    OBDDv.init (.val (.node t)) (.ordering O) check =
      if check then
        match NBDD.respect O t with
        | .ok true => .ok ⟨t, some O⟩
        | .ok false => .error .valueError
        | .error e => .error e
      else .ok ⟨t, some O⟩ := by
  unfold OBDDv.init
  simp only [resolveOrd, respectArg_some]
  cases check
  · simp
  · simp only [if_true]
    cases NBDD.respect O t with
    | error e => rfl
    | ok b => cases b <;> rfl

/-- **`OBDD(node, ordering)` succeeds exactly when the ordering is duplicate-free, mentions all the variables of the
    diagram, and the diagram is ordered** -/
theorem init_node_ok_iff (t : NBDD) (l : List String) (o : OBDDv) :
    OBDDv.init (.val (.node t)) (.list l) true = .ok o ↔
      l.Nodup ∧ (∀ v ∈ t.vars, v ∈ l) ∧ Ord 0 (t.toPos l) ∧ o = ⟨t, some l⟩ := by
  rw [init_node_list]
  by_cases h : l.Nodup
  · simp only [h, if_true, true_and]
    cases hr : NBDD.respect l t with
    | error e =>
      simp only [reduceCtorEq, false_iff, not_and]
      intro hv ho
      have := (NBDD.respect_true_iff l t).mpr ⟨hv, ho⟩
      rw [hr] at this; cases this
    | ok b =>
      cases b with
      | false =>
        simp only [reduceCtorEq, false_iff, not_and]
        intro hv ho
        have := (NBDD.respect_true_iff l t).mpr ⟨hv, ho⟩
        rw [hr] at this; cases this
      | true =>
        obtain ⟨hv, ho⟩ := (NBDD.respect_true_iff l t).mp hr
        simp only [Except.ok.injEq]
        constructor
        · rintro rfl; exact ⟨hv, ho, rfl⟩
        · rintro ⟨_, _, rfl⟩; rfl
  · simp [h]

/-- `ValueError`: exactly when `respect_ordering` answers `False` (then the diagram is not ordered) -/
theorem init_node_valueError_iff (t : NBDD) (l : List String) :
    OBDDv.init (.val (.node t)) (.list l) true = .error .valueError ↔ l.Nodup ∧ NBDD.respect l t = .ok false := by
  rw [init_node_list]
  by_cases h : l.Nodup
  · simp only [h, if_true, true_and]
    cases hr : NBDD.respect l t with
    | error e =>
      simp only [Except.error.injEq, reduceCtorEq, iff_false]
      rintro rfl
      cases (NBDD.respect_error l t _ hr).1
    | ok b => cases b <;> simp
  · simp [h]

/-- `RuntimeError`: exactly when the list repeats a variable or `respect_ordering` raises it, that is (see
    `NBDD.respect_runtimeError_iff`) when the first defect of the diagram is a variable that is not in the list -/
theorem init_node_runtimeError_iff (t : NBDD) (l : List String) :
    OBDDv.init (.val (.node t)) (.list l) true = .error .runtimeError ↔
      ¬ l.Nodup ∨ ∃ w, (NBDD.defects l t).head? = some (.foreign w) := by
  rw [init_node_list]
  by_cases h : l.Nodup
  · simp only [h, if_true, not_true_eq_false, false_or]
    rw [← NBDD.respect_runtimeError_iff]
    cases hr : NBDD.respect l t with
    | error e => simp
    | ok b => cases b <;> simp
  · simp [h]

/-- in particular a ROOT variable that is not in the list is a `RuntimeError` -/
theorem init_node_root_runtimeError (t : NBDD) (l : List String) (h : ¬ NBDD.rootIn l t) :
    OBDDv.init (.val (.node t)) (.list l) true = .error .runtimeError := by
  rw [init_node_list]
  by_cases hl : l.Nodup
  · simp [hl, NBDD.respect_root_runtimeError l t h]
  · simp [hl]

/-- **a variable of the diagram that is not in the (duplicate-free) list**: `OBDD(node, list)` never succeeds and
    raises `RuntimeError` — or `ValueError` when an edge that does not go forward is met first -/
theorem init_node_foreign (t : NBDD) (l : List String) (hf : ∃ v ∈ t.vars, v ∉ l) :
    OBDDv.init (.val (.node t)) (.list l) true = .error .runtimeError ∨
      OBDDv.init (.val (.node t)) (.list l) true = .error .valueError := by
  rw [init_node_list]
  by_cases hl : l.Nodup
  · rcases NBDD.respect_foreign l t hf with h | h <;> simp [hl, h]
  · simp [hl]

/-- no other exception class: `TypeError` in particular never arises for a `BDDNode` and a list of names -/
theorem init_node_error_classes (t : NBDD) (l : List String) (check : Bool) (e : Err)
    (h : OBDDv.init (.val (.node t)) (.list l) check = .error e) :
    e = .runtimeError ∨ e = .valueError := by
  rw [init_node_list] at h
  by_cases hl : l.Nodup
  · simp only [hl, if_true] at h
    cases check
    · simp at h
    · simp only [if_true] at h
      cases hr : NBDD.respect l t with
      | error e' =>
        simp only [hr, Except.error.injEq] at h; subst h
        exact Or.inl (NBDD.respect_error l t _ hr).1
      | ok b => cases b <;> simp [hr] at h; exact Or.inr h.symm
  · simp only [hl, if_false, Except.error.injEq] at h
    exact Or.inl h.symm

/-- with `check_ordering=False` only the conversion of the list can fail -/
theorem init_node_nocheck (t : NBDD) (l : List String) :
    OBDDv.init (.val (.node t)) (.list l) false = if l.Nodup then .ok ⟨t, some l⟩ else .error .runtimeError := by
  rw [init_node_list]; simp

/-- `TypeError` for a `bfunct` that is neither a `BDDNode` nor a `str` (once the ordering has been converted) -/
theorem init_other_typeError (v : PyVal) (hn : ∀ t, v ≠ .node t) (hs : ∀ s, v ≠ .str s) (oa : OrdArg) (check : Bool) :
    OBDDv.init (.val v) oa check = .error .typeError ∨
      (∃ l, oa = .list l ∧ ¬ l.Nodup ∧ OBDDv.init (.val v) oa check = .error .runtimeError) := by
  cases oa with
  | none => left; cases v <;> simp_all [OBDDv.init]
  | list l =>
    by_cases h : l.Nodup
    · left
      cases v <;> simp_all [OBDDv.init, resolveOrd, make_of_nodup h, Except.map]
    · right
      have : make l = .error .runtimeError := (make_error_iff l _).mpr ⟨h, rfl⟩
      refine ⟨l, rfl, h, ?_⟩
      simp [OBDDv.init, resolveOrd, this, Except.map]
  | ordering O => left; cases v <;> simp_all [OBDDv.init, resolveOrd]
  | tuple => left; simp [OBDDv.init, resolveOrd]
  | other => left; cases v <;> simp_all [OBDDv.init, resolveOrd]

/-- `ordering=None`: only the lambda form is accepted; a `BDDNode` is a `TypeError` -/
theorem init_none (bf : Bfunct) (check : Bool) :
    OBDDv.init bf .none check =
      match bf with
      | .lam args e => if args.Nodup then ofExp args e else .error .runtimeError
      | .expr _ => .error .syntaxError
      | .val (.str _) => .error .syntaxError
      | .val _ => .error .typeError := by
  cases bf with
  | lam args e =>
    by_cases h : args.Nodup
    · simp [OBDDv.init, make_of_nodup h, h]
    · have : make args = .error .runtimeError := (make_error_iff args _).mpr ⟨h, rfl⟩
      simp [OBDDv.init, this, h]
  | expr e => rfl
  | val v => cases v <;> rfl

/-- an ordering that is neither a list nor an `Ordering` (nor a tuple) is silently replaced by `None`: a terminal
    node is then accepted (the documented `TypeError` is never raised), a non-terminal one is a `TypeError` only
    because `var in None` is -/
theorem init_other_ordering (t : NBDD) :
    OBDDv.init (.val (.node t)) .other true =
      match t with
      | .leaf _ => .ok ⟨t, none⟩
      | .node _ _ _ => .error .typeError := by
  cases t <;> simp [OBDDv.init, resolveOrd, respectArg]

/-! ### `==` -/
namespace OBDDv

/-- the orderings an OBDD can hold are duplicate-free -/
def WF (o : OBDDv) : Prop := ∀ O, o.ordering = some O → O.Nodup

theorem init_wf (bf : Bfunct) (oa : OrdArg) (check : Bool) (o : OBDDv) (hoa : ∀ O, oa = .ordering O → O.Nodup)
    (h : init bf oa check = .ok o) : o.WF := by
  intro O hO
  have ofExp_ord : ∀ (L : List String) (e : BExp) (o' : OBDDv), ofExp L e = .ok o' → o'.ordering = some L := by
    intro L e o' h'
    unfold ofExp at h'
    cases hb : build e with
    | error x => simp [hb] at h'
    | ok t => simp only [hb, Except.ok.injEq] at h'; subst h'; rfl
  cases oa with
  | none =>
    cases bf with
    | lam args e =>
      unfold init at h
      cases hm : make args with
      | error x => simp [hm] at h
      | ok L =>
        simp only [hm] at h
        obtain ⟨hn, rfl⟩ := (make_ok_iff args L).mp hm
        have := ofExp_ord L e o h
        rw [this] at hO; cases hO; exact hn
    | expr e => simp [init] at h
    | val v => cases v <;> simp [init] at h
  | tuple => simp [init, resolveOrd] at h
  | other =>
    have : o.ordering = none := by
      cases bf with
      | lam args e => simp [init, resolveOrd] at h
      | expr e => simp [init, resolveOrd] at h
      | val v =>
        cases v <;> simp [init, resolveOrd] at h
        rename_i t
        cases check
        · simp at h; rw [← h]
        · simp only [if_true] at h
          cases hr : respectArg none t with
          | error x => simp [hr] at h
          | ok b => cases b <;> simp [hr] at h; rw [← h]
    rw [this] at hO; cases hO
  | list l =>
    unfold init at h
    cases hm : make l with
    | error x => simp [resolveOrd, hm, Except.map] at h
    | ok L =>
      obtain ⟨hn, rfl⟩ := (make_ok_iff l L).mp hm
      simp only [resolveOrd, hm, Except.map] at h
      have : o.ordering = some L := by
        cases bf with
        | lam args e => simp at h
        | expr e => exact ofExp_ord L e o h
        | val v =>
          cases v <;> simp at h
          rename_i t
          cases check
          · simp at h; rw [← h]
          · simp only [if_true] at h
            cases hr : respectArg (some L) t with
            | error x => simp [hr] at h
            | ok b => cases b <;> simp [hr] at h; rw [← h]
      rw [this] at hO; cases hO; exact hn
  | ordering L =>
    unfold init at h
    simp only [resolveOrd] at h
    have : o.ordering = some L := by
      cases bf with
      | lam args e => simp at h
      | expr e => exact ofExp_ord L e o h
      | val v =>
        cases v <;> simp at h
        rename_i t
        cases check
        · simp at h; rw [← h]
        · simp only [if_true] at h
          cases hr : respectArg (some L) t with
          | error x => simp [hr] at h
          | ok b => cases b <;> simp [hr] at h; rw [← h]
    rw [this] at hO; cases hO; exact hoa _ rfl

theorem ordEq_iff {a b : Option (List String)} (ha : ∀ O, a = some O → O.Nodup) (hb : ∀ O, b = some O → O.Nodup) :
    ordEq a b = true ↔ a = b := by
  cases a with
  | none => cases b <;> simp [ordEq]
  | some x =>
    cases b with
    | none => simp [ordEq]
    | some y => simp [ordEq, eqv_iff (ha x rfl) (hb y rfl)]

/-- **`obdd1 == obdd2` is `True` exactly when they have the same root and equal orderings** -/
theorem eq_obdd (self B : OBDDv) : self.eq (.obdd B) = .ok (same self B) := rfl

theorem same_iff (self B : OBDDv) (h1 : self.WF) (h2 : B.WF) : same self B = true ↔ self = B := by
  unfold same
  rw [Bool.and_eq_true, decide_eq_true_eq, ordEq_iff h1 h2]
  cases self; cases B; simp

/-- `obdd == node`: the node is wrapped with the left ordering (so the exceptions of `OBDD(node, ordering)` can
    escape from `==`), then the roots are compared -/
theorem eq_node (self : OBDDv) (O : List String) (hO : self.ordering = some O) (t : NBDD) :
    self.eq (.node t) =
      match NBDD.respect O t with
      | .ok true => .ok (decide (self.root = t))
      | .ok false => .error .valueError
      | .error e => .error e := by
  unfold eq
  simp only [selfArg, hO, init_node_ordering, if_true]
  cases NBDD.respect O t with
  | error e => rfl
  | ok b =>
    cases b
    · rfl
    · simp [same, hO, ordEq, eqv_refl]

/-- `obdd == node` with a variable of `node` outside the ordering of `obdd`: `RuntimeError`, or `ValueError` when an
    edge that does not go forward is met first; no other exception class escapes from `obdd == node` -/
theorem eq_node_error (self : OBDDv) (O : List String) (hO : self.ordering = some O) (t : NBDD) (e : Err)
    (h : self.eq (.node t) = .error e) :
    (e = .runtimeError ∧ ∃ v ∈ t.vars, v ∉ O) ∨ (e = .valueError ∧ NBDD.respect O t = .ok false) := by
  rw [eq_node self O hO] at h
  cases hr : NBDD.respect O t with
  | error e' =>
    simp only [hr, Except.error.injEq] at h; subst h
    exact Or.inl (NBDD.respect_error O t _ hr)
  | ok b =>
    cases b
    · simp only [hr, Except.error.injEq] at h; exact Or.inr ⟨h.symm, rfl⟩
    · simp [hr] at h

/-- `obdd == 0/1/False/True` compares the root with the terminal node -/
theorem eq_bit (self : OBDDv) (O : List String) (hO : self.ordering = some O) (A : PyVal) (b : Bool)
    (hA : A.asBit = some b) : self.eq A = .ok (decide (self.root = .leaf b)) := by
  have key : (match init (.val (.node (.leaf b))) (selfArg self) true with
      | .ok B => Except.ok (same self B)
      | .error x => .error x) = .ok (decide (self.root = .leaf b)) := by
    simp [selfArg, hO, init_node_ordering, NBDD.respect, same, ordEq, eqv_refl]
  cases A with
  | node t => simp [PyVal.asBit] at hA
  | obdd B => simp [PyVal.asBit] at hA
  | _ => simp only [eq, hA]; exact key

/-- `TypeError` for every other operand -/
theorem eq_typeError (self : OBDDv) (A : PyVal) (hn : ∀ t, A ≠ .node t) (ho : ∀ B, A ≠ .obdd B)
    (hb : A.asBit = none) : self.eq A = .error .typeError := by
  cases A <;> simp_all [eq]

/-- and, for an OBDD that holds an ordering, `TypeError` for no other operand -/
theorem eq_typeError_iff (self : OBDDv) (O : List String) (hO : self.ordering = some O) (A : PyVal) :
    self.eq A = .error .typeError ↔ (∀ t, A ≠ .node t) ∧ (∀ B, A ≠ .obdd B) ∧ A.asBit = none := by
  constructor
  · intro h
    refine ⟨?_, ?_, ?_⟩
    · rintro t rfl
      rw [eq_node self O hO] at h
      cases hr : NBDD.respect O t with
      | error e =>
        simp only [hr, Except.error.injEq] at h; subst h
        cases (NBDD.respect_error O t _ hr).1
      | ok b => cases b <;> simp [hr] at h
    · rintro B rfl; simp [eq_obdd] at h
    · cases hb : A.asBit with
      | none => rfl
      | some b => rw [eq_bit self O hO A b hb] at h; cases h
  · rintro ⟨h1, h2, h3⟩; exact eq_typeError self A h1 h2 h3

/-! ### `restrict`, `variables`, `~`, `__str__` -/

theorem asBoolArg_isSome_iff (v : PyVal) :
    v.asBoolArg.isSome = true ↔ v = .int 0 ∨ v = .int 1 ∨ ∃ b, v = .bool b := by
  cases v with
  | int n => by_cases h0 : n = 0 <;> by_cases h1 : n = 1 <;> simp [PyVal.asBoolArg, h0, h1]
  | bool b => simp [PyVal.asBoolArg]
  | _ => simp [PyVal.asBoolArg]

/-- **`restrict(var, value)` raises `TypeError` exactly when `var` is not a `str` or `value` is not one of
    `0`, `1`, `False`, `True`** (for an OBDD that holds an ordering) -/
theorem restrict_typeError_iff (self : OBDDv) (O : List String) (hO : self.ordering = some O) (var value : PyVal) :
    self.restrict var value = .error .typeError ↔ (∀ x, var ≠ .str x) ∨ value.asBoolArg = none := by
  unfold restrict nodeRestrict
  cases hv : value.asBoolArg with
  | none => cases var <;> simp
  | some b =>
    cases var with
    | str x =>
      simp only [selfArg, hO, init_node_ordering, if_true]
      cases hr : NBDD.respect O (self.root.restrict x b) with
      | error e =>
        simp [(NBDD.respect_error O _ _ hr).1]
      | ok c => cases c <;> simp
    | _ => simp

/-- on an OBDD whose root respects its ordering, `restrict` with a `str` and a Boolean never raises; the result is
    the named `restrict` of the root, under the same ordering, and respects it again.  This holds also for a
    variable that is not in the ordering: no `RuntimeError` there. -/
theorem restrict_ok (self : OBDDv) (O : List String) (hO : self.ordering = some O)
    (hr : NBDD.respect O self.root = .ok true) (x : String) (value : PyVal) (b : Bool) (hv : value.asBoolArg = some b) :
    self.restrict (.str x) value = .ok ⟨self.root.restrict x b, some O⟩ ∧
      NBDD.respect O (self.root.restrict x b) = .ok true := by
  have := NBDD.respect_restrict O x b self.root hr
  refine ⟨?_, this⟩
  simp [restrict, nodeRestrict, hv, selfArg, hO, init_node_ordering, this]

/-- `~f` on such an OBDD never raises and is the positional negation -/
theorem invert_ok (self : OBDDv) (O : List String) (hO : self.ordering = some O)
    (hr : NBDD.respect O self.root = .ok true) :
    self.invert = .ok ⟨self.root.invert, some O⟩ ∧ NBDD.toPos O self.root.invert = BDD.invert (NBDD.toPos O self.root) := by
  obtain ⟨hv, ho⟩ := (NBDD.respect_true_iff O self.root).mp hr
  obtain ⟨e1, s1⟩ := NBDD.toPos_invert O self.root hv
  have hr' : NBDD.respect O self.root.invert = .ok true := by
    refine (NBDD.respect_true_iff O _).mpr ⟨fun u hu => hv u (s1 u hu), ?_⟩
    rw [e1]
    have : ∀ (a : BDD) (lb : Nat), Ord lb a → Ord lb (BDD.invert a) := by
      intro a
      induction a with
      | leaf b => intro lb _; trivial
      | node w lo hi ihl ihh => intro lb ⟨h1, h2, h3⟩; exact ord_mk h1 (ihl _ h2) (ihh _ h3)
    exact this _ 0 ho
  exact ⟨by simp [invert, selfArg, hO, init_node_ordering, hr'], e1⟩

/-- `variables()`: under the ordering, the positions of the variables are the `support` of the positional diagram -/
theorem variables_support (self : OBDDv) (O : List String) :
    support (NBDD.toPos O self.root) = self.variables.map (fun v => (position O v).getD O.length) :=
  NBDD.support_toPos O self.root

/-- `str(obdd)` is `lambda <variables in order, comma separated>: <root>` -/
theorem toStr_some (self : OBDDv) (O : List String) (hO : self.ordering = some O) (hn : O.Nodup) :
    self.toStr = (if O.isEmpty then "lambda" else "lambda " ++ ",".intercalate O) ++ ": " ++ self.root.printStr := by
  simp [toStr, hO, getList_eq hn]

end OBDDv

/-! ### `apply` (`&`, `|`, `^`) -/

/-- `TypeError` unless the right operand is an OBDD -/
theorem apply_typeError (op : Bool → Bool → Bool) (self : OBDDv) (B : PyVal) (h : ∀ b, B ≠ .obdd b) :
    OBDDv.apply op self B = .error .typeError := by
  cases B <;> simp_all [OBDDv.apply]

/-- **`RuntimeError` when the two orderings differ** (the guard of C17) -/
theorem apply_runtimeError (op : Bool → Bool → Bool) (self b : OBDDv) (h1 : self.WF) (h2 : b.WF)
    (h : self.ordering ≠ b.ordering) : OBDDv.apply op self (.obdd b) = .error .runtimeError := by
  have : OBDDv.ordEq self.ordering b.ordering = false := by
    rw [← Bool.not_eq_true, OBDDv.ordEq_iff h1 h2]; exact h
  simp [OBDDv.apply, this]

/-- on diagrams whose variables are all in the ordering, the named `compute` never raises and is the positional
    `apply` of the base model (to which `C17.and_spec` … apply) -/
theorem napply_spec (op : Bool → Bool → Bool) (O : List String) :
    ∀ (n : Nat) (a b : NBDD),
    (∀ v ∈ a.vars, v ∈ O) → (∀ v ∈ b.vars, v ∈ O) →
    ∃ t, NBDD.apply op (some O) n a b = .ok t ∧ NBDD.toPos O t = BDD.apply op n (NBDD.toPos O a) (NBDD.toPos O b) ∧
      ∀ v ∈ t.vars, v ∈ O := by
  intro n
  induction n with
  | zero => intro a b ha _; exact ⟨a, by simp [NBDD.apply], by simp [BDD.apply], ha⟩
  | succ n ih =>
    intro a b ha hb
    -- the common shape: two recursive calls and `mk`
    have sons : ∀ (v : String) (a0 b0 a1 b1 : NBDD), v ∈ O →
        (∀ u ∈ a0.vars, u ∈ O) → (∀ u ∈ b0.vars, u ∈ O) → (∀ u ∈ a1.vars, u ∈ O) → (∀ u ∈ b1.vars, u ∈ O) →
        ∃ l h, NBDD.apply op (some O) n a0 b0 = .ok l ∧ NBDD.apply op (some O) n a1 b1 = .ok h ∧
          NBDD.toPos O (NBDD.mk v l h) = BDD.mk ((position O v).getD O.length)
            (BDD.apply op n (NBDD.toPos O a0) (NBDD.toPos O b0)) (BDD.apply op n (NBDD.toPos O a1) (NBDD.toPos O b1)) ∧
          ∀ u ∈ (NBDD.mk v l h).vars, u ∈ O := by
      intro v a0 b0 a1 b1 hv h1 h2 h3 h4
      obtain ⟨l, el, pl, vl⟩ := ih a0 b0 h1 h2
      obtain ⟨h, eh, ph, vh⟩ := ih a1 b1 h3 h4
      refine ⟨l, h, el, eh, ?_, ?_⟩
      · rw [NBDD.toPos_mk O v l h vl vh, pl, ph]
      · intro u hu
        have := NBDD.vars_mk_subset v l h u hu
        simp only [NBDD.vars, List.mem_cons, List.mem_append] at this
        rcases this with rfl | hh | hh
        · exact hv
        · exact vl u hh
        · exact vh u hh
    cases a with
    | leaf x =>
      cases b with
      | leaf y => exact ⟨.leaf (op x y), by simp [NBDD.apply], by simp [BDD.apply, NBDD.toPos], by simp [NBDD.vars]⟩
      | node w lo hi =>
        have hw : w ∈ O := hb w (by simp [NBDD.vars])
        obtain ⟨l, h, el, eh, p, vt⟩ := sons w (.leaf x) lo (.leaf x) hi hw (by simp [NBDD.vars])
          (fun u hu => hb u (by simp [NBDD.vars, hu])) (by simp [NBDD.vars]) (fun u hu => hb u (by simp [NBDD.vars, hu]))
        exact ⟨NBDD.mk w l h, by simp [NBDD.apply, el, eh], by simpa [BDD.apply, NBDD.toPos] using p, vt⟩
    | node v lo1 hi1 =>
      have hvO : v ∈ O := ha v (by simp [NBDD.vars])
      have hlo1 : ∀ u ∈ lo1.vars, u ∈ O := fun u hu => ha u (by simp [NBDD.vars, hu])
      have hhi1 : ∀ u ∈ hi1.vars, u ∈ O := fun u hu => ha u (by simp [NBDD.vars, hu])
      cases b with
      | leaf y =>
        obtain ⟨l, h, el, eh, p, vt⟩ := sons v lo1 (.leaf y) hi1 (.leaf y) hvO hlo1 (by simp [NBDD.vars]) hhi1 (by simp [NBDD.vars])
        exact ⟨NBDD.mk v l h, by simp [NBDD.apply, el, eh], by simpa [BDD.apply, NBDD.toPos] using p, vt⟩
      | node w lo2 hi2 =>
        have hwO : w ∈ O := hb w (by simp [NBDD.vars])
        have hlo2 : ∀ u ∈ lo2.vars, u ∈ O := fun u hu => hb u (by simp [NBDD.vars, hu])
        have hhi2 : ∀ u ∈ hi2.vars, u ∈ O := fun u hu => hb u (by simp [NBDD.vars, hu])
        obtain ⟨i, hi⟩ := mem_iff_position.mp hvO
        obtain ⟨j, hj⟩ := mem_iff_position.mp hwO
        have io1 : ordInOrder (some O) v w = .ok (decide (i < j)) := inOrder_ok_iff.mpr ⟨i, j, hi, hj, rfl⟩
        have io2 : ordInOrder (some O) w v = .ok (decide (j < i)) := inOrder_ok_iff.mpr ⟨j, i, hj, hi, rfl⟩
        by_cases c1 : i < j
        · obtain ⟨l, h, el, eh, p, vt⟩ := sons v lo1 (.node w lo2 hi2) hi1 (.node w lo2 hi2) hvO hlo1 hb hhi1 hb
          refine ⟨NBDD.mk v l h, by simp [NBDD.apply, io1, c1, el, eh], ?_, vt⟩
          simpa [BDD.apply, c1, NBDD.toPos, hi, hj] using p
        · by_cases c2 : v = w
          · subst c2
            rw [hi] at hj; cases hj
            obtain ⟨l, h, el, eh, p, vt⟩ := sons v lo1 lo2 hi1 hi2 hvO hlo1 hlo2 hhi1 hhi2
            refine ⟨NBDD.mk v l h, by simp [NBDD.apply, io1, el, eh], ?_, vt⟩
            simpa [BDD.apply, NBDD.toPos, hi] using p
          · have hne : i ≠ j := fun e => c2 (position_inj hi (e ▸ hj))
            have c3 : j < i := by omega
            obtain ⟨l, h, el, eh, p, vt⟩ := sons w (.node v lo1 hi1) lo2 (.node v lo1 hi1) hi2 hwO ha hlo2 ha hhi2
            refine ⟨NBDD.mk w l h, by simp [NBDD.apply, io1, io2, c1, c2, c3, el, eh], ?_, vt⟩
            simpa [BDD.apply, c1, hne, NBDD.toPos, hi, hj] using p

theorem nsize_toPos (O : List String) (t : NBDD) : BDD.size (NBDD.toPos O t) = t.size := by
  induction t with
  | leaf b => rfl
  | node v lo hi ihl ihh => simp [NBDD.toPos, BDD.size, NBDD.size, ihl, ihh]

/-- `f & g`, `f | g`, `f ^ g` on two OBDDs with the same ordering whose roots respect it: never raises, and the root
    of the result is the positional `applyOp` of the two positional roots -/
theorem apply_ok (op : Bool → Bool → Bool) (self b : OBDDv) (O : List String)
    (h1 : self.ordering = some O)
    (h2 : b.ordering = some O) (r1 : NBDD.respect O self.root = .ok true) (r2 : NBDD.respect O b.root = .ok true) :
    ∃ t, OBDDv.apply op self (.obdd b) = .ok ⟨t, some O⟩ ∧
      NBDD.toPos O t = applyOp op (NBDD.toPos O self.root) (NBDD.toPos O b.root) ∧ NBDD.respect O t = .ok true := by
  obtain ⟨v1, o1⟩ := (NBDD.respect_true_iff O _).mp r1
  obtain ⟨v2, o2⟩ := (NBDD.respect_true_iff O _).mp r2
  obtain ⟨t, e, p, vt⟩ := napply_spec op O (self.root.size + b.root.size) self.root b.root v1 v2
  refine ⟨t, ?_, ?_, ?_⟩
  · simp [OBDDv.apply, h1, h2, OBDDv.ordEq, eqv_refl, e]
  · rw [p, applyOp, nsize_toPos, nsize_toPos]
  · refine (NBDD.respect_true_iff O t).mpr ⟨vt, ?_⟩
    rw [p]
    -- ordering of the positional apply (reducedness plays no role for `Ord`)
    have : ∀ (n : Nat) (x y : BDD) (lb : Nat), Ord lb x → Ord lb y → Ord lb (BDD.apply op n x y) := by
      intro n
      induction n with
      | zero => intro x y lb hx _; exact hx
      | succ n ih =>
        intro x y lb hx hy
        cases x with
        | leaf a =>
          cases y with
          | leaf c => trivial
          | node w lo hi =>
            obtain ⟨q1, q2, q3⟩ := hy
            exact ord_mk q1 (ih _ _ _ trivial q2) (ih _ _ _ trivial q3)
        | node v lo1 hi1 =>
          obtain ⟨p1, p2, p3⟩ := hx
          cases y with
          | leaf c => exact ord_mk p1 (ih _ _ _ p2 trivial) (ih _ _ _ p3 trivial)
          | node w lo2 hi2 =>
            obtain ⟨q1, q2, q3⟩ := hy
            simp only [BDD.apply]
            split_ifs with c1 c2
            · have : Ord (v+1) (BDD.node w lo2 hi2) := ⟨by omega, q2, q3⟩
              exact ord_mk p1 (ih _ _ _ p2 this) (ih _ _ _ p3 this)
            · subst c2; exact ord_mk p1 (ih _ _ _ p2 q2) (ih _ _ _ p3 q3)
            · have : Ord (w+1) (BDD.node v lo1 hi1) := ⟨by omega, p2, p3⟩
              exact ord_mk q1 (ih _ _ _ this q2) (ih _ _ _ this q3)
    exact this _ _ _ 0 o1 o2


/-- `ordering == x` is `True` only for a `ListOrdering` with the same variables at the same positions -/
theorem eqPy_true_iff (O : List String) (hO : O.Nodup) (v : PyVal) (hv : ∀ P, v = .ordering P → P.Nodup) :
    Ordering.eqPy O v = true ↔ v = .ordering O := by
  cases v with
  | ordering P => simp [Ordering.eqPy, eqv_iff hO (hv P rfl), eq_comm]
  | _ => simp [Ordering.eqPy]

/-! ### the exception classes of `&`, `|`, `^` under a `ListOrdering` -/

/-- the named `compute` under a `ListOrdering` raises nothing but `RuntimeError` (from `Ordering.cmp`): the final
    `raise RuntimeError('…' % A, B)` of `compute` — a `TypeError` — is unreachable, and the operator is applied to two
    `bool`s -/
theorem napply_error_class (op : Bool → Bool → Bool) (O : List String) :
    ∀ (n : Nat) (a b : NBDD) (e : Err), NBDD.apply op (some O) n a b = .error e → e = .runtimeError := by
  intro n
  induction n with
  | zero => intro a b e h; simp [NBDD.apply] at h
  | succ n ih =>
    intro a b e h
    have sons : ∀ (v : String) (a0 b0 a1 b1 : NBDD),
        (match NBDD.apply op (some O) n a0 b0 with
          | .error x => Except.error x
          | .ok l =>
            match NBDD.apply op (some O) n a1 b1 with
            | .error x => .error x
            | .ok h => .ok (NBDD.mk v l h)) = .error e → e = .runtimeError := by
      intro v a0 b0 a1 b1 hs
      cases h0 : NBDD.apply op (some O) n a0 b0 with
      | error x => rw [h0] at hs; cases hs; exact ih _ _ _ h0
      | ok l =>
        cases h1 : NBDD.apply op (some O) n a1 b1 with
        | error x => rw [h0, h1] at hs; cases hs; exact ih _ _ _ h1
        | ok r => rw [h0, h1] at hs; cases hs
    cases a with
    | leaf x =>
      cases b with
      | leaf y => simp [NBDD.apply] at h
      | node w lo hi => simp only [NBDD.apply] at h; exact sons _ _ _ _ _ h
    | node v lo1 hi1 =>
      cases b with
      | leaf y => simp only [NBDD.apply] at h; exact sons _ _ _ _ _ h
      | node w lo2 hi2 =>
        simp only [NBDD.apply, ordInOrder] at h
        cases c1 : inOrder O v w with
        | error x =>
          rw [c1] at h; cases h
          exact (inOrder_error_iff.mp c1).2
        | ok b1 =>
          rw [c1] at h
          cases b1 with
          | true => exact sons _ _ _ _ _ h
          | false =>
            simp only at h
            split_ifs at h with c2
            · exact sons _ _ _ _ _ h
            · cases c3 : inOrder O w v with
              | error x =>
                rw [c3] at h; cases h
                exact (inOrder_error_iff.mp c3).2
              | ok b2 =>
                rw [c3] at h
                cases b2 with
                | true => exact sons _ _ _ _ _ h
                | false =>
                  exfalso
                  obtain ⟨i, j, hi, hj, hd⟩ := inOrder_ok_iff.mp c1
                  obtain ⟨j', i', hj', hi', hd'⟩ := inOrder_ok_iff.mp c3
                  rw [hi] at hi'; rw [hj] at hj'; cases hi'; cases hj'
                  have e1 : ¬ i < j := by simpa using hd.symm
                  have e2 : ¬ j < i := by simpa using hd'.symm
                  have : i = j := by omega
                  subst this
                  exact c2 (position_inj hi hj)

/-- **the exceptions of `f & g`, `f | g`, `f ^ g` on two OBDDs when the left one holds a `ListOrdering`**: the only
    class is `RuntimeError`, raised because the orderings differ or because the traversal compared a variable that is
    not in the ordering (hand-built roots wrapped with `check_ordering=False`); when the orderings are equal and all
    the variables are in it nothing is raised (`napply_spec`) -/
theorem apply_error (op : Bool → Bool → Bool) (self b : OBDDv) (O : List String) (hO : self.ordering = some O) (e : Err)
    (h : OBDDv.apply op self (.obdd b) = .error e) :
    e = .runtimeError ∧
      (OBDDv.ordEq self.ordering b.ordering = false ∨ ∃ v, (v ∈ self.root.vars ∨ v ∈ b.root.vars) ∧ v ∉ O) := by
  obtain ⟨root, so⟩ := self
  simp only at hO; subst hO
  unfold OBDDv.apply at h
  simp only at h ⊢
  by_cases hq : OBDDv.ordEq (some O) b.ordering = true
  · simp only [hq, Bool.not_true, Bool.false_eq_true, if_false] at h
    cases hr : NBDD.apply op (some O) (root.size + b.root.size) root b.root with
    | ok t => rw [hr] at h; cases h
    | error x =>
      rw [hr] at h; cases h
      refine ⟨napply_error_class op O _ _ _ _ hr, Or.inr ?_⟩
      by_contra hc
      push Not at hc
      obtain ⟨t, ht, -⟩ := napply_spec op O (root.size + b.root.size) root b.root
        (fun v hv => hc v (Or.inl hv)) (fun v hv => hc v (Or.inr hv))
      rw [hr] at ht; cases ht
  · have hq' : OBDDv.ordEq (some O) b.ordering = false := by simpa using hq
    simp only [hq', Bool.not_false, if_true, Except.error.injEq] at h
    exact ⟨h.symm, Or.inl hq'⟩

/-- with equal orderings that contain every variable of the two roots nothing is raised — ordered or not -/
theorem apply_no_error (op : Bool → Bool → Bool) (self b : OBDDv) (O : List String) (h1 : self.ordering = some O)
    (h2 : b.ordering = some O) (v1 : ∀ v ∈ self.root.vars, v ∈ O) (v2 : ∀ v ∈ b.root.vars, v ∈ O) :
    ∃ t, OBDDv.apply op self (.obdd b) = .ok ⟨t, some O⟩ := by
  obtain ⟨t, e, -, -⟩ := napply_spec op O (self.root.size + b.root.size) self.root b.root v1 v2
  exact ⟨t, by simp [OBDDv.apply, h1, h2, OBDDv.ordEq, eqv_refl, e]⟩

/-! ### terminal nodes hold `bool`s: the operators never raise on them -/

/-- on two terminal nodes `compute` applies the operator to the two `bool`s they hold and answers the terminal of the
    result; nothing is raised, whatever values the terminals were first requested with (`BDDNode(1.0)` included) -/
theorem napply_terminals (op : Bool → Bool → Bool) (O : Option (List String)) (n : Nat) (a b : Bool) :
    NBDD.apply op O (n + 1) (.leaf a) (.leaf b) = .ok (.leaf (op a b)) := rfl

/-- `^` on two constant OBDDs -/
theorem xor_terminals (O : List String) (a b : Bool) :
    OBDDv.apply (fun x y => x != y) ⟨.leaf a, some O⟩ (.obdd ⟨.leaf b, some O⟩) = .ok ⟨.leaf (a != b), some O⟩ := by
  simp [OBDDv.apply, OBDDv.ordEq, eqv_refl, NBDD.size, NBDD.apply]

end PMC.BDD
