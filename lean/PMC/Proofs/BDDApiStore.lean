/-
  `descendents()`, `ancestors()`, `BDDNode.nodes()` on the unique table (PMC/Model/BDDApi.lean, section 4):
  the stack loop computes exactly the reachability closure; `descendants` is closed under children; under the
  unique-table invariant `nodes()` is the set of ALL live nodes (every node reaches a terminal).
-/
import PMC.Model.BDDApi
import PMC.Proofs.BDDStore
import Mathlib.Tactic
import Mathlib.Logic.Relation
import Mathlib.Data.List.Perm.Subperm
namespace PMC.BDD

/-! ### the stack loop -/
section Closure
variable (next : Ref → List Ref)

/-- reachability through `next` -/
abbrev Reach (x y : Ref) : Prop := Relation.ReflTransGen (fun a b => b ∈ next a) x y

/-- everything the loop records was recorded before or is reachable from the stack -/
theorem closure_sound : ∀ (b : Nat) (st vis : List Ref) (z : Ref), z ∈ closure next b st vis →
    z ∈ vis ∨ ∃ s ∈ st, Reach next s z := by
  intro b st vis
  fun_induction closure next b st vis with
  | case1 b vis => intro z hz; exact Or.inl hz
  | case2 b x st vis hx ih =>
    intro z hz
    rcases ih z hz with h | ⟨s, hs, hr⟩
    · exact Or.inl h
    · exact Or.inr ⟨s, List.mem_cons_of_mem _ hs, hr⟩
  | case3 x st vis hx => intro z hz; exact Or.inl hz
  | case4 x st vis hx b ih =>
    intro z hz
    rcases ih z hz with h | ⟨s, hs, hr⟩
    · rcases List.mem_cons.mp h with rfl | h
      · exact Or.inr ⟨z, by simp, Relation.ReflTransGen.refl⟩
      · exact Or.inl h
    · rcases List.mem_append.mp hs with hs | hs
      · exact Or.inr ⟨x, by simp, Relation.ReflTransGen.head hs hr⟩
      · exact Or.inr ⟨s, List.mem_cons_of_mem _ hs, hr⟩

/-- with a budget covering a finite universe closed under `next`, the loop ends with an empty stack: the result
    contains the recorded nodes and the stack, and is closed under `next` -/
theorem closure_complete (U : List Ref) (hU : ∀ x ∈ U, ∀ y ∈ next x, y ∈ U) :
    ∀ (b : Nat) (st vis : List Ref), (∀ x ∈ st, x ∈ U) → (∀ x ∈ vis, x ∈ U) → vis.Nodup →
    U.length ≤ b + vis.length → (∀ x ∈ vis, ∀ y ∈ next x, y ∈ vis ∨ y ∈ st) →
    (∀ x ∈ vis, x ∈ closure next b st vis) ∧ (∀ x ∈ st, x ∈ closure next b st vis) ∧
      ∀ x ∈ closure next b st vis, ∀ y ∈ next x, y ∈ closure next b st vis := by
  intro b st vis
  fun_induction closure next b st vis with
  | case1 b vis =>
    intro _ _ _ _ hI
    refine ⟨fun x hx => hx, fun x hx => (by cases hx), fun x hx y hy => ?_⟩
    rcases hI x hx y hy with h | h
    · exact h
    · cases h
  | case2 b x st vis hx ih =>
    intro hst hvis hnd hlen hI
    have hxv : x ∈ vis := by simpa using hx
    obtain ⟨h1, h2, h3⟩ := ih (fun y hy => hst y (List.mem_cons_of_mem _ hy)) hvis hnd hlen (by
      intro a ha y hy
      rcases hI a ha y hy with h | h
      · exact Or.inl h
      · rcases List.mem_cons.mp h with rfl | h
        · exact Or.inl hxv
        · exact Or.inr h)
    refine ⟨h1, fun y hy => ?_, h3⟩
    rcases List.mem_cons.mp hy with rfl | hy
    · exact h1 _ hxv
    · exact h2 y hy
  | case3 x st vis hx =>
    intro hst hvis hnd hlen _
    exfalso
    have hxv : x ∉ vis := by simpa using hx
    have hnd' : (x :: vis).Nodup := List.nodup_cons.mpr ⟨hxv, hnd⟩
    have hsub : (x :: vis) ⊆ U := by
      intro y hy
      rcases List.mem_cons.mp hy with rfl | hy
      · exact hst _ (by simp)
      · exact hvis y hy
    have := (List.subperm_of_subset hnd' hsub).length_le
    simp at this; omega
  | case4 x st vis hx b ih =>
    intro hst hvis hnd hlen hI
    have hxv : x ∉ vis := by simpa using hx
    have hxU : x ∈ U := hst x (by simp)
    obtain ⟨h1, h2, h3⟩ := ih
      (by
        intro y hy
        rcases List.mem_append.mp hy with hy | hy
        · exact hU x hxU y hy
        · exact hst y (List.mem_cons_of_mem _ hy))
      (by
        intro y hy
        rcases List.mem_cons.mp hy with rfl | hy
        · exact hxU
        · exact hvis y hy)
      (List.nodup_cons.mpr ⟨hxv, hnd⟩)
      (by simp; omega)
      (by
        intro a ha y hy
        rcases List.mem_cons.mp ha with rfl | ha
        · exact Or.inr (List.mem_append_left _ hy)
        · rcases hI a ha y hy with h | h
          · exact Or.inl (List.mem_cons_of_mem _ h)
          · rcases List.mem_cons.mp h with rfl | h
            · exact Or.inl (by simp)
            · exact Or.inr (List.mem_append_right _ h))
    refine ⟨fun y hy => h1 y (List.mem_cons_of_mem _ hy), fun y hy => ?_, h3⟩
    rcases List.mem_cons.mp hy with rfl | hy
    · exact h1 _ (by simp)
    · exact h2 y (List.mem_append_right _ hy)

/-- **the loop started on `[r]` computes exactly the nodes reachable from `r`** -/
theorem mem_closure_iff (U : List Ref) (hU : ∀ x ∈ U, ∀ y ∈ next x, y ∈ U) (r : Ref) (hr : r ∈ U) (b : Nat)
    (hb : U.length ≤ b) (z : Ref) : z ∈ closure next b [r] [] ↔ Reach next r z := by
  constructor
  · intro hz
    rcases closure_sound next b [r] [] z hz with h | ⟨s, hs, hreach⟩
    · cases h
    · simp at hs; subst hs; exact hreach
  · intro hreach
    obtain ⟨_, h2, h3⟩ := closure_complete next U hU b [r] [] (by simpa using hr) (by simp) List.nodup_nil
      (by simpa using hb) (by simp)
    induction hreach with
    | refl => exact h2 r (by simp)
    | tail _ hstep ih => exact h3 _ ih _ hstep

end Closure

/-! ### children and parents in the table -/

/-- `y` is the low or the high child of the live node `x` -/
def IsChild (l : List (Nat × Nd)) (x y : Ref) : Prop := ∃ n nd, x = .id n ∧ (n, nd) ∈ l ∧ (y = nd.lo ∨ y = nd.hi)

theorem lookup_eq_some_iff : ∀ {l : List (Nat × Nd)}, WF l → ∀ {n : Nat} {nd : Nd},
    l.lookup n = some nd ↔ (n, nd) ∈ l := by
  intro l
  induction l with
  | nil => intro _ n nd; simp [List.lookup]
  | cons p rest ih =>
    obtain ⟨m, md⟩ := p
    intro hwf n nd
    obtain ⟨hm, -, -, -, -, hrest⟩ := hwf
    by_cases hnm : n = m
    · subst hnm
      simp only [List.lookup, beq_self_eq_true, Option.some.injEq, List.mem_cons, Prod.mk.injEq, true_and]
      constructor
      · intro h; exact Or.inl h.symm
      · rintro (h | h)
        · exact h.symm
        · exact absurd (List.mem_map.mpr ⟨_, h, rfl⟩) hm
    · have : (n == m) = false := by simpa using hnm
      simp only [List.lookup, this, List.mem_cons, Prod.mk.injEq, hnm, false_and, false_or]
      exact ih hrest

theorem mem_children_iff {l : List (Nat × Nd)} (hwf : WF l) (x y : Ref) : y ∈ children l x ↔ IsChild l x y := by
  cases x with
  | term b => simp [children, IsChild]
  | id n =>
    cases h : l.lookup n with
    | none =>
      simp only [children, h, IsChild, List.not_mem_nil, Ref.id.injEq, false_iff, not_exists, not_and]
      rintro m nd rfl hmem
      rw [(lookup_eq_some_iff hwf).mpr hmem] at h; cases h
    | some nd =>
      have hmem := (lookup_eq_some_iff hwf).mp h
      simp only [children, h, IsChild, List.mem_cons, List.not_mem_nil, or_false, Ref.id.injEq]
      constructor
      · intro hy; exact ⟨n, nd, rfl, hmem, hy⟩
      · rintro ⟨m, nd', rfl, hmem', hy⟩
        rw [(lookup_eq_some_iff hwf).mpr hmem'] at h; cases h; exact hy

/-- the parent sets `f_low | f_high` hold exactly the live nodes having `x` as a child -/
theorem mem_parents_iff (l : List (Nat × Nd)) (x y : Ref) : y ∈ parents l x ↔ IsChild l y x := by
  unfold parents IsChild
  simp only [List.mem_map, List.mem_append, fLow, fHigh, List.mem_filter, decide_eq_true_eq]
  constructor
  · rintro ⟨⟨n, nd⟩, (⟨hm, h⟩ | ⟨hm, h⟩), rfl⟩
    · exact ⟨n, nd, rfl, hm, Or.inl h.symm⟩
    · exact ⟨n, nd, rfl, hm, Or.inr h.symm⟩
  · rintro ⟨n, nd, rfl, hm, (h | h)⟩
    · exact ⟨(n, nd), Or.inl ⟨hm, h.symm⟩, rfl⟩
    · exact ⟨(n, nd), Or.inr ⟨hm, h.symm⟩, rfl⟩

/-- reachability along child edges -/
abbrev Desc (l : List (Nat × Nd)) (x y : Ref) : Prop := Relation.ReflTransGen (IsChild l) x y

theorem reach_children_iff {l : List (Nat × Nd)} (hwf : WF l) (x y : Ref) : Reach (children l) x y ↔ Desc l x y := by
  have : (fun a b => b ∈ children l a) = IsChild l := by
    funext a b; exact propext (mem_children_iff hwf a b)
  unfold Reach Desc; rw [this]

theorem reach_parents_iff (l : List (Nat × Nd)) (x y : Ref) : Reach (parents l) x y ↔ Desc l y x := by
  have : (fun a b => b ∈ parents l a) = Function.swap (IsChild l) := by
    funext a b; exact propext (mem_parents_iff l a b)
  unfold Reach Desc; rw [this]
  exact Relation.reflTransGen_swap

/-! ### `descendents()` -/

/-- the references that can occur: the root, the terminals, the live ids -/
def refUniverse (l : List (Nat × Nd)) (r : Ref) : List Ref :=
  r :: .term false :: .term true :: l.map (fun p => Ref.id p.1)

theorem refIn_mem_refUniverse {l : List (Nat × Nd)} {r x : Ref} (h : RefIn l x) : x ∈ refUniverse l r := by
  cases x with
  | term b => cases b <;> simp [refUniverse]
  | id n =>
    obtain ⟨p, hp, rfl⟩ := List.mem_map.mp h
    simp only [refUniverse, List.mem_cons, List.mem_map]
    exact Or.inr (Or.inr (Or.inr ⟨p, hp, rfl⟩))

theorem refUniverse_closed {l : List (Nat × Nd)} (hwf : WF l) (r : Ref) :
    ∀ x ∈ refUniverse l r, ∀ y ∈ children l x, y ∈ refUniverse l r := by
  intro x _ y hy
  obtain ⟨n, nd, rfl, hmem, hc⟩ := (mem_children_iff hwf x y).mp hy
  obtain ⟨h1, h2⟩ := wf_children hwf hmem
  rcases hc with rfl | rfl
  · exact refIn_mem_refUniverse h1
  · exact refIn_mem_refUniverse h2

/-- **`r.descendents()` is exactly the set of nodes reachable from `r` along child edges** -/
theorem mem_descendants_iff (s : Store) (hs : s.Inv) (r z : Ref) : z ∈ descendants s r ↔ Desc s.live r z := by
  unfold descendants
  rw [mem_closure_iff (children s.live) (refUniverse s.live r) (refUniverse_closed hs.wf r) r (by simp [refUniverse])
    (s.live.length + 3) (by simp [refUniverse]) z]
  exact reach_children_iff hs.wf r z

theorem self_mem_descendants (s : Store) (hs : s.Inv) (r : Ref) : r ∈ descendants s r :=
  (mem_descendants_iff s hs r r).mpr Relation.ReflTransGen.refl

/-- **`descendents()` is closed under children** -/
theorem descendants_closed (s : Store) (hs : s.Inv) (r : Ref) (n : Nat) (nd : Nd)
    (hn : .id n ∈ descendants s r) (hmem : (n, nd) ∈ s.live) :
    nd.lo ∈ descendants s r ∧ nd.hi ∈ descendants s r := by
  rw [mem_descendants_iff s hs] at hn
  constructor
  · exact (mem_descendants_iff s hs r _).mpr (hn.tail ⟨n, nd, rfl, hmem, Or.inl rfl⟩)
  · exact (mem_descendants_iff s hs r _).mpr (hn.tail ⟨n, nd, rfl, hmem, Or.inr rfl⟩)

/-- descendants of a usable reference are usable references -/
theorem descendants_refIn (s : Store) (hs : s.Inv) (r z : Ref) (hr : RefIn s.live r) (hz : z ∈ descendants s r) :
    RefIn s.live z := by
  rw [mem_descendants_iff s hs] at hz
  induction hz with
  | refl => exact hr
  | tail _ hstep _ =>
    obtain ⟨n, nd, rfl, hmem, hc⟩ := hstep
    obtain ⟨h1, h2⟩ := wf_children hs.wf hmem
    rcases hc with rfl | rfl
    · exact h1
    · exact h2

/-! ### `ancestors()` -/

theorem parents_closed (l : List (Nat × Nd)) (r : Ref) :
    ∀ x ∈ r :: l.map (fun p => Ref.id p.1), ∀ y ∈ parents l x, y ∈ r :: l.map (fun p => Ref.id p.1) := by
  intro x _ y hy
  obtain ⟨n, nd, rfl, hmem, -⟩ := (mem_parents_iff l x y).mp hy
  exact List.mem_cons_of_mem _ (List.mem_map.mpr ⟨(n, nd), hmem, rfl⟩)

/-- **`r.ancestors()` is exactly the set of nodes from which `r` is reachable** (no invariant needed) -/
theorem mem_ancestors_iff (s : Store) (r z : Ref) : z ∈ ancestors s r ↔ Desc s.live z r := by
  unfold ancestors
  rw [mem_closure_iff (parents s.live) (r :: s.live.map (fun p => Ref.id p.1)) (parents_closed s.live r) r (by simp)
    (s.live.length + 1) (by simp) z]
  exact reach_parents_iff s.live r z

/-- an ancestor other than the node itself is a live node -/
theorem ancestors_live (s : Store) (r z : Ref) (hz : z ∈ ancestors s r) : z = r ∨ ∃ n ∈ s.ids, z = .id n := by
  rw [mem_ancestors_iff] at hz
  rcases Relation.ReflTransGen.cases_head hz with h | ⟨c, hstep, _⟩
  · exact Or.inl h
  · obtain ⟨n, nd, rfl, hmem, -⟩ := hstep
    exact Or.inr ⟨n, List.mem_map.mpr ⟨(n, nd), hmem, rfl⟩, rfl⟩

/-- `x` is a descendant of `y` exactly when `y` is an ancestor of `x` -/
theorem descendants_ancestors (s : Store) (hs : s.Inv) (x y : Ref) : x ∈ descendants s y ↔ y ∈ ancestors s x := by
  rw [mem_descendants_iff s hs, mem_ancestors_iff]

/-! ### `BDDNode.nodes()` -/

theorem isChild_cons {p : Nat × Nd} {rest : List (Nat × Nd)} {x y : Ref} (h : IsChild rest x y) :
    IsChild (p :: rest) x y := by
  obtain ⟨n, nd, hx, hm, hc⟩ := h
  exact ⟨n, nd, hx, List.mem_cons_of_mem _ hm, hc⟩

theorem desc_cons {p : Nat × Nd} {rest : List (Nat × Nd)} {x y : Ref} (h : Desc rest x y) : Desc (p :: rest) x y := by
  induction h with
  | refl => exact Relation.ReflTransGen.refl
  | tail _ hstep ih => exact Relation.ReflTransGen.tail ih (isChild_cons hstep)

/-- **every live node reaches a terminal** (children are older, so the descent ends) -/
theorem live_reaches_terminal : ∀ {l : List (Nat × Nd)}, WF l → ∀ r, RefIn l r → ∃ b, Desc l r (.term b) := by
  intro l
  induction l with
  | nil =>
    intro _ r hr
    cases r with
    | term b => exact ⟨b, Relation.ReflTransGen.refl⟩
    | id n => simp [RefIn] at hr
  | cons p rest ih =>
    obtain ⟨m, nd⟩ := p
    intro hwf r hr
    obtain ⟨hm, hlo, -, -, -, hrest⟩ := hwf
    have lift : ∀ x, RefIn rest x → ∃ b, Desc ((m, nd) :: rest) x (.term b) := by
      intro x hx
      obtain ⟨b, hb⟩ := ih hrest x hx
      exact ⟨b, desc_cons hb⟩
    cases r with
    | term b => exact ⟨b, Relation.ReflTransGen.refl⟩
    | id n =>
      by_cases hnm : n = m
      · subst hnm
        obtain ⟨b, hb⟩ := lift nd.lo hlo
        exact ⟨b, Relation.ReflTransGen.head ⟨n, nd, rfl, by simp, Or.inl rfl⟩ hb⟩
      · apply lift
        simp only [RefIn, List.map_cons, List.mem_cons] at hr ⊢
        rcases hr with h | h
        · exact absurd h hnm
        · exact h

/-- **`BDDNode.nodes()` is exactly the two terminals and ALL the live non-terminal nodes** -/
theorem mem_nodes_iff (s : Store) (hs : s.Inv) (x : Ref) :
    x ∈ nodes s ↔ x = .term false ∨ x = .term true ∨ ∃ n ∈ s.ids, x = .id n := by
  unfold nodes
  rw [List.mem_append]
  constructor
  · rintro (h | h)
    · rcases ancestors_live s _ x h with h | h
      · exact Or.inl h
      · exact Or.inr (Or.inr h)
    · rcases ancestors_live s _ x h with h | h
      · exact Or.inr (Or.inl h)
      · exact Or.inr (Or.inr h)
  · rintro (rfl | rfl | ⟨n, hn, rfl⟩)
    · exact Or.inl ((mem_ancestors_iff s _ _).mpr Relation.ReflTransGen.refl)
    · exact Or.inr ((mem_ancestors_iff s _ _).mpr Relation.ReflTransGen.refl)
    · obtain ⟨b, hb⟩ := live_reaches_terminal hs.wf (.id n) hn
      cases b
      · exact Or.inl ((mem_ancestors_iff s _ _).mpr hb)
      · exact Or.inr ((mem_ancestors_iff s _ _).mpr hb)

/-- in particular the non-terminal part of `nodes()` is the set of live ids: scanning `nodes()` for duplicate
    triples (as the C16 check does) scans the whole table -/
theorem id_mem_nodes_iff (s : Store) (hs : s.Inv) (n : Nat) : .id n ∈ nodes s ↔ n ∈ s.ids := by
  rw [mem_nodes_iff s hs]; simp

#print axioms mem_descendants_iff
#print axioms mem_ancestors_iff
#print axioms mem_nodes_iff
end PMC.BDD
