/-
  OBDD-level histories on a pool of live roots, with dropping of references and garbage collection
  (for PMC/Properties/C16History.lean).

  `Session` / `Cmd` / `stepCmd` (PMC/Model/BDDStoreOps.lean) model a program that only *accumulates* roots.  Here the
  command set is extended, outside the model files and only by composing the model's own store-level functions:

    * `new e`       — `OBDD(expr, ordering)`: `build` the expression (PMC/Model/BDD.lean, C18) and `intern` the tree
                      in the shared store (a sequence of `mkNode`s); a parse error leaves the session unchanged;
    * `const`, `var`, `apply op i j`, `restrict x b i`, `invert i` — `stepCmd` of the model (`applyRoot`,
                      `restrictRoot`, `invertRoot`: the real algorithms on the store, fresh memo cache per call);
    * `drop i`      — the program forgets the root at index `i` (`del o`): the reference leaves the pool, the store
                      is untouched (whether its nodes disappear is the collector's business);
    * `gc keep`     — a collection, `gc` of PMC/Model/BDD.lean: exactly the nodes whose id is in `keep` survive.
                      Admissible (`HCmdOk`) when the kept part is closed under children and contains every live
                      root, i.e. **only nodes unreachable from the live roots disappear** — which nodes among the
                      unreachable ones disappear, and when, is arbitrary (CPython: weak sets + reference counting +
                      the cycle collector's schedule).  `sweepAll` is the collection that removes *every* unreachable
                      node; `sweepAll_ok` shows it is admissible, so admissible collections exist in every state.
-/
import PMC.Proofs.BDDStoreOps
namespace PMC.BDD
open BDD

/-- user-level commands with dropping and collection; operands are indices into the pool of live roots -/
inductive HCmd where
  | new (e : BExp)
  | const (b : Bool)
  | var (v : Nat)
  | apply (op : Bool → Bool → Bool) (i j : Nat)
  | restrict (x : Nat) (val : Bool) (i : Nat)
  | invert (i : Nat)
  | drop (i : Nat)
  | gc (keep : List Nat)

def stepH (σ : Session) : HCmd → Session
  | .new e =>
    match build e with
    | .ok t => let m := intern σ.store t; ⟨m.2, m.1 :: σ.roots⟩
    | .error _ => σ
  | .const b => stepCmd σ (.const b)
  | .var v => stepCmd σ (.var v)
  | .apply op i j => stepCmd σ (.apply op i j)
  | .restrict x val i => stepCmd σ (.restrict x val i)
  | .invert i => stepCmd σ (.invert i)
  | .drop i => { σ with roots := σ.roots.eraseIdx i }
  | .gc keep => { σ with store := gc σ.store (fun n => keep.contains n) }

def runH (σ : Session) (cs : List HCmd) : Session := cs.foldl stepH σ

/-- admissibility: a collection keeps a children-closed set of nodes that contains every live root -/
def HCmdOk (σ : Session) : HCmd → Prop
  | .gc keep => Closed σ.store.live (fun n => keep.contains n) ∧ ∀ r ∈ σ.roots, RefKept (fun n => keep.contains n) r
  | _ => True

/-- a history all of whose collections are admissible when they happen -/
def HistHOk : Session → List HCmd → Prop
  | _, [] => True
  | σ, c :: cs => HCmdOk σ c ∧ HistHOk (stepH σ c) cs

/-- the underlying accumulate-only command, if any -/
def HCmd.toCmd : HCmd → Option Cmd
  | .const b => some (.const b)
  | .var v => some (.var v)
  | .apply op i j => some (.apply op i j)
  | .restrict x val i => some (.restrict x val i)
  | .invert i => some (.invert i)
  | _ => none

theorem stepH_toCmd {c : HCmd} {c' : Cmd} (h : c.toCmd = some c') (σ : Session) : stepH σ c = stepCmd σ c' := by
  cases c <;> simp only [HCmd.toCmd, Option.some.injEq] at h <;> first | (subst h; rfl) | cases h

/-- a collection keeps the unique-table invariant -/
theorem gc_inv (s : Store) (hs : s.Inv) (keep : Nat → Bool) (hc : Closed s.live keep) : (gc s keep).Inv := by
  refine ⟨(gc_spec _ _ hs.wf hc).1, ?_⟩
  intro n hn
  simp only [gc, Store.ids] at hn ⊢
  obtain ⟨q, hq, rfl⟩ := List.mem_map.mp hn
  exact hs.fresh _ (List.mem_map.mpr ⟨q, (List.mem_filter.mp hq).1, rfl⟩)

/-- one command: the session stays well-formed and every root that stays in the pool keeps its tree -/
theorem stepH_spec (σ : Session) (h : SessOK σ) (c : HCmd) (hc : HCmdOk σ c) :
    SessOK (stepH σ c) ∧
    ∀ r ∈ σ.roots, r ∈ (stepH σ c).roots → treeOf (stepH σ c).store.live r = treeOf σ.store.live r := by
  have viaCmd : ∀ c', stepH σ c = stepCmd σ c' → SessOK (stepH σ c) ∧
      ∀ r ∈ σ.roots, r ∈ (stepH σ c).roots → treeOf (stepH σ c).store.live r = treeOf σ.store.live r := by
    intro c' e
    rw [e]
    obtain ⟨h1, h2, _⟩ := stepCmd_spec σ h c'
    exact ⟨h1, fun r hr _ => (h2 r (h.2 r hr).1).2⟩
  cases c with
  | const b => exact viaCmd (.const b) rfl
  | var v => exact viaCmd (.var v) rfl
  | apply op i j => exact viaCmd (.apply op i j) rfl
  | restrict x val i => exact viaCmd (.restrict x val i) rfl
  | invert i => exact viaCmd (.invert i) rfl
  | new e =>
    simp only [stepH]
    cases hb : build e with
    | error err => exact ⟨h, fun _ _ _ => rfl⟩
    | ok t =>
      obtain ⟨_, ho, hr⟩ := build_spec e t hb
      obtain ⟨i1, i2, i3, i4⟩ := intern_spec σ.store h.1 t hr
      exact ⟨sessOK_push h i1 i4 i2 (by rw [i3]; exact ho), fun r hr _ => (i4 r (h.2 r hr).1).2⟩
  | drop i =>
    exact ⟨⟨h.1, fun r hr => h.2 r (List.mem_of_mem_eraseIdx hr)⟩, fun _ _ _ => rfl⟩
  | gc keep =>
    obtain ⟨hcl, hroots⟩ := hc
    have hg := (gc_spec σ.store.live _ h.1.wf hcl).2
    refine ⟨⟨gc_inv σ.store h.1 _ hcl, fun r hr => ?_⟩, fun r hr _ => ?_⟩
    · obtain ⟨a1, a2⟩ := h.2 r hr
      obtain ⟨b1, b2⟩ := hg r a1 (hroots r hr)
      exact ⟨b1, by simp only [stepH, gc] at b2 ⊢; rw [b2]; exact a2⟩
    · exact (hg r (h.2 r hr).1 (hroots r hr)).2

/-- what the new root denotes: `new e` (when `e` parses) -/
theorem stepH_new_spec (σ : Session) (h : SessOK σ) (e : BExp) (t : BDD) (hb : build e = .ok t) :
    ∃ r, (stepH σ (.new e)).roots = r :: σ.roots ∧ treeOf (stepH σ (.new e)).store.live r = t ∧
      ∀ ρ, denote (treeOf (stepH σ (.new e)).store.live r) ρ = evalB ρ e := by
  obtain ⟨hd, _, hr⟩ := build_spec e t hb
  obtain ⟨_, _, i3, _⟩ := intern_spec σ.store h.1 t hr
  simp only [stepH, hb]
  exact ⟨_, rfl, i3, fun ρ => by rw [i3]; exact hd ρ⟩

/-- what the new root denotes: the accumulate-only commands (`cmdSem`) -/
theorem stepH_cmd_spec (σ : Session) (h : SessOK σ) (c : HCmd) (c' : Cmd) (hc : c.toCmd = some c') :
    ∃ r, (stepH σ c).roots = r :: σ.roots ∧ ∀ ρ, denote (treeOf (stepH σ c).store.live r) ρ = cmdSem σ c' ρ := by
  rw [stepH_toCmd hc]
  exact (stepCmd_spec σ h c').2.2

/-- any admissible history keeps the session well-formed -/
theorem runH_ok : ∀ (cs : List HCmd) (σ : Session), SessOK σ → HistHOk σ cs → SessOK (runH σ cs)
  | [], _, h, _ => h
  | c :: cs, σ, h, hok => runH_ok cs (stepH σ c) (stepH_spec σ h c hok.1).1 hok.2

/-! ### the collection that removes every node unreachable from the live roots -/

def refIds : Ref → List Nat
  | .term _ => []
  | .id n => [n]

/-- one pass from the newest node to the oldest (children are always older): a node is kept iff it is wanted, and
    then its children are wanted -/
def mark : List (Nat × Nd) → List Nat → List Nat
  | [], _ => []
  | (m, nd) :: rest, want =>
    if want.contains m then m :: mark rest (refIds nd.lo ++ refIds nd.hi ++ want) else mark rest want

/-- `gc` argument of the full sweep: everything reachable from the live roots -/
def sweepAll (σ : Session) : HCmd := .gc (mark σ.store.live (σ.roots.flatMap refIds))

theorem mark_sub : ∀ (l : List (Nat × Nd)) (want : List Nat) n, n ∈ mark l want → n ∈ l.map Prod.fst := by
  intro l
  induction l with
  | nil => intro want n h; cases h
  | cons hd rest ih =>
    obtain ⟨m, nd⟩ := hd
    intro want n h
    simp only [mark] at h
    split at h
    · rcases List.mem_cons.mp h with rfl | h
      · simp
      · exact List.mem_cons_of_mem _ (by simpa using ih _ n h)
    · exact List.mem_cons_of_mem _ (by simpa using ih _ n h)

theorem mark_mono : ∀ (l : List (Nat × Nd)) (w w' : List Nat), (∀ n ∈ w, n ∈ w') → ∀ n ∈ mark l w, n ∈ mark l w' := by
  intro l
  induction l with
  | nil => intro w w' _ n h; cases h
  | cons hd rest ih =>
    obtain ⟨m, nd⟩ := hd
    intro w w' hsub n h
    simp only [mark] at h ⊢
    by_cases hm : w.contains m = true
    · have hm' : w'.contains m = true := by
        simp only [List.contains_iff_mem] at hm ⊢; exact hsub m hm
      rw [if_pos hm] at h; rw [if_pos hm']
      rcases List.mem_cons.mp h with rfl | h
      · exact List.mem_cons_self
      · refine List.mem_cons_of_mem _ (ih _ _ ?_ n h)
        intro k hk
        simp only [List.mem_append] at hk ⊢
        rcases hk with hk | hk
        · exact Or.inl hk
        · exact Or.inr (hsub k hk)
    · rw [if_neg hm] at h
      by_cases hm' : w'.contains m = true
      · rw [if_pos hm']
        refine List.mem_cons_of_mem _ (ih _ _ ?_ n h)
        intro k hk
        simp only [List.mem_append]
        exact Or.inr (hsub k hk)
      · rw [if_neg hm']; exact ih _ _ hsub n h

/-- every wanted id that is in the store is marked -/
theorem mark_want : ∀ (l : List (Nat × Nd)) (want : List Nat) n, n ∈ want → n ∈ l.map Prod.fst → n ∈ mark l want := by
  intro l
  induction l with
  | nil => intro want n _ h; cases h
  | cons hd rest ih =>
    obtain ⟨m, nd⟩ := hd
    intro want n hw hn
    simp only [mark]
    by_cases hm : want.contains m = true
    · rw [if_pos hm]
      simp only [List.map_cons, List.mem_cons] at hn
      rcases hn with rfl | hn
      · exact List.mem_cons_self
      · exact List.mem_cons_of_mem _ (ih _ n (by simp [hw]) hn)
    · rw [if_neg hm]
      simp only [List.map_cons, List.mem_cons] at hn
      rcases hn with rfl | hn
      · exact absurd (List.contains_iff_mem.mpr hw) hm
      · exact ih _ n hw hn

/-- the marked set is closed under children -/
theorem mark_closed : ∀ (l : List (Nat × Nd)), WF l → ∀ (want : List Nat),
    Closed l (fun n => (mark l want).contains n) := by
  intro l
  induction l with
  | nil => intro _ _ p hp; cases hp
  | cons hd rest ih =>
    obtain ⟨m, nd⟩ := hd
    intro hwf want p hp hk
    obtain ⟨hm, hlo, hhi, _, _, hrest⟩ := hwf
    simp only [List.contains_iff_mem] at hk ⊢
    have child : ∀ (w : List Nat) (r : Ref), RefIn rest r → (∀ k ∈ refIds r, k ∈ w) →
        ∀ n, r = .id n → n ∈ mark rest w := by
      intro w r hr hw n hrn
      subst hrn
      exact mark_want rest w n (hw n (by simp [refIds])) hr
    rcases List.mem_cons.mp hp with rfl | hp
    · -- the head node itself
      simp only [mark] at hk ⊢
      by_cases hc : want.contains m = true
      · rw [if_pos hc]
        refine ⟨fun n hn => List.mem_cons_of_mem _ (child _ _ hlo (fun k hk => by simp [hk]) n hn),
          fun n hn => List.mem_cons_of_mem _ (child _ _ hhi (fun k hk => by simp [hk]) n hn)⟩
      · rw [if_neg hc] at hk
        exact absurd (mark_sub rest want m hk) hm
    · -- an older node
      have hpm : p.1 ≠ m := fun e => hm (e ▸ List.mem_map.mpr ⟨p, hp, rfl⟩)
      simp only [mark] at hk ⊢
      by_cases hc : want.contains m = true
      · rw [if_pos hc] at hk ⊢
        have hk' : p.1 ∈ mark rest (refIds nd.lo ++ refIds nd.hi ++ want) := by
          rcases List.mem_cons.mp hk with e | hk
          · exact absurd e hpm
          · exact hk
        have := ih hrest _ p hp (by simpa only [List.contains_iff_mem] using hk')
        simp only [List.contains_iff_mem] at this
        exact ⟨fun n hn => List.mem_cons_of_mem _ (this.1 n hn), fun n hn => List.mem_cons_of_mem _ (this.2 n hn)⟩
      · rw [if_neg hc] at hk ⊢
        have := ih hrest _ p hp (by simpa only [List.contains_iff_mem] using hk)
        simpa only [List.contains_iff_mem] using this

/-- **the full sweep is admissible** in every well-formed session: admissible collections always exist -/
theorem sweepAll_ok (σ : Session) (h : SessOK σ) : HCmdOk σ (sweepAll σ) := by
  refine ⟨mark_closed σ.store.live h.1.wf _, fun r hr => ?_⟩
  cases r with
  | term b => trivial
  | id n =>
    simp only [RefKept, List.contains_iff_mem]
    exact mark_want _ _ n (List.mem_flatMap.mpr ⟨.id n, hr, by simp [refIds]⟩) (h.2 _ hr).1

#print axioms stepH_spec
#print axioms runH_ok
#print axioms sweepAll_ok
end PMC.BDD
