/-
  Tree-level facts about the remaining OBDD operations (`invert`, `restrict`, `support`, `build`, `printExp`) and the
  history-level invariant of the unique table.  `Ord`, `Reduced`, `canonical`, `apply_spec` are in PMC/Proofs/BDD.lean;
  `WF`, `RefIn`, `Store.Inv`, `treeOf_inj`, `mkNode_spec`, `gc_spec`, `Closed`, `RefKept` in PMC/Proofs/BDDStore.lean.
-/
import PMC.Proofs.BDDStore
namespace PMC.BDD
open BDD

/-! ### apply, packaged for the fuel the model uses -/

theorem applyOp_spec (op : Bool → Bool → Bool) (a b : BDD) (lb : Nat)
    (ha : Ord lb a) (hb : Ord lb b) (ra : Reduced a) (rb : Reduced b) :
    (∀ ρ, denote (applyOp op a b) ρ = op (denote a ρ) (denote b ρ)) ∧
    Ord lb (applyOp op a b) ∧ Reduced (applyOp op a b) := by
  unfold applyOp
  exact apply_spec op (size a + size b) a b lb (by omega) ha hb ra rb

/-! ### invert -/

theorem invert_spec (a : BDD) (lb : Nat) (ha : Ord lb a) (ra : Reduced a) :
    (∀ ρ, denote (invert a) ρ = !(denote a ρ)) ∧ Ord lb (invert a) ∧ Reduced (invert a) := by
  induction a generalizing lb with
  | leaf b => exact ⟨fun _ => rfl, trivial, trivial⟩
  | node v lo hi ihl ihh =>
    obtain ⟨h1, h2, h3⟩ := ha
    obtain ⟨d1, o1, r1⟩ := ihl (v+1) h2 ra.2.1
    obtain ⟨d2, o2, r2⟩ := ihh (v+1) h3 ra.2.2
    refine ⟨?_, ord_mk h1 o1 o2, reduced_mk r1 r2⟩
    intro ρ; simp only [invert, denote_mk, d1, d2, denote]; split_ifs <;> rfl

/-! ### restrict (cofactor) -/

theorem restrict_spec (x : Nat) (val : Bool) (a : BDD) (lb : Nat) (ha : Ord lb a) (ra : Reduced a) :
    (∀ ρ, denote (restrict x val a) ρ = denote a (fun y => if y = x then val else ρ y)) ∧
    Ord lb (restrict x val a) ∧ Reduced (restrict x val a) := by
  induction a generalizing lb with
  | leaf b => exact ⟨fun _ => rfl, trivial, trivial⟩
  | node v lo hi ihl ihh =>
    obtain ⟨h1, h2, h3⟩ := ha
    obtain ⟨d1, o1, r1⟩ := ihl (v+1) h2 ra.2.1
    obtain ⟨d2, o2, r2⟩ := ihh (v+1) h3 ra.2.2
    by_cases hv : v = x
    · subst hv
      cases val
      · simp only [restrict, if_true, denote]
        exact ⟨fun ρ => by simp [d1], o1.mono (by omega), r1⟩
      · simp only [restrict, if_true, denote]
        exact ⟨fun ρ => by simp [d2], o2.mono (by omega), r2⟩
    · simp only [restrict, if_neg hv]
      refine ⟨?_, ord_mk h1 o1 o2, reduced_mk r1 r2⟩
      intro ρ; simp only [denote_mk, d1, d2, denote, if_neg hv]

/-! ### support: in a reduced ordered diagram every variable that labels a node is essential, and conversely -/

/-- the function depends on variable `x` -/
def DependsOn (f : (Nat → Bool) → Bool) (x : Nat) : Prop :=
  ∃ ρ : Nat → Bool, f (fun y => if y = x then true else ρ y) ≠ f (fun y => if y = x then false else ρ y)

theorem denote_congr (a : BDD) (ρ ρ' : Nat → Bool) (h : ∀ y ∈ support a, ρ y = ρ' y) :
    denote a ρ = denote a ρ' := by
  induction a with
  | leaf b => rfl
  | node v lo hi ihl ihh =>
    simp only [support, List.mem_cons, List.mem_append] at h
    simp only [denote, h v (Or.inl rfl)]
    rw [ihl (fun y hy => h y (Or.inr (Or.inl hy))), ihh (fun y hy => h y (Or.inr (Or.inr hy)))]

theorem support_ge {lb : Nat} {a : BDD} (ha : Ord lb a) {x : Nat} (hx : x ∈ support a) : lb ≤ x := by
  induction a generalizing lb with
  | leaf b => simp [support] at hx
  | node v lo hi ihl ihh =>
    obtain ⟨h1, h2, h3⟩ := ha
    simp only [support, List.mem_cons, List.mem_append] at hx
    rcases hx with rfl | hx | hx
    · exact h1
    · have := ihl h2 hx; omega
    · have := ihh h3 hx; omega

theorem support_iff_dependsOn (a : BDD) (lb : Nat) (ha : Ord lb a) (ra : Reduced a) (x : Nat) :
    x ∈ support a ↔ DependsOn (denote a) x := by
  constructor
  · intro hx
    induction a generalizing lb with
    | leaf b => simp [support] at hx
    | node v lo hi ihl ihh =>
      obtain ⟨h1, h2, h3⟩ := ha
      obtain ⟨hne, rl, rh⟩ := ra
      simp only [support, List.mem_cons, List.mem_append] at hx
      have indep : ∀ (c : BDD), Ord (v+1) c → ∀ (b : Bool) (ρ : Nat → Bool),
          denote c (fun y => if y = v then b else ρ y) = denote c ρ := by
        intro c hc b ρ
        apply denote_congr
        intro y hy
        have := support_ge hc hy
        rw [if_neg (by omega)]
      rcases hx with rfl | hx | hx
      · have : ¬ ∀ ρ, denote lo ρ = denote hi ρ := fun h =>
          hne (canonical _ lo hi _ _ le_rfl h2 h3 rl rh h)
        push Not at this
        obtain ⟨ρ, hρ⟩ := this
        refine ⟨ρ, ?_⟩
        simp only [denote, if_true]
        rw [indep hi h3, indep lo h2]
        simpa using Ne.symm hρ
      · obtain ⟨ρ, hρ⟩ := ihl (v+1) h2 rl hx
        have hxv : v ≠ x := by have := support_ge h2 hx; omega
        refine ⟨fun y => if y = v then false else ρ y, ?_⟩
        simp only [denote, if_neg hxv]
        have e : ∀ b : Bool, (fun y => if y = x then b else if y = v then false else ρ y)
            = (fun y => if y = v then false else (fun y => if y = x then b else ρ y) y) := by
          intro b; funext y; grind
        simp only [if_true, Bool.false_eq_true, if_false]
        rw [e true, e false, indep lo h2, indep lo h2]
        exact hρ
      · obtain ⟨ρ, hρ⟩ := ihh (v+1) h3 rh hx
        have hxv : v ≠ x := by have := support_ge h3 hx; omega
        refine ⟨fun y => if y = v then true else ρ y, ?_⟩
        simp only [denote, if_neg hxv]
        have e : ∀ b : Bool, (fun y => if y = x then b else if y = v then true else ρ y)
            = (fun y => if y = v then true else (fun y => if y = x then b else ρ y) y) := by
          intro b; funext y; grind
        simp only [if_true]
        rw [e true, e false, indep hi h3, indep hi h3]
        exact hρ
  · rintro ⟨ρ, hρ⟩
    by_contra hx
    apply hρ
    apply denote_congr
    intro y hy
    have : y ≠ x := fun e => hx (e ▸ hy)
    simp [this]


/-! ### the expression builder (`parse_binary_expr`) -/

/-- all variables of `e` are positions < n, no missing name, no unsupported syntax -/
def BExp.ok : BExp → Bool
  | .const _ => true
  | .var (some _) => true
  | .var none => false
  | .not e => BExp.ok e
  | .band a b => BExp.ok a && BExp.ok b
  | .bor a b => BExp.ok a && BExp.ok b
  | .and es => okList es
  | .or es => okList es
  | .bad => false
where okList : List BExp → Bool
  | [] => true
  | e :: es => BExp.ok e && okList es

/-- a successful build denotes the expression, and is a reduced ordered diagram -/
theorem build_spec (e : BExp) (t : BDD) (h : build e = .ok t) :
    (∀ ρ, denote t ρ = evalB ρ e) ∧ Ord 0 t ∧ Reduced t := by
  revert t
  apply build.induct
    (motive_1 := fun acc es => ∀ t, Ord 0 acc → Reduced acc → build.buildAll acc es = .ok t →
      (∀ ρ, denote t ρ = (denote acc ρ && evalB.evalAll ρ es)) ∧ Ord 0 t ∧ Reduced t)
    (motive_2 := fun e => ∀ t, build e = .ok t → (∀ ρ, denote t ρ = evalB ρ e) ∧ Ord 0 t ∧ Reduced t)
    (motive_3 := fun acc es => ∀ t, Ord 0 acc → Reduced acc → build.buildAny acc es = .ok t →
      (∀ ρ, denote t ρ = (denote acc ρ || evalB.evalAny ρ es)) ∧ Ord 0 t ∧ Reduced t)
  · -- const
    intro b t h
    simp only [build, Except.ok.injEq] at h; subst h
    exact ⟨fun _ => rfl, trivial, trivial⟩
  · -- var (some i)
    intro i t h
    simp only [build, Except.ok.injEq] at h; subst h
    refine ⟨fun ρ => by simp [denote, evalB], ⟨Nat.zero_le _, trivial, trivial⟩, ⟨by simp, trivial, trivial⟩⟩
  · -- var none
    intro t h; simp [build] at h
  · -- not
    intro e ih t h
    rw [build] at h
    cases hb : build e with
    | error err => simp [hb, Except.map] at h
    | ok x =>
      simp only [hb, Except.map, Except.ok.injEq] at h; subst h
      obtain ⟨d, o, r⟩ := ih x hb
      obtain ⟨d', o', r'⟩ := invert_spec x 0 o r
      exact ⟨fun ρ => by rw [d', d, evalB], o', r'⟩
  · -- band
    intro a b iha ihb t h
    rw [build] at h
    cases hx : build a with
    | error err => simp [hx, bind, Except.bind] at h
    | ok x =>
      cases hy : build b with
      | error err => simp [hx, hy, bind, Except.bind] at h
      | ok y =>
        simp only [hx, hy, bind, Except.bind, pure, Except.pure, Except.ok.injEq] at h; subst h
        obtain ⟨d1, o1, r1⟩ := iha x hx
        obtain ⟨d2, o2, r2⟩ := ihb y hy
        obtain ⟨d, o, r⟩ := applyOp_spec (· && ·) x y 0 o1 o2 r1 r2
        exact ⟨fun ρ => by rw [band, d, d1, d2, evalB], o, r⟩
  · -- bor
    intro a b iha ihb t h
    rw [build] at h
    cases hx : build a with
    | error err => simp [hx, bind, Except.bind] at h
    | ok x =>
      cases hy : build b with
      | error err => simp [hx, hy, bind, Except.bind] at h
      | ok y =>
        simp only [hx, hy, bind, Except.bind, pure, Except.pure, Except.ok.injEq] at h; subst h
        obtain ⟨d1, o1, r1⟩ := iha x hx
        obtain ⟨d2, o2, r2⟩ := ihb y hy
        obtain ⟨d, o, r⟩ := applyOp_spec (· || ·) x y 0 o1 o2 r1 r2
        exact ⟨fun ρ => by rw [bor, d, d1, d2, evalB], o, r⟩
  · -- and
    intro es ih t h
    rw [build] at h
    obtain ⟨d, o, r⟩ := ih t trivial trivial h
    exact ⟨fun ρ => by rw [d, evalB]; simp [denote], o, r⟩
  · -- or
    intro es ih t h
    rw [build] at h
    obtain ⟨d, o, r⟩ := ih t trivial trivial h
    exact ⟨fun ρ => by rw [d, evalB]; simp [denote], o, r⟩
  · -- bad
    intro t h; simp [build] at h
  · -- buildAll []
    intro acc t o r h
    simp only [build.buildAll, Except.ok.injEq] at h; subst h
    exact ⟨fun ρ => by simp [evalB.evalAll], o, r⟩
  · -- buildAll (e :: es)
    intro acc e es ihe ihes t o r h
    rw [build.buildAll] at h
    cases hx : build e with
    | error err => simp [hx, bind, Except.bind] at h
    | ok x =>
      simp only [hx, bind, Except.bind] at h
      obtain ⟨d1, o1, r1⟩ := ihe x hx
      obtain ⟨d2, o2, r2⟩ := applyOp_spec (· && ·) acc x 0 o o1 r r1
      obtain ⟨d3, o3, r3⟩ := ihes x t o2 r2 h
      exact ⟨fun ρ => by rw [d3, band, d2, d1, evalB.evalAll, Bool.and_assoc], o3, r3⟩
  · -- buildAny []
    intro acc t o r h
    simp only [build.buildAny, Except.ok.injEq] at h; subst h
    exact ⟨fun ρ => by simp [evalB.evalAny], o, r⟩
  · -- buildAny (e :: es)
    intro acc e es ihe ihes t o r h
    rw [build.buildAny] at h
    cases hx : build e with
    | error err => simp [hx, bind, Except.bind] at h
    | ok x =>
      simp only [hx, bind, Except.bind] at h
      obtain ⟨d1, o1, r1⟩ := ihe x hx
      obtain ⟨d2, o2, r2⟩ := applyOp_spec (· || ·) acc x 0 o o1 r r1
      obtain ⟨d3, o3, r3⟩ := ihes x t o2 r2 h
      exact ⟨fun ρ => by rw [d3, bor, d2, d1, evalB.evalAny, Bool.or_assoc], o3, r3⟩

/-- building succeeds exactly on well-formed expressions -/
theorem build_ok_iff (e : BExp) : (∃ t, build e = .ok t) ↔ BExp.ok e = true := by
  apply build.induct
    (motive_1 := fun acc es => (∃ t, build.buildAll acc es = .ok t) ↔ BExp.ok.okList es = true)
    (motive_2 := fun e => (∃ t, build e = .ok t) ↔ BExp.ok e = true)
    (motive_3 := fun acc es => (∃ t, build.buildAny acc es = .ok t) ↔ BExp.ok.okList es = true)
  · intro b; simp [build, BExp.ok]
  · intro i; simp [build, BExp.ok]
  · simp [build, BExp.ok]
  · intro e ih
    rw [BExp.ok, ← ih, build]
    cases build e <;> simp [Except.map]
  · intro a b iha ihb
    rw [BExp.ok, Bool.and_eq_true, ← iha, ← ihb, build]
    cases build a <;> cases build b <;> simp [bind, Except.bind, pure, Except.pure]
  · intro a b iha ihb
    rw [BExp.ok, Bool.and_eq_true, ← iha, ← ihb, build]
    cases build a <;> cases build b <;> simp [bind, Except.bind, pure, Except.pure]
  · intro es ih; rw [BExp.ok, ← ih, build]
  · intro es ih; rw [BExp.ok, ← ih, build]
  · simp [build, BExp.ok]
  · intro acc; simp [build.buildAll, BExp.ok.okList]
  · intro acc e es ihe ihes
    rw [BExp.ok.okList, Bool.and_eq_true, ← ihe, build.buildAll]
    cases hx : build e with
    | error err => simp [bind, Except.bind]
    | ok x => simp [bind, Except.bind, ihes x]
  · intro acc; simp [build.buildAny, BExp.ok.okList]
  · intro acc e es ihe ihes
    rw [BExp.ok.okList, Bool.and_eq_true, ← ihe, build.buildAny]
    cases hx : build e with
    | error err => simp [bind, Except.bind]
    | ok x => simp [bind, Except.bind, ihes x]

/-! ### the printer -/

theorem evalB_prependAnd (ρ : Nat → Bool) (lit e : BExp) :
    evalB ρ (prependAnd lit e) = (evalB ρ lit && evalB ρ e) := by
  fun_induction prependAnd lit e with
  | case1 x y ih => simp [evalB, ih, Bool.and_assoc]
  | case2 e h => simp [evalB]

theorem ok_prependAnd (lit e : BExp) : BExp.ok (prependAnd lit e) = (BExp.ok lit && BExp.ok e) := by
  fun_induction prependAnd lit e with
  | case1 x y ih => simp [BExp.ok, ih, Bool.and_assoc]
  | case2 e h => simp [BExp.ok]

theorem evalB_expPart (ρ : Nat → Bool) (lit : BExp) (c : BDD) (ce : BExp) (h : evalB ρ ce = denote c ρ) :
    (expPart lit c ce).elim false (evalB ρ) = (evalB ρ lit && denote c ρ) := by
  cases c with
  | leaf b => cases b <;> simp [expPart, denote]
  | node v lo hi =>
    simp only [expPart]
    split <;> simp [evalB, evalB_prependAnd, h]

/-- the printed expression denotes the diagram's function -/
theorem printExp_denote (t : BDD) (ρ : Nat → Bool) : evalB ρ (printExp t) = denote t ρ := by
  induction t with
  | leaf b => rfl
  | node v lo hi ihl ihh =>
    rw [printExp]
    have h1 := evalB_expPart ρ (.not (.var (some v))) lo (printExp lo) ihl
    have h2 := evalB_expPart ρ (.var (some v)) hi (printExp hi) ihh
    generalize expPart (.not (.var (some v))) lo (printExp lo) = p1 at h1 ⊢
    generalize expPart (.var (some v)) hi (printExp hi) = p2 at h2 ⊢
    simp only [evalB] at h1 h2
    simp only [denote]
    cases hv : ρ v <;> rw [hv] at h1 h2 <;>
      simp only [Bool.not_true, Bool.not_false, Bool.true_and, Bool.false_and] at h1 h2 <;>
      cases p1 <;> cases p2 <;> simp only [Option.elim] at h1 h2 ⊢ <;> simp_all [evalB]

theorem ok_expPart (lit : BExp) (c : BDD) (ce : BExp) (hl : BExp.ok lit = true) (h : BExp.ok ce = true) :
    ∀ e, expPart lit c ce = some e → BExp.ok e = true := by
  intro e he
  cases c with
  | leaf b => cases b <;> simp [expPart] at he; subst he; exact hl
  | node v lo hi =>
    simp only [expPart, Option.some.injEq] at he
    subst he
    split <;> simp [BExp.ok, ok_prependAnd, hl, h]

theorem printExp_ok (t : BDD) : BExp.ok (printExp t) = true := by
  induction t with
  | leaf b => rfl
  | node v lo hi ihl ihh =>
    rw [printExp]
    have h1 := ok_expPart (.not (.var (some v))) lo (printExp lo) (by simp [BExp.ok]) ihl
    have h2 := ok_expPart (.var (some v)) hi (printExp hi) (by simp [BExp.ok]) ihh
    generalize expPart (.not (.var (some v))) lo (printExp lo) = p1 at h1 ⊢
    generalize expPart (.var (some v)) hi (printExp hi) = p2 at h2 ⊢
    cases p1 <;> cases p2 <;> simp_all [BExp.ok]

/-- printing then parsing gives back the same diagram -/
theorem build_printExp (t : BDD) (ho : Ord 0 t) (hr : Reduced t) : build (printExp t) = .ok t := by
  obtain ⟨t', ht'⟩ := (build_ok_iff _).2 (printExp_ok t)
  obtain ⟨d, o, r⟩ := build_spec _ _ ht'
  rw [ht']; congr 1
  exact canonical _ t' t 0 0 le_rfl o ho r hr (fun ρ => by rw [d, printExp_denote])

/-! ### histories over the unique table -/

/-- an operation is admissible in a store: `mk` takes usable references; `gc` keeps a set closed under children
    (a parent holds strong references to its children, so a live parent keeps them alive) -/
def OpOk (s : Store) : Op → Prop
  | .mk _ lo hi => RefIn s.live lo ∧ RefIn s.live hi
  | .gc keep => Closed s.live (fun n => keep.contains n)

/-- a history all of whose operations are admissible when they are executed -/
def HistOk : Store → List Op → Prop
  | _, [] => True
  | s, op :: ops => OpOk s op ∧ HistOk (stepOp s op) ops

def emptyStore : Store := ⟨[], 0⟩

theorem empty_inv : emptyStore.Inv :=
  ⟨trivial, by simp [Store.ids, emptyStore]⟩

theorem stepOp_inv (s : Store) (hs : s.Inv) (op : Op) (hop : OpOk s op) : (stepOp s op).Inv := by
  cases op with
  | mk v lo hi => exact (mkNode_spec s hs v lo hi hop.1 hop.2).1
  | gc keep =>
    refine ⟨(gc_spec _ _ hs.wf hop).1, ?_⟩
    intro n hn
    simp only [stepOp, gc, Store.ids] at hn ⊢
    obtain ⟨q, hq, rfl⟩ := List.mem_map.mp hn
    exact hs.fresh _ (List.mem_map.mpr ⟨q, (List.mem_filter.mp hq).1, rfl⟩)

theorem history_inv_gen : ∀ (ops : List Op) (s : Store), s.Inv → HistOk s ops → (ops.foldl stepOp s).Inv
  | [], _, hs, _ => hs
  | op :: ops, s, hs, h => history_inv_gen ops (stepOp s op) (stepOp_inv s hs op h.1) h.2

/-- **every reachable store satisfies the unique-table invariant** -/
theorem history_inv (ops : List Op) (h : HistOk emptyStore ops) : (ops.foldl stepOp emptyStore).Inv :=
  history_inv_gen ops emptyStore empty_inv h

theorem wf_no_duplicate : ∀ {l : List (Nat × Nd)}, WF l → ∀ {p q : Nat × Nd}, p ∈ l → q ∈ l → p.2 = q.2 → p = q := by
  intro l
  induction l with
  | nil => intro _ p q hp; cases hp
  | cons hd rest ih =>
    obtain ⟨m, nd⟩ := hd
    intro hwf p q hp hq h
    obtain ⟨hm, hlo, hhi, hne, huniq, hrest⟩ := hwf
    rcases List.mem_cons.mp hp with rfl | hp <;> rcases List.mem_cons.mp hq with rfl | hq
    · rfl
    · exact absurd h.symm (huniq q hq)
    · exact absurd h (huniq p hp)
    · exact ih hrest hp hq h

/-- under the invariant no two live nodes share a (variable, low, high) triple -/
theorem no_duplicate_triple (s : Store) (hs : s.Inv) (p q : Nat × Nd) (hp : p ∈ s.live) (hq : q ∈ s.live)
    (h : p.2 = q.2) : p = q :=
  wf_no_duplicate hs.wf hp hq h

/-- interning a tree (what parsing / apply / restrict / invert amount to) keeps the invariant and returns a usable
    reference that unfolds to the tree -/
theorem intern_spec (s : Store) (hs : s.Inv) (t : BDD) (hr : Reduced t) :
    (intern s t).2.Inv ∧ RefIn (intern s t).2.live (intern s t).1 ∧
    treeOf (intern s t).2.live (intern s t).1 = t ∧
    (∀ r0, RefIn s.live r0 → RefIn (intern s t).2.live r0 ∧ treeOf (intern s t).2.live r0 = treeOf s.live r0) := by
  induction t generalizing s with
  | leaf b => exact ⟨hs, trivial, by simp [intern, treeOf], fun r0 h0 => ⟨h0, rfl⟩⟩
  | node v lo hi ihl ihh =>
    obtain ⟨hne, rl, rh⟩ := hr
    obtain ⟨inv1, in1, t1, pres1⟩ := ihl s hs rl
    obtain ⟨inv2, in2, t2, pres2⟩ := ihh (intern s lo).2 inv1 rh
    obtain ⟨in1', t1'⟩ := pres2 _ in1
    obtain ⟨inv3, in3, pres3, t3⟩ := mkNode_spec (intern (intern s lo).2 hi).2 inv2 v (intern s lo).1
      (intern (intern s lo).2 hi).1 in1' in2
    simp only [intern]
    refine ⟨inv3, in3, ?_, ?_⟩
    · rw [t3, t1', t1, t2, mk, if_neg hne]
    · intro r0 h0
      obtain ⟨a1, b1⟩ := pres1 r0 h0
      obtain ⟨a2, b2⟩ := pres2 r0 a1
      obtain ⟨a3, b3⟩ := pres3 r0 a2
      exact ⟨a3, by rw [b3, b2, b1]⟩

#print axioms history_inv
#print axioms build_printExp
end PMC.BDD
