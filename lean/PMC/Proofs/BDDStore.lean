import PMC.Proofs.BDD

/- Spike: hash-consed node store with garbage collection (C16): the unique-table invariant is preserved by
   node creation and by every admissible collection, and under it reference equality = tree equality. -/
namespace PMC.BDD

/-- a reference is usable in `l`: terminal or the id of a listed node -/
def RefIn (l : List (Nat × Nd)) : Ref → Prop
  | .term _ => True
  | .id n => n ∈ l.map Prod.fst

/-- well-formed list: distinct ids, children usable in the older part, `lo ≠ hi`, no duplicate triple -/
def WF : List (Nat × Nd) → Prop
  | [] => True
  | (m, nd) :: rest =>
    m ∉ rest.map Prod.fst ∧ RefIn rest nd.lo ∧ RefIn rest nd.hi ∧ nd.lo ≠ nd.hi ∧
    (∀ p ∈ rest, p.2 ≠ nd) ∧ WF rest

structure Store.Inv (s : Store) : Prop where
  wf : WF s.live
  fresh : ∀ n ∈ s.ids, n < s.nextId

theorem treeOf_cons_of_refIn {m : Nat} {nd : Nd} {rest : List (Nat × Nd)} (hm : m ∉ rest.map Prod.fst)
    {r : Ref} (hr : RefIn rest r) : treeOf ((m, nd) :: rest) r = treeOf rest r := by
  cases r with
  | term b => cases rest <;> rfl
  | id n =>
    have : n ≠ m := fun h => hm (h ▸ hr)
    simp [treeOf, this]

theorem refIn_cons {p : Nat × Nd} {rest : List (Nat × Nd)} {r : Ref} (h : RefIn rest r) : RefIn (p :: rest) r := by
  cases r with
  | term b => trivial
  | id j => simp only [RefIn, List.map_cons, List.mem_cons]; exact Or.inr h

theorem wf_children : ∀ {l : List (Nat × Nd)}, WF l → ∀ {n : Nat} {nd : Nd}, (n, nd) ∈ l →
    RefIn l nd.lo ∧ RefIn l nd.hi := by
  intro l
  induction l with
  | nil => intro _ n nd h; cases h
  | cons p rest ih =>
    obtain ⟨m, md⟩ := p
    intro hwf n nd h
    obtain ⟨hm, hlo, hhi, hne, huniq, hrest⟩ := hwf
    rcases List.mem_cons.mp h with h | h
    · injection h with h1 h2; subst h1; subst h2
      exact ⟨refIn_cons hlo, refIn_cons hhi⟩
    · obtain ⟨h1, h2⟩ := ih hrest h
      exact ⟨refIn_cons h1, refIn_cons h2⟩

theorem treeOf_entry : ∀ {l : List (Nat × Nd)}, WF l → ∀ {n : Nat} {nd : Nd}, (n, nd) ∈ l →
    treeOf l (.id n) = .node nd.var (treeOf l nd.lo) (treeOf l nd.hi) := by
  intro l
  induction l with
  | nil => intro _ n nd h; cases h
  | cons p rest ih =>
    obtain ⟨m, md⟩ := p
    intro hwf n nd h
    obtain ⟨hm, hlo, hhi, hne, huniq, hrest⟩ := hwf
    rcases List.mem_cons.mp h with h | h
    · injection h with h1 h2; subst h1; subst h2
      rw [treeOf_cons_of_refIn hm hlo, treeOf_cons_of_refIn hm hhi]
      simp [treeOf]
    · have hn : n ∈ rest.map Prod.fst := List.mem_map.mpr ⟨(n, nd), h, rfl⟩
      have hnm : n ≠ m := fun e => hm (e ▸ hn)
      obtain ⟨c1, c2⟩ := wf_children hrest h
      rw [treeOf_cons_of_refIn hm c1, treeOf_cons_of_refIn hm c2, ← ih hrest h]
      simp [treeOf, hnm]

/-- **unique table ⇒ identity is structure**: under `WF`, two usable references that unfold to the same tree
are the same reference. -/
theorem treeOf_inj : ∀ (l : List (Nat × Nd)), WF l → ∀ r1 r2, RefIn l r1 → RefIn l r2 →
    treeOf l r1 = treeOf l r2 → r1 = r2 := by
  intro l
  induction l with
  | nil =>
    intro _ r1 r2 h1 h2 e
    cases r1 <;> cases r2 <;> simp_all [RefIn, treeOf]
  | cons p rest ih =>
    obtain ⟨m, nd⟩ := p
    intro hwf r1 r2 h1 h2 e
    have hwf' := hwf
    obtain ⟨hm, hlo, hhi, hne, huniq, hrest⟩ := hwf
    have ihr := ih hrest
    -- a reference other than `id m` is usable in `rest`
    have older : ∀ r, RefIn ((m, nd) :: rest) r → r ≠ .id m → RefIn rest r := by
      intro r hr hne'
      cases r with
      | term b => trivial
      | id j =>
        simp only [RefIn, List.map_cons, List.mem_cons] at hr
        rcases hr with rfl | hr
        · exact absurd rfl hne'
        · exact hr
    -- the head node's tree differs from every older reference's tree
    have headNe : ∀ r, RefIn rest r → treeOf ((m, nd) :: rest) (.id m) ≠ treeOf rest r := by
      intro r hr heq
      have hhead : treeOf ((m, nd) :: rest) (.id m) = .node nd.var (treeOf rest nd.lo) (treeOf rest nd.hi) := by
        simp [treeOf]
      rw [hhead] at heq
      cases r with
      | term b => cases rest <;> simp [treeOf] at heq
      | id j =>
        obtain ⟨⟨j', jd⟩, hj, hj'⟩ := List.mem_map.mp hr
        simp only at hj'; subst hj'
        rw [treeOf_entry hrest hj] at heq
        injection heq with hv hl hh
        obtain ⟨c1, c2⟩ := wf_children hrest hj
        have e1 := ihr _ _ hlo c1 hl
        have e2 := ihr _ _ hhi c2 hh
        have : jd = nd := by cases jd; cases nd; simp_all
        exact huniq _ hj this
    by_cases e1 : r1 = .id m <;> by_cases e2 : r2 = .id m
    · rw [e1, e2]
    · subst e1
      have h2' := older r2 h2 e2
      rw [treeOf_cons_of_refIn hm h2'] at e
      exact absurd e (headNe r2 h2')
    · subst e2
      have h1' := older r1 h1 e1
      rw [treeOf_cons_of_refIn hm h1'] at e
      exact absurd e.symm (headNe r1 h1')
    · have h1' := older r1 h1 e1
      have h2' := older r2 h2 e2
      rw [treeOf_cons_of_refIn hm h1', treeOf_cons_of_refIn hm h2'] at e
      exact ihr r1 r2 h1' h2' e

/-! ### node creation (`BDDNonTerminalNode.__new__`) -/

theorem findIso_some {l : List (Nat × Nd)} {v : Nat} {lo hi : Ref} {n : Nat}
    (h : findIso l v lo hi = some n) : (n, (⟨v, lo, hi⟩ : Nd)) ∈ l := by
  unfold findIso at h
  split_ifs at h
  · obtain ⟨p, hp, rfl⟩ := Option.map_eq_some_iff.mp h
    have h1 := List.find?_some hp
    have h2 := List.mem_of_find?_eq_some hp
    simp only [fLow, List.mem_filter, decide_eq_true_eq] at h1 h2
    obtain ⟨k, ⟨a, b, c⟩⟩ := p
    simp only at h1 h2 ⊢
    obtain ⟨rfl, rfl⟩ := h1
    obtain ⟨h2a, rfl⟩ := h2
    exact h2a
  · obtain ⟨p, hp, rfl⟩ := Option.map_eq_some_iff.mp h
    have h1 := List.find?_some hp
    have h2 := List.mem_of_find?_eq_some hp
    simp only [fHigh, List.mem_filter, decide_eq_true_eq] at h1 h2
    obtain ⟨k, ⟨a, b, c⟩⟩ := p
    simp only at h1 h2 ⊢
    obtain ⟨rfl, rfl⟩ := h1
    obtain ⟨h2a, rfl⟩ := h2
    exact h2a

theorem findIso_none {l : List (Nat × Nd)} {v : Nat} {lo hi : Ref}
    (h : findIso l v lo hi = none) : ∀ p ∈ l, p.2 ≠ (⟨v, lo, hi⟩ : Nd) := by
  intro p hp heq
  unfold findIso at h
  split_ifs at h
  · rw [Option.map_eq_none_iff, List.find?_eq_none] at h
    have := h p (by simp [fLow, hp, heq])
    simp [heq] at this
  · rw [Option.map_eq_none_iff, List.find?_eq_none] at h
    have := h p (by simp [fHigh, hp, heq])
    simp [heq] at this

/-- creating a node keeps the invariant, returns a usable reference, and the reference unfolds to `mk` -/
theorem mkNode_spec (s : Store) (hs : s.Inv) (v : Nat) (lo hi : Ref)
    (hlo : RefIn s.live lo) (hhi : RefIn s.live hi) :
    let r := (mkNode s v lo hi).1
    let s' := (mkNode s v lo hi).2
    s'.Inv ∧ RefIn s'.live r ∧
    (∀ r0, RefIn s.live r0 → RefIn s'.live r0 ∧ treeOf s'.live r0 = treeOf s.live r0) ∧
    treeOf s'.live r = mk v (treeOf s.live lo) (treeOf s.live hi) := by
  unfold mkNode
  by_cases heq : lo = hi
  · subst heq
    rw [if_pos rfl]
    exact ⟨hs, hlo, fun r0 h0 => ⟨h0, rfl⟩, by simp [mk]⟩
  · simp only [heq, if_false]
    have hne_tree : treeOf s.live lo ≠ treeOf s.live hi := fun e => heq (treeOf_inj _ hs.wf _ _ hlo hhi e)
    cases hfi : findIso s.live v lo hi with
    | some n =>
      have hmem := findIso_some hfi
      refine ⟨hs, List.mem_map.mpr ⟨_, hmem, rfl⟩, fun r0 h0 => ⟨h0, rfl⟩, ?_⟩
      simp only [mk, hne_tree, if_false]
      exact treeOf_entry hs.wf hmem
    | none =>
      have huniq := findIso_none hfi
      have hfresh : s.nextId ∉ s.live.map Prod.fst := fun h => absurd (hs.fresh _ h) (lt_irrefl _)
      refine ⟨⟨⟨hfresh, hlo, hhi, heq, huniq, hs.wf⟩, ?_⟩, ?_, ?_, ?_⟩
      · intro n hn
        simp only [Store.ids, List.map_cons, List.mem_cons] at hn
        rcases hn with rfl | hn
        · exact Nat.lt_succ_self _
        · exact Nat.lt_succ_of_lt (hs.fresh n hn)
      · simp [RefIn]
      · intro r0 h0; exact ⟨refIn_cons h0, treeOf_cons_of_refIn hfresh h0⟩
      · simp only [mk, hne_tree, if_false, treeOf, if_true]

/-! ### garbage collection -/

/-- admissible collections: a kept node keeps its children (a parent holds strong references) -/
def Closed (l : List (Nat × Nd)) (keep : Nat → Bool) : Prop :=
  ∀ p ∈ l, keep p.1 = true → (∀ n, p.2.lo = .id n → keep n = true) ∧ (∀ n, p.2.hi = .id n → keep n = true)

def RefKept (keep : Nat → Bool) : Ref → Prop
  | .term _ => True
  | .id n => keep n = true

theorem gc_spec : ∀ (l : List (Nat × Nd)) (keep : Nat → Bool), WF l → Closed l keep →
    WF (l.filter (fun p => keep p.1)) ∧
    ∀ r, RefIn l r → RefKept keep r →
      RefIn (l.filter (fun p => keep p.1)) r ∧ treeOf (l.filter (fun p => keep p.1)) r = treeOf l r := by
  intro l keep
  induction l with
  | nil => intro _ _; exact ⟨trivial, fun r h _ => ⟨h, rfl⟩⟩
  | cons p rest ih =>
    obtain ⟨m, nd⟩ := p
    intro hwf hcl
    obtain ⟨hm, hlo, hhi, hne, huniq, hrest⟩ := hwf
    have hcl' : Closed rest keep := fun p hp => hcl p (List.mem_cons_of_mem _ hp)
    obtain ⟨ihwf, ihr⟩ := ih hrest hcl'
    have notin : m ∉ (rest.filter (fun p => keep p.1)).map Prod.fst := by
      intro h
      obtain ⟨q, hq, hq'⟩ := List.mem_map.mp h
      exact hm (List.mem_map.mpr ⟨q, (List.mem_filter.mp hq).1, hq'⟩)
    by_cases hk : keep m = true
    · have hkept := hcl (m, nd) (by simp) hk
      have klo : RefKept keep nd.lo := by cases h : nd.lo with
        | term b => trivial
        | id n => exact hkept.1 n h
      have khi : RefKept keep nd.hi := by cases h : nd.hi with
        | term b => trivial
        | id n => exact hkept.2 n h
      obtain ⟨rlo, tlo⟩ := ihr nd.lo hlo klo
      obtain ⟨rhi, thi⟩ := ihr nd.hi hhi khi
      have hfil : ((m, nd) :: rest).filter (fun p => keep p.1) = (m, nd) :: rest.filter (fun p => keep p.1) := by
        simp [List.filter, hk]
      rw [hfil]
      refine ⟨⟨notin, rlo, rhi, hne, fun q hq => huniq q (List.mem_filter.mp hq).1, ihwf⟩, ?_⟩
      intro r hr hkr
      cases r with
      | term b => exact ⟨trivial, by cases rest.filter (fun p => keep p.1) <;> cases rest <;> rfl⟩
      | id n =>
        by_cases hnm : n = m
        · subst hnm
          refine ⟨by simp [RefIn], ?_⟩
          simp [treeOf, tlo, thi]
        · have hr' : RefIn rest (.id n) := by
            simp only [RefIn, List.map_cons, List.mem_cons] at hr
            rcases hr with h | h
            · exact absurd h hnm
            · exact h
          obtain ⟨r1, t1⟩ := ihr (.id n) hr' hkr
          refine ⟨refIn_cons r1, ?_⟩
          simp [treeOf, hnm, t1]
    · have hfil : ((m, nd) :: rest).filter (fun p => keep p.1) = rest.filter (fun p => keep p.1) := by
        simp [List.filter, hk]
      rw [hfil]
      refine ⟨ihwf, ?_⟩
      intro r hr hkr
      cases r with
      | term b => exact ⟨trivial, by cases rest.filter (fun p => keep p.1) <;> cases rest <;> rfl⟩
      | id n =>
        have hnm : n ≠ m := by
          intro e; subst e; exact hk hkr
        have hr' : RefIn rest (.id n) := by
          simp only [RefIn, List.map_cons, List.mem_cons] at hr
          rcases hr with h | h
          · exact absurd h hnm
          · exact h
        obtain ⟨r1, t1⟩ := ihr (.id n) hr' hkr
        exact ⟨r1, by simp [treeOf, hnm, t1]⟩

#print axioms treeOf_inj
#print axioms mkNode_spec
#print axioms gc_spec
end PMC.BDD
