/-
  The link between the tree-level BDD algorithms (`apply`, `restrict`, `invert`) and their store-passing,
  cache-passing versions (`applyS`, `restrictS`, `invertS` of PMC/Model/BDDStoreOps.lean), which follow the Python
  code: they run on the shared unique table through `mkNode` and thread the memo cache `r_cache`.

  Route: the tree-level `apply` is fuel-independent above the size bound (`apply_fuel`), so the result of `applyS` is
  characterised *structurally*: `treeOf s'.live r = applyOp op (treeOf s.live a) (treeOf s.live b)` — no `Ord` /
  `Reduced` hypothesis and no appeal to `canonical` is needed for the store-level specifications.  Canonicity enters
  only in the final corollaries (reference equality = equality of denoted functions).
-/
import PMC.Proofs.BDDOps
import PMC.Model.BDDStoreOps
namespace PMC.BDD
open BDD

/-! ### tree level: fuel independence of `apply` and the unfolding equations of `applyOp` -/

theorem size_pos (t : BDD) : 1 ≤ size t := by cases t <;> simp [size]

theorem apply_fuel (op : Bool → Bool → Bool) : ∀ (n m : Nat) (a b : BDD),
    size a + size b ≤ n + 1 → size a + size b ≤ m + 1 → apply op n a b = apply op m a b := by
  intro n
  induction n with
  | zero => intro m a b h; have := size_pos a; have := size_pos b; omega
  | succ n ih =>
    intro m a b hn hm
    cases m with
    | zero => have := size_pos a; have := size_pos b; omega
    | succ m =>
      cases a with
      | leaf x =>
        cases b with
        | leaf y => rfl
        | node v lo hi =>
          simp only [size] at hn hm
          simp only [apply]
          rw [ih m (leaf x) lo (by simp only [size]; omega) (by simp only [size]; omega),
            ih m (leaf x) hi (by simp only [size]; omega) (by simp only [size]; omega)]
      | node v1 lo1 hi1 =>
        cases b with
        | leaf y =>
          simp only [size] at hn hm
          simp only [apply]
          rw [ih m lo1 (leaf y) (by simp only [size]; omega) (by simp only [size]; omega),
            ih m hi1 (leaf y) (by simp only [size]; omega) (by simp only [size]; omega)]
        | node v2 lo2 hi2 =>
          simp only [size] at hn hm
          simp only [apply]
          rw [ih m lo1 (node v2 lo2 hi2) (by simp only [size]; omega) (by simp only [size]; omega),
            ih m hi1 (node v2 lo2 hi2) (by simp only [size]; omega) (by simp only [size]; omega),
            ih m lo1 lo2 (by omega) (by omega), ih m hi1 hi2 (by omega) (by omega),
            ih m (node v1 lo1 hi1) lo2 (by simp only [size]; omega) (by simp only [size]; omega),
            ih m (node v1 lo1 hi1) hi2 (by simp only [size]; omega) (by simp only [size]; omega)]

/-- above the size bound the fuel is irrelevant: `apply` computes `applyOp` -/
theorem apply_eq_applyOp (op : Bool → Bool → Bool) (n : Nat) (a b : BDD) (h : size a + size b ≤ n + 1) :
    apply op n a b = applyOp op a b :=
  apply_fuel op n (size a + size b) a b h (by omega)

theorem applyOp_leaf_leaf (op : Bool → Bool → Bool) (x y : Bool) : applyOp op (leaf x) (leaf y) = leaf (op x y) := rfl

theorem applyOp_leaf_node (op : Bool → Bool → Bool) (x : Bool) (v : Nat) (lo hi : BDD) :
    applyOp op (leaf x) (node v lo hi) = mk v (applyOp op (leaf x) lo) (applyOp op (leaf x) hi) := by
  rw [applyOp]
  simp only [size]
  rw [show 1 + (size lo + size hi + 1) = (size lo + size hi + 1) + 1 by omega]
  simp only [apply]
  rw [apply_eq_applyOp _ _ _ _ (by simp only [size]; omega), apply_eq_applyOp _ _ _ _ (by simp only [size]; omega)]

theorem applyOp_node_leaf (op : Bool → Bool → Bool) (y : Bool) (v : Nat) (lo hi : BDD) :
    applyOp op (node v lo hi) (leaf y) = mk v (applyOp op lo (leaf y)) (applyOp op hi (leaf y)) := by
  rw [applyOp]
  simp only [size, apply]
  rw [apply_eq_applyOp _ _ _ _ (by simp only [size]; omega), apply_eq_applyOp _ _ _ _ (by simp only [size]; omega)]

theorem applyOp_node_node (op : Bool → Bool → Bool) (v1 v2 : Nat) (lo1 hi1 lo2 hi2 : BDD) :
    applyOp op (node v1 lo1 hi1) (node v2 lo2 hi2) =
      if v1 < v2 then mk v1 (applyOp op lo1 (node v2 lo2 hi2)) (applyOp op hi1 (node v2 lo2 hi2))
      else if v1 = v2 then mk v1 (applyOp op lo1 lo2) (applyOp op hi1 hi2)
      else mk v2 (applyOp op (node v1 lo1 hi1) lo2) (applyOp op (node v1 lo1 hi1) hi2) := by
  rw [applyOp]
  simp only [size]
  rw [show size lo1 + size hi1 + 1 + (size lo2 + size hi2 + 1) = (size lo1 + size hi1 + size lo2 + size hi2 + 1) + 1
    by omega]
  simp only [apply]
  rw [apply_eq_applyOp _ _ _ _ (by simp only [size]; omega), apply_eq_applyOp _ _ _ _ (by simp only [size]; omega),
    apply_eq_applyOp _ _ _ _ (by omega), apply_eq_applyOp _ _ _ _ (by omega),
    apply_eq_applyOp _ _ _ _ (by simp only [size]; omega), apply_eq_applyOp _ _ _ _ (by simp only [size]; omega)]

/-! ### store level: extension, reading a node -/

/-- `s'` extends `s`: every reference usable in `s` is usable in `s'` and unfolds to the same tree -/
def Ext (s s' : Store) : Prop :=
  ∀ r0, RefIn s.live r0 → RefIn s'.live r0 ∧ treeOf s'.live r0 = treeOf s.live r0

theorem Ext.refl (s : Store) : Ext s s := fun _ h => ⟨h, rfl⟩

theorem Ext.trans {s1 s2 s3 : Store} (h12 : Ext s1 s2) (h23 : Ext s2 s3) : Ext s1 s3 := by
  intro r0 h0
  obtain ⟨a, b⟩ := h12 r0 h0
  obtain ⟨c, d⟩ := h23 r0 a
  exact ⟨c, d.trans b⟩

@[simp] theorem treeOf_term (l : List (Nat × Nd)) (b : Bool) : treeOf l (.term b) = leaf b := by
  cases l <;> rfl

theorem lookup_mem' {α β : Type} [BEq α] [LawfulBEq α] : ∀ {l : List (α × β)} {k : α} {v : β},
    l.lookup k = some v → (k, v) ∈ l := by
  intro l
  induction l with
  | nil => intro k v h; simp [List.lookup] at h
  | cons p rest ih =>
    obtain ⟨k', v'⟩ := p
    intro k v h
    simp only [List.lookup] at h
    split at h
    · rename_i heq
      have : k = k' := by simpa using heq
      simp only [Option.some.injEq] at h
      subst this; subst h
      exact List.mem_cons_self
    · exact List.mem_cons_of_mem _ (ih h)

theorem lookup_isSome_of_mem {l : List (Nat × Nd)} {n : Nat} (h : n ∈ l.map Prod.fst) :
    ∃ nd, l.lookup n = some nd := by
  induction l with
  | nil => simp at h
  | cons p rest ih =>
    obtain ⟨k', v'⟩ := p
    simp only [List.lookup]
    by_cases hk : n = k'
    · subst hk; exact ⟨v', by simp⟩
    · simp only [List.map_cons, List.mem_cons] at h
      rcases h with h | h
      · exact absurd h hk
      · obtain ⟨nd, hnd⟩ := ih h
        refine ⟨nd, ?_⟩
        have : (n == k') = false := by simpa using hk
        simp only [this]; exact hnd

theorem view_term_inv {s : Store} {r : Ref} {b : Bool} (h : view s r = .term b) : r = .term b := by
  cases r with
  | term c => simpa [view] using h
  | id n => simp only [view] at h; split at h <;> cases h

theorem view_node_inv {s : Store} (hs : s.Inv) {r : Ref} {v : Nat} {lo hi : Ref} (h : view s r = .node v lo hi) :
    RefIn s.live lo ∧ RefIn s.live hi ∧ treeOf s.live r = node v (treeOf s.live lo) (treeOf s.live hi) ∧
    ∃ n, r = .id n ∧ (n, (⟨v, lo, hi⟩ : Nd)) ∈ s.live := by
  cases r with
  | term c => simp [view] at h
  | id n =>
    simp only [view] at h
    split at h
    · rename_i nd hnd
      injection h with h1 h2 h3
      have hmem := lookup_mem' hnd
      obtain ⟨c1, c2⟩ := wf_children hs.wf hmem
      have ht := treeOf_entry hs.wf hmem
      subst h1 h2 h3
      exact ⟨c1, c2, ht, n, rfl, hmem⟩
    · cases h

theorem view_not_dangling {s : Store} {r : Ref} (hr : RefIn s.live r) : view s r ≠ .dangling := by
  cases r with
  | term c => simp [view]
  | id n =>
    obtain ⟨nd, hnd⟩ := lookup_isSome_of_mem hr
    simp [view, hnd]

/-! ### generic memoisation framework

A memoised store-passing function takes a key `k : A` (one reference for `restrict` / `~`, a pair for `apply`).
`KeyOK s k`: the references in the key are usable; `sem s k`: the tree the result must unfold to.  Both are
`Stable`: they survive store extension.  `MemoOK`: every cache entry is correct for the current store. -/

section Memo
variable {A : Type} (KeyOK : Store → A → Prop) (sem : Store → A → BDD)

def MemoOK (s : Store) (c : List (A × Ref)) : Prop :=
  ∀ p ∈ c, KeyOK s p.1 ∧ RefIn s.live p.2 ∧ treeOf s.live p.2 = sem s p.1

def Stable : Prop := ∀ s s' k, Ext s s' → KeyOK s k → KeyOK s' k ∧ sem s' k = sem s k

/-- the specification of one memoised call on key `k` from store `s`, with result `(reference, store, cache)` -/
structure Post (s : Store) (k : A) (res : Ref × Store × List (A × Ref)) : Prop where
  inv : res.2.1.Inv
  ext : Ext s res.2.1
  refIn : RefIn res.2.1.live res.1
  tree : treeOf res.2.1.live res.1 = sem s k
  cache : MemoOK KeyOK sem res.2.1 res.2.2

variable {KeyOK sem}

theorem MemoOK.mono (hst : Stable KeyOK sem) {s s' : Store} {c : List (A × Ref)} (he : Ext s s')
    (hc : MemoOK KeyOK sem s c) : MemoOK KeyOK sem s' c := by
  intro p hp
  obtain ⟨h1, h2, h3⟩ := hc p hp
  obtain ⟨k1, k2⟩ := hst s s' p.1 he h1
  obtain ⟨r1, r2⟩ := he p.2 h2
  exact ⟨k1, r1, by rw [r2, h3, k2]⟩

theorem memoOK_nil (s : Store) : MemoOK KeyOK sem s ([] : List (A × Ref)) := fun p hp => by cases hp

/-- cache hit -/
theorem post_hit [BEq A] [LawfulBEq A] {s : Store} {c : List (A × Ref)} {k : A} {r : Ref} (hs : s.Inv)
    (hc : MemoOK KeyOK sem s c) (h : c.lookup k = some r) : Post KeyOK sem s k (r, s, c) := by
  obtain ⟨_, h2, h3⟩ := hc _ (lookup_mem' h)
  exact ⟨hs, Ext.refl s, h2, h3, hc⟩

/-- storing the computed result in the cache -/
theorem post_insert (hst : Stable KeyOK sem) {s : Store} {k : A} {res : Ref × Store × List (A × Ref)}
    (hk : KeyOK s k) (h : Post KeyOK sem s k res) :
    Post KeyOK sem s k (res.1, res.2.1, (k, res.1) :: res.2.2) := by
  refine ⟨h.inv, h.ext, h.refIn, h.tree, ?_⟩
  intro p hp
  rcases List.mem_cons.mp hp with rfl | hp
  · obtain ⟨k1, k2⟩ := hst _ _ k h.ext hk
    exact ⟨k1, h.refIn, by rw [h.tree, k2]⟩
  · exact h.cache p hp

/-- the result for another key with the same target tree -/
theorem Post.retarget {s : Store} {k k' : A} {res : Ref × Store × List (A × Ref)} (h : Post KeyOK sem s k' res)
    (e : sem s k' = sem s k) : Post KeyOK sem s k res :=
  ⟨h.inv, h.ext, h.refIn, h.tree.trans e, h.cache⟩

/-- low call, high call, `mkNode`: the result unfolds to `mk v (low result) (high result)` -/
theorem post_expandWith (hst : Stable KeyOK sem) (rec : Store → List (A × Ref) → A → Ref × Store × List (A × Ref))
    (s : Store) (c : List (A × Ref)) (v : Nat) (k0 k1 k : A)
    (h0 : ∀ s' c', Ext s s' → s'.Inv → MemoOK KeyOK sem s' c' → Post KeyOK sem s' k0 (rec s' c' k0))
    (h1 : ∀ s' c', Ext s s' → s'.Inv → MemoOK KeyOK sem s' c' → Post KeyOK sem s' k1 (rec s' c' k1))
    (hs : s.Inv) (hc : MemoOK KeyOK sem s c) (hk1 : KeyOK s k1)
    (hk : sem s k = mk v (sem s k0) (sem s k1)) :
    Post KeyOK sem s k (expandWith rec s c v k0 k1) := by
  have P0 := h0 s c (Ext.refl s) hs hc
  have P1 := h1 _ _ P0.ext P0.inv P0.cache
  obtain ⟨_, e1⟩ := hst _ _ k1 P0.ext hk1
  obtain ⟨in0, t0⟩ := P1.ext _ P0.refIn
  obtain ⟨inv3, in3, ext3, t3⟩ := mkNode_spec _ P1.inv v (rec s c k0).1
    (rec (rec s c k0).2.1 (rec s c k0).2.2 k1).1 in0 P1.refIn
  have hext : Ext s (mkNode (rec (rec s c k0).2.1 (rec s c k0).2.2 k1).2.1 v (rec s c k0).1
      (rec (rec s c k0).2.1 (rec s c k0).2.2 k1).1).2 := (P0.ext.trans P1.ext).trans ext3
  refine ⟨inv3, hext, in3, ?_, MemoOK.mono hst ext3 P1.cache⟩
  show treeOf _ _ = sem s k
  rw [hk]
  refine t3.trans ?_
  rw [t0, P0.tree, P1.tree, e1]

end Memo

/-! ### `__invert__` -/

def InvKeyOK (s : Store) (a : Ref) : Prop := RefIn s.live a
def invSem (s : Store) (a : Ref) : BDD := invert (treeOf s.live a)

theorem inv_stable : Stable InvKeyOK invSem := by
  intro s s' k he hk
  obtain ⟨h1, h2⟩ := he k hk
  exact ⟨h1, by simp only [invSem, h2]⟩

theorem invertS_post : ∀ (n : Nat) (s : Store) (c : Cache1) (a : Ref), s.Inv → MemoOK InvKeyOK invSem s c →
    RefIn s.live a → size (treeOf s.live a) ≤ n → Post InvKeyOK invSem s a (invertS n s c a) := by
  intro n
  induction n with
  | zero => intro s c a _ _ _ h; have := size_pos (treeOf s.live a); omega
  | succ n ih =>
    intro s c a hs hc ha hn
    rw [invertS]
    cases hl : c.lookup a with
    | some r => exact post_hit hs hc hl
    | none =>
      simp only
      apply post_insert inv_stable ha
      cases hv : view s a with
      | term b =>
        have := view_term_inv hv; subst this
        exact ⟨hs, Ext.refl s, trivial, by simp [invSem, invert], hc⟩
      | dangling => exact absurd hv (view_not_dangling ha)
      | node v lo hi =>
        obtain ⟨hlo, hhi, ht, _⟩ := view_node_inv hs hv
        simp only
        rw [ht] at hn; simp only [size] at hn
        apply post_expandWith inv_stable (invertS n) s c v lo hi a _ _ hs hc hhi
        · simp only [invSem, ht, invert]
        · intro s' c' he hs' hc'
          obtain ⟨r1, r2⟩ := he lo hlo
          exact ih s' c' lo hs' hc' r1 (by rw [r2]; omega)
        · intro s' c' he hs' hc'
          obtain ⟨r1, r2⟩ := he hi hhi
          exact ih s' c' hi hs' hc' r1 (by rw [r2]; omega)

/-! ### `cache_restrict` / `compute_restrict` -/

def resSem (x : Nat) (val : Bool) (s : Store) (a : Ref) : BDD := restrict x val (treeOf s.live a)

theorem res_stable (x : Nat) (val : Bool) : Stable InvKeyOK (resSem x val) := by
  intro s s' k he hk
  obtain ⟨h1, h2⟩ := he k hk
  exact ⟨h1, by simp only [resSem, h2]⟩

theorem restrictS_post (x : Nat) (val : Bool) : ∀ (n : Nat) (s : Store) (c : Cache1) (a : Ref), s.Inv →
    MemoOK InvKeyOK (resSem x val) s c → RefIn s.live a → size (treeOf s.live a) ≤ n →
    Post InvKeyOK (resSem x val) s a (restrictS x val n s c a) := by
  intro n
  induction n with
  | zero => intro s c a _ _ _ h; have := size_pos (treeOf s.live a); omega
  | succ n ih =>
    intro s c a hs hc ha hn
    rw [restrictS]
    cases hl : c.lookup a with
    | some r => exact post_hit hs hc hl
    | none =>
      simp only
      apply post_insert (res_stable x val) ha
      cases hv : view s a with
      | term b =>
        have := view_term_inv hv; subst this
        exact ⟨hs, Ext.refl s, trivial, by simp [resSem, restrict], hc⟩
      | dangling => exact absurd hv (view_not_dangling ha)
      | node v lo hi =>
        obtain ⟨hlo, hhi, ht, _⟩ := view_node_inv hs hv
        simp only
        rw [ht] at hn; simp only [size] at hn
        by_cases hvx : v = x
        · rw [if_pos hvx]
          cases val with
          | true =>
            simp only [if_true]
            refine (ih s c hi hs hc hhi (by omega)).retarget ?_
            simp only [resSem, ht, restrict, if_pos hvx, if_true]
          | false =>
            simp only [Bool.false_eq_true, if_false]
            refine (ih s c lo hs hc hlo (by omega)).retarget ?_
            simp only [resSem, ht, restrict, if_pos hvx, Bool.false_eq_true, if_false]
        · rw [if_neg hvx]
          apply post_expandWith (res_stable x val) (restrictS x val n) s c v lo hi a _ _ hs hc hhi
          · simp only [resSem, ht, restrict, if_neg hvx]
          · intro s' c' he hs' hc'
            obtain ⟨r1, r2⟩ := he lo hlo
            exact ih s' c' lo hs' hc' r1 (by rw [r2]; omega)
          · intro s' c' he hs' hc'
            obtain ⟨r1, r2⟩ := he hi hhi
            exact ih s' c' hi hs' hc' r1 (by rw [r2]; omega)

/-! ### `apply` / `compute` -/

def AppKeyOK (s : Store) (k : Ref × Ref) : Prop := RefIn s.live k.1 ∧ RefIn s.live k.2
def appSem (op : Bool → Bool → Bool) (s : Store) (k : Ref × Ref) : BDD :=
  applyOp op (treeOf s.live k.1) (treeOf s.live k.2)

theorem app_stable (op : Bool → Bool → Bool) : Stable AppKeyOK (appSem op) := by
  intro s s' k he hk
  obtain ⟨h1, h2⟩ := he k.1 hk.1
  obtain ⟨h3, h4⟩ := he k.2 hk.2
  exact ⟨⟨h1, h3⟩, by simp only [appSem, h2, h4]⟩

theorem applyS_post (op : Bool → Bool → Bool) : ∀ (n : Nat) (s : Store) (c : Cache2) (a b : Ref), s.Inv →
    MemoOK AppKeyOK (appSem op) s c → RefIn s.live a → RefIn s.live b →
    size (treeOf s.live a) + size (treeOf s.live b) ≤ n + 1 →
    Post AppKeyOK (appSem op) s (a, b) (applyS op n s c a b) := by
  intro n
  induction n with
  | zero =>
    intro s c a b _ _ _ _ h; have := size_pos (treeOf s.live a); have := size_pos (treeOf s.live b); omega
  | succ n ih =>
    intro s c a b hs hc ha hb hn
    rw [applyS]
    cases hl : c.lookup (a, b) with
    | some r => exact post_hit hs hc hl
    | none =>
      simp only
      apply post_insert (app_stable op) (k := (a, b)) ⟨ha, hb⟩
      -- the recursive calls, on any extension of `s`
      have hrec : ∀ (a' b' : Ref), RefIn s.live a' → RefIn s.live b' →
          size (treeOf s.live a') + size (treeOf s.live b') ≤ n + 1 →
          ∀ s' c', Ext s s' → s'.Inv → MemoOK AppKeyOK (appSem op) s' c' →
            Post AppKeyOK (appSem op) s' (a', b')
              ((fun (s : Store) (c : Cache2) (k : Ref × Ref) => applyS op n s c k.1 k.2) s' c' (a', b')) := by
        intro a' b' ha' hb' hsz s' c' he hs' hc'
        obtain ⟨r1, r2⟩ := he a' ha'
        obtain ⟨r3, r4⟩ := he b' hb'
        exact ih s' c' a' b' hs' hc' r1 r3 (by rw [r2, r4]; exact hsz)
      cases hva : view s a with
      | dangling => exact absurd hva (view_not_dangling ha)
      | term x =>
        have := view_term_inv hva; subst this
        cases hvb : view s b with
        | dangling => exact absurd hvb (view_not_dangling hb)
        | term y =>
          have := view_term_inv hvb; subst this
          exact ⟨hs, Ext.refl s, trivial, by simp [appSem, applyOp_leaf_leaf], hc⟩
        | node v lo hi =>
          obtain ⟨hlo, hhi, ht, _⟩ := view_node_inv hs hvb
          simp only
          rw [ht] at hn; simp only [size, treeOf_term] at hn
          apply post_expandWith (app_stable op) _ s c v (.term x, lo) (.term x, hi) (.term x, b) _ _ hs hc
            ⟨trivial, hhi⟩
          · simp only [appSem, ht, treeOf_term, applyOp_leaf_node]
          · exact hrec _ _ trivial hlo (by simp only [size, treeOf_term]; omega)
          · exact hrec _ _ trivial hhi (by simp only [size, treeOf_term]; omega)
      | node v1 lo1 hi1 =>
        obtain ⟨hlo1, hhi1, hta, _⟩ := view_node_inv hs hva
        cases hvb : view s b with
        | dangling => exact absurd hvb (view_not_dangling hb)
        | term y =>
          have := view_term_inv hvb; subst this
          simp only
          rw [hta] at hn; simp only [size, treeOf_term] at hn
          apply post_expandWith (app_stable op) _ s c v1 (lo1, .term y) (hi1, .term y) (a, .term y) _ _ hs hc
            ⟨hhi1, trivial⟩
          · simp only [appSem, hta, treeOf_term, applyOp_node_leaf]
          · exact hrec _ _ hlo1 trivial (by simp only [size, treeOf_term]; omega)
          · exact hrec _ _ hhi1 trivial (by simp only [size, treeOf_term]; omega)
        | node v2 lo2 hi2 =>
          obtain ⟨hlo2, hhi2, htb, _⟩ := view_node_inv hs hvb
          simp only
          have hn' := hn
          rw [hta, htb] at hn'; simp only [size] at hn'
          by_cases h1 : v1 < v2
          · rw [if_pos h1]
            apply post_expandWith (app_stable op) _ s c v1 (lo1, b) (hi1, b) (a, b) _ _ hs hc ⟨hhi1, hb⟩
            · simp only [appSem, hta]; rw [htb, applyOp_node_node, if_pos h1]
            · exact hrec _ _ hlo1 hb (by rw [htb]; simp only [size]; omega)
            · exact hrec _ _ hhi1 hb (by rw [htb]; simp only [size]; omega)
          · rw [if_neg h1]
            by_cases h2 : v1 = v2
            · rw [if_pos h2]
              apply post_expandWith (app_stable op) _ s c v1 (lo1, lo2) (hi1, hi2) (a, b) _ _ hs hc ⟨hhi1, hhi2⟩
              · simp only [appSem, hta, htb]; rw [applyOp_node_node, if_neg h1, if_pos h2]
              · exact hrec _ _ hlo1 hlo2 (by omega)
              · exact hrec _ _ hhi1 hhi2 (by omega)
            · rw [if_neg h2]
              apply post_expandWith (app_stable op) _ s c v2 (a, lo2) (a, hi2) (a, b) _ _ hs hc ⟨ha, hhi2⟩
              · simp only [appSem, htb]; rw [hta, applyOp_node_node, if_neg h1, if_neg h2]
              · exact hrec _ _ ha hlo2 (by rw [hta]; simp only [size]; omega)
              · exact hrec _ _ ha hhi2 (by rw [hta]; simp only [size]; omega)

/-! ### every live tree is reduced; interning an existing tree finds it -/

theorem treeOf_reduced : ∀ {l : List (Nat × Nd)}, WF l → ∀ r, RefIn l r → Reduced (treeOf l r) := by
  intro l
  induction l with
  | nil =>
    intro _ r hr
    cases r with
    | term b => simp [Reduced]
    | id n => simp [RefIn] at hr
  | cons p rest ih =>
    obtain ⟨m, nd⟩ := p
    intro hwf r hr
    obtain ⟨hm, hlo, hhi, hne, huniq, hrest⟩ := hwf
    cases r with
    | term b => simp [Reduced]
    | id n =>
      by_cases hnm : n = m
      · subst hnm
        simp only [treeOf, if_true]
        exact ⟨fun e => hne (treeOf_inj rest hrest _ _ hlo hhi e), ih hrest _ hlo, ih hrest _ hhi⟩
      · simp only [treeOf, if_neg hnm]
        apply ih hrest
        simp only [RefIn, List.map_cons, List.mem_cons] at hr
        rcases hr with h | h
        · exact absurd h hnm
        · exact h

theorem wf_lo_ne_hi : ∀ {l : List (Nat × Nd)}, WF l → ∀ {p : Nat × Nd}, p ∈ l → p.2.lo ≠ p.2.hi := by
  intro l
  induction l with
  | nil => intro _ p hp; cases hp
  | cons q rest ih =>
    obtain ⟨m, nd⟩ := q
    intro hwf p hp
    obtain ⟨hm, hlo, hhi, hne, huniq, hrest⟩ := hwf
    rcases List.mem_cons.mp hp with rfl | hp
    · exact hne
    · exact ih hrest hp

theorem refIn_id_mem {l : List (Nat × Nd)} {n : Nat} (h : RefIn l (.id n)) : ∃ nd, (n, nd) ∈ l := by
  obtain ⟨⟨n', nd⟩, h1, h2⟩ := List.mem_map.mp h
  simp only at h2; subst h2
  exact ⟨nd, h1⟩

/-- interning a tree that some usable reference already unfolds to returns that reference and allocates nothing -/
theorem intern_existing (s : Store) (hs : s.Inv) : ∀ (t : BDD) (r : Ref), RefIn s.live r → treeOf s.live r = t →
    intern s t = (r, s) := by
  intro t
  induction t with
  | leaf b =>
    intro r hr ht
    cases r with
    | term c => simp only [treeOf_term, leaf.injEq] at ht; subst ht; rfl
    | id n =>
      obtain ⟨nd, hmem⟩ := refIn_id_mem hr
      rw [treeOf_entry hs.wf hmem] at ht; cases ht
  | node v lo hi ihl ihh =>
    intro r hr ht
    cases r with
    | term c => simp at ht
    | id n =>
      obtain ⟨nd, hmem⟩ := refIn_id_mem hr
      rw [treeOf_entry hs.wf hmem] at ht
      injection ht with e1 e2 e3
      obtain ⟨c1, c2⟩ := wf_children hs.wf hmem
      have i1 := ihl nd.lo c1 e2
      have i2 := ihh nd.hi c2 e3
      have hne : nd.lo ≠ nd.hi := wf_lo_ne_hi hs.wf hmem
      simp only [intern, i1, i2]
      unfold mkNode
      rw [if_neg hne]
      have hnd : nd = ⟨v, nd.lo, nd.hi⟩ := by cases nd; simp_all
      cases hfi : findIso s.live v nd.lo nd.hi with
      | some n' =>
        have h' := findIso_some hfi
        have := wf_no_duplicate hs.wf h' hmem (by simp only; exact hnd.symm)
        injection this with e _
        subst e; rfl
      | none =>
        exact absurd hnd (findIso_none hfi _ hmem)

/-! ### the specifications in plain terms -/

/-- a cache of `apply` that is correct for the current store -/
def CacheOK2 (op : Bool → Bool → Bool) (s : Store) (c : Cache2) : Prop :=
  ∀ a b r, ((a, b), r) ∈ c → RefIn s.live a ∧ RefIn s.live b ∧ RefIn s.live r ∧
    treeOf s.live r = applyOp op (treeOf s.live a) (treeOf s.live b)

/-- a cache of a unary operation `f` (`restrict x val` or `invert`) that is correct for the current store -/
def CacheOK1 (f : BDD → BDD) (s : Store) (c : Cache1) : Prop :=
  ∀ a r, (a, r) ∈ c → RefIn s.live a ∧ RefIn s.live r ∧ treeOf s.live r = f (treeOf s.live a)

theorem cacheOK2_iff (op : Bool → Bool → Bool) (s : Store) (c : Cache2) :
    CacheOK2 op s c ↔ MemoOK AppKeyOK (appSem op) s c := by
  constructor
  · rintro h ⟨⟨a, b⟩, r⟩ hp
    obtain ⟨h1, h2, h3, h4⟩ := h a b r hp
    exact ⟨⟨h1, h2⟩, h3, h4⟩
  · intro h a b r hp
    obtain ⟨⟨h1, h2⟩, h3, h4⟩ := h _ hp
    exact ⟨h1, h2, h3, h4⟩

theorem cacheOK1_inv_iff (s : Store) (c : Cache1) : CacheOK1 invert s c ↔ MemoOK InvKeyOK invSem s c := by
  constructor
  · rintro h ⟨a, r⟩ hp; exact h a r hp
  · intro h a r hp; exact h _ hp

theorem cacheOK1_res_iff (x : Nat) (val : Bool) (s : Store) (c : Cache1) :
    CacheOK1 (restrict x val) s c ↔ MemoOK InvKeyOK (resSem x val) s c := by
  constructor
  · rintro h ⟨a, r⟩ hp; exact h a r hp
  · intro h a r hp; exact h _ hp

theorem applyS_spec (op : Bool → Bool → Bool) (fuel : Nat) (s : Store) (c : Cache2) (a b : Ref) (hs : s.Inv)
    (hc : CacheOK2 op s c) (ha : RefIn s.live a) (hb : RefIn s.live b)
    (hf : size (treeOf s.live a) + size (treeOf s.live b) ≤ fuel + 1) :
    (applyS op fuel s c a b).2.1.Inv ∧
    (∀ r0, RefIn s.live r0 → RefIn (applyS op fuel s c a b).2.1.live r0 ∧
      treeOf (applyS op fuel s c a b).2.1.live r0 = treeOf s.live r0) ∧
    RefIn (applyS op fuel s c a b).2.1.live (applyS op fuel s c a b).1 ∧
    treeOf (applyS op fuel s c a b).2.1.live (applyS op fuel s c a b).1
      = applyOp op (treeOf s.live a) (treeOf s.live b) ∧
    treeOf (applyS op fuel s c a b).2.1.live (applyS op fuel s c a b).1
      = apply op fuel (treeOf s.live a) (treeOf s.live b) ∧
    CacheOK2 op (applyS op fuel s c a b).2.1 (applyS op fuel s c a b).2.2 := by
  have P := applyS_post op fuel s c a b hs ((cacheOK2_iff op s c).1 hc) ha hb hf
  exact ⟨P.inv, P.ext, P.refIn, P.tree, P.tree.trans (apply_eq_applyOp op fuel _ _ hf).symm,
    (cacheOK2_iff op _ _).2 P.cache⟩

theorem restrictS_spec (x : Nat) (val : Bool) (fuel : Nat) (s : Store) (c : Cache1) (a : Ref) (hs : s.Inv)
    (hc : CacheOK1 (restrict x val) s c) (ha : RefIn s.live a) (hf : size (treeOf s.live a) ≤ fuel) :
    (restrictS x val fuel s c a).2.1.Inv ∧
    (∀ r0, RefIn s.live r0 → RefIn (restrictS x val fuel s c a).2.1.live r0 ∧
      treeOf (restrictS x val fuel s c a).2.1.live r0 = treeOf s.live r0) ∧
    RefIn (restrictS x val fuel s c a).2.1.live (restrictS x val fuel s c a).1 ∧
    treeOf (restrictS x val fuel s c a).2.1.live (restrictS x val fuel s c a).1
      = restrict x val (treeOf s.live a) ∧
    CacheOK1 (restrict x val) (restrictS x val fuel s c a).2.1 (restrictS x val fuel s c a).2.2 := by
  have P := restrictS_post x val fuel s c a hs ((cacheOK1_res_iff x val s c).1 hc) ha hf
  exact ⟨P.inv, P.ext, P.refIn, P.tree, (cacheOK1_res_iff x val _ _).2 P.cache⟩

theorem invertS_spec (fuel : Nat) (s : Store) (c : Cache1) (a : Ref) (hs : s.Inv)
    (hc : CacheOK1 invert s c) (ha : RefIn s.live a) (hf : size (treeOf s.live a) ≤ fuel) :
    (invertS fuel s c a).2.1.Inv ∧
    (∀ r0, RefIn s.live r0 → RefIn (invertS fuel s c a).2.1.live r0 ∧
      treeOf (invertS fuel s c a).2.1.live r0 = treeOf s.live r0) ∧
    RefIn (invertS fuel s c a).2.1.live (invertS fuel s c a).1 ∧
    treeOf (invertS fuel s c a).2.1.live (invertS fuel s c a).1 = invert (treeOf s.live a) ∧
    CacheOK1 invert (invertS fuel s c a).2.1 (invertS fuel s c a).2.2 := by
  have P := invertS_post fuel s c a hs ((cacheOK1_inv_iff s c).1 hc) ha hf
  exact ⟨P.inv, P.ext, P.refIn, P.tree, (cacheOK1_inv_iff _ _).2 P.cache⟩

/-! ### sessions: any sequence of constants, variables, `apply`, `restrict`, `~` in one store -/

/-- the store satisfies the unique-table invariant and every held root is usable and ordered -/
def SessOK (σ : Session) : Prop :=
  σ.store.Inv ∧ ∀ r ∈ σ.roots, RefIn σ.store.live r ∧ Ord 0 (treeOf σ.store.live r)

/-- the Boolean function the result of a command must denote -/
def cmdSem (σ : Session) : Cmd → (Nat → Bool) → Bool
  | .const b, _ => b
  | .var v, ρ => ρ v
  | .apply op i j, ρ =>
    op (denote (treeOf σ.store.live (σ.root i)) ρ) (denote (treeOf σ.store.live (σ.root j)) ρ)
  | .restrict x val i, ρ => denote (treeOf σ.store.live (σ.root i)) (fun y => if y = x then val else ρ y)
  | .invert i, ρ => !(denote (treeOf σ.store.live (σ.root i)) ρ)

theorem getD_mem_or {α : Type} (l : List α) (i : Nat) (d : α) : l.getD i d ∈ l ∨ l.getD i d = d := by
  induction l generalizing i with
  | nil => right; rfl
  | cons x xs ih =>
    cases i with
    | zero => left; simp
    | succ i =>
      rcases ih i with h | h
      · left; simpa using Or.inr h
      · right; simpa using h

theorem SessOK.root {σ : Session} (h : SessOK σ) (i : Nat) :
    RefIn σ.store.live (σ.root i) ∧ Ord 0 (treeOf σ.store.live (σ.root i)) := by
  rcases getD_mem_or σ.roots i (.term false) with hm | hd
  · exact h.2 _ hm
  · rw [Session.root, hd]; simp [RefIn, Ord]

theorem sessOK_push {σ : Session} (h : SessOK σ) {s' : Store} {r : Ref} (hinv : s'.Inv) (he : Ext σ.store s')
    (hr : RefIn s'.live r) (ho : Ord 0 (treeOf s'.live r)) : SessOK ⟨s', r :: σ.roots⟩ := by
  refine ⟨hinv, ?_⟩
  intro r' hr'
  rcases List.mem_cons.mp hr' with rfl | hr'
  · exact ⟨hr, ho⟩
  · obtain ⟨a1, a2⟩ := h.2 r' hr'
    obtain ⟨b1, b2⟩ := he r' a1
    exact ⟨b1, by rw [b2]; exact a2⟩

/-- one command: the session stays well-formed, old roots keep their trees, and the new root denotes the
    intended function -/
theorem stepCmd_spec (σ : Session) (h : SessOK σ) (cmd : Cmd) :
    SessOK (stepCmd σ cmd) ∧ Ext σ.store (stepCmd σ cmd).store ∧
    ∃ r, (stepCmd σ cmd).roots = r :: σ.roots ∧
      ∀ ρ, denote (treeOf (stepCmd σ cmd).store.live r) ρ = cmdSem σ cmd ρ := by
  cases cmd with
  | const b =>
    refine ⟨sessOK_push h h.1 (Ext.refl _) trivial (by simp [Ord]), Ext.refl _, _, rfl, ?_⟩
    intro ρ; simp [stepCmd, cmdSem, denote]
  | var v =>
    obtain ⟨i1, i2, i3, i4⟩ := mkNode_spec σ.store h.1 v (.term false) (.term true) trivial trivial
    simp only [treeOf_term] at i4
    have e : mk v (leaf false) (leaf true) = node v (leaf false) (leaf true) := by simp [mk]
    rw [e] at i4
    refine ⟨sessOK_push h i1 i3 i2 (by rw [i4]; simp [Ord]), i3, _, rfl, ?_⟩
    intro ρ
    simp only [stepCmd]
    rw [i4]; simp [cmdSem, denote]
  | apply op i j =>
    obtain ⟨ra, oa⟩ := h.root i
    obtain ⟨rb, ob⟩ := h.root j
    obtain ⟨i1, i2, i3, i4, _, _⟩ := applyS_spec op _ σ.store [] (σ.root i) (σ.root j) h.1
      (fun _ _ _ hp => by cases hp) ra rb (Nat.le_succ _)
    obtain ⟨d, o, _⟩ := applyOp_spec op _ _ 0 oa ob (treeOf_reduced h.1.wf _ ra) (treeOf_reduced h.1.wf _ rb)
    refine ⟨sessOK_push h i1 i2 i3 (by simp only [applyRoot]; rw [i4]; exact o), i2, _, rfl, ?_⟩
    intro ρ
    simp only [stepCmd, applyRoot]
    rw [i4, d]; rfl
  | restrict x val i =>
    obtain ⟨ra, oa⟩ := h.root i
    obtain ⟨i1, i2, i3, i4, _⟩ := restrictS_spec x val _ σ.store [] (σ.root i) h.1
      (fun _ _ hp => by cases hp) ra (Nat.le_refl _)
    obtain ⟨d, o, _⟩ := restrict_spec x val _ 0 oa (treeOf_reduced h.1.wf _ ra)
    refine ⟨sessOK_push h i1 i2 i3 (by simp only [restrictRoot]; rw [i4]; exact o), i2, _, rfl, ?_⟩
    intro ρ
    simp only [stepCmd, restrictRoot]
    rw [i4, d]; rfl
  | invert i =>
    obtain ⟨ra, oa⟩ := h.root i
    obtain ⟨i1, i2, i3, i4, _⟩ := invertS_spec _ σ.store [] (σ.root i) h.1
      (fun _ _ hp => by cases hp) ra (Nat.le_refl _)
    obtain ⟨d, o, _⟩ := invert_spec _ 0 oa (treeOf_reduced h.1.wf _ ra)
    refine ⟨sessOK_push h i1 i2 i3 (by simp only [invertRoot]; rw [i4]; exact o), i2, _, rfl, ?_⟩
    intro ρ
    simp only [stepCmd, invertRoot]
    rw [i4, d]; rfl

theorem runCmds_ok : ∀ (cs : List Cmd) (σ : Session), SessOK σ →
    SessOK (runCmds σ cs) ∧ Ext σ.store (runCmds σ cs).store ∧ ∀ r ∈ σ.roots, r ∈ (runCmds σ cs).roots := by
  intro cs
  induction cs with
  | nil => intro σ h; exact ⟨h, Ext.refl _, fun _ h => h⟩
  | cons cmd cs ih =>
    intro σ h
    obtain ⟨h1, h2, r, h3, _⟩ := stepCmd_spec σ h cmd
    obtain ⟨k1, k2, k3⟩ := ih (stepCmd σ cmd) h1
    refine ⟨k1, h2.trans k2, ?_⟩
    intro r' hr'
    exact k3 r' (by rw [h3]; exact List.mem_cons_of_mem _ hr')

theorem sessOK_empty : SessOK ⟨emptyStore, []⟩ := ⟨empty_inv, fun _ h => by cases h⟩

#print axioms applyS_spec
#print axioms restrictS_spec
#print axioms invertS_spec
#print axioms intern_existing
#print axioms stepCmd_spec
end PMC.BDD
