import PMC.Proofs.Paths

/- Spike: the semantic cores of the CTL labelling algorithm (C01): EX, EU, EG over a total relation. -/
namespace PMC.Core
open Relation

variable {σ : Type}

/-- EX core -/
theorem ex_core {R : σ → σ → Prop} (htot : ∀ s, ∃ t, R s t) (Q : σ → Prop) (s : σ) :
    (∃ π, IsPath R π ∧ π 0 = s ∧ Q (π 1)) ↔ ∃ t, R s t ∧ Q t := by
  constructor
  · rintro ⟨π, hπ, h0, hq⟩; exact ⟨π 1, h0 ▸ hπ 0, hq⟩
  · rintro ⟨t, hst, hq⟩
    obtain ⟨ρ, hρ, hρ0⟩ := exists_path_of_total htot t
    refine ⟨fun n => Nat.casesOn n s ρ, ?_, rfl, by simpa [hρ0] using hq⟩
    intro i; cases i with
    | zero => simpa [hρ0] using hst
    | succ k => exact hρ k

/-- finite-witness form of `E[P U Q]` -/
inductive EUrel (R : σ → σ → Prop) (P Q : σ → Prop) : σ → Prop
  | base {s} : Q s → EUrel R P Q s
  | step {s t} : P s → R s t → EUrel R P Q t → EUrel R P Q s

/-- EU core: a path satisfying `P U Q` exists iff there is a finite `P`-chain to a `Q`-state -/
theorem eu_core {R : σ → σ → Prop} (htot : ∀ s, ∃ t, R s t) (P Q : σ → Prop) (s : σ) :
    (∃ π, IsPath R π ∧ π 0 = s ∧ ∃ j, Q (π j) ∧ ∀ k, k < j → P (π k)) ↔ EUrel R P Q s := by
  constructor
  · rintro ⟨π, hπ, h0, j, hq, hp⟩
    induction j generalizing π s with
    | zero => rw [← h0]; exact .base hq
    | succ j ih =>
      have := ih (π 1) (fun n => π (n+1)) (fun i => hπ (i+1)) rfl hq (fun k hk => hp (k+1) (by omega))
      rw [← h0]
      exact .step (hp 0 (by omega)) (hπ 0) this
  · intro h
    induction h with
    | @base s hq =>
      obtain ⟨ρ, hρ, hρ0⟩ := exists_path_of_total htot s
      exact ⟨ρ, hρ, hρ0, 0, by rw [hρ0]; exact hq, fun k hk => by omega⟩
    | @step s t hp hst _ ih =>
      obtain ⟨π, hπ, h0, j, hq, hpk⟩ := ih
      refine ⟨fun n => Nat.casesOn n s π, ?_, rfl, j+1, hq, ?_⟩
      · intro i; cases i with
        | zero => simpa [h0] using hst
        | succ k => exact hπ k
      · intro k hk; cases k with
        | zero => exact hp
        | succ k => exact hpk k (by omega)

/-- the graph `_checkEU` searches: an edge from `w` back to a predecessor `v` that satisfies `P` -/
def EUback (R : σ → σ → Prop) (P : σ → Prop) (w v : σ) : Prop := P v ∧ R v w

theorem euRel_iff_reach {R : σ → σ → Prop} (P Q : σ → Prop) (s : σ) :
    EUrel R P Q s ↔ ∃ q, Q q ∧ ReflTransGen (EUback R P) q s := by
  constructor
  · intro h
    induction h with
    | base hq => exact ⟨_, hq, .refl⟩
    | step hp hst _ ih =>
      obtain ⟨q, hq, hr⟩ := ih
      exact ⟨q, hq, hr.tail ⟨hp, hst⟩⟩
  · rintro ⟨q, hq, hr⟩
    induction hr with
    | refl => exact .base hq
    | tail _ hbc ih => exact .step hbc.1 hbc.2 ih

/-- EG core restated with the reversed restricted relation the code uses:
`s` is backward-reachable (inside `P`) from a state lying on a `P`-cycle -/
theorem eg_core' [Finite σ] (R : σ → σ → Prop) (P : σ → Prop) (s : σ) :
    (∃ π, IsPath R π ∧ π 0 = s ∧ ∀ i, P (π i)) ↔
    ∃ c, TransGen (Restr R P) c c ∧ ReflTransGen (fun a b => Restr R P b a) c s := by
  rw [eg_core]
  have sw : ∀ c, ReflTransGen (fun a b => Restr R P b a) c s ↔ ReflTransGen (Restr R P) s c :=
    fun c => Relation.reflTransGen_swap
  constructor
  · rintro ⟨c, hsc, hcc⟩; exact ⟨c, hcc, (sw c).mpr hsc⟩
  · rintro ⟨c, hcc, hcs⟩; exact ⟨c, (sw c).mp hcs, hcc⟩

#print axioms eu_core
#print axioms eg_core'
end PMC.Core
